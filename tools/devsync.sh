#!/bin/bash
# development helper: mirror /verif (sources only) into /tmp/vdev with the harness pointing at a
# clean scratch worktree /tmp/repo-clean, so that machinery can be developed while /repo is busy.
rsync -a --exclude target --exclude 'target-*' --exclude .git --exclude evidence --exclude replays --exclude harness/Cargo.toml /verif/ /tmp/vdev/
sed 's|path = "/repo"|path = "/tmp/repo-clean"|' /verif/harness/Cargo.toml > /tmp/vdev/harness/Cargo.toml.new
cmp -s /tmp/vdev/harness/Cargo.toml.new /tmp/vdev/harness/Cargo.toml || cp /tmp/vdev/harness/Cargo.toml.new /tmp/vdev/harness/Cargo.toml
rm -f /tmp/vdev/harness/Cargo.toml.new
