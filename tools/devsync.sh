#!/bin/bash
# development helper: mirror /verif (sources only) into /tmp/vdev$1 with the harness pointing at a
# clean scratch worktree /tmp/repo-clean$1, so that machinery can be developed / seeded changes
# evaluated while /repo is busy.   usage: tools/devsync.sh [suffix]
SFX=${1:-}
[ -d /tmp/repo-clean$SFX ] || git -C /repo worktree add --detach /tmp/repo-clean$SFX HEAD >/dev/null 2>&1
rsync -a --exclude target --exclude 'target-*' --exclude .git --exclude evidence --exclude replays --exclude harness/Cargo.toml /verif/ /tmp/vdev$SFX/
sed "s|path = \"/repo\"|path = \"/tmp/repo-clean$SFX\"|" /verif/harness/Cargo.toml > /tmp/vdev$SFX/harness/Cargo.toml.new
cmp -s /tmp/vdev$SFX/harness/Cargo.toml.new /tmp/vdev$SFX/harness/Cargo.toml || cp /tmp/vdev$SFX/harness/Cargo.toml.new /tmp/vdev$SFX/harness/Cargo.toml
rm -f /tmp/vdev$SFX/harness/Cargo.toml.new
mkdir -p /tmp/vdev$SFX/evidence
