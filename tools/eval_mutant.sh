#!/bin/bash
# Usage: eval_mutant.sh <PROP> <n> <check ids...>
# 1. confirms the seeded change in its scratch worktree /tmp/mut-<PROP> (suite passes with it,
#    demo fails with it and passes without it); 2. applies it to /repo, runs the named checks
#    (quick tier), reverts /repo; 3. stores patch, demo and meta under /verif/seeded/<PROP>-<n>/.
set -u
PROP=$1; N=$2; shift 2; CHECKS="$@"
PFX=${MUTPFX:-/tmp/mut}; WT=$PFX-$PROP; OUT=$PFX-$PROP-out
PATCH=$OUT/patch_$N.diff; DEMO=$OUT/demo_$N.rs
DEST=/verif/seeded/$PROP-$N
# MUT_REPO / MUT_VERIF: run the checks from a development copy (tools/devsync.sh) instead of /repo + /verif
REPO=${MUT_REPO:-/repo}; VROOT=${MUT_VERIF:-/verif}; [ "$VROOT" != /verif ] && export PDBV_ROOT=$VROOT
[ -f "$PATCH" ] || { echo "no patch $PATCH"; exit 2; }
mkdir -p "$DEST"
cd "$WT" || exit 2
git checkout -q -- . ; rm -f tests/demo_*.rs
export CARGO_NET_OFFLINE=true
# --- suite with the change
git apply "$PATCH" || { echo "patch does not apply"; exit 2; }
SUITE=$(cargo test --workspace --offline 2>&1 | grep -E "^test result:" | head -1)
echo "suite with change: $SUITE"
# --- demo with the change
DEMO_WITH="n/a"; DEMO_WITHOUT="n/a"
if [ -f "$DEMO" ]; then
  cp "$DEMO" tests/demo_$N.rs
  if timeout 900 cargo test --offline --features instrumentation --test demo_$N >/tmp/mut-$PROP-demo-with.log 2>&1; then DEMO_WITH="passes"; else DEMO_WITH="fails"; fi
  git checkout -q -- src
  if timeout 900 cargo test --offline --features instrumentation --test demo_$N >/tmp/mut-$PROP-demo-without.log 2>&1; then DEMO_WITHOUT="passes"; else DEMO_WITHOUT="fails"; fi
  rm -f tests/demo_$N.rs
fi
git checkout -q -- . 
echo "demo with change: $DEMO_WITH ; without: $DEMO_WITHOUT"
# --- my checks against it
cd $REPO && git status --short | grep -q . && { echo "$REPO not clean"; exit 2; }
git -C $REPO apply "$PATCH" || { echo "patch does not apply to $REPO"; exit 2; }
RES=""
for c in $CHECKS; do
  cd $VROOT && timeout 1500 ./check $c quick > /tmp/mut-$PROP-$N-$c.out 2>&1; rc=$?
  sig=$(grep -m1 "sig:" /tmp/mut-$PROP-$N-$c.out | sed 's/^ *sig: //')
  echo "check $c -> exit $rc  $sig"
  RES="$RES{\"check\":\"$c\",\"exit\":$rc,\"first_sig\":\"$sig\"},"
done
git -C $REPO checkout -- .
git -C $REPO status --short
cp "$PATCH" "$DEST/patch.diff"; [ -f "$DEMO" ] && cp "$DEMO" "$DEST/demo.rs"
python3 - "$OUT/meta_$N.json" "$DEST/meta.json" "$SUITE" "$DEMO_WITH" "$DEMO_WITHOUT" "[${RES%,}]" <<'PY'
import json,sys
src,dst,suite,dw,dwo,res=sys.argv[1:7]
try: m=json.load(open(src))
except Exception: m={}
m['confirmed']={'suite_with_change':suite,'demo_with_change':dw,'demo_without_change':dwo,
  'commands':['git apply patch.diff && cargo test --workspace --offline','cargo test --offline --features instrumentation --test demo (with / without the change)','git -C /repo apply patch.diff; ./check <ID> quick; git -C /repo checkout -- .']}
m['checks_run']=json.loads(res)
json.dump(m,open(dst,'w'),indent=1)
PY
echo "stored in $DEST"
