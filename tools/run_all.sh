#!/bin/bash
# run every registered check at the given tier; one summary line per check
# usage: tools/run_all.sh [quick|thorough] [outdir]   (runs from the tree this script lives in)
TIER=${1:-quick}
HERE=$(cd "$(dirname "$0")/.." && pwd)
OUT=${2:-/tmp}
cd "$HERE"
[ "$HERE" != /verif ] && export PDBV_ROOT=$HERE
mkdir -p "$OUT"
for p in ${PROPS:-C01 C02 C03 C04 C05 C06 C07 C08 C09 C10 C11 C12 C13 C14 C15 C16 C17 C18 C19 C20}; do
  s=$(date +%s)
  ./check $p $TIER > $OUT/all_$p.out 2>&1; rc=$?
  e=$(date +%s)
  echo "$p exit=$rc $((e-s))s $(grep -c '^VIOLATION' $OUT/all_$p.out) violations, $(grep -c '^KNOWN-FINDING' $OUT/all_$p.out) known, $(grep -c '^INCONCLUSIVE' $OUT/all_$p.out) inconclusive"
done
