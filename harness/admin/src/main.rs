//! E5 `admin`: column administration / option checks (C17) and migration (C20).

mod c17;
mod c20;
mod content;
mod opts;
mod util;

use pv::{run::main_entry, Ctx, Report, Spec, Tier};

fn spec_for(prop: &str, _tier: Tier) -> Option<Spec> {
	match prop {
		"C17" => Some(c17::spec()),
		"C20" => Some(c20::spec()),
		_ => None,
	}
}

fn shard(ctx: &Ctx, rep: &mut Report) {
	match ctx.prop.as_str() {
		"C17" => c17::run(ctx, rep),
		"C20" => c20::run(ctx, rep),
		_ => unreachable!(),
	}
}

fn main() {
	main_entry(spec_for, shard)
}
