//! C20: migration copies every key, value and reference count.

use crate::{
	content::{iter_values, share_node, verify_col, ColData, Content, Fail},
	opts::{show, show_all, COMPRESSIONS},
	util::{column_files, diff_hashes, err_kind, hashes, subdirs},
};
use parity_db::{migrate, ColumnOptions, CompressionType, Db, Options};
use pv::{
	dbutil::{self, col, multitree_col, Handle},
	json::{short_bytes, J},
	scratch::{catch, panic_site, Scratch},
	Ctx, Report, Rng, Spec,
};
use std::collections::{BTreeMap, BTreeSet, HashMap};

pub fn spec() -> Spec {
	Spec::new(
		"C20",
		"exploration",
		"A case = one seeded source database (1-3 hash columns + optionally one btree / multitree / extra hash column that is \
		 not selected), filled by 6..24 (thorough ..60) transactions of sets, re-sets, references and deletions (values 0..600 \
		 bytes, boundary sizes and 5-40 KiB multipart values; reference counts 1..4; values a function of the key whenever \
		 source or destination is preimage / reference counted), one variant with a zero-salt uniform column holding 70-400 \
		 keys that share their first 16 bits so that the index grows (16 -> 17.. bits), optionally closed with an unfinished \
		 reindex, and one variant with 10.3-12k (thorough 20-30k) small values in the first column, more than one migration commit batch (10240 operations); then parity_db::migrate to a destination whose hash columns \
		 differ in any subset of {compression, preimage, ref_counted} (uniform unchanged), with forced / automatic column \
		 selection and overwrite false / true. The first column walks the full 9 x 9 grid of (preimage/rc class x compression) \
		 source/destination pairs x {forced, automatic} x {copy, overwrite} deterministically (324 cases, counter \
		 grid_cells_x_selection_x_overwrite), then random cells; other columns are random. Oracle: migrate returns \
		 Ok; destination metadata = requested options + source salt; every source key reads the same value; deleted keys are \
		 absent; the multiset of (value, count) from iter_column_while equals the model (count-agnostic if the destination does \
		 not count); unselected columns are content-identical (full read-back) and, without overwrite, have the same files; \
		 a copied multitree column keeps a node shared by two trees alive when one of them is dereferenced afterwards; \
		 the source directory is byte-identical after a migration without overwrite (content-identical when the source was \
		 closed with an unfinished reindex, which opening it completes); with overwrite the source path holds the \
		 migrated database and no temporary directory is left. evaluations = individual comparisons (key reads, iteration \
		 multisets, file sets, metadata). distinct_nontrivial = distinct (source cfg, destination cfg, selection, overwrite) \
		 tuples per migrated column on which at least one key was compared.",
	)
	.require("migrations", 300)
	.require("sel_forced", 50)
	.require("sel_auto", 50)
	.require("overwrite_true", 50)
	.require("overwrite_false", 50)
	.require("multipart_values_migrated", 50)
	.require("src_counts_gt1_keys", 200)
	.require("src_index_grown", 10)
	.require("src_more_keys_than_a_commit_batch", 10)
	.require("src_closed_with_unfinished_reindex", 10)
	.require("shared_node_deref_probes", 10)
	.require("unselected_columns_checked", 50)
	.require("grid_cells_x_selection_x_overwrite", 324)
	.assume("destination options keep `uniform` (the key-hashing scheme) and the salt of the source; btree / multitree columns are never selected (migrate documents hash -> hash only)")
	.assume("values are a function of the key whenever the source or the destination column is preimage or reference counted")
	.budget(45, 480)
}

/// (preimage, ref_counted) classes valid for hash columns.
const CLASSES: [(bool, bool); 3] = [(false, false), (true, false), (true, true)];

fn class_name(o: &ColumnOptions) -> &'static str {
	if o.ref_counted {
		"rc"
	} else if o.preimage {
		"preimage"
	} else {
		"plain"
	}
}

fn hash_col(uniform: bool, class: (bool, bool), comp: CompressionType) -> ColumnOptions {
	col(false, uniform, class.0, class.1, comp)
}

#[derive(Clone, Debug)]
struct Plan {
	src: Vec<ColumnOptions>,
	dst: Vec<ColumnOptions>,
	/// number of leading hash columns that may be migrated; the rest is never selected
	n_hash: usize,
	force: Vec<u8>,
	sel_mode: &'static str,
	overwrite: bool,
	growth: Option<usize>,
	unfinished_reindex: bool,
	/// the source is a crash image: its last transactions are only in a flushed, unapplied log
	logs_pending: bool,
	big: bool,
	many: bool,
	grid: usize,
}

fn plan_for(rng: &mut Rng, variant: u64) -> Plan {
	// deterministic walk for the first column
	let grid = (variant % 81) as usize;
	let (s, d) = (grid / 9, grid % 9);
	let w = variant / 81;
	let forced = w % 2 == 1;
	let overwrite = (w / 2) % 2 == 1;
	let n_hash = rng.range(1, 3) as usize;
	let growth_case = rng.chance(1, 5);
	let mut src = vec![];
	let mut dst = vec![];
	for c in 0..n_hash {
		let uniform = rng.chance(1, 3);
		let (sc, dc) = if c == 0 {
			((CLASSES[s / 3], COMPRESSIONS[s % 3]), (CLASSES[d / 3], COMPRESSIONS[d % 3]))
		} else {
			let sc = (*rng.pick(&CLASSES), *rng.pick(&COMPRESSIONS));
			let dc = if rng.chance(1, 4) { sc } else { (*rng.pick(&CLASSES), *rng.pick(&COMPRESSIONS)) };
			(sc, dc)
		};
		src.push(hash_col(uniform, sc.0, sc.1));
		dst.push(hash_col(uniform, dc.0, dc.1));
	}
	let mut growth = None;
	if growth_case {
		let g = rng.usize(n_hash);
		src[g].uniform = true;
		dst[g].uniform = true;
		growth = Some(g);
	}
	// an extra column that is not selected
	match rng.below(6) {
		0 => {
			let o = col(true, false, false, false, *rng.pick(&COMPRESSIONS));
			src.push(o.clone());
			dst.push(o);
		},
		1 => {
			let o = multitree_col(rng.chance(1, 2), false, true);
			src.push(o.clone());
			dst.push(o);
		},
		2 => {
			let o = multitree_col(false, true, true);
			src.push(o.clone());
			dst.push(o);
		},
		3 => {
			let o = hash_col(rng.chance(1, 3), *rng.pick(&CLASSES), *rng.pick(&COMPRESSIONS));
			src.push(o.clone());
			dst.push(o);
		},
		_ => {},
	}
	let mut force = vec![];
	let sel_mode;
	if forced {
		// explicit list: every hash column or a random non-empty subset
		if rng.chance(1, 2) {
			force = (0..n_hash as u8).collect();
			sel_mode = "forced_all";
		} else {
			for c in 0..n_hash as u8 {
				if rng.chance(1, 2) {
					force.push(c);
				}
			}
			if force.is_empty() {
				force.push(0);
			}
			sel_mode = "forced_subset";
		}
	} else {
		sel_mode = "auto";
	}
	let unfinished_reindex = growth.is_some() && rng.chance(1, 2);
	Plan {
		src,
		dst,
		n_hash,
		force,
		sel_mode,
		overwrite,
		growth,
		unfinished_reindex,
		logs_pending: !unfinished_reindex && rng.chance(1, 6),
		big: rng.chance(2, 3),
		many: rng.chance(1, 12),
		grid,
	}
}

struct Source {
	content: Content,
	thresholds: HashMap<u8, u32>,
	index_bits: Vec<Option<u8>>,
	pending_reindex: bool,
	logs_pending: bool,
}

fn src_options(dir: &std::path::Path, p: &Plan, thresholds: &HashMap<u8, u32>) -> Options {
	let mut o = Options::with_columns(dir, p.src.len() as u8);
	o.columns = p.src.clone();
	o.compression_threshold = thresholds.clone();
	if p.growth.is_some() {
		o.salt = Some([0u8; 32]);
	}
	o
}

/// Pipeline drive that never runs the reindex stage.
fn drain_no_reindex(db: &Db) -> parity_db::Result<()> {
	for _ in 0..10_000 {
		let before = db.verif_status();
		if before.queued_commits == 0 {
			break
		}
		db.process_commits()?;
		db.flush_logs()?;
		dbutil::do_step(db, dbutil::Step::EnactAll)?;
		db.clean_logs()?;
	}
	db.flush_logs()?;
	dbutil::do_step(db, dbutil::Step::EnactAll)?;
	db.clean_logs()?;
	Ok(())
}

fn build_source(rng: &mut Rng, dir: &std::path::Path, p: &Plan, txs: usize, thorough: bool) -> Result<Source, String> {
	let mut thresholds = HashMap::new();
	for c in 0..p.src.len() {
		if rng.chance(1, 3) {
			thresholds.insert(c as u8, rng.range(8, 64) as u32);
		}
	}
	let mut content = Content::new(rng, &p.src, 48, p.big);
	for c in 0..p.n_hash {
		content.fn_of_key[c] = p.src[c].preimage || p.src[c].ref_counted || p.dst[c].preimage || p.dst[c].ref_counted;
	}
	let all: Vec<usize> = (0..p.src.len()).collect();
	let mut o = src_options(dir, p, &thresholds);
	o.with_background_thread = false;
	let db = Handle::new(Db::open_or_create(&o).map_err(|e| format!("create: {}", e))?);
	let drive = |db: &Db| -> Result<(), String> {
		if p.unfinished_reindex {
			drain_no_reindex(db).map_err(|e| format!("drain: {}", e))
		} else {
			dbutil::drain(db).map(|_| ()).map_err(|e| format!("drain: {}", e))
		}
	};
	for i in 0..txs {
		let tx = content.gen_tx(rng, 24, &all);
		db.commit_changes(tx).map_err(|e| format!("commit: {}", e))?;
		if i % 5 == 4 {
			drive(&db)?;
		}
	}
	for c in p.n_hash..p.src.len() {
		if let Some(op) = share_node(&db, rng, &mut content, c) {
			db.commit_changes(vec![op]).map_err(|e| format!("commit: {}", e))?;
		}
	}
	if let Some(g) = p.growth {
		// keys sharing their first two bytes: with the zero salt the uniform hash is the
		// identity, so they all land in one chunk of the 16-bit index and force it to grow
		let n = rng.range(70, 400) as usize;
		let prefix = [rng.next() as u8, rng.next() as u8];
		let mut items = vec![];
		for _ in 0..n {
			let mut k = rng.bytes(32);
			k[0] = prefix[0];
			k[1] = prefix[1];
			let v = if content.fn_of_key[g] { pv::gen::value_for_key(&k, false) } else { rng.bytes_in(0, 90) };
			items.push((k, v));
		}
		for chunk in items.chunks(60) {
			let cnt = rng.range(1, 3);
			for tx in content.explicit_sets(g, chunk, cnt) {
				db.commit_changes(tx).map_err(|e| format!("commit: {}", e))?;
			}
			drive(&db)?;
		}
		// deletions inside the crowded pages: holes in front of live entries
		let gone: Vec<Vec<u8>> = items.iter().filter(|_| rng.chance(1, 4)).map(|(k, _)| k.clone()).collect();
		for tx in content.explicit_removes(g, &gone) {
			db.commit_changes(tx).map_err(|e| format!("commit: {}", e))?;
		}
		drive(&db)?;
	}
	if p.many {
		// more keys than one migration commit batch holds (10240 operations); thorough: ~20-30k
		let c = 0usize;
		let mut items = vec![];
		let n_many = if thorough { rng.range(20_000, 30_000) } else { rng.range(10_300, 12_000) } as u32;
		for i in 0..n_many {
			let mut k = rng.bytes(if p.src[c].uniform { 32 } else { 12 });
			k[..4].copy_from_slice(&i.to_le_bytes());
			let v = if content.fn_of_key[c] { pv::gen::value_for_key(&k, false) } else { rng.bytes_in(0, 40) };
			items.push((k, v));
		}
		for chunk in items.chunks(2000) {
			for tx in content.explicit_sets(c, chunk, 1) {
				db.commit_changes(tx).map_err(|e| format!("commit: {}", e))?;
			}
			drive(&db)?;
		}
		let gone: Vec<Vec<u8>> = items.iter().filter(|_| rng.chance(1, 10)).map(|(k, _)| k.clone()).collect();
		for tx in content.explicit_removes(c, &gone) {
			db.commit_changes(tx).map_err(|e| format!("commit: {}", e))?;
		}
		drive(&db)?;
	}
	drive(&db)?;
	let st = db.verif_status();
	let index_bits: Vec<Option<u8>> = st.columns.iter().map(|c| c.index_bits).collect();
	let pending_reindex = st.columns.iter().any(|c| !c.reindex_index_bits.is_empty());
	let mut logs_pending = false;
	if p.logs_pending {
		// two more transactions that only reach a flushed log; the directory is then copied as it
		// is (a crash image) and the copy becomes the source: migrate has to replay the log
		for _ in 0..2 {
			let tx = content.gen_tx(rng, 24, &all);
			db.commit_changes(tx).map_err(|e| format!("commit: {}", e))?;
		}
		for _ in 0..4 {
			db.process_commits().map_err(|e| format!("process_commits: {}", e))?;
		}
		db.flush_logs().map_err(|e| format!("flush_logs: {}", e))?;
		let img = dir.with_extension("img");
		pv::scratch::copy_dir(dir, &img).map_err(|e| format!("copy: {}", e))?;
		db.close();
		std::fs::remove_dir_all(dir).map_err(|e| format!("remove: {}", e))?;
		std::fs::rename(&img, dir).map_err(|e| format!("rename: {}", e))?;
		let _ = std::fs::remove_file(dir.join("lock"));
		logs_pending = dbutil::list_files(dir).iter().any(|(n, l)| n.starts_with("log") && *l > 0);
		return Ok(Source { content, thresholds, index_bits, pending_reindex, logs_pending })
	}
	dbutil::make_drop_legal(&db).map_err(|e| format!("make_drop_legal: {}", e))?;
	db.close();
	Ok(Source { content, thresholds, index_bits, pending_reindex, logs_pending })
}

/// What column `c` must contain after migration into options `d`.
fn convert(data: &ColData, d: &ColumnOptions) -> ColData {
	match (data, d.ref_counted) {
		(ColData::Rc(m), false) => ColData::Kv(m.iter().map(|(k, v)| (k.clone(), v.0.clone())).collect()),
		(ColData::Kv(m), true) => ColData::Rc(m.iter().map(|(k, v)| (k.clone(), (v.clone(), 1))).collect()),
		(x, _) => x.clone(),
	}
}

/// Read-back of a migrated column that keeps going after a mismatch so that one defect does not
/// hide another: returns every distinct failure (at most one witness each).
fn verify_migrated(
	db: &Db,
	c: u8,
	s: &ColumnOptions,
	d: &ColumnOptions,
	src: &ColData,
	removed: &BTreeSet<Vec<u8>>,
	evals: &mut u64,
) -> Vec<Fail> {
	let mut fails: BTreeMap<String, Fail> = BTreeMap::new();
	let items: Vec<(Vec<u8>, Vec<u8>, u64)> = match src {
		ColData::Kv(m) => m.iter().map(|(k, v)| (k.clone(), v.clone(), 1)).collect(),
		ColData::Rc(m) => m.iter().map(|(k, v)| (k.clone(), v.0.clone(), v.1)).collect(),
		ColData::Trees(_) => return vec![Fail { failure: "harness".into(), detail: "tree column selected".into() }],
	};
	// expected iteration multiset, adjusted by what `get` actually returned so that a value
	// mismatch is reported once (by key) and the iteration only reports additional problems
	let mut exp_iter: BTreeMap<(Vec<u8>, u32), u64> = BTreeMap::new();
	for (k, v, n) in &items {
		*evals += 1;
		let src_rc = if *n > 1 { "gt1" } else { "1" };
		let size = if v.len() > 32_700 {
			"multipart"
		} else if v.len() > 4000 {
			"large"
		} else if v.is_empty() {
			"empty"
		} else {
			"small"
		};
		let rc = if d.ref_counted { *n as u32 } else { 1 };
		match db.get(c, k) {
			Ok(Some(g)) if &g == v => {
				*exp_iter.entry((g, rc)).or_insert(0) += 1;
			},
			Ok(Some(g)) => {
				let got = if g.is_empty() { "empty" } else { "other" };
				let f = format!("value_mismatch;src={};dst={};src_rc={};got={};size={}", class_name(s), class_name(d), src_rc, got, size);
				fails.entry(f.clone()).or_insert(Fail {
					failure: f,
					detail: format!("col {} [{} -> {}]: key {} (source count {}) reads {} (len {}) in the destination, source value {} (len {})", c, show(s), show(d), short_bytes(k), n, short_bytes(&g), g.len(), short_bytes(v), v.len()),
				});
				*exp_iter.entry((g, rc)).or_insert(0) += 1;
			},
			Ok(None) => {
				let f = format!("key_missing;src={};dst={};src_rc={};size={}", class_name(s), class_name(d), src_rc, size);
				fails.entry(f.clone()).or_insert(Fail {
					failure: f,
					detail: format!("col {} [{} -> {}]: key {} (source count {}, value len {}) is absent from the destination", c, show(s), show(d), short_bytes(k), n, v.len()),
				});
			},
			Err(e) => {
				let f = format!("get_error;src={};dst={}", class_name(s), class_name(d));
				fails.entry(f.clone()).or_insert(Fail { failure: f, detail: format!("col {}: get({}) error {}", c, short_bytes(k), e) });
			},
		}
	}
	for k in removed {
		*evals += 1;
		if let Ok(Some(g)) = db.get(c, k) {
			let f = format!("unexpected_key;src={};dst={}", class_name(s), class_name(d));
			fails.entry(f.clone()).or_insert(Fail {
				failure: f,
				detail: format!("col {} [{} -> {}]: key {} was deleted in the source but reads {} in the destination", c, show(s), show(d), short_bytes(k), short_bytes(&g)),
			});
		}
	}
	*evals += 1;
	match iter_values(db, c) {
		Err(f) => {
			fails.insert(f.failure.clone(), f);
		},
		Ok(got) => {
			let (e, g): (BTreeMap<(Vec<u8>, u32), u64>, BTreeMap<(Vec<u8>, u32), u64>) = if d.ref_counted {
				(exp_iter, got)
			} else {
				let strip = |m: &BTreeMap<(Vec<u8>, u32), u64>| {
					let mut o = BTreeMap::new();
					for ((v, _), n) in m {
						*o.entry((v.clone(), 0u32)).or_insert(0) += *n;
					}
					o
				};
				(strip(&exp_iter), strip(&got))
			};
			let mut missing = vec![];
			let mut extra = vec![];
			let mut rc_only = true;
			for (k, n) in &e {
				if g.get(k).copied().unwrap_or(0) < *n {
					missing.push(format!("({}, rc {})", short_bytes(&k.0), k.1));
					if !g.keys().any(|x| x.0 == k.0) {
						rc_only = false;
					}
				}
			}
			for (k, n) in &g {
				if e.get(k).copied().unwrap_or(0) < *n {
					extra.push(format!("({}, rc {})", short_bytes(&k.0), k.1));
					if !e.keys().any(|x| x.0 == k.0) {
						rc_only = false;
					}
				}
			}
			if !missing.is_empty() || !extra.is_empty() {
				let what = if d.ref_counted && rc_only {
					"rc_mismatch"
				} else if missing.is_empty() {
					"extra_value"
				} else {
					"iteration_mismatch"
				};
				let f = format!("{};src={};dst={}", what, class_name(s), class_name(d));
				missing.truncate(4);
				extra.truncate(4);
				fails.insert(
					f.clone(),
					Fail {
						failure: f,
						detail: format!("col {} [{} -> {}]: iter_column_while: expected but not found [{}]; found but not expected [{}]", c, show(s), show(d), missing.join(", "), extra.join(", ")),
					},
				);
			}
		},
	}
	fails.into_values().collect()
}

fn migrate_case(ctx: &Ctx, rep: &mut Report, case_seed: u64, variant: u64, grid_seen: &mut BTreeSet<(usize, bool, bool)>) {
	let verbose = ctx.replay.is_some() || ctx.verbose;
	let thorough = ctx.tier == pv::Tier::Thorough;
	let mut rng = Rng::new(case_seed);
	let p = plan_for(&mut rng, variant);
	let txs = rng.range(6, if thorough { 60 } else { 24 }) as usize;
	let desc = format!(
		"C20 seed={} variant={} src=[{}] dst=[{}] sel={} force={:?} overwrite={} growth={:?} unfinished_reindex={} big={} many={}",
		case_seed,
		variant,
		show_all(&p.src),
		show_all(&p.dst),
		p.sel_mode,
		p.force,
		p.overwrite,
		p.growth,
		p.unfinished_reindex,
		p.big,
		p.many
	);
	ctx.mark(&desc);
	let replay = J::obj().set("case_seed", J::i(case_seed)).set("variant", J::i(variant)).set("desc", J::s(desc.clone()));
	rep.cases += 1;
	let scr = Scratch::new("c20");
	let from = scr.sub("src");
	let to_path = scr.sub("dst");
	let src = match catch(|| build_source(&mut rng, &from, &p, txs, thorough)) {
		Ok(Ok(s)) => s,
		Ok(Err(e)) => {
			rep.inconclusive(format!("C20: cannot build the source: {} ({})", e, desc));
			return
		},
		Err(pm) => {
			crate::util::violation(rep, format!("scenario=C20;failure=panic;site={};phase=build_source", panic_site(&pm)), format!("{} :: {}", pm, desc), replay);
			return
		},
	};
	if verbose {
		eprintln!("  source: {} index_bits={:?} pending_reindex={}", src.content.describe(), src.index_bits, src.pending_reindex);
	}
	let selected: BTreeSet<usize> = (0..p.src.len()).filter(|c| p.force.contains(&(*c as u8)) || p.src[*c] != p.dst[*c]).collect();
	let sigbase = format!("scenario=C20;sel={};overwrite={};src_reindex={}", p.sel_mode, p.overwrite, if src.pending_reindex { "pending" } else { "none" });
	let before = hashes(&from);
	let meta_src = match Options::load_metadata(&from) {
		Ok(Some(m)) => m,
		_ => {
			rep.inconclusive(format!("C20: source metadata unreadable ({})", desc));
			return
		},
	};
	let mut to = Options::with_columns(&to_path, p.dst.len() as u8);
	to.columns = p.dst.clone();
	to.compression_threshold = src.thresholds.clone();
	if (p.grid + p.force.len() + p.overwrite as usize) % 3 == 1 {
		// destination options that carry a salt of their own: the keys are re-committed in their
		// hashed form, so the result must still answer every key of the source
		let h = pv::dbutil::fnv(desc.as_bytes());
		let mut salt = [0u8; 32];
		for (i, b) in salt.iter_mut().enumerate() {
			*b = (h >> ((i % 8) * 8)) as u8 ^ i as u8;
		}
		to.salt = Some(salt);
		rep.count("destination_options_with_own_salt", 1);
	}
	let r = catch(|| migrate(&from, to.clone(), p.overwrite, &p.force));
	rep.evaluations += 1;
	match r {
		Ok(Ok(())) => {},
		Ok(Err(e)) => {
			crate::util::violation(rep, format!("{};failure=migrate_failed;error={}", sigbase, err_kind(&e)), format!("migrate returned {} :: {}", e, desc), replay);
			return
		},
		Err(pm) => {
			crate::util::violation(rep, format!("{};failure=panic;site={}", sigbase, panic_site(&pm)), format!("{} :: {}", pm, desc), replay);
			return
		},
	}
	rep.count("migrations", 1);
	if p.grid % ctx.nshards == ctx.shard % ctx.nshards && grid_seen.insert((p.grid, p.force.is_empty(), p.overwrite)) {
		// every (grid cell, selection, overwrite) triple is owned by exactly one shard, which
		// walks its own triples first
		rep.count("grid_cells_x_selection_x_overwrite", 1);
	}
	rep.count(if p.force.is_empty() { "sel_auto" } else { "sel_forced" }, 1);
	rep.count(if p.overwrite { "overwrite_true" } else { "overwrite_false" }, 1);
	if selected.is_empty() {
		rep.count("nothing_selected", 1);
	}
	if let Some(g) = p.growth {
		if src.index_bits[g].map_or(false, |b| b > 16) {
			rep.count("src_index_grown", 1);
			rep.max("src_index_bits", src.index_bits[g].unwrap() as u64);
		}
	}
	if p.many {
		rep.count("src_more_keys_than_a_commit_batch", 1);
		rep.max("src_index_bits", src.index_bits[0].unwrap_or(0) as u64);
	}
	if src.pending_reindex {
		rep.count("src_closed_with_unfinished_reindex", 1);
	}
	if src.logs_pending {
		rep.count("src_with_unreplayed_log", 1);
	}
	let mut violations: Vec<(String, String)> = vec![];
	let mut evals = 0u64;
	let result_dir = if p.overwrite { from.clone() } else { to_path.clone() };
	// ---- source side
	if !p.overwrite && (src.pending_reindex || src.logs_pending) {
		// opening the source finishes the interrupted reindex / replays the pending log: files legitimately change;
		// the content of the source is compared below
		rep.count("source_bytes_not_compared_pending_reindex", 1);
	} else if !p.overwrite {
		evals += 1;
		rep.count("source_bytes_compared", 1);
		let after = hashes(&from);
		let d = diff_hashes(&before, &after, true);
		if !d.is_empty() {
			violations.push((format!("{};failure=source_modified", sigbase), format!("migration without overwrite changed source files: {}", d.join(", "))));
		}
	} else {
		evals += 1;
		let sub = subdirs(&from);
		if !sub.is_empty() {
			violations.push((format!("{};failure=overwrite_left_tmp_dir", sigbase), format!("after migrate(overwrite) the source directory contains sub-directories {:?}", sub)));
		}
	}
	// ---- metadata of the result
	evals += 2;
	match Options::load_metadata(&result_dir) {
		Ok(Some(m)) => {
			if m.columns != p.dst {
				violations.push((format!("{};failure=result_metadata_columns", sigbase), format!("result metadata lists [{}], requested [{}]", show_all(&m.columns), show_all(&p.dst))));
			}
			if m.salt != meta_src.salt {
				violations.push((format!("{};failure=result_salt_differs", sigbase), "the migrated database has a different salt than the source".to_string()));
			}
		},
		other => violations.push((format!("{};failure=result_metadata_unreadable", sigbase), format!("{:?}", other.map(|m| m.is_some())))),
	}
	// ---- unselected columns: same files (migration without overwrite copies them)
	if !p.overwrite {
		let res = hashes(&result_dir);
		// when the source had an unfinished reindex, opening it (and the copy) legitimately merges
		// older index files into the current one: index files are then compared by content only
		for c in 0..p.src.len() {
			if selected.contains(&c) {
				continue
			}
			evals += 1;
			for f in column_files(&before, c) {
				if src.pending_reindex && f.starts_with("index_") {
					continue
				}
				if src.logs_pending {
					// the replay changes the files of any column before they are copied
					continue
				}
				match res.get(&f) {
					None => violations.push((
						format!("{};failure=unselected_file_not_copied;file={};col={}", sigbase, crate::util::file_class(&f), show(&p.src[c])),
						format!("column {} ({}) was not selected but its file {} is missing from the destination", c, show(&p.src[c]), f),
					)),
					Some(x) if x.0 != before[&f].0 => violations.push((
						format!("{};failure=unselected_file_length;file={};col={}", sigbase, crate::util::file_class(&f), show(&p.src[c])),
						format!("column {} ({}): {} has length {} in the source and {} in the destination", c, show(&p.src[c]), f, before[&f].0, x.0),
					)),
					_ => {},
				}
			}
		}
	}
	// ---- content of the result
	let mut ro = Options::with_columns(&result_dir, p.dst.len() as u8);
	ro.columns = p.dst.clone();
	ro.compression_threshold = src.thresholds.clone();
	match catch(|| Db::open(&ro)) {
		Ok(Ok(db)) => {
			for c in 0..p.src.len() {
				let (s, d) = (&p.src[c], &p.dst[c]);
				if selected.contains(&c) {
					let fails = catch(|| verify_migrated(&db, c as u8, s, d, &src.content.data[c], &src.content.removed[c], &mut evals));
					match fails {
						Ok(fails) => {
							for f in fails {
								violations.push((format!("{};failure={};src_cfg={};dst_cfg={}", sigbase, f.failure, show(s), show(d)), f.detail));
							}
						},
						Err(pm) => violations.push((format!("{};failure=panic;site={};phase=read_back", sigbase, panic_site(&pm)), pm)),
					}
					if src.content.data[c].len() > 0 {
						rep.seen(format!("{}>{}:{}:{}", show(s), show(d), p.sel_mode, if p.overwrite { "ow" } else { "copy" }));
					}
					rep.count("migrated_columns_checked", 1);
					if let ColData::Rc(m) = &src.content.data[c] {
						rep.count("src_counts_gt1_keys", m.values().filter(|v| v.1 > 1).count() as u64);
					}
					let multipart = match &src.content.data[c] {
						ColData::Kv(m) => m.values().filter(|v| v.len() > 32_760).count(),
						ColData::Rc(m) => m.values().filter(|v| v.0.len() > 32_760).count(),
						_ => 0,
					};
					rep.count("multipart_values_migrated", multipart as u64);
					rep.count("keys_migrated", src.content.data[c].len() as u64);
				} else {
					let expect = convert(&src.content.data[c], d);
					match catch(|| verify_col(&db, c as u8, d, &expect, &src.content.removed[c])) {
						Ok(Ok(e)) => evals += e,
						Ok(Err(f)) => violations.push((format!("{};failure=unselected_column_changed;what={};col={}", sigbase, f.failure, show(s)), f.detail)),
						Err(pm) => violations.push((format!("{};failure=panic;site={};phase=read_back_unselected", sigbase, panic_site(&pm)), pm)),
					}
					rep.count("unselected_columns_checked", 1);
				}
			}
			drop(db);
		},
		Ok(Err(e)) => violations.push((format!("{};failure=result_open_failed;error={}", sigbase, err_kind(&e)), format!("Db::open of the migrated database: {}", e))),
		Err(pm) => violations.push((format!("{};failure=panic;site={};phase=open_result", sigbase, panic_site(&pm)), pm)),
	}
	// ---- behavioural check of a copied multitree column: removing the donor tree must not
	// take the node it shares with another tree (its count lives in the refcount_* file)
	if violations.iter().all(|v| !v.0.contains("result_open_failed") && !v.0.contains("panic")) {
		for (c, donor, sharer) in &src.content.shared {
			if selected.contains(c) {
				continue
			}
			let r = catch(|| -> Result<u64, Fail> {
				let db = Db::open(&ro).map_err(|e| Fail { failure: "result_open_failed".into(), detail: format!("{}", e) })?;
				let o = &p.dst[*c];
				if let Err(e) = db.commit_changes(vec![(*c as u8, parity_db::Operation::DereferenceTree(donor.clone()))]) {
					return Err(Fail { failure: "deref_tree_failed".into(), detail: format!("{}", e) })
				}
				drop(db);
				let db = Db::open(&ro).map_err(|e| Fail { failure: "result_open_failed".into(), detail: format!("{}", e) })?;
				let mut only = BTreeMap::new();
				if let ColData::Trees(m) = &src.content.data[*c] {
					if let Some(t) = m.get(sharer) {
						only.insert(sharer.clone(), t.clone());
					}
				}
				let mut gone = BTreeSet::new();
				gone.insert(donor.clone());
				verify_col(&db, *c as u8, o, &ColData::Trees(only), &gone)
			});
			rep.count("shared_node_deref_probes", 1);
			match r {
				Ok(Ok(e)) => evals += e,
				Ok(Err(f)) => violations.push((
					format!("{};failure=shared_node_lost_after_deref;what={};col={}", sigbase, f.failure, show(&p.src[*c])),
					format!("column {} ({}) was copied unselected; after DereferenceTree({}) in the result the tree {} that shares a node with it is damaged: {}", c, show(&p.src[*c]), short_bytes(donor), short_bytes(sharer), f.detail),
				)),
				Err(pm) => violations.push((format!("{};failure=panic;site={};phase=shared_node_probe", sigbase, panic_site(&pm)), pm)),
			}
		}
	}
	// ---- source and destination are independent databases: writes to the unselected (copied)
	// columns of the destination must not show up in the source (checked right below)
	if !p.overwrite && violations.iter().all(|v| !v.0.contains("result_open_failed") && !v.0.contains("panic")) {
		let r = catch(|| -> Result<u64, String> {
			let db = Db::open(&ro).map_err(|e| format!("{}", e))?;
			let mut n = 0;
			for c in 0..p.src.len() {
				if selected.contains(&c) {
					continue
				}
				let mut tx = vec![];
				match &src.content.data[c] {
					ColData::Kv(m) => {
						let mut it = m.keys();
						if let Some(k) = it.next() {
							tx.push((c as u8, parity_db::Operation::Set(k.clone(), b"changed in the destination only".to_vec())));
						}
						if let Some(k) = it.next() {
							tx.push((c as u8, parity_db::Operation::Dereference(k.clone())));
						}
					},
					ColData::Rc(m) => {
						if let Some((k, v)) = m.iter().next() {
							// one more reference in the destination (same value: the column's contract)
							tx.push((c as u8, parity_db::Operation::Set(k.clone(), v.0.clone())));
						}
					},
					_ => {},
				}
				if !tx.is_empty() {
					db.commit_changes(tx).map_err(|e| format!("{}", e))?;
					n += 1;
				}
			}
			drop(db);
			Ok(n)
		});
		match r {
			Ok(Ok(n)) => rep.count("destination_write_probes", n),
			Ok(Err(e)) => violations.push((format!("{};failure=destination_write_failed", sigbase), format!("a commit on the migrated database failed: {}", e))),
			Err(pm) => violations.push((format!("{};failure=panic;site={};phase=destination_write_probe", sigbase, panic_site(&pm)), pm)),
		}
	}
	// ---- without overwrite the source still holds everything
	if !p.overwrite {
		let so = src_options(&from, &p, &src.thresholds);
		match catch(|| Db::open(&so)) {
			Ok(Ok(db)) => {
				for c in 0..p.src.len() {
					match catch(|| verify_col(&db, c as u8, &p.src[c], &src.content.data[c], &src.content.removed[c])) {
						Ok(Ok(e)) => evals += e,
						Ok(Err(f)) => violations.push((format!("{};failure=source_content_changed;what={};col={}", sigbase, f.failure, show(&p.src[c])), f.detail)),
						Err(pm) => violations.push((format!("{};failure=panic;site={};phase=read_back_source", sigbase, panic_site(&pm)), pm)),
					}
				}
				drop(db);
			},
			Ok(Err(e)) => violations.push((format!("{};failure=source_open_failed;error={}", sigbase, err_kind(&e)), format!("Db::open of the source after migration: {}", e))),
			Err(pm) => violations.push((format!("{};failure=panic;site={};phase=open_source", sigbase, panic_site(&pm)), pm)),
		}
	}
	rep.evaluations += evals;
	if violations.is_empty() {
		rep.sample(J::s(desc.clone()));
		if verbose {
			eprintln!("  ok ({} evaluations)", evals);
		}
	}
	let mut seen = BTreeSet::new();
	for (sig, detail) in violations {
		if seen.insert(sig.clone()) {
			crate::util::violation(rep, sig, format!("{} :: {}", detail, desc), replay.clone());
		}
	}
}

pub fn run(ctx: &Ctx, rep: &mut Report) {
	if let Some(j) = &ctx.replay {
		let seed = j.get("case_seed").and_then(|x| x.as_u64()).expect("replay needs case_seed");
		let variant = j.get("variant").and_then(|x| x.as_u64()).unwrap_or(0);
		migrate_case(ctx, rep, seed, variant, &mut BTreeSet::new());
		return
	}
	let n_cases = ctx.tier.pick(90u64, 1500);
	let mut seeder = Rng::new(ctx.seed ^ 0xC20_C20);
	let mut i = 0u64;
	let mut grid_seen = BTreeSet::new();
	let own: Vec<u64> = (0..81u64).filter(|g| *g as usize % ctx.nshards == ctx.shard).collect();
	// the shard's own grid cells are enumerated whatever the time budget says (a loaded machine
	// must not turn the exhaustive part into an inconclusive run; the watchdog still applies)
	while i < n_cases && (ctx.time_left() || (i as usize) < own.len() * 4) {
		let case_seed = seeder.next() >> 2;
		// variant = grid cell (0..81) + 81 * (forced + 2 * overwrite): first this shard's own
		// cells in all four modes, then random ones
		let variant = if (i as usize) < own.len() * 4 {
			own[i as usize / 4] + 81 * (i % 4)
		} else {
			seeder.below(81 * 4)
		};
		migrate_case(ctx, rep, case_seed, variant, &mut grid_seen);
		ctx.checkpoint(rep);
		i += 1;
		if crate::util::distinct_failure_classes() >= 40 || rep.get("failing_checks") >= 3000 {
			rep.notes.push(format!("shard {} stopped early: {} distinct failure classes, {} failing checks", ctx.shard, crate::util::distinct_failure_classes(), rep.get("failing_checks")));
			break
		}
	}
	if i < n_cases {
		rep.notes.push(format!("C20: shard {} stopped by its time budget after {} of {} cases", ctx.shard, i, n_cases));
	}
}
