//! Enumeration of the column-option space: 2^7 boolean flags x 3 compression types = 384
//! combinations (valid and invalid), with a stable index and a short printable form.

use parity_db::{ColumnOptions, CompressionType};

pub const N_COMBOS: usize = 128 * 3;

pub const COMPRESSIONS: [CompressionType; 3] =
	[CompressionType::NoCompression, CompressionType::Lz4, CompressionType::Snappy];

pub const FIELDS: [&str; 8] = [
	"preimage",
	"uniform",
	"ref_counted",
	"btree_index",
	"multitree",
	"append_only",
	"allow_direct_node_access",
	"compression",
];

/// Combination number `i` (0..384): bits 0..6 are the flags in `FIELDS` order, i / 128 selects
/// the compression type.
pub fn combo(i: usize) -> ColumnOptions {
	let f = i % 128;
	ColumnOptions {
		preimage: f & 1 != 0,
		uniform: f & 2 != 0,
		ref_counted: f & 4 != 0,
		btree_index: f & 8 != 0,
		multitree: f & 16 != 0,
		append_only: f & 32 != 0,
		allow_direct_node_access: f & 64 != 0,
		compression: COMPRESSIONS[(i / 128) % 3],
	}
}

/// Our own statement of the documented validity rules (options.rs `is_valid`), without the
/// library's error logging. Cross-checked against `ColumnOptions::is_valid` in part (a).
pub fn is_valid(o: &ColumnOptions) -> bool {
	!(o.ref_counted && !o.preimage) &&
		!(o.ref_counted && o.append_only) &&
		!(o.multitree && o.compression != CompressionType::NoCompression)
}

/// Indices of all valid combinations (160 of 384).
pub fn valid_combos() -> Vec<usize> {
	(0..N_COMBOS).filter(|i| is_valid(&combo(*i))).collect()
}

/// Names of the fields in which two option sets differ.
pub fn diff_fields(a: &ColumnOptions, b: &ColumnOptions) -> Vec<&'static str> {
	let mut v = vec![];
	if a.preimage != b.preimage {
		v.push(FIELDS[0])
	}
	if a.uniform != b.uniform {
		v.push(FIELDS[1])
	}
	if a.ref_counted != b.ref_counted {
		v.push(FIELDS[2])
	}
	if a.btree_index != b.btree_index {
		v.push(FIELDS[3])
	}
	if a.multitree != b.multitree {
		v.push(FIELDS[4])
	}
	if a.append_only != b.append_only {
		v.push(FIELDS[5])
	}
	if a.allow_direct_node_access != b.allow_direct_node_access {
		v.push(FIELDS[6])
	}
	if a.compression != b.compression {
		v.push(FIELDS[7])
	}
	v
}

/// Compact printable form, e.g. `hash+preimage+rc+lz4` (same vocabulary as pv::dbutil::col_kind
/// but showing both btree and multitree when both are set).
pub fn show(o: &ColumnOptions) -> String {
	let mut s = String::new();
	s.push_str(match (o.btree_index, o.multitree) {
		(true, true) => "btree+multitree",
		(true, false) => "btree",
		(false, true) => "multitree",
		(false, false) => "hash",
	});
	if o.uniform {
		s.push_str("+uniform");
	}
	if o.preimage {
		s.push_str("+preimage");
	}
	if o.ref_counted {
		s.push_str("+rc");
	}
	if o.append_only {
		s.push_str("+append_only");
	}
	if o.allow_direct_node_access {
		s.push_str("+direct");
	}
	match o.compression {
		CompressionType::NoCompression => {},
		CompressionType::Lz4 => s.push_str("+lz4"),
		CompressionType::Snappy => s.push_str("+snappy"),
	}
	s
}

pub fn show_all(v: &[ColumnOptions]) -> String {
	v.iter().map(show).collect::<Vec<_>>().join("|")
}

/// Storage kind the library selects for a column (btree_index wins over multitree).
#[derive(Clone, Copy, Debug, PartialEq, Eq)]
pub enum Kind {
	Hash,
	Btree,
	Tree,
}

pub fn kind(o: &ColumnOptions) -> Kind {
	if o.btree_index {
		Kind::Btree
	} else if o.multitree {
		Kind::Tree
	} else {
		Kind::Hash
	}
}

/// Mixed column kinds used for the administration workloads (all valid).
pub fn palette() -> Vec<ColumnOptions> {
	use pv::dbutil::{col, multitree_col};
	let n = CompressionType::NoCompression;
	let mut v = vec![
		col(false, false, false, false, n),
		col(false, false, false, false, CompressionType::Lz4),
		col(false, false, false, false, CompressionType::Snappy),
		col(false, false, true, false, n),
		col(false, false, true, true, n),
		col(false, false, true, true, CompressionType::Lz4),
		col(false, true, false, false, n),
		col(false, true, true, true, n),
		col(false, true, false, false, CompressionType::Snappy),
		col(true, false, false, false, n),
		col(true, false, false, false, CompressionType::Lz4),
		col(true, false, true, false, n),
		multitree_col(true, false, false),
		multitree_col(false, false, true),
		multitree_col(false, true, true),
	];
	let mut ao = col(false, false, false, false, n);
	ao.append_only = true;
	v.push(ao);
	let mut mu = multitree_col(true, false, false);
	mu.uniform = true;
	v.push(mu);
	v
}
