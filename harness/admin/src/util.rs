//! Directory snapshots: (name -> (len, content hash)). Index files are 32 MiB sparse files, so
//! the hash walks only the data extents (SEEK_DATA / SEEK_HOLE) and skips all-zero 4 KiB blocks:
//! two files get the same hash iff they have the same length and the same bytes, regardless of
//! how the holes are laid out.

use std::{collections::BTreeMap, path::Path};

pub type Hashes = BTreeMap<String, (u64, u64)>;

const BLOCK: usize = 4096;

#[inline]
fn mix(h: u64, w: u64) -> u64 {
	(h ^ w).wrapping_mul(0x9E37_79B9_7F4A_7C15).rotate_left(29)
}

fn hash_block(mut h: u64, off: u64, b: &[u8]) -> u64 {
	h = mix(h, off ^ 0xA5A5_5A5A_0F0F_F0F0);
	let mut it = b.chunks_exact(8);
	for c in &mut it {
		h = mix(h, u64::from_le_bytes(c.try_into().unwrap()));
	}
	let rem = it.remainder();
	if !rem.is_empty() {
		let mut w = [0u8; 8];
		w[..rem.len()].copy_from_slice(rem);
		h = mix(h, u64::from_le_bytes(w) ^ ((rem.len() as u64) << 56));
	}
	h
}

pub fn file_hash(p: &Path) -> std::io::Result<(u64, u64)> {
	use std::{
		io::{Read, Seek, SeekFrom},
		os::unix::io::AsRawFd,
	};
	let mut f = std::fs::File::open(p)?;
	let len = f.metadata()?.len();
	let mut h = mix(0x1234_5678_9ABC_DEF1, len);
	if len == 0 {
		return Ok((0, h))
	}
	let fd = f.as_raw_fd();
	let mut pos: i64 = 0;
	let mut buf = vec![0u8; 1 << 16];
	loop {
		let data = unsafe { libc::lseek(fd, pos, libc::SEEK_DATA) };
		if data < 0 {
			break
		}
		// align down to the block grid so that block boundaries are layout independent
		let data = (data - data % BLOCK as i64).max(pos - pos % BLOCK as i64);
		let hole = unsafe { libc::lseek(fd, data.max(pos), libc::SEEK_HOLE) };
		let end = if hole < 0 { len as i64 } else { hole.min(len as i64) };
		f.seek(SeekFrom::Start(data as u64))?;
		let mut at = data as u64;
		let stop = end as u64;
		while at < stop {
			let n = ((stop - at) as usize).min(buf.len());
			f.read_exact(&mut buf[..n])?;
			for (i, blk) in buf[..n].chunks(BLOCK).enumerate() {
				if blk.iter().any(|b| *b != 0) {
					h = hash_block(h, at + (i * BLOCK) as u64, blk);
				}
			}
			at += n as u64;
		}
		pos = end;
		if pos >= len as i64 {
			break
		}
	}
	Ok((len, h))
}

/// Snapshot of the regular files of a flat directory.
pub fn hashes(dir: &Path) -> Hashes {
	let mut m = Hashes::new();
	if let Ok(rd) = std::fs::read_dir(dir) {
		for e in rd.flatten() {
			if e.file_type().map(|t| t.is_file()).unwrap_or(false) {
				if let Some(n) = e.file_name().to_str() {
					match file_hash(&e.path()) {
						Ok(v) => {
							m.insert(n.to_string(), v);
						},
						Err(_) => {
							m.insert(n.to_string(), (u64::MAX, 0));
						},
					}
				}
			}
		}
	}
	m
}

/// Sub-directories of a directory (names).
pub fn subdirs(dir: &Path) -> Vec<String> {
	let mut v = vec![];
	if let Ok(rd) = std::fs::read_dir(dir) {
		for e in rd.flatten() {
			if e.file_type().map(|t| t.is_dir()).unwrap_or(false) {
				v.push(e.file_name().to_string_lossy().to_string());
			}
		}
	}
	v.sort();
	v
}

/// Differences between two directory states; the mere appearance of an empty `lock` file is
/// not reported when `ignore_lock_existence` (its content must still not change).
pub fn diff_hashes(before: &Hashes, after: &Hashes, ignore_lock_existence: bool) -> Vec<String> {
	let mut out = vec![];
	for (n, (l, h)) in before {
		match after.get(n) {
			None =>
				if !(ignore_lock_existence && n == "lock") {
					out.push(format!("{}:removed", n))
				},
			Some((l2, h2)) =>
				if l != l2 {
					out.push(format!("{}:len {}->{}", n, l, l2))
				} else if h != h2 {
					out.push(format!("{}:content", n))
				},
		}
	}
	for (n, (l, _)) in after {
		if !before.contains_key(n) {
			if ignore_lock_existence && n == "lock" && *l == 0 {
				continue
			}
			out.push(format!("{}:created", n));
		}
	}
	out
}

/// table_00_0a -> table, index_01_16 -> index, log3 -> log
pub fn file_class(name: &str) -> String {
	let base: String = name.chars().take_while(|c| c.is_ascii_alphabetic()).collect();
	if base.is_empty() {
		name.to_string()
	} else {
		base
	}
}

pub fn column_files(h: &Hashes, c: usize) -> Vec<String> {
	let p = [format!("table_{:02}_", c), format!("index_{:02}_", c), format!("refcount_{:02}_", c)];
	h.keys().filter(|n| p.iter().any(|p| n.starts_with(p))).cloned().collect()
}

pub fn err_kind(e: &parity_db::Error) -> &'static str {
	use parity_db::Error::*;
	match e {
		Io(_) => "Io",
		Corruption(_) => "Corruption",
		InvalidConfiguration(_) => "InvalidConfiguration",
		IncompatibleColumnConfig { .. } => "IncompatibleColumnConfig",
		InvalidInput(_) => "InvalidInput",
		InvalidValueData => "InvalidValueData",
		Background(_) => "Background",
		Locked(_) => "Locked",
		Migration(_) => "Migration",
		Compression => "Compression",
		DatabaseNotFound => "DatabaseNotFound",
	}
}

// ---------------------------------------------------------------------------------------------
// Violation reporting with per-class de-duplication: a shard report keeps at most 50 violations,
// so a frequent (possibly already known) defect must not crowd out a rarer one. Only the first
// `WITNESSES_PER_CLASS` witnesses of a failure class are reported, the rest are counted.
// ---------------------------------------------------------------------------------------------

const WITNESSES_PER_CLASS: u32 = 2;
const WITNESSES_PER_GROUP: u32 = 8;
/// signature fields that only describe the witness, not the kind of failure
const WITNESS_FIELDS: [&str; 11] =
	["affected", "step", "cfg", "src_cfg", "dst_cfg", "col", "size", "requested", "phase", "sel", "overwrite"];
/// fields that define the coarse group of a failure (what failed, under which circumstances)
const GROUP_FIELDS: [&str; 8] = ["scenario", "part", "failure", "op", "logs", "src_reindex", "case", "mode"];

thread_local! {
	static CLASSES: std::cell::RefCell<BTreeMap<String, u32>> = std::cell::RefCell::new(BTreeMap::new());
	static GROUPS: std::cell::RefCell<BTreeMap<String, u32>> = std::cell::RefCell::new(BTreeMap::new());
}

fn project(sig: &str, keep: &dyn Fn(&str) -> bool) -> String {
	sig.split(';').filter(|kv| keep(kv.split('=').next().unwrap_or(""))).collect::<Vec<_>>().join(";")
}

pub fn violation_class(sig: &str) -> String {
	project(sig, &|k| !WITNESS_FIELDS.contains(&k))
}

fn bump(m: &'static std::thread::LocalKey<std::cell::RefCell<BTreeMap<String, u32>>>, k: String) -> u32 {
	m.with(|c| {
		let mut c = c.borrow_mut();
		let e = c.entry(k).or_insert(0);
		*e += 1;
		*e
	})
}

pub fn violation(rep: &mut pv::Report, sig: impl Into<String>, detail: impl Into<String>, replay: pv::J) {
	let sig = sig.into();
	let n_class = bump(&CLASSES, violation_class(&sig));
	rep.count("failing_checks", 1);
	if n_class > WITNESSES_PER_CLASS {
		rep.count("violations_suppressed_as_duplicates", 1);
		return
	}
	let n_group = bump(&GROUPS, project(&sig, &|k| GROUP_FIELDS.contains(&k)));
	if n_group > WITNESSES_PER_GROUP {
		rep.count("violations_suppressed_as_duplicates", 1);
		return
	}
	rep.violation(sig, detail, replay);
}

pub fn distinct_failure_classes() -> usize {
	GROUPS.with(|c| c.borrow().len())
}
