//! Seeded content for databases of mixed column kinds, with the harness' own model
//! (per column key -> value (+count) or key -> tree) and the read-back oracles.

use crate::opts::{kind, show, Kind};
use parity_db::{ColumnOptions, Db, Operation};
use pv::{
	gen::{key_pool, random_value, uniform_key_pool, value_for_key},
	json::short_bytes,
	model::{ChildSpec, TreeSpec},
	Rng,
};
use std::collections::{BTreeMap, BTreeSet};

pub type DbOp = (u8, Operation<Vec<u8>, Vec<u8>>);

#[derive(Clone, Debug)]
pub enum ColData {
	Kv(BTreeMap<Vec<u8>, Vec<u8>>),
	Rc(BTreeMap<Vec<u8>, (Vec<u8>, u64)>),
	Trees(BTreeMap<Vec<u8>, TreeSpec>),
}

impl ColData {
	pub fn len(&self) -> usize {
		match self {
			ColData::Kv(m) => m.len(),
			ColData::Rc(m) => m.len(),
			ColData::Trees(m) => m.len(),
		}
	}
	pub fn keys(&self) -> Vec<Vec<u8>> {
		match self {
			ColData::Kv(m) => m.keys().cloned().collect(),
			ColData::Rc(m) => m.keys().cloned().collect(),
			ColData::Trees(m) => m.keys().cloned().collect(),
		}
	}
}

#[derive(Clone, Debug)]
pub struct Fail {
	pub failure: String,
	pub detail: String,
}

pub fn fail<T>(failure: impl Into<String>, detail: impl Into<String>) -> Result<T, Fail> {
	Err(Fail { failure: failure.into(), detail: detail.into() })
}

#[derive(Clone, Debug)]
pub struct Content {
	pub opts: Vec<ColumnOptions>,
	/// values of this column are a function of the key (preimage contract of the source or of
	/// a later destination configuration)
	pub fn_of_key: Vec<bool>,
	pub pools: Vec<Vec<Vec<u8>>>,
	pub data: Vec<ColData>,
	/// keys that were written once and are now deleted (absence probes)
	pub removed: Vec<BTreeSet<Vec<u8>>>,
	/// allow multipart values (5..40 KiB)
	pub big: bool,
	/// only first-time Sets / tree insertions (no replace, reference, delete)
	pub simple: bool,
	/// (column, donor tree, sharing tree): the second tree references a node of the first
	pub shared: Vec<(usize, Vec<u8>, Vec<u8>)>,
}

fn new_data(o: &ColumnOptions) -> ColData {
	match kind(o) {
		Kind::Tree => ColData::Trees(BTreeMap::new()),
		_ if o.ref_counted => ColData::Rc(BTreeMap::new()),
		_ => ColData::Kv(BTreeMap::new()),
	}
}

pub fn pool_for(rng: &mut Rng, o: &ColumnOptions, n: usize) -> Vec<Vec<u8>> {
	if o.uniform {
		uniform_key_pool(rng, n, true)
	} else {
		key_pool(rng, n, o.btree_index)
	}
}

fn random_tree(rng: &mut Rng, big: bool, depth: u32, budget: &mut i32) -> TreeSpec {
	let data = match rng.below(10) {
		0 => vec![],
		1 if big => rng.bytes_in(2000, 9000),
		_ => rng.bytes_in(1, 60),
	};
	let mut children = vec![];
	if depth > 0 {
		let n = rng.below(5);
		for _ in 0..n {
			if *budget <= 0 {
				break
			}
			*budget -= 1;
			children.push(ChildSpec::New(random_tree(rng, big, depth - 1, budget)));
		}
	}
	TreeSpec { data, children }
}

impl Content {
	pub fn new(rng: &mut Rng, opts: &[ColumnOptions], pool_size: usize, big: bool) -> Content {
		Content {
			opts: opts.to_vec(),
			fn_of_key: opts.iter().map(|o| o.preimage || o.ref_counted).collect(),
			pools: opts.iter().map(|o| pool_for(rng, o, pool_size)).collect(),
			data: opts.iter().map(new_data).collect(),
			removed: opts.iter().map(|_| BTreeSet::new()).collect(),
			big,
			simple: false,
			shared: vec![],
		}
	}

	pub fn value(&self, rng: &mut Rng, c: usize, key: &[u8]) -> Vec<u8> {
		if self.fn_of_key[c] {
			value_for_key(key, self.big)
		} else {
			random_value(rng, self.big)
		}
	}


	/// One operation for column `c` (already applied to the model), or None when nothing
	/// sensible is possible. `used` = keys already touched in this transaction.
	fn gen_op(&mut self, rng: &mut Rng, c: usize, used: &mut BTreeSet<(usize, Vec<u8>)>) -> Option<DbOp> {
		let o = self.opts[c].clone();
		let key = rng.pick(&self.pools[c]).clone();
		if !used.insert((c, key.clone())) {
			return None
		}
		let simple = self.simple || o.append_only || (o.btree_index && o.ref_counted);
		let value = self.value(rng, c, &key);
		let cu = c as u8;
		match &mut self.data[c] {
			ColData::Trees(m) => {
				if m.contains_key(&key) {
					return None
				}
				let mut budget = rng.range(0, 14) as i32;
				let depth = rng.range(0, 3) as u32;
				let spec = random_tree(rng, self.big, depth, &mut budget);
				m.insert(key.clone(), spec.clone());
				Some((cu, Operation::InsertTree(key, spec.to_new_node(&|id| id))))
			},
			ColData::Kv(m) => {
				let exists = m.contains_key(&key);
				if !exists {
					m.insert(key.clone(), value.clone());
					self.removed[c].remove(&key);
					Some((cu, Operation::Set(key, value)))
				} else if simple {
					None
				} else if rng.chance(1, 2) {
					m.remove(&key);
					self.removed[c].insert(key.clone());
					Some((cu, Operation::Dereference(key)))
				} else {
					if !o.preimage {
						m.insert(key.clone(), value.clone());
					}
					Some((cu, Operation::Set(key, value)))
				}
			},
			ColData::Rc(m) => match m.get_mut(&key) {
				None => {
					m.insert(key.clone(), (value.clone(), 1));
					self.removed[c].remove(&key);
					Some((cu, Operation::Set(key, value)))
				},
				Some(_) if simple => None,
				Some(e) => {
					let r = rng.below(10);
					if e.1 < 4 && r < 6 {
						e.1 += 1;
						if r < 3 {
							Some((cu, Operation::Set(key, value)))
						} else {
							Some((cu, Operation::Reference(key)))
						}
					} else {
						e.1 -= 1;
						if e.1 == 0 {
							m.remove(&key);
							self.removed[c].insert(key.clone());
						}
						Some((cu, Operation::Dereference(key)))
					}
				},
			},
		}
	}

	/// A transaction of up to `max_ops` operations over the given columns.
	pub fn gen_tx(&mut self, rng: &mut Rng, max_ops: usize, cols: &[usize]) -> Vec<DbOp> {
		let n = rng.range(1, max_ops.max(1) as u64) as usize;
		let mut used = BTreeSet::new();
		let mut tx = vec![];
		for _ in 0..n {
			let c = *rng.pick(cols);
			if let Some(op) = self.gen_op(rng, c, &mut used) {
				tx.push(op);
			}
		}
		tx
	}

	/// Insert explicit key/value pairs (first-time Sets); for counting columns they are then
	/// referenced up to `count` times in follow-up transactions. Returns the transactions.
	pub fn explicit_sets(&mut self, c: usize, items: &[(Vec<u8>, Vec<u8>)], count: u64) -> Vec<Vec<DbOp>> {
		let mut first = vec![];
		let mut more: Vec<Vec<DbOp>> = vec![];
		for (i, (k, v)) in items.iter().enumerate() {
			match &mut self.data[c] {
				ColData::Kv(m) => {
					m.insert(k.clone(), v.clone());
					first.push((c as u8, Operation::Set(k.clone(), v.clone())));
				},
				ColData::Rc(m) => {
					if m.contains_key(k) {
						continue
					}
					// counts 1..=count, varying by item
					let n = 1 + (i as u64 % count.max(1));
					m.insert(k.clone(), (v.clone(), n));
					first.push((c as u8, Operation::Set(k.clone(), v.clone())));
					for r in 1..n {
						while more.len() < r as usize {
							more.push(vec![]);
						}
						let op = if r % 2 == 1 { Operation::Reference(k.clone()) } else { Operation::Set(k.clone(), v.clone()) };
						more[r as usize - 1].push((c as u8, op));
					}
				},
				ColData::Trees(_) => {},
			}
		}
		let mut txs = vec![first];
		txs.extend(more);
		txs
	}

	/// Remove explicit keys completely (counting columns: one dereference per reference held).
	/// Returns the transactions.
	pub fn explicit_removes(&mut self, c: usize, keys: &[Vec<u8>]) -> Vec<Vec<DbOp>> {
		let mut txs: Vec<Vec<DbOp>> = vec![vec![]];
		for k in keys {
			match &mut self.data[c] {
				ColData::Kv(m) => {
					if m.remove(k).is_some() {
						self.removed[c].insert(k.clone());
						txs[0].push((c as u8, Operation::Dereference(k.clone())));
					}
				},
				ColData::Rc(m) => {
					if let Some((_, n)) = m.remove(k) {
						self.removed[c].insert(k.clone());
						for r in 0..n as usize {
							while txs.len() <= r {
								txs.push(vec![]);
							}
							txs[r].push((c as u8, Operation::Dereference(k.clone())));
						}
					}
				},
				ColData::Trees(_) => {},
			}
		}
		txs.retain(|t| !t.is_empty());
		txs
	}

	pub fn describe(&self) -> String {
		self.opts
			.iter()
			.zip(self.data.iter())
			.map(|(o, d)| format!("{}:{}", show(o), d.len()))
			.collect::<Vec<_>>()
			.join("|")
	}
}

/// For a multitree column with a reference-count table (not append-only): insert one more tree
/// that shares an existing node (`NodeRef::Existing`), which makes the library create the
/// column's `refcount_*` file. The model records the shared subtree by content.
pub fn share_node(db: &Db, rng: &mut Rng, content: &mut Content, c: usize) -> Option<DbOp> {
	let o = content.opts[c].clone();
	if kind(&o) != Kind::Tree || o.append_only {
		return None
	}
	let (key, idx, child) = {
		let m = match &content.data[c] {
			ColData::Trees(m) => m,
			_ => return None,
		};
		let cands: Vec<(&Vec<u8>, &TreeSpec)> = m.iter().filter(|(_, t)| !t.children.is_empty()).collect();
		if cands.is_empty() {
			return None
		}
		let (k, t) = *rng.pick(&cands);
		let idx = rng.usize(t.children.len());
		match &t.children[idx] {
			ChildSpec::New(ch) => (k.clone(), idx, ch.clone()),
			_ => return None,
		}
	};
	let reader = db.get_tree(c as u8, &key).ok()??;
	let root = reader.read().get_root().ok()??;
	let addr = *root.1.get(idx)?;
	let new_key = content.pools[c].iter().find(|k| !content.data[c].keys().contains(k))?.clone();
	let data = rng.bytes_in(1, 40);
	let leaf = TreeSpec::leaf(rng.bytes_in(1, 20));
	let db_spec = TreeSpec { data: data.clone(), children: vec![ChildSpec::Existing(addr), ChildSpec::New(leaf.clone())] };
	let model_spec = TreeSpec { data, children: vec![ChildSpec::New(child), ChildSpec::New(leaf)] };
	if let ColData::Trees(m) = &mut content.data[c] {
		m.insert(new_key.clone(), model_spec);
	}
	content.shared.push((c, key, new_key.clone()));
	Some((c as u8, Operation::InsertTree(new_key, db_spec.to_new_node(&|a| a))))
}

fn tree_walk(
	reader: &dyn parity_db::TreeReader,
	node: (Vec<u8>, Vec<u64>),
	spec: &TreeSpec,
	path: &str,
	evals: &mut u64,
) -> Result<(), String> {
	*evals += 1;
	if node.0 != spec.data {
		return Err(format!("node {} data {} expected {}", path, short_bytes(&node.0), short_bytes(&spec.data)))
	}
	if node.1.len() != spec.children.len() {
		return Err(format!("node {} has {} children expected {}", path, node.1.len(), spec.children.len()))
	}
	for (i, (addr, ch)) in node.1.iter().zip(spec.children.iter()).enumerate() {
		let ch = match ch {
			ChildSpec::New(t) => t,
			ChildSpec::Existing(_) => continue,
		};
		let n = reader
			.get_node(*addr)
			.map_err(|e| format!("get_node({:#x}) error {}", addr, e))?
			.ok_or_else(|| format!("node {}/{} at {:#x} missing", path, i, addr))?;
		tree_walk(reader, n, ch, &format!("{}/{}", path, i), evals)?;
	}
	Ok(())
}

/// Iterate a hash column's value tables: multiset of (value, rc).
pub fn iter_values(db: &Db, c: u8) -> Result<BTreeMap<(Vec<u8>, u32), u64>, Fail> {
	let mut got: BTreeMap<(Vec<u8>, u32), u64> = BTreeMap::new();
	match db.iter_column_while(c, |s| {
		*got.entry((s.value, s.rc)).or_insert(0) += 1;
		true
	}) {
		Ok(()) => Ok(got),
		Err(e) => fail("iter_error", format!("iter_column_while({}) error {}", c, e)),
	}
}

fn strip_rc(m: &BTreeMap<(Vec<u8>, u32), u64>) -> BTreeMap<Vec<u8>, u64> {
	let mut o = BTreeMap::new();
	for ((v, _), n) in m {
		*o.entry(v.clone()).or_insert(0) += *n;
	}
	o
}

fn multiset_diff<K: Ord + Clone + std::fmt::Debug>(exp: &BTreeMap<K, u64>, got: &BTreeMap<K, u64>, show: &dyn Fn(&K) -> String) -> Option<String> {
	let mut missing = vec![];
	let mut extra = vec![];
	for (k, n) in exp {
		let g = got.get(k).copied().unwrap_or(0);
		if g < *n {
			missing.push(format!("{} x{}", show(k), n - g));
		}
	}
	for (k, n) in got {
		let e = exp.get(k).copied().unwrap_or(0);
		if *n > e {
			extra.push(format!("{} x{}", show(k), n - e));
		}
	}
	if missing.is_empty() && extra.is_empty() {
		None
	} else {
		missing.truncate(4);
		extra.truncate(4);
		Some(format!("missing from iteration: [{}]; unexpected in iteration: [{}]", missing.join(", "), extra.join(", ")))
	}
}

/// Full read-back of column `c` of `db` (already opened with options `o` for that column)
/// against `data`: every key, every deleted key, and the complete iteration (btree: ordered
/// keys and values; hash: multiset of values, with their counts when the column counts;
/// multitree: every node of every tree). `removed` = keys that must be absent.
/// Returns the number of oracle evaluations.
pub fn verify_col(
	db: &Db,
	c: u8,
	o: &ColumnOptions,
	data: &ColData,
	removed: &BTreeSet<Vec<u8>>,
) -> Result<u64, Fail> {
	let mut evals = 0u64;
	match (kind(o), data) {
		(Kind::Tree, ColData::Trees(m)) => {
			for (k, spec) in m {
				let t = match db.get_tree(c, k) {
					Ok(Some(t)) => t,
					Ok(None) => return fail("tree_missing", format!("col {} ({}): get_tree({}) = None, expected a tree of {} nodes", c, show(o), short_bytes(k), spec.count_new())),
					Err(e) => return fail("get_error", format!("col {}: get_tree error {}", c, e)),
				};
				let g = t.read();
				let root = match g.get_root() {
					Ok(Some(r)) => r,
					Ok(None) => return fail("tree_missing", format!("col {} ({}): root of {} = None", c, show(o), short_bytes(k))),
					Err(e) => return fail("get_error", format!("col {}: get_root error {}", c, e)),
				};
				if let Err(e) = tree_walk(&**g, root, spec, "r", &mut evals) {
					return fail("tree_mismatch", format!("col {} ({}) tree {}: {}", c, show(o), short_bytes(k), e))
				}
			}
			for k in removed {
				evals += 1;
				match db.get_tree(c, k) {
					Ok(None) => {},
					Ok(Some(_)) => return fail("unexpected_key", format!("col {}: tree {} should not exist", c, short_bytes(k))),
					Err(e) => return fail("get_error", format!("col {}: get_tree error {}", c, e)),
				}
			}
		},
		(_, ColData::Trees(_)) | (Kind::Tree, _) => {
			return fail("harness", "model/column kind mismatch")
		},
		(k, _) => {
			let exp: Vec<(&Vec<u8>, &Vec<u8>, u64)> = match data {
				ColData::Kv(m) => m.iter().map(|(k, v)| (k, v, 1)).collect(),
				ColData::Rc(m) => m.iter().map(|(k, v)| (k, &v.0, v.1)).collect(),
				ColData::Trees(_) => unreachable!(),
			};
			for (key, v, _) in &exp {
				evals += 1;
				match db.get(c, key) {
					Ok(Some(g)) if &g == *v => {},
					Ok(Some(g)) => {
						let got = if g.is_empty() && !v.is_empty() { "empty" } else { "other" };
						return fail(
							format!("value_mismatch;got={}", got),
							format!("col {} ({}): get({}) = {} (len {}), expected {} (len {})", c, show(o), short_bytes(key), short_bytes(&g), g.len(), short_bytes(v), v.len()),
						)
					},
					Ok(None) => return fail("key_missing", format!("col {} ({}): get({}) = None, expected {} (len {})", c, show(o), short_bytes(key), short_bytes(v), v.len())),
					Err(e) => return fail("get_error", format!("col {} ({}): get({}) error {}", c, show(o), short_bytes(key), e)),
				}
			}
			for key in removed {
				evals += 1;
				match db.get(c, key) {
					Ok(None) => {},
					Ok(Some(g)) => return fail("unexpected_key", format!("col {} ({}): get({}) = {} but the key was deleted", c, show(o), short_bytes(key), short_bytes(&g))),
					Err(e) => return fail("get_error", format!("col {}: get({}) error {}", c, short_bytes(key), e)),
				}
			}
			if k == Kind::Btree {
				let mut it = match db.iter(c) {
					Ok(it) => it,
					Err(e) => return fail("iter_error", format!("col {}: iter error {}", c, e)),
				};
				if let Err(e) = it.seek_to_first() {
					return fail("iter_error", format!("col {}: seek_to_first error {}", c, e))
				}
				for (i, (key, v, _)) in exp.iter().enumerate() {
					evals += 1;
					match it.next() {
						Ok(Some((gk, gv))) if &gk == *key && &gv == *v => {},
						Ok(other) => {
							return fail(
								"btree_iteration_mismatch",
								format!("col {} ({}): iteration item {} = {:?}, expected ({}, {})", c, show(o), i, other.map(|(a, b)| (short_bytes(&a), short_bytes(&b))), short_bytes(key), short_bytes(v)),
							)
						},
						Err(e) => return fail("iter_error", format!("col {}: next error {}", c, e)),
					}
				}
				evals += 1;
				match it.next() {
					Ok(None) => {},
					Ok(Some((gk, _))) => return fail("btree_iteration_extra", format!("col {} ({}): iteration yields extra key {} after the {} expected", c, show(o), short_bytes(&gk), exp.len())),
					Err(e) => return fail("iter_error", format!("col {}: next error {}", c, e)),
				}
			} else {
				let got = iter_values(db, c)?;
				evals += 1;
				if o.ref_counted {
					let mut e: BTreeMap<(Vec<u8>, u32), u64> = BTreeMap::new();
					for (_, v, n) in &exp {
						*e.entry(((*v).clone(), *n as u32)).or_insert(0) += 1;
					}
					if let Some(d) = multiset_diff(&e, &got, &|k| format!("({}, rc {})", short_bytes(&k.0), k.1)) {
						// distinguish pure count differences
						let vals_ok = multiset_diff(&strip_rc(&e), &strip_rc(&got), &|k| short_bytes(k)).is_none();
						return fail(
							if vals_ok { "rc_mismatch" } else { "iteration_mismatch" },
							format!("col {} ({}): {}", c, show(o), d),
						)
					}
				} else {
					let mut e: BTreeMap<Vec<u8>, u64> = BTreeMap::new();
					for (_, v, _) in &exp {
						*e.entry((*v).clone()).or_insert(0) += 1;
					}
					if let Some(d) = multiset_diff(&e, &strip_rc(&got), &|k| short_bytes(k)) {
						return fail("iteration_mismatch", format!("col {} ({}): {}", c, show(o), d))
					}
				}
			}
		},
	}
	Ok(evals)
}

/// Column `c` (opened with options `o`) must hold nothing: none of `old_keys` readable, no value
/// in its tables, btree iteration empty.
pub fn verify_empty(db: &Db, c: u8, o: &ColumnOptions, old_keys: &[Vec<u8>]) -> Result<u64, Fail> {
	let mut evals = 0;
	for k in old_keys {
		if o.uniform && k.len() < 32 {
			continue
		}
		evals += 1;
		if kind(o) == Kind::Tree {
			match db.get_tree(c, k) {
				Ok(None) => {},
				Ok(Some(_)) => return fail("affected_column_not_empty;via=get_tree", format!("col {} ({}): tree {} still readable", c, show(o), short_bytes(k))),
				Err(e) => return fail("get_error", format!("col {}: get_tree error {}", c, e)),
			}
		} else {
			match db.get(c, k) {
				Ok(None) => {},
				Ok(Some(v)) => return fail("affected_column_not_empty;via=get", format!("col {} ({}): old key {} still reads {} (len {})", c, show(o), short_bytes(k), short_bytes(&v), v.len())),
				Err(e) => return fail("get_error", format!("col {} ({}): get({}) error {}", c, show(o), short_bytes(k), e)),
			}
		}
	}
	evals += 1;
	if kind(o) == Kind::Btree {
		let mut it = match db.iter(c) {
			Ok(it) => it,
			Err(e) => return fail("iter_error", format!("col {}: iter error {}", c, e)),
		};
		if let Err(e) = it.seek_to_first() {
			return fail("iter_error", format!("col {}: seek_to_first error {}", c, e))
		}
		match it.next() {
			Ok(None) => {},
			Ok(Some((k, _))) => return fail("affected_column_not_empty;via=btree_iter", format!("col {} ({}): iteration yields {}", c, show(o), short_bytes(&k))),
			Err(e) => return fail("iter_error", format!("col {}: next error {}", c, e)),
		}
	} else {
		let got = iter_values(db, c)?;
		if !got.is_empty() {
			let n: u64 = got.values().sum();
			let (first, _) = got.iter().next().unwrap();
			return fail("affected_column_not_empty;via=iter_values", format!("col {} ({}): value tables still hold {} values, e.g. {} (rc {})", c, show(o), n, short_bytes(&first.0), first.1))
		}
	}
	Ok(evals)
}

/// Transactions that make a (so far empty) column of options `o` hold a few entries; returns
/// the data to expect.
pub fn probe_content(rng: &mut Rng, c: u8, o: &ColumnOptions) -> (Vec<DbOp>, ColData) {
	let mut tmp = Content::new(rng, &[o.clone()], 6, false);
	tmp.simple = true;
	let mut tx = vec![];
	for _ in 0..4 {
		for (_, op) in tmp.gen_tx(rng, 3, &[0]) {
			tx.push((c, op));
		}
	}
	(tx, tmp.data.remove(0))
}
