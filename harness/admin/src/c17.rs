//! C17: column administration and option checks never touch other columns' data.
//!
//! (a) metadata round trip, exhaustive over the 384 option combinations x 10 (layout, position)
//! (b) opening with mismatching options: all ordered pairs of valid (stored, requested) column
//!     options + column-count changes + multi-column changes + missing / empty directories
//! (c) add_column / drop_last_column / reset_column / clear_column on seeded databases of mixed
//!     column kinds, cleanly closed or with unreplayed logs

use crate::{
	content::{fail, probe_content, share_node, verify_col, verify_empty, Content, Fail},
	opts::{self, combo, diff_fields, show, show_all, valid_combos, N_COMBOS},
};
use parity_db::{clear_column, ColumnOptions, Db, Options};
use crate::util::{column_files, diff_hashes, err_kind, file_class, hashes, subdirs, Hashes};
use pv::{
	dbutil::{self, Handle},
	json::J,
	scratch::{catch, copy_dir, panic_site, Scratch},
	Ctx, Report, Rng,
};
use std::{collections::BTreeSet, path::Path};

// ---------------------------------------------------------------------------------------------
// (a) metadata round trip
// ---------------------------------------------------------------------------------------------

/// (layout size, position) pairs: 1..4 columns, every position; plus wide layouts around the
/// points where the textual column index gains a digit (10, 100) and the u8 maximum, at the first,
/// middle and last positions (a position-sensitive loader, e.g. one ordering `col10` before
/// `col2`, only shows with more than 10 columns).
fn layouts() -> Vec<(usize, usize)> {
	let mut v = vec![];
	for n in 1..=4 {
		for p in 0..n {
			v.push((n, p));
		}
	}
	for n in [10usize, 11, 12, 13, 21, 100, 101, 255] {
		let mut ps = vec![0, 1, 2, n / 2, n - 2, n - 1];
		ps.sort();
		ps.dedup();
		for p in ps {
			v.push((n, p));
		}
	}
	v
}

pub fn roundtrip_total() -> u64 {
	(layouts().len() * N_COMBOS) as u64
}

fn fresh_version(scr: &Scratch) -> u32 {
	let d = scr.sub("fresh");
	let o = Options::with_columns(&d, 1);
	drop(Db::open_or_create(&o).expect("create fresh db"));
	let v = Options::load_metadata(&d).expect("load").expect("metadata").version;
	let _ = std::fs::remove_dir_all(&d);
	v
}

fn roundtrip_case(rep: &mut Report, dir: &Path, version: u32, i: usize, n: usize, p: usize, seed: u64, verbose: bool) {
	let mut rng = Rng::new(seed ^ (i as u64 * 977 + n as u64 * 31 + p as u64));
	let mut cols: Vec<ColumnOptions> = (0..n).map(|_| combo(rng.usize(N_COMBOS))).collect();
	cols[p] = combo(i);
	let mut salt = [0u8; 32];
	rng.fill(&mut salt);
	let replay = J::obj()
		.set("part", J::s("a"))
		.set("combo", J::i(i as u64))
		.set("n", J::i(n as u64))
		.set("pos", J::i(p as u64))
		.set("case_seed", J::i(seed));
	let sig = |f: &str| format!("scenario=C17;part=roundtrip;failure={};cfg={}", f, show(&cols[p]));
	let _ = std::fs::remove_file(dir.join("metadata"));
	let mut o = Options::with_columns(dir, n as u8);
	o.columns = cols.clone();
	let r = catch(|| -> Result<(), Fail> {
		// validity rule cross-check (documented rules vs library)
		if cols[p].is_valid() != opts::is_valid(&cols[p]) {
			return fail("is_valid_disagrees_with_documented_rules", format!("{} is_valid() = {}", show(&cols[p]), cols[p].is_valid()))
		}
		if let Err(e) = o.write_metadata(dir, &salt) {
			return fail("write_metadata_error", format!("{}", e))
		}
		let bytes1 = std::fs::read(dir.join("metadata")).unwrap_or_default();
		let m = match Options::load_metadata(dir) {
			Ok(Some(m)) => m,
			Ok(None) => return fail("load_metadata_none", "metadata file written but load_metadata returned None"),
			Err(e) => return fail("load_metadata_error", format!("{} (file: {:?})", e, String::from_utf8_lossy(&bytes1))),
		};
		if m.columns.len() != n {
			return fail("column_count_changed", format!("wrote {} columns, loaded {}", n, m.columns.len()))
		}
		for c in 0..n {
			if m.columns[c] != cols[c] {
				let d = diff_fields(&m.columns[c], &cols[c]);
				return fail(
					format!("options_changed;field={}", d.join("+")),
					format!("column {} of {}: wrote {} loaded {}", c, n, show(&cols[c]), show(&m.columns[c])),
				)
			}
		}
		if m.salt != salt {
			return fail("salt_changed", "salt differs after the round trip")
		}
		if m.version != version {
			return fail("version_changed", format!("write_metadata stored version {} but a fresh database has {}", m.version, version))
		}
		// second generation: writing what was loaded gives the same file
		let mut o2 = Options::with_columns(dir, n as u8);
		o2.columns = m.columns.clone();
		if let Err(e) = o2.write_metadata(dir, &m.salt) {
			return fail("write_metadata_error", format!("{}", e))
		}
		let bytes2 = std::fs::read(dir.join("metadata")).unwrap_or_default();
		if bytes1 != bytes2 {
			return fail("metadata_file_unstable", "write(load(write(x))) differs from write(x)")
		}
		Ok(())
	});
	rep.evaluations += n as u64 + 4;
	rep.count("roundtrip_cases", 1);
	if opts::is_valid(&cols[p]) {
		rep.count("roundtrip_valid_cfg", 1);
	} else {
		rep.count("roundtrip_invalid_cfg", 1);
	}
	match r {
		Ok(Ok(())) => {
			if verbose {
				eprintln!("  roundtrip ok: {} at {}/{}", show(&cols[p]), p, n);
			}
		},
		Ok(Err(f)) => crate::util::violation(rep, sig(&f.failure), f.detail, replay),
		Err(p) => crate::util::violation(rep, sig(&format!("panic;site={}", panic_site(&p))), p, replay),
	}
}

pub fn part_a(ctx: &Ctx, rep: &mut Report) {
	let scr = Scratch::new("c17a");
	let version = fresh_version(&scr);
	let dir = scr.sub("meta");
	std::fs::create_dir_all(&dir).expect("mkdir");
	let lay = layouts();
	let mut idx = 0usize;
	for i in 0..N_COMBOS {
		for (n, p) in &lay {
			if idx % ctx.nshards == ctx.shard {
				ctx.mark(&format!("C17 a combo={} n={} p={}", i, n, p));
				roundtrip_case(rep, &dir, version, i, *n, *p, ctx.base_seed, false);
				rep.cases += 1;
			}
			idx += 1;
		}
	}
	rep.seen("a:roundtrip");
	ctx.checkpoint(rep);
}

// ---------------------------------------------------------------------------------------------
// (b) mismatching options
// ---------------------------------------------------------------------------------------------

#[derive(Clone, Copy, Debug, PartialEq, Eq)]
pub enum Mode {
	Open,
	OpenOrCreate,
	ReadOnly,
}

impl Mode {
	pub const ALL: [Mode; 3] = [Mode::Open, Mode::OpenOrCreate, Mode::ReadOnly];
	pub fn name(&self) -> &'static str {
		match self {
			Mode::Open => "open",
			Mode::OpenOrCreate => "open_or_create",
			Mode::ReadOnly => "open_read_only",
		}
	}
	pub fn call(&self, o: &Options) -> parity_db::Result<Db> {
		match self {
			Mode::Open => Db::open(o),
			Mode::OpenOrCreate => Db::open_or_create(o),
			Mode::ReadOnly => Db::open_read_only(o),
		}
	}
}

/// stored images that hold an empty (reclaimed) log file next to a pending one
pub static EMPTY_LOG_IMAGES: std::sync::atomic::AtomicU64 = std::sync::atomic::AtomicU64::new(0);

struct Stored {
	scr: Scratch,
	cols: Vec<ColumnOptions>,
	logs_pending: bool,
	base: Hashes,
}

impl Stored {
	fn dir(&self) -> std::path::PathBuf {
		self.scr.sub("db")
	}
}

/// Create a database with the given columns and a little content in each; cleanly closed, or
/// (logs_pending) a byte image taken while the last commits were only in flushed logs.
fn build_small(rng: &mut Rng, cols: &[ColumnOptions], logs_pending: bool) -> Result<Stored, String> {
	let scr = Scratch::new("c17b");
	let dir = scr.sub("db");
	let mut content = Content::new(rng, cols, 8, false);
	content.simple = true;
	let all: Vec<usize> = (0..cols.len()).collect();
	let mut o = Options::with_columns(&dir, cols.len() as u8);
	o.columns = cols.to_vec();
	if !logs_pending {
		let db = Db::open_or_create(&o).map_err(|e| format!("create: {}", e))?;
		for _ in 0..3 {
			let tx = content.gen_tx(rng, 6, &all);
			db.commit_changes(tx).map_err(|e| format!("commit: {}", e))?;
		}
		drop(db);
	} else {
		o.with_background_thread = false;
		let live = scr.sub("live");
		o.path = live.clone();
		let db = Handle::new(Db::open_or_create(&o).map_err(|e| format!("create: {}", e))?);
		// two log files are written, applied and reclaimed (both end up EMPTY in the log pool),
		// then one of them is used again: the image holds one pending log and one empty log file
		for _ in 0..2 {
			let tx = content.gen_tx(rng, 6, &all);
			db.commit_changes(tx).map_err(|e| format!("commit: {}", e))?;
			db.process_commits().map_err(|e| format!("process_commits: {}", e))?;
			db.flush_logs().map_err(|e| format!("flush_logs: {}", e))?;
		}
		dbutil::drain(&db).map_err(|e| format!("drain: {}", e))?;
		let tx = content.gen_tx(rng, 6, &all);
		db.commit_changes(tx).map_err(|e| format!("commit: {}", e))?;
		db.process_commits().map_err(|e| format!("process_commits: {}", e))?;
		db.flush_logs().map_err(|e| format!("flush_logs: {}", e))?;
		copy_dir(&live, &dir).map_err(|e| format!("copy: {}", e))?;
		db.close();
		let _ = std::fs::remove_dir_all(&live);
	}
	let base = hashes(&dir);
	if logs_pending && dbutil::list_files(&dir).iter().any(|(n, l)| n.starts_with("log") && *l == 0) {
		EMPTY_LOG_IMAGES.fetch_add(1, std::sync::atomic::Ordering::Relaxed);
	}
	Ok(Stored { scr, cols: cols.to_vec(), logs_pending, base })
}

/// One attempt to open `st` with `req` in `mode`; must fail and leave every file as it was.
/// Returns false when the stored database has to be rebuilt (it was modified or opened).
fn mismatch_attempt(rep: &mut Report, st: &Stored, req: &[ColumnOptions], mode: Mode, class: &str, replay: &J, verbose: bool) -> bool {
	let dir = st.dir();
	let mut o = Options::with_columns(&dir, req.len() as u8);
	o.columns = req.to_vec();
	let r = catch(|| mode.call(&o).map(|db| drop(db)));
	rep.evaluations += 2;
	rep.count("mismatch_attempts", 1);
	let sigbase = format!("scenario=C17;part=mismatch;mode={};change={}", mode.name(), class);
	let mut intact = true;
	match r {
		Ok(Err(e)) => {
			rep.count(&format!("mismatch_err_{}", err_kind(&e)), 1);
			if verbose {
				eprintln!("  {} with {} on stored {} -> Err({})", mode.name(), show_all(req), show_all(&st.cols), e);
			}
		},
		Ok(Ok(())) => {
			crate::util::violation(rep, 
				format!("{};failure=open_mismatch_accepted", sigbase),
				format!("{} succeeded on a database stored as [{}] when asked for [{}]", mode.name(), show_all(&st.cols), show_all(req)),
				replay.clone(),
			);
			intact = false;
		},
		Err(p) => {
			crate::util::violation(rep, format!("{};failure=panic;site={}", sigbase, panic_site(&p)), format!("{} on stored [{}] requested [{}]: {}", mode.name(), show_all(&st.cols), show_all(req), p), replay.clone());
			intact = false;
		},
	}
	let after = hashes(&dir);
	let d = diff_hashes(&st.base, &after, true);
	if !d.is_empty() {
		let classes: BTreeSet<String> = d.iter().map(|x| file_class(x.split(':').next().unwrap_or(""))).collect();
		crate::util::violation(rep, 
			format!("{};failure=open_mismatch_modified_files;files={}", sigbase, classes.into_iter().collect::<Vec<_>>().join("+")),
			format!("{} on stored [{}] requested [{}] (logs pending: {}): files changed: {}", mode.name(), show_all(&st.cols), show_all(req), st.logs_pending, d.join(", ")),
			replay.clone(),
		);
		intact = false;
	}
	intact
}

fn stored_layout(rng: &mut Rng, v: usize, valid: &[usize]) -> (Vec<ColumnOptions>, usize) {
	// every fifth stored configuration lives in a wide database (more than 10 columns)
	let n = if v % 5 == 4 { rng.range(10, 13) as usize } else { rng.range(1, 3) as usize };
	let p = rng.usize(n);
	let mut cols: Vec<ColumnOptions> = (0..n).map(|_| combo(*rng.pick(valid))).collect();
	cols[p] = combo(v);
	(cols, p)
}

/// All requested option sets for one stored configuration `v` (index into the 384 combos).
/// `only`: restrict to one requested combination (replay).
fn mismatch_stored(ctx: &Ctx, rep: &mut Report, v: usize, seed: u64, logs_pending: bool, only: Option<usize>) {
	let valid = valid_combos();
	let mut rng = Rng::new(seed);
	let (cols, p) = stored_layout(&mut rng, v, &valid);
	let verbose = ctx.replay.is_some();
	let mut st = match catch(|| build_small(&mut Rng::new(seed).derive(1), &cols, logs_pending)) {
		Ok(Ok(s)) => s,
		Ok(Err(e)) => {
			rep.inconclusive(format!("C17 b: cannot build stored database [{}]: {}", show_all(&cols), e));
			return
		},
		Err(pm) => {
			crate::util::violation(rep, 
				format!("scenario=C17;part=mismatch;failure=panic;site={};phase=build", panic_site(&pm)),
				format!("building [{}]: {}", show_all(&cols), pm),
				J::obj().set("part", J::s("b")).set("stored", J::i(v as u64)).set("case_seed", J::i(seed)).set("logs", J::Bool(logs_pending)),
			);
			return
		},
	};
	if logs_pending {
		rep.count("mismatch_stored_with_pending_logs", 1);
		rep.count("mismatch_stored_with_empty_log_file", EMPTY_LOG_IMAGES.swap(0, std::sync::atomic::Ordering::Relaxed).min(1));
	}
	rep.count("mismatch_stored_dbs", 1);
	// positive control: the stored options themselves open (on a copy, to keep the image)
	{
		let ctl = st.scr.sub("ctl");
		let _ = copy_dir(&st.dir(), &ctl);
		let mut o = Options::with_columns(&ctl, cols.len() as u8);
		o.columns = cols.clone();
		match catch(|| Db::open(&o).map(|d| drop(d))) {
			Ok(Ok(())) => rep.count("mismatch_control_open_ok", 1),
			Ok(Err(e)) => rep.inconclusive(format!("C17 b: control open of [{}] failed: {}", show_all(&cols), e)),
			Err(pm) => rep.inconclusive(format!("C17 b: control open of [{}] panicked: {}", show_all(&cols), pm)),
		}
		let _ = std::fs::remove_dir_all(&ctl);
	}
	let attempt = |rep: &mut Report, st: &mut Stored, req: Vec<ColumnOptions>, class: String, r_idx: i64| {
		for mode in Mode::ALL {
			let replay = J::obj()
				.set("part", J::s("b"))
				.set("stored", J::i(v as u64))
				.set("requested", J::i(r_idx))
				.set("case_seed", J::i(seed))
				.set("logs", J::Bool(logs_pending));
			ctx.mark(&format!("C17 b stored={} req={} mode={} seed={}", v, r_idx, mode.name(), seed));
			if !mismatch_attempt(rep, st, &req, mode, &class, &replay, verbose) {
				// rebuild so that later attempts start from a pristine database
				match catch(|| build_small(&mut Rng::new(seed).derive(1), &cols, logs_pending)) {
					Ok(Ok(s)) => *st = s,
					_ => return false,
				}
			}
		}
		true
	};
	// every other valid requested configuration for column p
	for r in &valid {
		if *r == v {
			continue
		}
		if let Some(o) = only {
			if o != *r {
				continue
			}
		}
		let mut req = cols.clone();
		req[p] = combo(*r);
		let d = diff_fields(&cols[p], &req[p]);
		let class = if d.len() == 1 { d[0].to_string() } else { format!("fields{}", d.len()) };
		if d.len() == 1 {
			rep.seen(format!("b:{}>{}", show(&cols[p]), d[0]));
			rep.count("mismatch_single_field_pairs", 1);
		}
		rep.count("mismatch_pairs", 1);
		if !attempt(rep, &mut st, req, class, *r as i64) {
			return
		}
		rep.cases += 1;
	}
	if only.is_none() || only == Some(N_COMBOS) {
		// column count +1 / -1 and changes in several columns at once
		let mut more = cols.clone();
		more.push(combo(*rng.pick(&valid)));
		rep.seen(format!("b:{}>count+1", show(&cols[p])));
		rep.count("mismatch_count_changes", 1);
		if !attempt(rep, &mut st, more, "count+1".into(), N_COMBOS as i64) {
			return
		}
		let mut less = cols.clone();
		less.pop();
		rep.seen(format!("b:{}>count-1", show(&cols[p])));
		rep.count("mismatch_count_changes", 1);
		if !attempt(rep, &mut st, less, "count-1".into(), N_COMBOS as i64) {
			return
		}
		if cols.len() >= 2 {
			// the stored options in another order: two differing columns swapped
			for _ in 0..2 {
				let a = rng.usize(cols.len());
				let b = rng.usize(cols.len());
				if cols[a] == cols[b] {
					continue
				}
				let mut req = cols.clone();
				req.swap(a, b);
				rep.count("mismatch_swapped_columns", 1);
				if !attempt(rep, &mut st, req, "swapped_columns".into(), N_COMBOS as i64) {
					return
				}
			}
			for _ in 0..3 {
				let mut req = cols.clone();
				for c in req.iter_mut() {
					if rng.chance(2, 3) {
						*c = combo(*rng.pick(&valid));
					}
				}
				if req == cols {
					continue
				}
				rep.count("mismatch_multi_column", 1);
				if !attempt(rep, &mut st, req, "multi_column".into(), N_COMBOS as i64) {
					return
				}
			}
		}
		rep.cases += 1;
	}
	ctx.checkpoint(rep);
}

/// Db::open on a path that does not exist / on an existing empty directory.
fn missing_cases(ctx: &Ctx, rep: &mut Report, seed: u64) {
	let valid = valid_combos();
	let mut rng = Rng::new(seed);
	let verbose = ctx.replay.is_some();
	for case in ["missing_path", "missing_nested", "empty_dir"] {
		for mode in [Mode::Open, Mode::ReadOnly] {
			let scr = Scratch::new("c17m");
			let n = rng.range(1, 3) as usize;
			let cols: Vec<ColumnOptions> = (0..n).map(|_| combo(*rng.pick(&valid))).collect();
			let dir = match case {
				"missing_path" => scr.sub("nodb"),
				"missing_nested" => scr.sub("a").join("b").join("nodb"),
				_ => {
					let d = scr.sub("empty");
					std::fs::create_dir_all(&d).expect("mkdir");
					d
				},
			};
			let mut o = Options::with_columns(&dir, n as u8);
			o.columns = cols.clone();
			ctx.mark(&format!("C17 missing case={} mode={}", case, mode.name()));
			let replay = J::obj().set("part", J::s("missing")).set("case_seed", J::i(seed));
			let r = catch(|| mode.call(&o).map(|d| drop(d)));
			rep.evaluations += 2;
			rep.count("missing_db_opens", 1);
			rep.seen(format!("m:{}:{}", case, mode.name()));
			let sigbase = format!("scenario=C17;part=missing;mode={}", mode.name());
			match r {
				Ok(Err(e)) => {
					if verbose {
						eprintln!("  {} {} -> Err({})", mode.name(), case, e);
					}
				},
				Ok(Ok(())) => crate::util::violation(rep, format!("{};failure=open_missing_accepted;case={}", sigbase, case), format!("{} without create succeeded on {}", mode.name(), case), replay.clone()),
				Err(p) => crate::util::violation(rep, format!("{};failure=panic;site={};case={}", sigbase, panic_site(&p), case), p, replay.clone()),
			}
			// nothing may have been created below the scratch root
			let mut created = vec![];
			if case == "empty_dir" {
				for (n, _) in hashes(&dir) {
					created.push(n);
				}
				for d in subdirs(&dir) {
					created.push(format!("{}/", d));
				}
			} else if let Ok(rd) = std::fs::read_dir(&scr.path) {
				for e in rd.flatten() {
					created.push(e.file_name().to_string_lossy().to_string());
				}
			}
			for f in created {
				crate::util::violation(rep, 
					format!("scenario=C17;failure=open_created_files;case={};file={};mode={}", case, f, mode.name()),
					format!("{} (no create) on {} returned an error but left '{}' behind in {}", mode.name(), case, f, if case == "empty_dir" { "the previously empty directory" } else { "the parent of the missing path" }),
					replay.clone(),
				);
			}
			rep.cases += 1;
		}
	}
	ctx.checkpoint(rep);
}

pub fn part_b(ctx: &Ctx, rep: &mut Report) {
	let valid = valid_combos();
	let rounds = ctx.tier.pick(1, 4);
	for round in 0..rounds {
		for (k, v) in valid.iter().enumerate() {
			if k % ctx.nshards != ctx.shard {
				continue
			}
			let seed = (Rng::new(ctx.base_seed ^ 0xB17).derive(*v as u64 * 16 + round as u64).next()) >> 2;
			// one in four stored databases is an image with unreplayed logs
			let logs = (k / ctx.nshards + round) % 4 == 3;
			mismatch_stored(ctx, rep, *v, seed, logs, None);
		}
	}
	missing_cases(ctx, rep, (Rng::new(ctx.seed ^ 0x3155).next()) >> 2);
}

// ---------------------------------------------------------------------------------------------
// (c) administration calls
// ---------------------------------------------------------------------------------------------

#[derive(Clone, Debug, PartialEq, Eq)]
pub enum AdminOp {
	Add(ColumnOptions),
	DropLast,
	Reset(usize, Option<ColumnOptions>),
	Clear(usize),
}

impl AdminOp {
	pub fn name(&self) -> &'static str {
		match self {
			AdminOp::Add(_) => "add_column",
			AdminOp::DropLast => "drop_last_column",
			AdminOp::Reset(_, None) => "reset_column_same",
			AdminOp::Reset(_, Some(_)) => "reset_column_new",
			AdminOp::Clear(_) => "clear_column",
		}
	}
}

pub struct Built {
	#[allow(dead_code)]
	pub scr: Scratch,
	pub dir: std::path::PathBuf,
	pub content: Content,
	pub thresholds: std::collections::HashMap<u8, u32>,
	pub logs_pending: bool,
	/// columns written by the commits that are only in the logs
	pub log_cols: BTreeSet<usize>,
	/// Some(true): the image without its log files was seen to lack the last commits
	pub selfcheck: Option<bool>,
}

pub fn base_options(dir: &Path, cols: &[ColumnOptions], thresholds: &std::collections::HashMap<u8, u32>) -> Options {
	let mut o = Options::with_columns(dir, cols.len() as u8);
	o.columns = cols.to_vec();
	o.compression_threshold = thresholds.clone();
	o
}

/// Seeded database of the given columns, filled through normal commits.
pub fn build_db(rng: &mut Rng, cols: &[ColumnOptions], logs_pending: bool, big: bool, txs: usize) -> Result<Built, String> {
	let scr = Scratch::new("c17c");
	let dir = scr.sub("db");
	let mut thresholds = std::collections::HashMap::new();
	for c in 0..cols.len() {
		if rng.chance(1, 3) {
			thresholds.insert(c as u8, rng.range(8, 64) as u32);
		}
	}
	let mut content = Content::new(rng, cols, 24, big);
	let all: Vec<usize> = (0..cols.len()).collect();
	let mut log_cols = BTreeSet::new();
	let mut selfcheck = None;
	if !logs_pending {
		let mut o = base_options(&dir, cols, &thresholds);
		let stepping = rng.chance(1, 3);
		o.with_background_thread = !stepping;
		let db = Handle::new(Db::open_or_create(&o).map_err(|e| format!("create: {}", e))?);
		for i in 0..txs {
			let tx = content.gen_tx(rng, 14, &all);
			db.commit_changes(tx).map_err(|e| format!("commit: {}", e))?;
			if stepping && i % 4 == 3 {
				dbutil::drain(&db).map_err(|e| format!("drain: {}", e))?;
			}
		}
		for c in 0..cols.len() {
			if let Some(op) = share_node(&db, rng, &mut content, c) {
				db.commit_changes(vec![op]).map_err(|e| format!("commit: {}", e))?;
			}
		}
		if stepping {
			dbutil::drain(&db).map_err(|e| format!("drain: {}", e))?;
		}
		db.close();
	} else {
		let live = scr.sub("live");
		let mut o = base_options(&live, cols, &thresholds);
		o.with_background_thread = false;
		let db = Handle::new(Db::open_or_create(&o).map_err(|e| format!("create: {}", e))?);
		for _ in 0..txs {
			let tx = content.gen_tx(rng, 14, &all);
			db.commit_changes(tx).map_err(|e| format!("commit: {}", e))?;
		}
		for c in 0..cols.len() {
			if let Some(op) = share_node(&db, rng, &mut content, c) {
				db.commit_changes(vec![op]).map_err(|e| format!("commit: {}", e))?;
			}
		}
		dbutil::drain(&db).map_err(|e| format!("drain: {}", e))?;
		let n_log = rng.range(1, 3);
		for _ in 0..n_log {
			let tx = content.gen_tx(rng, 14, &all);
			for (c, _) in &tx {
				log_cols.insert(*c as usize);
			}
			db.commit_changes(tx).map_err(|e| format!("commit: {}", e))?;
			db.process_commits().map_err(|e| format!("process_commits: {}", e))?;
			if rng.chance(1, 2) {
				db.flush_logs().map_err(|e| format!("flush_logs: {}", e))?;
			}
		}
		db.flush_logs().map_err(|e| format!("flush_logs: {}", e))?;
		copy_dir(&live, &dir).map_err(|e| format!("copy: {}", e))?;
		dbutil::make_drop_legal(&db).map_err(|e| format!("make_drop_legal: {}", e))?;
		db.close();
		let _ = std::fs::remove_dir_all(&live);
		// harness self-check (one image in five): without its log files the image must lack
		// the last commits, i.e. they really are only in the logs
		if rng.chance(1, 5) {
			let nolog = scr.sub("nolog");
			copy_dir(&dir, &nolog).map_err(|e| format!("copy: {}", e))?;
			for (name, _) in hashes(&nolog) {
				if name.starts_with("log") {
					let _ = std::fs::remove_file(nolog.join(&name));
				}
			}
			let o = base_options(&nolog, cols, &thresholds);
			let differs = match catch(|| -> bool {
				match Db::open(&o) {
					Ok(db) => log_cols.iter().any(|c| verify_col(&db, *c as u8, &cols[*c], &content.data[*c], &content.removed[*c]).is_err()),
					Err(_) => true,
				}
			}) {
				Ok(d) => d,
				Err(_) => true,
			};
			selfcheck = Some(differs);
			let _ = std::fs::remove_dir_all(&nolog);
		}
	}
	Ok(Built { scr, dir, content, thresholds, logs_pending, log_cols, selfcheck })
}

fn keys_of(content: &Content, c: usize) -> Vec<Vec<u8>> {
	let mut k = content.data[c].keys();
	k.extend(content.removed[c].iter().cloned());
	k
}

struct AdminOutcome {
	evals: u64,
}

fn admin_check(b: &mut Built, op: &AdminOp, rng: &mut Rng, rep: &mut Report, verbose: bool) -> Result<AdminOutcome, Fail> {
	let cols = b.content.opts.clone();
	let n = cols.len();
	let dir = &b.dir.clone();
	let mut evals = 0u64;
	let meta_before = match Options::load_metadata(dir) {
		Ok(Some(m)) => m,
		other => return fail("harness", format!("metadata of the source unreadable: {:?}", other.map(|m| m.is_some()))),
	};
	let before = hashes(dir);
	if b.logs_pending {
		let log_bytes: u64 = before.iter().filter(|(n, _)| n.starts_with("log")).map(|(_, v)| v.0).sum();
		if log_bytes == 0 {
			return fail("harness", "image was supposed to contain unreplayed logs but the log files are empty")
		}
		rep.count("admin_images_with_pending_logs", 1);
	}
	let mut o = base_options(dir, &cols, &b.thresholds);
	// expected resulting layout
	let (expected, affected): (Vec<ColumnOptions>, Option<usize>) = match op {
		AdminOp::Add(new) => {
			let mut e = cols.clone();
			e.push(new.clone());
			(e, Some(n))
		},
		AdminOp::DropLast => (cols[..n - 1].to_vec(), None),
		AdminOp::Reset(i, None) => (cols.clone(), Some(*i)),
		AdminOp::Reset(i, Some(new)) => {
			let mut e = cols.clone();
			e[*i] = new.clone();
			(e, Some(*i))
		},
		AdminOp::Clear(i) => (cols.clone(), Some(*i)),
	};
	let removed_col: Option<usize> = match op {
		AdminOp::Add(_) => None,
		AdminOp::DropLast => Some(n - 1),
		AdminOp::Reset(i, _) | AdminOp::Clear(i) => Some(*i),
	};
	let call = |o: &mut Options| match op {
		AdminOp::Add(new) => Db::add_column(o, new.clone()),
		AdminOp::DropLast => Db::drop_last_column(o),
		AdminOp::Reset(i, new) => Db::reset_column(o, *i as u8, new.clone()),
		AdminOp::Clear(i) => clear_column(dir, *i as u8),
	};
	// ---- one case in three: the call is first INTERRUPTED by an I/O failure at its k-th file
	// operation (the crate's own fault injector; every later operation of the call fails too).
	// Whatever the failed call left behind is "arbitrary content" for what follows: the metadata
	// must still be one of the two layouts, the database must open under the layout its metadata
	// declares with every other column intact, and the operation - repeated without the fault
	// unless the metadata says it already took effect - must leave what C17 says it leaves.
	let mut done_by_interrupted_call = false;
	if rng.chance(1, 3) {
		let k = match rng.below(4) {
			0 => rng.range(0, 12),
			1 => rng.range(0, 80),
			_ => rng.range(0, 700),
		} as usize;
		let mut o1 = o.clone();
		parity_db::set_number_of_allowed_io_operations(k);
		let r1 = catch(|| call(&mut o1));
		parity_db::set_number_of_allowed_io_operations(usize::MAX);
		rep.count("admin_calls_with_injected_fault", 1);
		match r1 {
			Err(p) => return fail(format!("panic;site={};interrupted=yes", panic_site(&p)), format!("{} with an I/O failure at file operation {} panicked: {}", op.name(), k, p)),
			Ok(Ok(())) => {
				// the fault point lies behind the call's last file operation
				o = o1;
				done_by_interrupted_call = true;
				rep.count("admin_fault_point_beyond_call", 1);
			},
			Ok(Err(_)) => {
				rep.count("admin_calls_interrupted", 1);
				evals += 2;
				let m = match Options::load_metadata(dir) {
					Ok(Some(m)) => m,
					Ok(None) => return fail("interrupted_call_removed_metadata", format!("{} failed at file operation {} and left no metadata file", op.name(), k)),
					Err(e) => return fail("interrupted_call_damaged_metadata", format!("{} failed at file operation {}; the metadata file is now unreadable: {}", op.name(), k, e)),
				};
				if m.salt != meta_before.salt || m.version != meta_before.version || (m.columns != cols && m.columns != expected) {
					return fail(
						"interrupted_call_damaged_metadata",
						format!("{} failed at file operation {}; the metadata now lists [{}] (before: [{}], after a completed call: [{}])", op.name(), k, show_all(&m.columns), show_all(&cols), show_all(&expected)),
					)
				}
				let took_effect = m.columns == expected && expected != cols;
				if took_effect {
					// the metadata already declares the new layout: the call counts as done
					o.columns = expected.clone();
					done_by_interrupted_call = true;
					rep.count("admin_interrupted_after_metadata_switch", 1);
				} else {
					// old layout: the database opens under it, the other columns are intact
					let mut oo = base_options(dir, &cols, &b.thresholds);
					// (no statistics: a handle that collects them rewrites the statistics block in
					// the header of every index file when it is closed, which would show up as a
					// modification of untouched files in the comparison below)
					oo.stats = false;
					if let Some(rc) = removed_col {
						oo.compression_threshold.remove(&(rc as u8));
					}
					match catch(|| Db::open(&oo)) {
						Err(p) => return fail(format!("panic;site={};interrupted=yes;phase=open", panic_site(&p)), format!("opening after {} failed at file operation {} panicked: {}", op.name(), k, p)),
						Ok(Err(e)) => return fail(format!("open_after_interrupted_call_failed;error={}", err_kind(&e)), format!("{} failed at file operation {}; Db::open under the unchanged layout now returns {}", op.name(), k, e)),
						Ok(Ok(db)) => {
							for c in 0..cols.len() {
								if Some(c) == removed_col {
									continue
								}
								match verify_col(&db, c as u8, &cols[c], &b.content.data[c], &b.content.removed[c]) {
									Ok(e) => evals += e,
									Err(f) => return fail(format!("untouched_column_changed;what={};interrupted=yes;col={}", f.failure, show(&cols[c])), format!("{} failed at file operation {}; afterwards: {}", op.name(), k, f.detail)),
								}
							}
							drop(db);
						},
					}
				}
			},
		}
	}
	let r = if done_by_interrupted_call { Ok(()) } else { call(&mut o) };
	evals += 1;
	if let Err(e) = r {
		return fail(format!("admin_call_failed;error={}", err_kind(&e)), format!("{} returned {}", op.name(), e))
	}
	if !matches!(op, AdminOp::Clear(_)) {
		evals += 1;
		if o.columns != expected {
			return fail("options_not_updated", format!("after {} the in/out options are [{}], expected [{}]", op.name(), show_all(&o.columns), show_all(&expected)))
		}
	}
	// metadata on disk
	evals += 3;
	match Options::load_metadata(dir) {
		Ok(Some(m)) => {
			if m.columns != expected {
				return fail("metadata_columns_wrong", format!("after {} the metadata lists [{}], expected [{}]", op.name(), show_all(&m.columns), show_all(&expected)))
			}
			if m.salt != meta_before.salt {
				return fail("metadata_salt_changed", format!("{} changed the salt", op.name()))
			}
			if m.version != meta_before.version {
				return fail("metadata_version_changed", format!("{} changed the version {} -> {}", op.name(), meta_before.version, m.version))
			}
		},
		Ok(None) => return fail("metadata_missing", format!("no metadata after {}", op.name())),
		Err(e) => return fail("metadata_unreadable", format!("after {}: {}", op.name(), e)),
	}
	// file level
	let after = hashes(dir);
	if let Some(rc) = removed_col {
		evals += 1;
		let left = column_files(&after, rc);
		if !left.is_empty() {
			return fail("affected_files_remain", format!("after {} files of column {} remain: {}", op.name(), rc, left.join(", ")))
		}
	}
	if !b.logs_pending {
		for c in 0..n {
			if Some(c) == removed_col {
				continue
			}
			evals += 1;
			let bf = column_files(&before, c);
			for f in &bf {
				match after.get(f) {
					None => return fail("untouched_file_removed", format!("{} (affecting column {:?}) removed {} of column {}", op.name(), removed_col, f, c)),
					Some(x) if x != &before[f] => return fail(format!("untouched_file_modified;file={}", file_class(f)), format!("{} (affecting column {:?}) modified {} of column {} ({:?} -> {:?})", op.name(), removed_col, f, c, before[f], x)),
					_ => {},
				}
			}
			for f in column_files(&after, c) {
				if !before.contains_key(&f) {
					return fail("untouched_file_created", format!("{} created {} of column {}", op.name(), f, c))
				}
			}
		}
		rep.count("admin_untouched_files_compared", 1);
	}
	// content level: open with the resulting options
	let mut ro = base_options(dir, &expected, &b.thresholds);
	if let Some(a) = affected {
		ro.compression_threshold.remove(&(a as u8));
	}
	let db = match Db::open(&ro) {
		Ok(db) => db,
		Err(e) => return fail(format!("open_after_admin_failed;error={}", err_kind(&e)), format!("Db::open with [{}] after {}: {}", show_all(&expected), op.name(), e)),
	};
	let check_untouched = |db: &Db, evals: &mut u64| -> Result<(), Fail> {
		for c in 0..expected.len() {
			if Some(c) == affected {
				continue
			}
			match verify_col(db, c as u8, &expected[c], &b.content.data[c], &b.content.removed[c]) {
				Ok(e) => *evals += e,
				Err(f) => {
					let from_log = if b.log_cols.contains(&c) { "yes" } else { "no" };
					return Err(Fail {
						failure: format!("untouched_column_changed;what={};col={};in_logs={}", f.failure, show(&expected[c]), from_log),
						detail: format!("after {} affecting column {:?}: {}", op.name(), removed_col.or(affected), f.detail),
					})
				},
			}
		}
		Ok(())
	};
	check_untouched(&db, &mut evals)?;
	if b.logs_pending && b.log_cols.iter().any(|c| Some(*c) != affected && *c < expected.len()) {
		rep.count("admin_untouched_columns_with_log_only_commits", 1);
	}
	let mut new_data = None;
	if let Some(a) = affected {
		let old = if a < n { keys_of(&b.content, a) } else { vec![] };
		let mut probes = old;
		for _ in 0..3 {
			probes.push(rng.bytes(32));
		}
		evals += verify_empty(&db, a as u8, &expected[a], &probes)?;
		// usable with its (new) options
		let (tx, data) = probe_content(rng, a as u8, &expected[a]);
		if let Err(e) = db.commit_changes(tx) {
			return fail("affected_column_unusable", format!("commit into column {} ({}) after {}: {}", a, show(&expected[a]), op.name(), e))
		}
		drop(db);
		let db = match Db::open(&ro) {
			Ok(db) => db,
			Err(e) => return fail(format!("open_after_admin_failed;error={};second=yes", err_kind(&e)), format!("second Db::open after {}: {}", op.name(), e)),
		};
		match verify_col(&db, a as u8, &expected[a], &data, &BTreeSet::new()) {
			Ok(e) => evals += e,
			Err(f) => return fail(format!("affected_column_unusable;what={}", f.failure), format!("column {} ({}) after {}: {}", a, show(&expected[a]), op.name(), f.detail)),
		}
		check_untouched(&db, &mut evals)?;
		drop(db);
		new_data = Some(data);
	} else {
		drop(db);
	}
	if verbose {
		eprintln!("  {} ok ({} evaluations)", op.name(), evals);
	}
	// the database (now cleanly closed) becomes the baseline of the next operation of the chain
	let c = &mut b.content;
	match (affected, new_data) {
		(Some(a), Some(data)) if a == n => {
			c.opts.push(expected[a].clone());
			c.fn_of_key.push(expected[a].preimage || expected[a].ref_counted);
			c.pools.push(crate::content::pool_for(rng, &expected[a], 24));
			c.data.push(data);
			c.removed.push(BTreeSet::new());
		},
		(Some(a), Some(data)) => {
			let uniform = expected[a].uniform;
			let mut gone: BTreeSet<Vec<u8>> = keys_of(c, a).into_iter().filter(|k| !uniform || k.len() >= 32).collect();
			for k in data.keys() {
				gone.remove(&k);
			}
			c.opts[a] = expected[a].clone();
			c.fn_of_key[a] = expected[a].preimage || expected[a].ref_counted;
			c.pools[a] = crate::content::pool_for(rng, &expected[a], 24);
			c.data[a] = data;
			c.removed[a] = gone;
		},
		_ => {
			c.opts.pop();
			c.fn_of_key.pop();
			c.pools.pop();
			c.data.pop();
			c.removed.pop();
		},
	}
	b.thresholds = ro.compression_threshold.clone();
	b.thresholds.retain(|k, _| (*k as usize) < expected.len());
	b.logs_pending = false;
	b.log_cols.clear();
	Ok(AdminOutcome { evals })
}

/// Column to reset / clear: in very wide databases mostly one whose two-digit id is a prefix of
/// three-digit ids (10..=25 vs 100..=255).
fn target(rng: &mut Rng, n: usize) -> usize {
	if n > 100 && rng.chance(2, 3) {
		rng.range(10, 25.min(n as u64 - 1)) as usize
	} else {
		rng.usize(n)
	}
}

fn random_op(rng: &mut Rng, n: usize, pal: &[ColumnOptions]) -> AdminOp {
	loop {
		let op = match rng.below(5) {
			0 => AdminOp::Add(rng.pick(pal).clone()),
			1 if n > 0 => AdminOp::DropLast,
			2 if n > 0 => AdminOp::Reset(target(rng, n), None),
			3 if n > 0 => AdminOp::Reset(target(rng, n), Some(rng.pick(pal).clone())),
			4 if n > 0 => AdminOp::Clear(target(rng, n)),
			_ => continue,
		};
		if matches!(op, AdminOp::Add(_)) && n >= 6 {
			continue
		}
		return op
	}
}

pub fn admin_case(ctx: &Ctx, rep: &mut Report, case_seed: u64) {
	let verbose = ctx.replay.is_some() || ctx.verbose;
	let mut rng = Rng::new(case_seed);
	let pal = opts::palette();
	// one case in eight administers a wide database (10-12 columns)
	// ... and one in twenty a very wide one (more than 100 columns: three-digit column ids in
	// file names next to two-digit ones)
	let n = if rng.chance(1, 20) { rng.range(101, 106) as usize } else if rng.chance(1, 8) { rng.range(10, 12) as usize } else { rng.range(1, 4) as usize };
	let cols: Vec<ColumnOptions> = (0..n).map(|_| rng.pick(&pal).clone()).collect();
	let logs = rng.chance(1, 2);
	let big = rng.chance(1, 4);
	let chain = *rng.pick(&[1usize, 1, 2, 3]);
	let txs = rng.range(3, ctx.tier.pick(10, 30)) as usize;
	let desc0 = format!("C17 c seed={} cols=[{}] logs={} chain={}", case_seed, show_all(&cols), logs, chain);
	ctx.mark(&desc0);
	let replay = J::obj().set("part", J::s("c")).set("case_seed", J::i(case_seed)).set("desc", J::s(desc0.clone()));
	rep.cases += 1;
	let mut built = match catch(|| build_db(&mut rng, &cols, logs, big, txs)) {
		Ok(Ok(b)) => b,
		Ok(Err(e)) => {
			rep.inconclusive(format!("C17 c: cannot build the source database: {} ({})", e, desc0));
			return
		},
		Err(p) => {
			crate::util::violation(rep, format!("scenario=C17;part=admin;failure=panic;site={};phase=build", panic_site(&p)), format!("{} :: {}", p, desc0), replay);
			return
		},
	};
	if verbose {
		eprintln!("  built: {} log_cols={:?} selfcheck={:?}", built.content.describe(), built.log_cols, built.selfcheck);
	}
	match built.selfcheck {
		Some(true) => rep.count("admin_image_selfcheck_confirmed", 1),
		Some(false) => rep.count("admin_image_selfcheck_no_difference", 1),
		None => {},
	}
	for step in 0..chain {
		let cur = built.content.opts.clone();
		let n = cur.len();
		let op = random_op(&mut rng, n, &pal);
		let logs_now = built.logs_pending;
		let desc = format!("{} step={} cols_now=[{}] op={:?}", desc0, step, show_all(&cur), op);
		ctx.mark(&desc);
		if verbose {
			eprintln!("  step {}: [{}] {:?}", step, show_all(&cur), op);
		}
		let affected_kind = match &op {
			AdminOp::Add(o) => show(o),
			AdminOp::DropLast => show(&cur[n - 1]),
			AdminOp::Reset(i, _) | AdminOp::Clear(i) => show(&cur[*i]),
		};
		let logs_s = if logs_now { "pending" } else { "clean" };
		let sig = |f: &str| format!("scenario=C17;part=admin;failure={};op={};logs={};affected={};step={}", f, op.name(), logs_s, affected_kind, step);
		let r = catch(|| admin_check(&mut built, &op, &mut rng, rep, verbose));
		match r {
			Ok(Ok(out)) => {
				rep.evaluations += out.evals;
				rep.count(&format!("admin_{}", op.name()), 1);
				rep.count(if logs_now { "admin_logs_pending" } else { "admin_clean" }, 1);
				if step > 0 {
					rep.count("admin_chained_ops", 1);
				}
				rep.seen(format!("c:{}:{}:{}:n{}", op.name(), logs_s, affected_kind, n));
				rep.sample(J::s(desc));
			},
			Ok(Err(f)) if f.failure.starts_with("harness") => {
				rep.inconclusive(format!("{}: {} ({})", f.failure, f.detail, desc));
				return
			},
			Ok(Err(f)) => {
				rep.evaluations += 1;
				crate::util::violation(rep, sig(&f.failure), format!("{} :: {}", f.detail, desc), replay);
				return
			},
			Err(p) => {
				crate::util::violation(rep, sig(&format!("panic;site={}", panic_site(&p))), format!("{} :: {}", p, desc), replay);
				return
			},
		}
	}
}

pub fn part_c(ctx: &Ctx, rep: &mut Report) {
	let n_cases = ctx.tier.pick(350u64, 8000);
	let mut seeder = Rng::new(ctx.seed ^ 0xAD317);
	let mut i = 0;
	while i < n_cases && ctx.time_left() {
		let case_seed = seeder.next() >> 2;
		admin_case(ctx, rep, case_seed);
		ctx.checkpoint(rep);
		i += 1;
		if crate::util::distinct_failure_classes() >= 30 || rep.get("failing_checks") >= 3000 {
			rep.notes.push(format!("shard {} stopped part (c) early: {} distinct failure classes, {} failing checks", ctx.shard, crate::util::distinct_failure_classes(), rep.get("failing_checks")));
			break
		}
	}
	if i < n_cases {
		rep.notes.push(format!("C17 c: shard {} stopped by its time budget after {} of {} cases", ctx.shard, i, n_cases));
	}
}

pub fn run(ctx: &Ctx, rep: &mut Report) {
	if let Some(j) = &ctx.replay {
		let seed = j.get("case_seed").and_then(|x| x.as_u64()).unwrap_or(1);
		match j.get("part").and_then(|x| x.as_str()).unwrap_or("c") {
			"a" => {
				let scr = Scratch::new("c17a");
				let version = fresh_version(&scr);
				let dir = scr.sub("meta");
				std::fs::create_dir_all(&dir).expect("mkdir");
				let g = |k: &str| j.get(k).and_then(|x| x.as_u64()).unwrap_or(0) as usize;
				roundtrip_case(rep, &dir, version, g("combo"), g("n").max(1), g("pos"), seed, true);
			},
			"b" => {
				let v = j.get("stored").and_then(|x| x.as_u64()).unwrap_or(0) as usize;
				let r = j.get("requested").and_then(|x| x.as_u64()).map(|x| x as usize);
				let logs = j.get("logs").and_then(|x| x.as_bool()).unwrap_or(false);
				mismatch_stored(ctx, rep, v, seed, logs, r);
			},
			"missing" => missing_cases(ctx, rep, seed),
			_ => admin_case(ctx, rep, seed),
		}
		return
	}
	part_a(ctx, rep);
	part_b(ctx, rep);
	part_c(ctx, rep);
}

pub fn spec() -> pv::Spec {
	pv::Spec::new(
		"C17",
		"exploration",
		"Three parts. (a) roundtrip: every one of the 2^7 x 3 = 384 column-option combinations (valid and invalid) is placed at \
		 every position of every 1..4-column layout and at the first / middle / last positions of 10, 11, 12, 13, 21, 100, 101 and 255-column layouts (remaining columns random combinations), written with \
		 Options::write_metadata and read with load_metadata: columns, salt and version must come back equal and re-writing \
		 must give the same file (fully enumerated: counter roundtrip_cases). (b) mismatch: for every valid stored \
		 column configuration (160) a small database of 1-3 columns (every fifth: 10-13 columns) is created (one in four as a byte image holding an unreplayed log \
		 and an empty, reclaimed log file) and opened with every other valid configuration of that column (all 160 x 159 ordered pairs, fully enumerated: \
		 counter mismatch_pairs), with one more / one fewer column, with two differing columns swapped and with several columns changed, through Db::open, \
		 open_or_create and open_read_only: each attempt must return Err and leave the (name, length, content hash) of every \
		 file unchanged (only the appearance of an empty lock file is ignored); plus opening missing paths and an empty \
		 directory. (c) admin: seeded databases of 1-4 (one in eight: 10-12, one in twenty: 101-106) columns drawn from 17 kinds (hash plain/preimage/rc/uniform/append-only, \
		 btree, multitree; compression variants), filled by 3..10 (thorough ..30) transactions, cleanly closed or copied while \
		 the last 1-3 commits were only in flushed logs (multitree columns additionally hold a node shared by two trees, so \
		 that refcount_* files exist); a chain of 1-3 operations out of add_column / drop_last_column / reset_column(None|Some) \
		 / clear_column, each followed by: metadata, in/out options, files of the affected column gone, files of untouched \
		 columns byte identical (clean sources), reopening with the resulting options and a full read-back of every untouched \
		 column against the harness model (including the commits that were only in the logs), emptiness of the affected column \
		 (all old keys absent, iteration empty) and its usability with the (new) options (write, reopen, read back). \
		 evaluations = individual comparisons (one per key read, iteration item, file set, metadata field, open attempt). \
		 distinct_nontrivial = distinct (stored configuration, changed field | count change) pairs of part (b) + distinct \
		 (operation, clean|pending logs, affected column kind, column count) tuples of part (c) + opened (missing-case, mode) pairs.",
	)
	.require("roundtrip_cases", roundtrip_total())
	.require("mismatch_swapped_columns", 50)
	.require("mismatch_pairs", 160 * 159)
	.require("mismatch_control_open_ok", 160)
	.require("mismatch_stored_with_pending_logs", 10)
	.require("mismatch_stored_with_empty_log_file", 5)
	.require("mismatch_count_changes", 320)
	.require("missing_db_opens", 6)
	.require("admin_add_column", 10)
	.require("admin_drop_last_column", 10)
	.require("admin_reset_column_same", 10)
	.require("admin_reset_column_new", 10)
	.require("admin_clear_column", 10)
	.require("admin_logs_pending", 40)
	.require("admin_untouched_columns_with_log_only_commits", 20)
	.require("admin_image_selfcheck_confirmed", 5)
	.require("admin_clean", 40)
	.assume("requested options that fail ColumnOptions::is_valid are excluded from the open-with-mismatch workload (Db::open asserts validity by contract); the metadata round trip covers them")
	.assume("reference counted btree columns and tree dereferences are not part of the administration workloads (known finding F4 / unobservable counts)")
	.budget(45, 420)
}
