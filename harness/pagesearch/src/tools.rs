//! External tool layers of C19: Miri child processes and the AddressSanitizer copy of this
//! binary. Build steps are done once per run by shard 0 (in a background thread) and announced
//! to the other shards through a stamp file; tool *infrastructure* failures are never violations.

use std::{
	os::unix::process::CommandExt,
	path::{Path, PathBuf},
	process::{Command, Stdio},
	time::{Duration, Instant},
};

/// Root of the harness workspace; `PDBV_HARNESS_DIR` overrides it (used to validate the monitor on a
/// scratch copy of the harness that points at a mutated copy of /repo).
pub fn harness() -> String {
	std::env::var("PDBV_HARNESS_DIR").unwrap_or_else(|_| "/verif/harness".to_string())
}
pub fn miri_dir() -> String {
	format!("{}/pagesearch/miri", harness())
}
pub fn miri_target() -> String {
	format!("{}/target-miri", harness())
}
pub fn asan_target() -> String {
	format!("{}/target-asan", harness())
}
pub fn asan_bin() -> String {
	format!("{}/x86_64-unknown-linux-gnu/release/pdbv-pagesearch", asan_target())
}
pub const MIRIFLAGS: &str = "-Zmiri-symbolic-alignment-check -Zmiri-strict-provenance";

/// Identifies one `check` invocation: pid + start time of the parent process of the shards.
pub fn run_token() -> String {
	let ppid = unsafe { libc::getppid() };
	let stat = std::fs::read_to_string(format!("/proc/{}/stat", ppid)).unwrap_or_default();
	// field 22 (starttime) counted after the closing parenthesis of the command name
	let start = stat.rsplit(')').next().and_then(|r| r.split_whitespace().nth(19)).unwrap_or("0").to_string();
	format!("{}-{}", ppid, start)
}

pub fn stamp_path(target: &str, token: &str) -> PathBuf {
	Path::new(target).join(format!(".pdbv-ready-{}", token))
}

fn clear_stamps(target: &str) {
	let _ = std::fs::create_dir_all(target);
	if let Ok(rd) = std::fs::read_dir(target) {
		for e in rd.flatten() {
			// stamps are unique per run; only clutter from runs long gone is removed (a concurrent
			// run of the other tier must keep its stamp)
			let old = e.metadata().ok().and_then(|m| m.modified().ok()).and_then(|t| t.elapsed().ok()).map_or(false, |d| d > Duration::from_secs(2 * 3600));
			if old && e.file_name().to_string_lossy().starts_with(".pdbv-ready-") {
				let _ = std::fs::remove_file(e.path());
			}
		}
	}
}

fn write_stamp(target: &str, token: &str, text: &str) {
	let p = stamp_path(target, token);
	let tmp = PathBuf::from(format!("{}.tmp", p.display()));
	let _ = std::fs::write(&tmp, text);
	let _ = std::fs::rename(&tmp, &p);
}

pub struct ChildResult {
	pub status: Option<std::process::ExitStatus>,
	pub timed_out: bool,
	pub stdout: String,
	pub stderr: String,
	pub wall: Duration,
}

fn scrub(cmd: &mut Command) {
	for k in ["RUSTUP_TOOLCHAIN", "CARGO_TARGET_DIR", "CARGO", "RUSTC", "RUSTC_WRAPPER", "CARGO_BUILD_TARGET", "CARGO_ENCODED_RUSTFLAGS"] {
		cmd.env_remove(k);
	}
	cmd.env("CARGO_NET_OFFLINE", "true");
}

/// Runs `cmd` in its own process group with output captured to files under `dir`; kills the whole
/// group at `deadline`. `alive()` is called about ten times a second while waiting.
pub fn run_captured(mut cmd: Command, dir: &Path, tag: &str, deadline: Instant, alive: &mut dyn FnMut()) -> ChildResult {
	let t0 = Instant::now();
	let _ = std::fs::create_dir_all(dir);
	let so = dir.join(format!("{}.{}.out", tag, std::process::id()));
	let se = dir.join(format!("{}.{}.err", tag, std::process::id()));
	let fo = std::fs::File::create(&so);
	let fe = std::fs::File::create(&se);
	let (fo, fe) = match (fo, fe) {
		(Ok(a), Ok(b)) => (a, b),
		_ =>
			return ChildResult {
				status: None,
				timed_out: false,
				stdout: String::new(),
				stderr: format!("cannot create capture files under {}", dir.display()),
				wall: t0.elapsed(),
			},
	};
	cmd.stdin(Stdio::null()).stdout(Stdio::from(fo)).stderr(Stdio::from(fe)).process_group(0);
	let mut child = match cmd.spawn() {
		Ok(c) => c,
		Err(e) =>
			return ChildResult {
				status: None,
				timed_out: false,
				stdout: String::new(),
				stderr: format!("cannot spawn {:?}: {}", cmd.get_program(), e),
				wall: t0.elapsed(),
			},
	};
	let pgid = child.id() as i32;
	let mut timed_out = false;
	let status = loop {
		match child.try_wait() {
			Ok(Some(st)) => break Some(st),
			Ok(None) => {},
			Err(_) => break None,
		}
		if Instant::now() >= deadline {
			timed_out = true;
			unsafe { libc::kill(-pgid, libc::SIGKILL) };
			let _ = child.wait();
			break None
		}
		alive();
		std::thread::sleep(Duration::from_millis(100));
	};
	// grandchildren (cargo -> cargo-miri -> miri) must not survive us
	unsafe { libc::kill(-pgid, libc::SIGKILL) };
	let stdout = std::fs::read_to_string(&so).unwrap_or_default();
	let stderr = String::from_utf8_lossy(&std::fs::read(&se).unwrap_or_default()).to_string();
	let _ = std::fs::remove_file(&so);
	let _ = std::fs::remove_file(&se);
	ChildResult { status, timed_out, stdout, stderr, wall: t0.elapsed() }
}

pub fn tail_chars(s: &str, n: usize) -> String {
	let v: Vec<char> = s.chars().collect();
	v[v.len().saturating_sub(n)..].iter().collect()
}

// ---------------------------------------------------------------------------------------------
// Miri

pub fn miri_command(seed: u64, count: u64, sweep: &str, verbose: bool) -> Command {
	let mut cmd = Command::new("cargo");
	cmd.args(["+nightly", "miri", "run", "-q", "--offline", "--manifest-path"])
		.arg(format!("{}/Cargo.toml", miri_dir()))
		.arg("--target-dir")
		.arg(miri_target())
		.arg("--")
		.arg(seed.to_string())
		.arg(count.to_string())
		.arg(if sweep.is_empty() { "-" } else { sweep });
	if verbose {
		cmd.arg("v");
	}
	cmd.current_dir(miri_dir());
	scrub(&mut cmd);
	cmd.env("RUSTFLAGS", "--cfg parity_db_verif").env("MIRIFLAGS", MIRIFLAGS);
	cmd
}

/// Build the Miri project (sysroot + /repo + dependencies + driver) by running zero cases.
/// Returns Ok(seconds) or Err(reason).
pub fn miri_prepare(dir: &Path, limit: Duration) -> Result<f64, String> {
	// offline resolution needs the lock file of /repo next to the manifest
	let lock = Path::new(&miri_dir()).join("Cargo.lock");
	let repo_lock = std::fs::read("/repo/Cargo.lock").unwrap_or_default();
	if !repo_lock.is_empty() && std::fs::read(&lock).unwrap_or_default() != repo_lock {
		let _ = std::fs::write(&lock, &repo_lock);
	}
	let r = run_captured(miri_command(0, 0, "", false), dir, "miri-build", Instant::now() + limit, &mut || {});
	if r.timed_out {
		return Err(format!("the Miri build did not finish within {:?}", limit))
	}
	match r.status {
		Some(st) if st.success() && r.stdout.contains("MIRI_CASES 0") => Ok(r.wall.as_secs_f64()),
		st => Err(format!("the Miri build / smoke run failed ({:?}): {}", st, tail_chars(&r.stderr, 1500))),
	}
}

// ---------------------------------------------------------------------------------------------
// AddressSanitizer copy

pub fn asan_build(dir: &Path, limit: Duration) -> Result<f64, String> {
	let mut cmd = Command::new("cargo");
	cmd.args(["+nightly", "build", "--release", "--offline", "--target", "x86_64-unknown-linux-gnu", "-p", "pdbv-pagesearch", "--target-dir"]);
	cmd.arg(asan_target());
	cmd.current_dir(harness());
	scrub(&mut cmd);
	cmd.env("RUSTFLAGS", "--cfg parity_db_verif -Zsanitizer=address -Cforce-frame-pointers=yes");
	let r = run_captured(cmd, dir, "asan-build", Instant::now() + limit, &mut || {});
	if r.timed_out {
		return Err(format!("the AddressSanitizer build did not finish within {:?}", limit))
	}
	match r.status {
		Some(st) if st.success() && Path::new(&asan_bin()).exists() => Ok(r.wall.as_secs_f64()),
		st => Err(format!("the AddressSanitizer build failed ({:?}): {}", st, tail_chars(&r.stderr, 1500))),
	}
}

pub fn asan_command(seed: u64, seconds: u64, max_cases: u64) -> Command {
	let mut cmd = Command::new(asan_bin());
	cmd.arg("--worker").arg(seed.to_string()).arg(seconds.to_string()).arg(max_cases.to_string());
	cmd.env("ASAN_OPTIONS", "halt_on_error=1:abort_on_error=1:detect_leaks=0:symbolize=1");
	cmd
}

// ---------------------------------------------------------------------------------------------
// once-per-run preparation (shard 0) and the wait of the other shards

/// Started by shard 0: builds in the background, then publishes "ok <seconds>" / "fail <reason>".
pub fn spawn_prepare(token: String, dir: PathBuf, with_miri: bool, with_asan: bool) {
	clear_stamps(&miri_target());
	if with_asan {
		clear_stamps(&asan_target());
	}
	let (t1, d1) = (token.clone(), dir.clone());
	if with_miri {
		std::thread::spawn(move || {
		let text = match miri_prepare(&d1, Duration::from_secs(1200)) {
			Ok(s) => format!("ok {:.1}", s),
			Err(e) => format!("fail {}", e),
		};
		write_stamp(&miri_target(), &t1, &text);
		});
	}
	if with_asan {
		std::thread::spawn(move || {
			let text = match asan_build(&dir, Duration::from_secs(1800)) {
				Ok(s) => format!("ok {:.1}", s),
				Err(e) => format!("fail {}", e),
			};
			write_stamp(&asan_target(), &token, &text);
		});
	}
}

/// Ok(build seconds) once the stamp says ok; Err(reason) on failure or when `limit` passes.
pub fn wait_ready(target: &str, token: &str, limit: Duration, alive: &mut dyn FnMut()) -> Result<f64, String> {
	let t0 = Instant::now();
	let p = stamp_path(target, token);
	loop {
		if let Ok(s) = std::fs::read_to_string(&p) {
			if let Some(r) = s.strip_prefix("ok ") {
				return Ok(r.trim().parse().unwrap_or(0.0))
			}
			return Err(s.strip_prefix("fail ").unwrap_or(&s).to_string())
		}
		if t0.elapsed() > limit {
			return Err(format!("no build result appeared in {} within {:?}", target, limit))
		}
		alive();
		std::thread::sleep(Duration::from_millis(100));
	}
}
