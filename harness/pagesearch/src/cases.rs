//! C19: case generator, independent oracle and per-case checks.
//!
//! This file is shared VERBATIM between the native engine (`pdbv-pagesearch`) and the Miri
//! mini-project (`pagesearch/miri`, included with `#[path]`), so both layers decide exactly the
//! same cases with exactly the same oracle. It depends only on `crate::rng::Rng` (the harness'
//! self-contained xorshift64* generator) and on the verification hook
//! `parity_db::verif_index::find_entry_both`.
//!
//! Layout facts derived from /repo/src/index.rs (not taken from the library at run time):
//!   entry          = partial_key << (ib + 14) | address          (0 = empty slot)
//!   key_prefix     = first 8 key bytes, big endian; its top `ib` bits select the page
//!   exact compare  : (key_prefix << ib) >> (ib + 14)  ==  entry >> (ib + 14)   and entry != 0
//!   fast compare   : low 32 bits of (key_prefix << ib) >> s  ==  low 32 bits of entry >> s,
//!                    s = max(32, ib + 14); when that key word is 0 the scalar search is used.
//!   For ib = 16 (17) the fast path ignores the 2 (1) lowest partial-key bits = entry bits
//!   30..31 (31); for ib >= 18 both comparisons look at the same bits.

use crate::rng::Rng;

pub const SLOTS: usize = 64;
pub const IB_MIN: u8 = 16;
/// ib + 14 must stay < 64: at ib >= 50 `entry >> (ib + 14)` is a shift by >= 64 bits in both
/// search paths (a panic with overflow checks, a masked shift without); ib = 49 would still be
/// well defined (1-bit partial key) but no table of that size can exist, the sweep ends at 48.
pub const IB_MAX: u8 = 48;
pub const MAX_QUERIES: usize = 8;

pub const PAGE_KINDS: [&str; 8] =
	["random_full", "sparse", "all_empty", "duplicates", "zero_partial", "near_miss", "high32_lanes", "sweep"];
pub const KEY_KINDS: [&str; 5] = ["target", "page_slot", "random", "near_miss", "zero_compared"];

#[inline]
pub fn address_bits(ib: u8) -> u32 {
	ib as u32 + 6 + 8
}
#[inline]
pub fn fast_shift(ib: u8) -> u32 {
	let a = address_bits(ib);
	if a < 32 {
		32
	} else {
		a
	}
}
/// partial key of the search key as the scalar path sees it
#[inline]
pub fn key_partial(ib: u8, key: u64) -> u64 {
	(key << ib as u32) >> address_bits(ib)
}
/// the 32-bit word of the search key the vectorised path compares
#[inline]
pub fn key_compared(ib: u8, key: u64) -> u32 {
	((key << ib as u32) >> fast_shift(ib)) as u32
}
#[inline]
pub fn entry_partial(ib: u8, e: u64) -> u64 {
	e >> address_bits(ib)
}
#[inline]
pub fn entry_compared(ib: u8, e: u64) -> u32 {
	(e >> fast_shift(ib)) as u32
}
/// entry bits that belong to the partial key but are ignored by the vectorised path
#[inline]
pub fn dropped_mask(ib: u8) -> u64 {
	let a = address_bits(ib);
	let s = fast_shift(ib);
	((1u64 << s) - 1) & !((1u64 << a) - 1)
}
#[inline]
pub fn address_mask(ib: u8) -> u64 {
	(1u64 << address_bits(ib)) - 1
}

/// A key prefix whose partial key equals the one stored in `entry`; the page-selecting top bits
/// and the 14 bits below the partial key are taken from `noise`.
pub fn key_for_entry(ib: u8, entry: u64, noise: u64) -> u64 {
	let partial = entry >> address_bits(ib); // < 2^(50-ib)
	let top = if ib == 0 { 0 } else { (noise >> (64 - ib as u32)) << (64 - ib as u32) };
	top | (partial << 14) | (noise & 0x3fff)
}

// ---------------------------------------------------------------------------------------------
// oracle

/// first non-empty slot >= p whose full partial key equals the key's; None = absent
pub fn spec_exact(ib: u8, key: u64, p: usize, page: &[u64; SLOTS]) -> Option<usize> {
	let want = key_partial(ib, key);
	let mut i = p;
	while i < SLOTS {
		if page[i] != 0 && entry_partial(ib, page[i]) == want {
			return Some(i)
		}
		i += 1;
	}
	None
}

/// what the vectorised search must return
pub fn spec_fast(ib: u8, key: u64, p: usize, page: &[u64; SLOTS]) -> Option<usize> {
	let want = key_compared(ib, key);
	if want == 0 {
		return spec_exact(ib, key, p, page)
	}
	let mut i = p;
	while i < SLOTS {
		if entry_compared(ib, page[i]) == want {
			return Some(i)
		}
		i += 1;
	}
	None
}

// ---------------------------------------------------------------------------------------------
// one case

#[derive(Clone)]
pub struct Case {
	pub ib: u8,
	pub key: u64,
	pub p: usize,
	pub page: [u64; SLOTS],
	pub page_kind: u8,
	pub key_kind: u8,
}

#[derive(Clone, Copy, Debug, PartialEq, Eq)]
pub struct Outcome {
	pub fast: Option<usize>,
	pub exact: Option<usize>,
	/// the key's compared word is zero: the vectorised entry point must defer to the scalar search
	pub fallback: bool,
}

impl Outcome {
	/// 0 both absent, 1 same slot, 2 fast earlier than exact, 3 fast found / exact absent,
	/// 4 fallback found, 5 fallback absent
	pub fn class(&self) -> u8 {
		match (self.fallback, self.fast, self.exact) {
			(true, Some(_), _) => 4,
			(true, None, _) => 5,
			(false, None, _) => 0,
			(false, Some(a), Some(b)) if a == b => 1,
			(false, Some(_), Some(_)) => 2,
			(false, Some(_), None) => 3,
		}
	}
}
pub const OUTCOME_CLASSES: [&str; 6] =
	["absent", "found_same", "fast_earlier", "fast_only", "zero_word_found", "zero_word_absent"];

#[derive(Clone, Debug)]
pub struct Failure {
	pub kind: &'static str,
	pub detail: String,
}

pub fn page_bytes(page: &[u64; SLOTS]) -> [u8; 512] {
	let mut b = [0u8; 512];
	let mut i = 0;
	while i < SLOTS {
		b[i * 8..i * 8 + 8].copy_from_slice(&page[i].to_le_bytes());
		i += 1;
	}
	b
}

struct Head {
	ib: u8,
	key: u64,
	p: usize,
}
impl std::fmt::Display for Head {
	fn fmt(&self, f: &mut std::fmt::Formatter<'_>) -> std::fmt::Result {
		write!(
			f,
			"ib={} key_prefix={:#018x} (partial {:#x}, compared word {:#010x}) p={}",
			self.ib,
			self.key,
			key_partial(self.ib, self.key),
			key_compared(self.ib, self.key),
			self.p
		)
	}
}

fn res(r: (u64, usize)) -> String {
	if r.0 == 0 {
		format!("absent(entry=0,slot={})", r.1)
	} else {
		format!("slot {} entry {:#018x}", r.1, r.0)
	}
}
fn want(page: &[u64; SLOTS], s: Option<usize>) -> String {
	match s {
		None => "absent".to_string(),
		Some(i) => format!("slot {} entry {:#018x}", i, page[i]),
	}
}

/// Calls the library (both search paths) and applies checks (a)..(d).
pub fn check_case(c: &Case) -> Result<Outcome, Failure> {
	let bytes = page_bytes(&c.page);
	let (ib, key, p) = (c.ib, c.key, c.p);
	let lib = std::panic::catch_unwind(|| parity_db::verif_index::find_entry_both(ib, key, p, &bytes));
	let (fast, base) = match lib {
		Ok(r) => r,
		Err(e) => {
			let msg = if let Some(s) = e.downcast_ref::<&str>() {
				s.to_string()
			} else if let Some(s) = e.downcast_ref::<String>() {
				s.clone()
			} else {
				"<non-string panic>".to_string()
			};
			return Err(Failure { kind: "panic", detail: format!("the page search panicked: {}", msg) })
		},
	};
	let exp_exact = spec_exact(ib, key, p, &c.page);
	let exp_fast = spec_fast(ib, key, p, &c.page);
	// only evaluated on a failure (string formatting is very slow under Miri)
	let head = Head { ib, key, p };

	// (c) shape of each returned pair
	for (name, r) in [("vectorised", fast), ("scalar", base)] {
		if r.0 == 0 {
			if r.1 != 0 {
				return Err(Failure {
					kind: "returned_empty_slot",
					detail: format!("{}: {} search returned the empty entry with slot {} (absent is (0,0))", head, name, r.1),
				})
			}
			continue
		}
		if r.1 >= SLOTS {
			return Err(Failure {
				kind: "slot_out_of_page",
				detail: format!("{}: {} search returned slot {} outside the page", head, name, r.1),
			})
		}
		if r.1 < p {
			return Err(Failure {
				kind: "slot_before_start",
				detail: format!("{}: {} search returned {} which lies before the start position", head, name, res(r)),
			})
		}
		if c.page[r.1] != r.0 {
			return Err(Failure {
				kind: "entry_not_at_slot",
				detail: format!(
					"{}: {} search returned {} but the page holds {:#018x} in that slot",
					head,
					name,
					res(r),
					c.page[r.1]
				),
			})
		}
	}
	let fast_slot = if fast.0 == 0 { None } else { Some(fast.1) };
	let base_slot = if base.0 == 0 { None } else { Some(base.1) };

	// (b) scalar search = exact specification
	if base_slot != exp_exact {
		return Err(Failure {
			kind: "scalar_mismatch",
			detail: format!("{}: scalar search returned {}, specification says {}", head, res(base), want(&c.page, exp_exact)),
		})
	}
	// (d) never absent / later than an exact match
	if let Some(j) = base_slot {
		match fast_slot {
			None =>
				return Err(Failure {
					kind: "fast_missed_match",
					detail: format!(
						"{}: vectorised search reports absent although slot {} (entry {:#018x}) matches exactly",
						head, j, c.page[j]
					),
				}),
			Some(i) if i > j =>
				return Err(Failure {
					kind: "fast_skipped_match",
					detail: format!(
						"{}: vectorised search returned {} although the earlier slot {} (entry {:#018x}) matches exactly",
						head,
						res(fast),
						j,
						c.page[j]
					),
				}),
			_ => {},
		}
	}
	// (a) vectorised search = fast specification
	if fast_slot != exp_fast {
		return Err(Failure {
			kind: "fast_mismatch",
			detail: format!(
				"{}: vectorised search returned {}, specification says {} (scalar search: {})",
				head,
				res(fast),
				want(&c.page, exp_fast),
				res(base)
			),
		})
	}
	Ok(Outcome { fast: fast_slot, exact: base_slot, fallback: key_compared(ib, key) == 0 })
}

// ---------------------------------------------------------------------------------------------
// generator

pub fn pick_ib(rng: &mut Rng) -> u8 {
	match rng.below(20) {
		0..=5 => 16 + rng.below(3) as u8,  // max(32, ib+14) = 32: 2 / 1 / 0 partial bits dropped
		6..=9 => 30 + rng.below(5) as u8,  // 30..=34
		10 => *rng.pick(&[19u8, 20, 46, 47, 48]), // just above the clamp, and tiny partial keys
		_ => rng.range(IB_MIN as u64, IB_MAX as u64) as u8,
	}
}

fn nonzero(rng: &mut Rng) -> u64 {
	loop {
		let x = rng.next();
		if x != 0 {
			return x
		}
	}
}

/// a random entry whose partial key is non-zero
fn entry_nonzero_partial(rng: &mut Rng, ib: u8) -> u64 {
	loop {
		let x = rng.next();
		if entry_partial(ib, x) != 0 {
			return x
		}
	}
}

/// One page plus up to MAX_QUERIES (key, start) pairs asked on it.
#[allow(dead_code)]
pub struct Batch {
	pub ib: u8,
	pub page_kind: u8,
	pub page: [u64; SLOTS],
	/// the entry most keys are derived from; `target_slot` = where it was put (if it was)
	pub target: u64,
	pub target_slot: Option<usize>,
	pub nq: usize,
	/// (key_prefix, key kind, start position)
	pub q: [(u64, u8, usize); MAX_QUERIES],
}

impl Batch {
	pub fn case(&self, i: usize) -> Case {
		Case { ib: self.ib, key: self.q[i].0, p: self.q[i].2, page: self.page, page_kind: self.page_kind, key_kind: self.q[i].1 }
	}
}

fn start_near(rng: &mut Rng, ts: usize) -> usize {
	let p = match rng.below(12) {
		0 | 1 => ts as i64,             // exactly at the target
		2 => ts as i64 - 1,             // target right after the start
		3 => ts as i64 + 1,             // target right before the start: must not be returned
		4 => (ts & !3) as i64,          // start of the target's group of four
		5 => (ts & !3) as i64 + 3,      // last lane of that group
		6 => (ts & !3) as i64 + 4,      // next group
		7 => (ts & !3) as i64 - 1,      // last lane of the previous group
		8 => 0,
		9 => ts as i64 - rng.below(8) as i64,
		10 => ts as i64 + rng.below(4) as i64,
		_ => rng.below(65) as i64,
	};
	p.clamp(0, SLOTS as i64) as usize
}

fn any_start(rng: &mut Rng) -> usize {
	match rng.below(32) {
		0 => SLOTS, // one past the last slot: what the caller passes after a hit in slot 63
		1 => 63,
		2 => 60 + rng.usize(4),
		3 => 0,
		_ => rng.usize(SLOTS),
	}
}

pub fn gen_batch(rng: &mut Rng, nq: usize) -> Batch {
	let ib = pick_ib(rng);
	let kind = rng.weighted(&[15, 15, 3, 17, 10, 21, 19]) as u8;
	gen_batch_with(rng, ib, kind, nq)
}

pub fn gen_batch_with(rng: &mut Rng, ib: u8, kind: u8, nq: usize) -> Batch {
	let ab = address_bits(ib);
	let am = address_mask(ib);
	let dm = dropped_mask(ib);
	let mut page = [0u64; SLOTS];

	// target entry
	let mut target = match rng.below(16) {
		// compared word zero, dropped bits non-zero (only possible for ib 16 / 17): the vectorised
		// entry point must take the scalar route and still find it
		0 | 1 if dm != 0 => {
			let d = loop {
				let d = rng.next() & dm;
				if d != 0 {
					break d
				}
			};
			d | (rng.next() & am)
		},
		// smallest / largest partial keys
		2 => (1u64 << ab) | (rng.next() & am),
		3 => (u64::MAX << ab) | (rng.next() & am),
		// partial key with a single bit, anywhere
		4 => (1u64 << (ab + rng.below(64 - ab as u64) as u32)) | (rng.next() & am),
		// address zero
		5 => entry_nonzero_partial(rng, ib) & !am,
		_ => entry_nonzero_partial(rng, ib),
	};

	// background fill
	let fill_random = |rng: &mut Rng, page: &mut [u64; SLOTS], eighths: u64| {
		for s in page.iter_mut() {
			*s = if rng.below(8) < eighths { nonzero(rng) } else { 0 };
		}
	};
	match kind {
		0 => fill_random(rng, &mut page, 8),
		1 => {
			let e = rng.range(1, 7);
			fill_random(rng, &mut page, e)
		},
		2 => {},
		3 => {
			let e = rng.below(9);
			fill_random(rng, &mut page, e);
			let n = if rng.chance(1, 8) { SLOTS } else { rng.range(2, 40) as usize };
			let same_addr = rng.chance(1, 3);
			for _ in 0..n {
				let s = rng.usize(SLOTS);
				page[s] = if same_addr { target } else { (target & !am) | (rng.next() & am) };
			}
			if n == SLOTS {
				for s in page.iter_mut() {
					*s = if same_addr { target } else { (target & !am) | (rng.next() & am) };
				}
			}
		},
		4 => {
			// zero partial key, non-zero address; mixed with empty slots and ordinary entries
			target = loop {
				let a = rng.next() & am;
				if a != 0 {
					break a
				}
			};
			if rng.chance(1, 4) {
				target = 1u64 << rng.below(ab as u64); // a single address bit
			}
			let e = rng.below(5);
			fill_random(rng, &mut page, e);
			let n = rng.range(1, 24);
			for _ in 0..n {
				let s = rng.usize(SLOTS);
				page[s] = loop {
					let a = rng.next() & am;
					if a != 0 {
						break a
					}
				};
			}
			// and entries that are zero in the compared word only (ib 16/17)
			if dm != 0 {
				for _ in 0..rng.below(6) {
					let s = rng.usize(SLOTS);
					page[s] = (rng.next() & (dm | am)) | (1u64 << ab);
				}
			}
		},
		5 => {
			// near misses: equal to the target everywhere the vectorised path looks, different in the
			// bits it drops (ib 16/17); for ib >= 18 nothing is dropped, so the neighbours differ in
			// the lowest partial-key bit or only in the highest address bit
			let e = rng.below(8);
			fill_random(rng, &mut page, e);
			let n = rng.range(1, 20);
			for _ in 0..n {
				let s = rng.usize(SLOTS);
				let flip = if dm != 0 {
					loop {
						let d = rng.next() & dm;
						if d != 0 {
							break d
						}
					}
				} else if rng.chance(1, 2) {
					1u64 << ab
				} else {
					1u64 << (ab - 1)
				};
				let mut e = target ^ flip;
				if rng.chance(1, 2) {
					e = (e & !am) | (rng.next() & am & !flip) | (e & flip & am);
				}
				page[s] = e;
			}
		},
		_ => {
			// equal to the target in the high 32 bits only; plus "lane confusers": the key's compared
			// word stored in the wrong half / at the wrong shift of an entry
			let e = rng.below(8);
			fill_random(rng, &mut page, e);
			let w = entry_compared(ib, target) as u64;
			let n = rng.range(1, 20);
			for _ in 0..n {
				let s = rng.usize(SLOTS);
				page[s] = match rng.below(6) {
					0 | 1 => (target & 0xffff_ffff_0000_0000) | (rng.next() & 0xffff_ffff),
					2 => w | (rng.next() << 32),                       // word in the low half
					3 => (w << 32) | (rng.next() & 0xffff_ffff),        // word in the high half
					4 => (w << ab.min(32)) | (rng.next() & ((1u64 << ab.min(32)) - 1)), // word at the unclamped shift
					_ => (target & 0x0000_ffff_ffff_ffff) | (rng.next() << 48), // low 16 compared bits equal
				};
			}
		},
	}

	// place the target
	let target_slot = if kind != 2 && !rng.chance(1, 10) {
		let ts = match rng.below(8) {
			0 => 63,
			1 => 0,
			2 => 60 + rng.usize(4),
			_ => rng.usize(SLOTS),
		};
		page[ts] = target;
		Some(ts)
	} else {
		None
	};

	// queries
	let nq = nq.clamp(1, MAX_QUERIES);
	let mut q = [(0u64, 0u8, 0usize); MAX_QUERIES];
	for slot in q.iter_mut().take(nq) {
		let kk = rng.weighted(&[42, 15, 12, 22, 9]) as u8;
		let noise = rng.next();
		let (key, p) = match kk {
			0 => (key_for_entry(ib, target, noise), match target_slot {
				Some(ts) => start_near(rng, ts),
				None => any_start(rng),
			}),
			1 => {
				let s = rng.usize(SLOTS);
				(key_for_entry(ib, page[s], noise), start_near(rng, s))
			},
			2 => (noise, any_start(rng)),
			3 => {
				// a key that differs from a stored entry only in the dropped bits (ib 16/17) or in
				// the lowest partial-key bit
				let s = match target_slot {
					Some(ts) if rng.chance(1, 2) => ts,
					_ => rng.usize(SLOTS),
				};
				let flip = if dm != 0 {
					loop {
						let d = rng.next() & dm;
						if d != 0 {
							break d
						}
					}
				} else {
					1u64 << ab
				};
				(key_for_entry(ib, page[s] ^ flip, noise), start_near(rng, s))
			},
			_ => {
				// compared word zero: partial key 0, or (ib 16/17) non-zero only in the dropped bits
				let e = if dm != 0 && rng.chance(2, 3) { rng.next() & dm } else { 0 };
				(key_for_entry(ib, e, noise), any_start(rng))
			},
		};
		*slot = (key, kk, p);
	}
	Batch { ib, page_kind: kind, page, target, target_slot, nq, q }
}

// ---------------------------------------------------------------------------------------------
// structured sweep: every (index size, start position, target slot) triple on a few page shapes

/// Calls `f` for every case of the sweep of one index size. Deterministic.
pub fn sweep_ib(ib: u8, rng: &mut Rng, f: &mut dyn FnMut(&Case) -> bool) {
	let am = address_mask(ib);
	let dm = dropped_mask(ib);
	let ab = address_bits(ib);
	for t in 0..SLOTS {
		let target = entry_nonzero_partial(rng, ib);
		let noise = rng.next();
		let key = key_for_entry(ib, target, noise);
		// shapes: 0 only the target; 1 full page of non-matching entries + target; 2 every slot a
		// duplicate; 3 near-miss neighbours before and after the target; 4 zero partial key target
		// among empty slots
		for shape in 0..5u8 {
			let mut page = [0u64; SLOTS];
			let mut k = key;
			match shape {
				0 => page[t] = target,
				1 => {
					for s in page.iter_mut() {
						*s = loop {
							let x = nonzero(rng);
							if entry_compared(ib, x) != entry_compared(ib, target) {
								break x
							}
						};
					}
					page[t] = target;
				},
				2 =>
					for s in page.iter_mut() {
						*s = (target & !am) | (rng.next() & am);
					},
				3 => {
					let flip = if dm != 0 { dm & dm.wrapping_neg() } else { 1u64 << ab };
					for (i, s) in page.iter_mut().enumerate() {
						if i % 3 != 0 {
							*s = target ^ flip;
						}
					}
					page[t] = target;
				},
				_ => {
					let z = (rng.next() & am) | 1;
					page[t] = z;
					k = key_for_entry(ib, z, noise);
				},
			}
			for p in 0..=SLOTS {
				let c = Case { ib, key: k, p, page, page_kind: 7, key_kind: if shape == 4 { 4 } else { 0 } };
				if !f(&c) {
					return
				}
			}
		}
	}
}
