//! E5 `pagesearch`: decides C19 "index page search never misses a matching entry".
//!
//! Three layers inside `pdbv-pagesearch C19 <quick|thorough>`:
//!   1. native differential testing of `IndexTable::find_entry_sse2` / `find_entry_base` (through
//!      the hook `parity_db::verif_index::find_entry_both`) against an independent scalar
//!      specification (`cases.rs`): a structured sweep plus seeded random cases;
//!   2. the same generator / oracle under Miri (`pagesearch/miri`, one child per shard) for
//!      undefined behaviour, out-of-bounds and alignment of the SIMD loads;
//!   3. (thorough) the native layer again in an AddressSanitizer build of this binary.
//!
//! `pdbv-pagesearch --worker <seed> <seconds> <max_cases>` is the entry used for layer 3.

mod cases;
mod dblayer;
mod native;
mod tools;
mod rng {
	pub use pv::rng::Rng;
}

use cases::{Case, Failure};
use native::Stats;
use pv::{run::main_entry, Ctx, Report, Spec, Tier, J};
use std::{
	path::PathBuf,
	time::{Duration, Instant},
};

const RULE: &str = "One evaluation = one search (index_bits ib, 64-slot page, key_prefix, start position p) run through BOTH \
library paths via parity_db::verif_index::find_entry_both and compared with a specification written independently in the \
harness: spec_exact = first slot i >= p with page[i] != 0 and page[i] >> (ib+14) == (key_prefix << ib) >> (ib+14); spec_fast \
= spec_exact when the key's compared word w = ((key_prefix << ib) >> max(32, ib+14)) as u32 is 0, otherwise the first slot \
i >= p with ((page[i] >> max(32, ib+14)) as u32) == w. Checks per case: (a) vectorised result (slot and entry) == spec_fast; \
(b) scalar result == spec_exact; (c) a returned slot is >= p and < 64, the returned entry equals page[slot] and is non-zero, \
'absent' is exactly (0,0); (d) whenever the scalar search finds slot j the vectorised search finds a slot <= j; a panic \
inside either search is a violation. Counted in 'evaluations': native cases (structured sweep: every ib 16..=48 x every \
start 0..=64 x every target slot x 5 page shapes; plus seeded random cases over 7 page kinds x 5 key kinds) + the cases \
interpreted by Miri (same generator, same checks, -Zmiri-symbolic-alignment-check -Zmiri-strict-provenance; additionally \
every start position 0..=64 for every ib on a page whose only match is slot 63) + (thorough) cases run in an \
AddressSanitizer build. distinct_nontrivial = distinct (ib, page kind, key kind, outcome class, start bucket) tuples seen \
natively, outcome class in {absent, found_same, fast_earlier(than the exact match), fast_only, zero_word_found, \
zero_word_absent}. Index sizes are restricted to 16..=48: at ib >= 50 the shift ib+14 reaches 64 bits in both paths \
(degenerate, no such table can be created) and MIN_INDEX_BITS is 16. Start position 64 (what Column passes after a hit \
in slot 63) is included. A fourth layer reaches the search the way every caller does (IndexTable::get and the candidate \
loops above it), end to end through a real database: a uniform column with the all-zero salt (identity hash) whose one \
64-slot page is filled completely with families of 1-4 keys agreeing on all 50 stored bits (the last two or three slots \
included), every key read back at every pipeline stage, never-inserted keys sharing the stored bits of a present key (or \
differing only in the two lowest / two highest bits of the partial key) read as absent. A Miri 'Undefined Behavior' report or an AddressSanitizer report is a violation; a tool that \
cannot be built or times out makes the run inconclusive, never violated.";

struct Plan {
	native_per_shard: u64,
	native_cap: Duration,
	native_min_time: Duration,
	miri_random: u64,
	miri_limit: Duration,
	asan_secs: u64,
}

fn plan(tier: Tier) -> Plan {
	match tier {
		Tier::Quick => Plan {
			native_per_shard: 6_250_000, // x16 = 10^8
			native_cap: Duration::from_secs(25),
			native_min_time: Duration::from_secs(0),
			miri_random: 250,
			miri_limit: Duration::from_secs(40),
			asan_secs: 0,
		},
		Tier::Thorough => Plan {
			native_per_shard: 62_500_000, // x16 = 10^9
			native_cap: Duration::from_secs(420),
			native_min_time: Duration::from_secs(240),
			miri_random: 5000,
			miri_limit: Duration::from_secs(420),
			asan_secs: 90,
		},
	}
}

fn spec_for(prop: &str, tier: Tier) -> Option<Spec> {
	if prop != "C19" {
		return None
	}
	let mut s = Spec::new("C19", "exploration", RULE)
		.assume("x86_64 host with SSE2: the vectorised path is compiled only for target_arch = x86_64 (elsewhere both hook results are the scalar search)")
		.assume("index sizes 16..=48 (MIN_INDEX_BITS = 16; ib >= 50 makes ib+14 >= 64, not a constructible table)")
		.assume("the page is passed by value into an 8-byte aligned Chunk exactly as Column does; the mmap / log-overlay origin of a page is not part of this property")
		.require("native_cases", tier.pick(20_000_000, 1_000_000_000))
		.require("sweep_index_sizes_completed", 33)
		.require("fast_found", 1_000_000)
		.require("fast_absent", 1_000_000)
		.require("fast_earlier_than_exact", 10_000)
		.require("fast_only_exact_absent", 10_000)
		.require("zero_word_fallback", 100_000)
		.require("zero_word_fallback_found", 10_000)
		.require("start_64", 10_000)
		.require("start_unaligned", 1_000_000)
		.require("ib_16_17", 1_000_000)
		.require("miri_cases", tier.pick(2_400, 40_000))
		.require("miri_children_ok", 8)
		.require("db_layer_pages", tier.pick(100, 1500))
		.require("db_layer_pages_with_family_in_last_slots", tier.pick(50, 700))
		.budget(60, 840);
	if tier == Tier::Thorough {
		s = s.require("asan_cases", 1_000_000);
	}
	s.min_distinct = 1000;
	s.case_timeout_s = 300;
	Some(s)
}

// ---------------------------------------------------------------------------------------------

fn hex_page(page: &[u64; 64]) -> String {
	pv::json::hex(&cases::page_bytes(page))
}

fn parse_page(h: &str) -> Option<[u64; 64]> {
	let h = h.trim();
	if h.len() != 1024 {
		return None
	}
	let mut page = [0u64; 64];
	for (i, s) in page.iter_mut().enumerate() {
		let mut b = [0u8; 8];
		for (k, byte) in b.iter_mut().enumerate() {
			let o = i * 16 + k * 2;
			*byte = u8::from_str_radix(&h[o..o + 2], 16).ok()?;
		}
		*s = u64::from_le_bytes(b);
	}
	Some(page)
}

fn case_json(c: &Case, layer: &str) -> J {
	J::obj()
		.set("layer", J::s(layer))
		.set("index_bits", J::i(c.ib as u64))
		.set("key_prefix", J::s(format!("{:016x}", c.key)))
		.set("p", J::i(c.p as u64))
		.set("page", J::s(hex_page(&c.page)))
		.set("page_kind", J::s(cases::PAGE_KINDS[c.page_kind as usize & 7]))
		.set("key_kind", J::s(cases::KEY_KINDS[(c.key_kind as usize).min(4)]))
}

fn report_failure(rep: &mut Report, c: &Case, f: &Failure, layer: &str) {
	rep.violation(
		format!("scenario=C19;failure={};layer={};ib={}", f.kind, layer, c.ib),
		format!("[{} layer, page kind {}, key kind {}] {}", layer, cases::PAGE_KINDS[c.page_kind as usize & 7], cases::KEY_KINDS[(c.key_kind as usize).min(4)], f.detail),
		case_json(c, layer),
	);
}

fn flush_stats(rep: &mut Report, st: &Stats, counter: &str) {
	// called once per layer with the final statistics
	rep.evaluations += st.cases;
	rep.cases += st.cases;
	rep.count(counter, st.cases);
	if counter == "native_cases" {
		rep.count("sweep_cases", st.sweep_cases);
		rep.count("fast_found", st.fast_found);
		rep.count("fast_absent", st.fast_absent);
		rep.count("exact_found", st.exact_found);
		rep.count("fast_earlier_than_exact", st.fast_earlier);
		rep.count("fast_only_exact_absent", st.fast_only);
		rep.count("zero_word_fallback", st.zero_word);
		rep.count("zero_word_fallback_found", st.zero_word_found);
		rep.count("start_64", st.start_64);
		rep.count("start_unaligned", st.start_unaligned);
		rep.count("hit_in_start_group", st.hit_in_start_group);
		rep.count("hit_last_slot", st.hit_last_slot);
		rep.count("ib_16_17", st.ib_dropping);
		rep.count("ib_18", st.ib_18);
		rep.count("ib_19_29", st.ib_19_29);
		rep.count("ib_30_34", st.ib_30_34);
		rep.count("ib_35_48", st.ib_35_48);
		for (i, n) in st.page_kind.iter().enumerate() {
			rep.count(&format!("page_{}", cases::PAGE_KINDS[i]), *n);
		}
		for (i, n) in st.key_kind.iter().enumerate() {
			rep.count(&format!("key_{}", cases::KEY_KINDS[i]), *n);
		}
		for c in &st.classes {
			rep.seen(native::class_name(*c));
		}
		for (c, o) in &st.samples {
			rep.sample(
				case_json(c, "native")
					.set("vectorised_slot", o.fast.map_or(J::Null, |s| J::i(s as u64)))
					.set("scalar_slot", o.exact.map_or(J::Null, |s| J::i(s as u64)))
					.set("outcome", J::s(cases::OUTCOME_CLASSES[o.class() as usize]))
					.set("checks", J::s("a,b,c,d passed")),
			);
		}
	}
}

fn work_dir(ctx: &Ctx) -> PathBuf {
	match &ctx.out {
		Some(o) => o.parent().map(|p| p.to_path_buf()).unwrap_or_else(std::env::temp_dir),
		None => std::env::temp_dir(),
	}
}

fn miri_sweep_list(shard: usize, nshards: usize) -> String {
	(cases::IB_MIN..=cases::IB_MAX)
		.filter(|ib| (*ib - cases::IB_MIN) as usize % nshards == shard)
		.map(|ib| ib.to_string())
		.collect::<Vec<_>>()
		.join(",")
}

/// "k=v" fields of a MIRI_CHECK_FAIL / WORKER_FAIL line
fn parse_fail_line(line: &str) -> Option<(String, Case, String)> {
	let (head, detail) = line.split_once(" :: ").unwrap_or((line, ""));
	let mut kind = String::new();
	let mut c = Case { ib: 0, key: 0, p: 0, page: [0; 64], page_kind: 7, key_kind: 0 };
	for kv in head.split_whitespace() {
		if let Some((k, v)) = kv.split_once('=') {
			match k {
				"kind" => kind = v.to_string(),
				"ib" => c.ib = v.parse().ok()?,
				"key" => c.key = u64::from_str_radix(v, 16).ok()?,
				"p" => c.p = v.parse().ok()?,
				"page" => c.page = parse_page(v)?,
				_ => {},
			}
		}
	}
	if kind.is_empty() || c.ib == 0 {
		return None
	}
	Some((kind, c, detail.to_string()))
}

fn fail_line(prefix: &str, c: &Case, f: &Failure) -> String {
	format!("{} kind={} ib={} key={:016x} p={} page={} :: {}", prefix, f.kind, c.ib, c.key, c.p, hex_page(&c.page), f.detail.replace('\n', " "))
}

fn static_kind(k: &str) -> &'static str {
	for s in [
		"panic",
		"returned_empty_slot",
		"slot_out_of_page",
		"slot_before_start",
		"entry_not_at_slot",
		"scalar_mismatch",
		"fast_missed_match",
		"fast_skipped_match",
		"fast_mismatch",
	] {
		if s == k {
			return s
		}
	}
	"check_failed"
}

fn run_miri_layer(ctx: &Ctx, rep: &mut Report, pl: &Plan, token: &str) {
	let dir = work_dir(ctx);
	ctx.mark("waiting for the Miri build");
	let built = {
		let mut alive = || ctx.checkpoint(rep);
		tools::wait_ready(&tools::miri_target(), token, Duration::from_secs(1300), &mut alive)
	};
	match built {
		Ok(s) =>
			if ctx.shard == 0 {
				rep.notes.push(format!("Miri build / freshness check took {:.1} s (outside the case budget)", s));
			},
		Err(e) => {
			if ctx.shard == 0 {
				rep.inconclusive(format!("Miri layer not run: {}", e));
			}
			return
		},
	}
	let sweep = miri_sweep_list(ctx.shard, ctx.nshards);
	let seed = ctx.seed;
	ctx.mark(&format!("miri child seed={} count={} sweep={}", seed, pl.miri_random, sweep));
	let r = {
		let mut alive = || ctx.checkpoint(rep);
		tools::run_captured(tools::miri_command(seed, pl.miri_random, &sweep, false), &dir, "miri", Instant::now() + pl.miri_limit, &mut alive)
	};
	ctx.unmark();
	let replay = J::obj()
		.set("layer", J::s("miri"))
		.set("miri_seed", J::s(seed.to_string()))
		.set("miri_count", J::i(pl.miri_random))
		.set("miri_sweep", J::s(sweep.clone()));
	// cases completed
	let mut done = 0u64;
	for l in r.stdout.lines() {
		if let Some(rest) = l.strip_prefix("MIRI_CASES ") {
			done = rest.split_whitespace().next().and_then(|x| x.parse().ok()).unwrap_or(0);
		}
	}
	if let Some(l) = r.stdout.lines().find(|l| l.starts_with("MIRI_CHECK_FAIL ")) {
		match parse_fail_line(l) {
			Some((kind, c, detail)) => report_failure(rep, &c, &Failure { kind: static_kind(&kind), detail }, "miri"),
			None => rep.violation("scenario=C19;failure=check_failed;layer=miri", l.to_string(), replay.clone()),
		}
		return
	}
	if r.stderr.contains("Undefined Behavior") {
		let at = r.stderr.find("Undefined Behavior").unwrap_or(0);
		let start = r.stderr[..at].rfind('\n').map_or(0, |i| i + 1);
		let text: String = r.stderr[start..].chars().take(3000).collect();
		rep.violation(
			"scenario=C19;failure=miri_ub;layer=miri",
			format!("Miri reported undefined behaviour in the page search (child seed={} count={} sweep={}):\n{}", seed, pl.miri_random, sweep, text),
			replay,
		);
		return
	}
	// reaching the time limit is a normal end of this layer: the cases completed so far count (the
	// coverage requirement on miri_cases decides whether that was enough)
	let mut cut = false;
	if r.timed_out {
		done = r.stdout.lines().filter_map(|l| l.strip_prefix("MIRI_PROGRESS ")).filter_map(|x| x.trim().parse::<u64>().ok()).max().unwrap_or(0);
		if done == 0 {
			rep.inconclusive(format!("shard {}: Miri child completed no case within {:?} (killed): {}", ctx.shard, pl.miri_limit, tools::tail_chars(&r.stderr, 600)));
			return
		}
		cut = true;
		rep.count("miri_children_stopped_at_time_limit", 1);
	}
	match r.status {
		st if cut || (st.map_or(false, |s| s.success()) && done > 0) => {
			let _ = st;
			rep.evaluations += done;
			rep.cases += done;
			rep.count("miri_cases", done);
			rep.count("miri_children_ok", 1);
			rep.max("miri_child_wall_s", r.wall.as_secs());
			if ctx.shard == 0 {
				rep.notes.push(format!("Miri: {} cases in {:.1} s in one child = {:.1} cases/s per process", done, r.wall.as_secs_f64(), done as f64 / r.wall.as_secs_f64().max(0.001)));
			}
		},
		st => rep.inconclusive(format!("shard {}: Miri child failed without a UB report ({:?}): {}", ctx.shard, st, tools::tail_chars(&r.stderr, 1200))),
	}
}

fn run_asan_layer(ctx: &Ctx, rep: &mut Report, pl: &Plan, token: &str) {
	let dir = work_dir(ctx);
	ctx.mark("waiting for the AddressSanitizer build");
	let built = {
		let mut alive = || ctx.checkpoint(rep);
		tools::wait_ready(&tools::asan_target(), token, Duration::from_secs(1900), &mut alive)
	};
	match built {
		Ok(s) =>
			if ctx.shard == 0 {
				rep.notes.push(format!("AddressSanitizer build / freshness check took {:.1} s", s));
			},
		Err(e) => {
			if ctx.shard == 0 {
				rep.inconclusive(format!("AddressSanitizer layer not run: {}", e));
			}
			return
		},
	}
	let seed = ctx.seed ^ 0xA5A5_0000;
	ctx.mark(&format!("asan worker seed={} seconds={}", seed, pl.asan_secs));
	let r = {
		let mut alive = || ctx.checkpoint(rep);
		tools::run_captured(tools::asan_command(seed, pl.asan_secs, u64::MAX / 4), &dir, "asan", Instant::now() + Duration::from_secs(pl.asan_secs * 3 + 60), &mut alive)
	};
	ctx.unmark();
	let replay = J::obj().set("layer", J::s("asan")).set("asan_seed", J::s(seed.to_string())).set("asan_seconds", J::i(pl.asan_secs));
	let mut done = 0u64;
	for l in r.stdout.lines() {
		if let Some(rest) = l.strip_prefix("WORKER_CASES ") {
			done = rest.split_whitespace().next().and_then(|x| x.parse().ok()).unwrap_or(0);
		}
	}
	let mut failed = false;
	for l in r.stdout.lines().filter(|l| l.starts_with("WORKER_FAIL ")).take(5) {
		failed = true;
		match parse_fail_line(l) {
			Some((kind, c, detail)) => report_failure(rep, &c, &Failure { kind: static_kind(&kind), detail }, "asan"),
			None => rep.violation("scenario=C19;failure=check_failed;layer=asan", l.to_string(), replay.clone()),
		}
	}
	if r.stderr.contains("AddressSanitizer") && r.stderr.contains("ERROR") {
		let at = r.stderr.find("ERROR: AddressSanitizer").unwrap_or(0);
		let text: String = r.stderr[at..].chars().take(4000).collect();
		rep.violation(
			"scenario=C19;failure=asan_report;layer=asan",
			format!("AddressSanitizer report while running the page search (worker seed={}):\n{}", seed, text),
			replay,
		);
		return
	}
	if r.timed_out {
		rep.inconclusive(format!("shard {}: AddressSanitizer worker exceeded its time limit (killed)", ctx.shard));
		return
	}
	match r.status {
		Some(st) if (st.success() || (failed && st.code() == Some(3))) && done > 0 => {
			rep.evaluations += done;
			rep.cases += done;
			rep.count("asan_cases", done);
			if ctx.shard == 0 {
				rep.notes.push(format!("ASan: {} cases in {:.1} s in one worker = {:.0} cases/s per process", done, r.wall.as_secs_f64(), done as f64 / r.wall.as_secs_f64().max(0.001)));
			}
		},
		Some(st) if matches!(std::os::unix::process::ExitStatusExt::signal(&st), Some(libc::SIGSEGV | libc::SIGBUS | libc::SIGILL | libc::SIGABRT | libc::SIGFPE)) => {
			// died from a fatal signal without an ASan report (e.g. a faulting aligned load)
			rep.violation(
				format!("scenario=C19;failure=asan_worker_crash;layer=asan;signal={}", std::os::unix::process::ExitStatusExt::signal(&st).unwrap_or(0)),
				format!("the AddressSanitizer worker (seed={}) died from a fatal signal while running the page search: {:?}\n{}", seed, st, tools::tail_chars(&r.stderr, 2000)),
				replay,
			);
		},
		st => rep.inconclusive(format!("shard {}: AddressSanitizer worker failed without a report ({:?}): {}", ctx.shard, st, tools::tail_chars(&r.stderr, 1200))),
	}
}

fn replay(ctx: &Ctx, rep: &mut Report, j: &J) {
	let layer = j.get("layer").and_then(|x| x.as_str()).unwrap_or("native").to_string();
	if layer == "db" {
		// the database layer is deterministic in (shard seed, round)
		let round = j.get("round").and_then(|x| x.as_u64()).unwrap_or(0);
		dblayer::run(ctx, rep, round + 1);
		return
	}
	// a shard that died (SIGSEGV ...) leaves only the text of its mark
	if let Some(case) = j.get("case").and_then(|x| x.as_str()) {
		if let Some(rest) = case.strip_prefix("native_block ") {
			let mut seed = 0u64;
			let mut block = 0u64;
			for kv in rest.split_whitespace() {
				match kv.split_once('=') {
					Some(("seed", v)) => seed = v.parse().unwrap_or(0),
					Some(("block", v)) => block = v.parse().unwrap_or(0),
					_ => {},
				}
			}
			eprintln!("re-running native block {} of shard seed {} ({} cases)", block, seed, native::BLOCK);
			let mut st = Stats::default();
			native::run_random(seed, block, native::BLOCK, &mut st, &mut |_, _| true);
			for (c, f) in &st.failures {
				report_failure(rep, c, f, "native");
			}
			rep.evaluations += st.cases;
			return
		}
		if let Some(rest) = case.strip_prefix("native_sweep ") {
			let mut seed = 0u64;
			let mut ib = 16u8;
			for kv in rest.split_whitespace() {
				match kv.split_once('=') {
					Some(("seed", v)) => seed = v.parse().unwrap_or(0),
					Some(("ib", v)) => ib = v.parse().unwrap_or(16),
					_ => {},
				}
			}
			eprintln!("re-running the structured sweep of ib={} with shard seed {}", ib, seed);
			let mut st = Stats::default();
			native::run_sweep(ib, seed, &mut st, Instant::now() + Duration::from_secs(3600));
			for (c, f) in &st.failures {
				report_failure(rep, c, f, "native");
			}
			rep.evaluations += st.cases;
			return
		}
		eprintln!("replay of '{}' is not supported in-process; re-run the tier with the same VERIF_SEED", case);
		return
	}
	if layer == "miri" && j.get("page").is_none() {
		let seed: u64 = j.get("miri_seed").and_then(|x| x.as_str()).and_then(|s| s.parse().ok()).unwrap_or(1);
		let count = j.get("miri_count").and_then(|x| x.as_u64()).unwrap_or(0);
		let sweep = j.get("miri_sweep").and_then(|x| x.as_str()).unwrap_or("").to_string();
		eprintln!("re-running the Miri child seed={} count={} sweep={} (verbose: the last CASE line is the failing one)", seed, count, sweep);
		let r = tools::run_captured(tools::miri_command(seed, count, &sweep, true), &std::env::temp_dir(), "miri-replay", Instant::now() + Duration::from_secs(3600), &mut || {});
		let last_case = r.stdout.lines().filter(|l| l.starts_with("CASE ")).last().unwrap_or("").to_string();
		eprintln!("{}", tools::tail_chars(&r.stderr, 4000));
		println!("last case started: {}", last_case);
		rep.evaluations += 1;
		if r.stderr.contains("Undefined Behavior") {
			rep.violation("scenario=C19;failure=miri_ub;layer=miri", format!("reproduced; last case: {}", last_case), J::Null);
		}
		return
	}
	if layer == "asan" && j.get("page").is_none() {
		let seed: u64 = j.get("asan_seed").and_then(|x| x.as_str()).and_then(|s| s.parse().ok()).unwrap_or(1);
		let secs = j.get("asan_seconds").and_then(|x| x.as_u64()).unwrap_or(30);
		if let Err(e) = tools::asan_build(&std::env::temp_dir(), Duration::from_secs(1800)) {
			eprintln!("cannot build the AddressSanitizer copy: {}", e);
			return
		}
		let r = tools::run_captured(tools::asan_command(seed, secs, u64::MAX / 4), &std::env::temp_dir(), "asan-replay", Instant::now() + Duration::from_secs(secs * 3 + 60), &mut || {});
		eprintln!("{}", tools::tail_chars(&r.stderr, 6000));
		rep.evaluations += 1;
		if r.stderr.contains("ERROR: AddressSanitizer") {
			rep.violation("scenario=C19;failure=asan_report;layer=asan", "reproduced (report above)", J::Null);
		}
		return
	}
	// a single written-out case
	let ib = j.get("index_bits").and_then(|x| x.as_u64()).expect("replay needs index_bits") as u8;
	let key = u64::from_str_radix(j.get("key_prefix").and_then(|x| x.as_str()).expect("replay needs key_prefix").trim_start_matches("0x"), 16).expect("key_prefix hex");
	let p = j.get("p").and_then(|x| x.as_u64()).expect("replay needs p") as usize;
	let page = parse_page(j.get("page").and_then(|x| x.as_str()).expect("replay needs page")).expect("page = 1024 hex digits");
	let c = Case { ib, key, p, page, page_kind: 7, key_kind: 0 };
	println!(
		"case: ib={} (address bits {}, fast shift {}) key_prefix={:#018x} partial={:#x} compared_word={:#010x} p={}",
		ib,
		cases::address_bits(ib),
		cases::fast_shift(ib),
		key,
		cases::key_partial(ib, key),
		cases::key_compared(ib, key),
		p
	);
	for (i, e) in page.iter().enumerate() {
		if *e != 0 {
			println!(
				"  slot {:2}: {:#018x} partial={:#x} compared_word={:#010x}{}{}",
				i,
				e,
				cases::entry_partial(ib, *e),
				cases::entry_compared(ib, *e),
				if cases::entry_partial(ib, *e) == cases::key_partial(ib, key) { "  <- exact match" } else { "" },
				if cases::entry_compared(ib, *e) == cases::key_compared(ib, key) { "  <- fast-path match" } else { "" }
			);
		}
	}
	println!("specification: exact {:?}, fast {:?}", cases::spec_exact(ib, key, p, &page), cases::spec_fast(ib, key, p, &page));
	let bytes = cases::page_bytes(&page);
	match pv::scratch::catch(|| parity_db::verif_index::find_entry_both(ib, key, p, &bytes)) {
		Ok((f, b)) => println!("library: vectorised (entry {:#018x}, slot {}), scalar (entry {:#018x}, slot {})", f.0, f.1, b.0, b.1),
		Err(e) => println!("library: panic {}", e),
	}
	rep.evaluations += 1;
	match cases::check_case(&c) {
		Ok(o) => println!("all checks passed: {:?}", o),
		Err(f) => report_failure(rep, &c, &f, "native"),
	}
}

fn shard(ctx: &Ctx, rep: &mut Report) {
	if let Some(j) = &ctx.replay {
		replay(ctx, rep, j);
		return
	}
	let mut pl = plan(ctx.tier);
	// development aid: `layers=native,miri,asan` runs exactly the listed layers (the coverage
	// requirements of the skipped ones then make a clean run inconclusive)
	let layers = ctx.opt("layers");
	let on = |l: &str| layers.as_ref().map_or(true, |s| s.split(',').any(|x| x == l));
	if layers.is_some() && on("asan") && pl.asan_secs == 0 {
		pl.asan_secs = 10;
	}
	let with_asan = pl.asan_secs > 0 && on("asan");
	let token = tools::run_token();
	if ctx.shard == 0 {
		// toolchain work happens once, in the background, while every shard does native work
		tools::spawn_prepare(token.clone(), work_dir(ctx), on("miri"), with_asan);
	}
	if !on("native") {
		pl.native_per_shard = 0;
		pl.native_min_time = Duration::from_secs(0);
	}

	// ---- layer 1: native
	let t0 = Instant::now();
	let deadline = t0 + pl.native_cap;
	let mut st = Stats::default();
	let mut swept = 0u64;
	for ib in cases::IB_MIN..=cases::IB_MAX {
		if !on("native") || (ib - cases::IB_MIN) as usize % ctx.nshards != ctx.shard {
			continue
		}
		ctx.mark(&format!("native_sweep ib={} seed={}", ib, ctx.seed));
		if native::run_sweep(ib, ctx.seed, &mut st, deadline) {
			swept += 1;
		}
		ctx.checkpoint(rep);
	}
	rep.count("sweep_index_sizes_completed", swept);
	let sweep_cases = st.cases;
	{
		let seed = ctx.seed;
		let mut tick = |s: &Stats, block: u64| -> bool {
			ctx.mark(&format!("native_block seed={} block={}", seed, block));
			ctx.progress();
			let el = t0.elapsed();
			if el >= pl.native_cap {
				return false
			}
			// thorough: keep going past the case target until the minimum time slice is used
			!(s.cases - sweep_cases >= pl.native_per_shard && el >= pl.native_min_time)
		};
		let max = if pl.native_min_time.is_zero() { pl.native_per_shard } else { u64::MAX / 4 };
		native::run_random(ctx.seed, 0, max, &mut st, &mut tick);
	}
	ctx.unmark();
	for (c, f) in &st.failures {
		report_failure(rep, c, f, "native");
	}
	flush_stats(rep, &st, "native_cases");
	let secs = t0.elapsed().as_secs_f64();
	rep.max("native_shard_wall_s", secs as u64);
	if ctx.shard == 0 {
		rep.notes.push(format!("native: {} cases in {:.1} s in one shard = {:.0} cases/s per process", st.cases, secs, st.cases as f64 / secs.max(0.001)));
	}
	if st.failures_total >= 20 {
		rep.notes.push(format!("shard {} stopped its native layer after 20 failing cases", ctx.shard));
	}
	ctx.checkpoint(rep);

	// ---- layer 1b: the search as its callers reach it, through a real database
	if on("db") {
		dblayer::run(ctx, rep, ctx.tier.pick(12, 150));
		ctx.checkpoint(rep);
	}

	// ---- layer 2: Miri
	if on("miri") {
		run_miri_layer(ctx, rep, &pl, &token);
	}
	ctx.checkpoint(rep);

	// ---- layer 3: AddressSanitizer (thorough)
	if with_asan {
		run_asan_layer(ctx, rep, &pl, &token);
	}
}

/// `--worker <seed> <seconds> <max_cases>`: native random layer without the runner; used for the
/// AddressSanitizer copy. stdout: WORKER_FAIL lines, then WORKER_CASES <n>. exit 0 / 3.
fn worker(args: &[String]) -> ! {
	let seed: u64 = args.first().and_then(|s| s.parse().ok()).unwrap_or(1);
	let secs: u64 = args.get(1).and_then(|s| s.parse().ok()).unwrap_or(10);
	let max: u64 = args.get(2).and_then(|s| s.parse().ok()).unwrap_or(u64::MAX / 4);
	let t0 = Instant::now();
	let mut st = Stats::default();
	// a short sweep first (two index sizes: one that drops bits, one that does not)
	for ib in [16u8 + (seed % 3) as u8, 19 + (seed % 30) as u8] {
		native::run_sweep(ib, seed, &mut st, t0 + Duration::from_secs(secs));
	}
	native::run_random(seed, 0, max, &mut st, &mut |_, _| t0.elapsed() < Duration::from_secs(secs));
	for (c, f) in &st.failures {
		println!("{}", fail_line("WORKER_FAIL", c, f));
	}
	println!("WORKER_CASES {} fast_found={} zero_word={}", st.cases, st.fast_found, st.zero_word);
	std::process::exit(if st.failures.is_empty() { 0 } else { 3 })
}

fn main() {
	let a: Vec<String> = std::env::args().collect();
	if a.get(1).map(|s| s.as_str()) == Some("--worker") {
		worker(&a[2..]);
	}
	main_entry(spec_for, shard)
}
