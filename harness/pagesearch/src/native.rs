//! Native differential layer: drives `cases::gen_batch` / `cases::sweep_ib` through
//! `cases::check_case` at full speed and aggregates what was seen. Used by the shard processes
//! and (unchanged) by the AddressSanitizer copy of this binary (`--worker`).

use crate::cases::{self, Case, Failure, Outcome};
use crate::rng::Rng;
use std::collections::BTreeSet;
use std::time::Instant;

pub const BLOCK: u64 = 1 << 15;
pub const QUERIES_PER_PAGE: usize = 6;

#[derive(Default)]
pub struct Stats {
	pub cases: u64,
	pub sweep_cases: u64,
	pub fast_found: u64,
	pub fast_absent: u64,
	pub exact_found: u64,
	pub fast_earlier: u64,
	pub fast_only: u64,
	pub zero_word: u64,
	pub zero_word_found: u64,
	pub start_64: u64,
	pub start_unaligned: u64,
	pub hit_in_start_group: u64,
	pub hit_last_slot: u64,
	pub ib_dropping: u64, // ib 16 / 17
	pub ib_18: u64,
	pub ib_19_29: u64,
	pub ib_30_34: u64,
	pub ib_35_48: u64,
	pub page_kind: [u64; 8],
	pub key_kind: [u64; 5],
	/// (ib, page kind, key kind, outcome class, start bucket) packed; see `class_name`
	pub classes: BTreeSet<u32>,
	pub failures: Vec<(Case, Failure)>,
	pub failures_total: u64,
	pub samples: Vec<(Case, Outcome)>,
}

fn p_bucket(p: usize) -> u32 {
	if p >= 64 {
		3
	} else if p >= 60 {
		2
	} else if p % 4 != 0 {
		1
	} else {
		0
	}
}
const P_BUCKETS: [&str; 4] = ["p_aligned", "p_unaligned", "p_60_63", "p_64"];

pub fn class_name(c: u32) -> String {
	let ib = c >> 11;
	let pk = (c >> 8) & 7;
	let kk = (c >> 5) & 7;
	let oc = (c >> 2) & 7;
	let pb = c & 3;
	format!(
		"ib{}/{}/{}/{}/{}",
		ib,
		cases::PAGE_KINDS[pk as usize],
		cases::KEY_KINDS[kk as usize],
		cases::OUTCOME_CLASSES[oc as usize],
		P_BUCKETS[pb as usize]
	)
}

impl Stats {
	#[inline]
	pub fn record(&mut self, c: &Case, r: Result<Outcome, Failure>) {
		self.cases += 1;
		match c.ib {
			16 | 17 => self.ib_dropping += 1,
			18 => self.ib_18 += 1,
			19..=29 => self.ib_19_29 += 1,
			30..=34 => self.ib_30_34 += 1,
			_ => self.ib_35_48 += 1,
		}
		self.page_kind[c.page_kind as usize & 7] += 1;
		self.key_kind[(c.key_kind as usize).min(4)] += 1;
		if c.p >= cases::SLOTS {
			self.start_64 += 1;
		} else if c.p % 4 != 0 {
			self.start_unaligned += 1;
		}
		match r {
			Ok(o) => {
				match o.fast {
					Some(s) => {
						self.fast_found += 1;
						if s / 4 == c.p / 4 {
							self.hit_in_start_group += 1;
						}
						if s == cases::SLOTS - 1 {
							self.hit_last_slot += 1;
						}
					},
					None => self.fast_absent += 1,
				}
				if o.exact.is_some() {
					self.exact_found += 1;
				}
				if o.fallback {
					self.zero_word += 1;
					if o.fast.is_some() {
						self.zero_word_found += 1;
					}
				}
				let oc = o.class();
				if oc == 2 {
					self.fast_earlier += 1;
				} else if oc == 3 {
					self.fast_only += 1;
				}
				let code = ((c.ib as u32) << 11) |
					((c.page_kind as u32 & 7) << 8) |
					((c.key_kind as u32 & 7) << 5) |
					((oc as u32) << 2) |
					p_bucket(c.p);
				if self.classes.insert(code) && self.samples.len() < 3 && oc != 0 && oc != 5 && c.page_kind != 7 {
					// keep a few non-trivial (found) cases as written-out samples
					if self.samples.len() < 1 || (oc == 2 || oc == 4) {
						self.samples.push((c.clone(), o));
					}
				}
			},
			Err(f) => {
				self.failures_total += 1;
				if self.failures.len() < 20 {
					self.failures.push((c.clone(), f));
				}
			},
		}
	}
}

/// Random layer. Block `k` of a seed is generated from `Rng::new(seed).derive(k)`, so a block can
/// be re-run on its own. `tick(stats, next_block)` is called before every block; returning false
/// stops the run.
pub fn run_random(
	seed: u64,
	first_block: u64,
	max_cases: u64,
	st: &mut Stats,
	tick: &mut dyn FnMut(&Stats, u64) -> bool,
) {
	let base = Rng::new(seed ^ 0xC19);
	let mut block = first_block;
	let mut done = 0u64;
	while done < max_cases {
		if !tick(st, block) {
			return
		}
		let mut rng = base.derive(block);
		let mut in_block = 0u64;
		while in_block < BLOCK && done < max_cases {
			let b = cases::gen_batch(&mut rng, QUERIES_PER_PAGE);
			for i in 0..b.nq {
				let c = b.case(i);
				let r = cases::check_case(&c);
				st.record(&c, r);
			}
			in_block += b.nq as u64;
			done += b.nq as u64;
		}
		if st.failures_total >= 20 {
			return
		}
		block += 1;
	}
}

/// Structured sweep of one index size (every start position x every target slot x 5 page shapes).
pub const SWEEP_CASES_PER_IB: u64 = 64 * 5 * 65;

/// Returns true when the sweep of this index size ran to completion.
pub fn run_sweep(ib: u8, seed: u64, st: &mut Stats, deadline: Instant) -> bool {
	let mut rng = Rng::new(seed ^ 0x5EE9).derive(ib as u64);
	let mut n = 0u64;
	cases::sweep_ib(ib, &mut rng, &mut |c| {
		let r = cases::check_case(c);
		st.record(c, r);
		st.sweep_cases += 1;
		n += 1;
		st.failures_total < 20 && (n % 4096 != 0 || Instant::now() < deadline)
	});
	n == SWEEP_CASES_PER_IB
}
