//! Layer "db" of C19: the page search as every caller reaches it (`IndexTable::get` and the
//! candidate loops on top of it), end to end through a real database. A uniform column with the
//! all-zero salt hashes by identity, so the workload chooses the index page, the slot order and
//! the partial keys: one 64-slot page is filled completely with families of keys that agree on
//! every bit the index stores (the first 50) and differ only in their tails - families placed at
//! every slot position, the last two slots included - and every key is looked up at every
//! pipeline stage; absent keys that share the stored bits of a present key, or differ from one
//! only in the bits a 32-bit comparison drops, must read as absent.

use parity_db::{ColumnOptions, Db, Options};
use pv::{scratch::Scratch, Ctx, Report, Rng};

fn key(page: u16, partial34: u64, low: u8, tail: &[u8]) -> Vec<u8> {
	// bits 0..16 page, bits 16..50 the 34-bit partial key of a 16-bit index, bits 50..56 `low`
	let mut k = vec![0u8; 32];
	let head: u64 = ((page as u64) << 48) | ((partial34 & ((1 << 34) - 1)) << 14) | (((low & 0x3f) as u64) << 8);
	k[..8].copy_from_slice(&head.to_be_bytes());
	k[7] = tail[0];
	k[8..32].copy_from_slice(&tail[1..25]);
	k
}

pub fn run(ctx: &Ctx, rep: &mut Report, rounds: u64) {
	let mut rng = Rng::new(ctx.seed ^ 0xDB19);
	for round in 0..rounds {
		ctx.mark(&format!("db_layer round={} seed={}", round, ctx.seed));
		ctx.progress();
		let dir = Scratch::new("c19db");
		let mut o = Options::with_columns(&dir.path.join("db"), 1);
		o.columns[0] = ColumnOptions { uniform: true, ..Default::default() };
		o.salt = Some([0u8; 32]);
		o.with_background_thread = false;
		let db = Db::open_or_create(&o).expect("open_or_create");
		let page = rng.below(1 << 16) as u16;
		// partition the 64 slots into families of 1-4 keys sharing their 50 stored bits; every
		// other round the last family covers the last two (or three) slots
		let mut families: Vec<usize> = vec![];
		let mut left = 64usize;
		let tail_family = if round % 2 == 0 { 2 + rng.usize(2) } else { 0 };
		left -= tail_family;
		while left > 0 {
			let n = (1 + rng.usize(4)).min(left);
			families.push(n);
			left -= n;
		}
		if tail_family > 0 {
			families.push(tail_family);
		}
		let mut keys: Vec<(Vec<u8>, Vec<u8>)> = vec![];
		let mut absent: Vec<Vec<u8>> = vec![];
		for (fi, n) in families.iter().enumerate() {
			// partial keys: random, some with all compared bits zero (the scalar path), some
			// differing from the previous family only in the two bits the fast path drops or only
			// in the two highest bits
			let partial: u64 = match rng.below(6) {
				0 => rng.below(4),                                   // zero in the 32 compared bits
				1 => (rng.next() & ((1 << 34) - 1)) & !3,            // low two bits zero
				_ => rng.next() & ((1 << 34) - 1),
			};
			let low = rng.below(64) as u8;
			for j in 0..*n {
				let tail = rng.bytes(25);
				let k = key(page, partial, low, &tail);
				let v = format!("value of family {} member {}", fi, j).into_bytes();
				keys.push((k, v));
			}
			// never inserted: same stored bits, another tail
			absent.push(key(page, partial, low, &rng.bytes(25)));
			// differs only in the two lowest / the two highest bits of the partial key, same tail
			let tail = keys.last().unwrap().0[7..32].to_vec();
			absent.push(key(page, partial ^ (1 + rng.below(3)), low, &tail));
			absent.push(key(page, partial ^ ((1 + rng.below(3)) << 32), low, &tail));
		}
		let absent: Vec<Vec<u8>> = absent.into_iter().filter(|a| !keys.iter().any(|(k, _)| k == a)).collect();
		let mut keys = keys;
		let check = |keys: &Vec<(Vec<u8>, Vec<u8>)>, stage: &str, upto: usize, rep: &mut Report| -> bool {
			for (i, (k, v)) in keys.iter().enumerate().take(upto) {
				rep.evaluations += 1;
				let got = db.get(0, k).expect("get");
				if got.as_ref() != Some(v) {
					rep.violation(
						"scenario=C19;failure=present_key_not_found;layer=db;ib=16".to_string(),
						format!(
							"[db layer, {}] key #{} of the page (slot order = insertion order; families {:?}) reads {} instead of its value",
							stage,
							i,
							families,
							got.map_or("as absent".to_string(), |g| format!("{:?}", String::from_utf8_lossy(&g)))
						),
						pv::json::J::obj().set("layer", pv::json::J::s("db")).set("round", pv::json::J::i(round)).set("shard_seed", pv::json::J::i(ctx.seed)),
					);
					return false
				}
			}
			for a in &absent {
				rep.evaluations += 1;
				let got = db.get(0, a).expect("get");
				if let Some(g) = got {
					rep.violation(
						"scenario=C19;failure=absent_key_found;layer=db;ib=16".to_string(),
						format!("[db layer, {}] a key that was never inserted reads {:?} (it shares stored bits with a present key)", stage, String::from_utf8_lossy(&g)),
						pv::json::J::obj().set("layer", pv::json::J::s("db")).set("round", pv::json::J::i(round)).set("shard_seed", pv::json::J::i(ctx.seed)),
					);
					return false
				}
			}
			true
		};
		// insert in slot order, a few keys per transaction
		let mut i = 0;
		let mut ok = true;
		while i < keys.len() && ok {
			let n = (1 + rng.usize(5)).min(keys.len() - i);
			db.commit(keys[i..i + n].iter().map(|(k, v)| (0u8, k.clone(), Some(v.clone())))).expect("commit");
			i += n;
			if rng.chance(1, 2) {
				db.process_commits().expect("process_commits");
			}
			if rng.chance(1, 6) {
				// (stepping without workers: reclaim enacted logs at once, as the cleanup worker
				// would, or the enact stage waits for it for ever)
				db.flush_logs().expect("flush");
				db.enact_logs().expect("enact");
				db.clean_logs().expect("clean");
			}
			if rng.chance(1, 8) {
				if rng.chance(1, 2) {
					let mut bound = 0;
					while db.verif_status().queued_commits > 0 && bound < 1000 {
						db.process_commits().expect("process_commits");
						bound += 1;
					}
				}
				ok = check(&keys, "while the page fills", i, rep);
			}
		}
		// (one call logs one transaction)
		let log_all = |db: &Db| {
			let mut bound = 0;
			while db.verif_status().queued_commits > 0 && bound < 1000 {
				db.process_commits().expect("process_commits");
				bound += 1;
			}
		};
		if ok {
			log_all(&db);
			ok = check(&keys, "page full, logged", keys.len(), rep);
		}
		if ok {
			db.flush_logs().expect("flush");
			db.enact_logs().expect("enact");
			db.clean_logs().expect("clean");
			ok = check(&keys, "page full, in the tables", keys.len(), rep);
		}
		if ok {
			// replace and remove through the same search: the last family's members
			let n = keys.len();
			let (k, _) = keys[n - 1].clone();
			db.commit(vec![(0u8, k.clone(), Some(b"replaced".to_vec()))]).expect("commit");
			keys[n - 1].1 = b"replaced".to_vec();
			log_all(&db);
			ok = check(&keys, "after replacing the key in the last slot", keys.len(), rep);
		}
		rep.count("db_layer_pages", 1);
		if families.last().map_or(false, |n| *n >= 2) {
			rep.count("db_layer_pages_with_family_in_last_slots", 1);
		}
		drop(db);
		if !ok {
			return
		}
	}
}
