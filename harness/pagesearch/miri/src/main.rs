//! C19 under Miri: same generator, oracle and checks as the native engine (`../../src/cases.rs`,
//! `common/src/rng.rs` are included, not copied). usage: <seed> <count> [ib,ib,...|-] [v]
//! The optional third argument lists index sizes for a start-position sweep: for each of them
//! every start position 0..=64 is searched on a page whose only match sits in slot 63 (so the
//! vectorised loop performs every load it can perform from that start).
//!
//! With the fourth argument `v` every case is printed (`CASE ...`) before it is run, so the last
//! such line identifies the case in which Miri stopped.
//!
//! stdout protocol (parsed by pdbv-pagesearch):
//!   MIRI_PROGRESS <n>                               n cases passed so far (sweep first, then random)
//!   MIRI_CASES <n> fast_found=<n> fallback=<n>      all cases passed
//!   MIRI_CHECK_FAIL kind=<k> ib=<ib> key=<hex> p=<p> page=<hex> :: <detail>   then exit code 3
//! Undefined behaviour is reported by Miri itself on stderr ("Undefined Behavior") with a
//! non-zero exit code.

#[path = "../../../common/src/rng.rs"]
#[allow(dead_code)]
mod rng;
#[path = "../../src/cases.rs"]
#[allow(dead_code)]
mod cases;

fn hex(page: &[u64; 64]) -> String {
	let mut s = String::with_capacity(1024);
	for b in cases::page_bytes(page) {
		s.push_str(&format!("{:02x}", b));
	}
	s
}

fn main() {
	let a: Vec<String> = std::env::args().collect();
	let seed: u64 = a.get(1).and_then(|s| s.parse().ok()).unwrap_or(1);
	let count: u64 = a.get(2).and_then(|s| s.parse().ok()).unwrap_or(0);
	let verbose = a.get(4).map(|s| s.as_str()) == Some("v");
	let announce = |c: &cases::Case| {
		if verbose {
			println!("CASE ib={} key={:016x} p={} page={}", c.ib, c.key, c.p, hex(&c.page));
		}
	};
	// the engine may stop this process at its time limit: what was completed is on stdout
	let progress = |n: u64| {
		use std::io::Write;
		println!("MIRI_PROGRESS {}", n);
		let _ = std::io::stdout().flush();
	};
	let mut rng = rng::Rng::new(seed ^ 0x4d49_5249);
	let (mut n, mut found, mut fallback) = (0u64, 0u64, 0u64);
	let fail = |c: &cases::Case, f: &cases::Failure| -> ! {
		println!(
			"MIRI_CHECK_FAIL kind={} ib={} key={:016x} p={} page={} :: {}",
			f.kind,
			c.ib,
			c.key,
			c.p,
			hex(&c.page),
			f.detail
		);
		std::process::exit(3)
	};
	let mut sweep = 0u64;
	if let Some(list) = a.get(3) {
		for ib in list.split(',').filter_map(|x| x.parse::<u8>().ok()) {
			if !(cases::IB_MIN..=cases::IB_MAX).contains(&ib) {
				continue
			}
			let mut page = [0u64; cases::SLOTS];
			let target = (rng.next() | (1u64 << 63)) | 1;
			page[cases::SLOTS - 1] = target;
			let key = cases::key_for_entry(ib, target, rng.next());
			for p in 0..=cases::SLOTS {
				let c = cases::Case { ib, key, p, page, page_kind: 7, key_kind: 0 };
				announce(&c);
				match cases::check_case(&c) {
					Ok(o) => {
						sweep += 1;
						if o.fast.is_some() {
							found += 1;
						}
					},
					Err(f) => fail(&c, &f),
				}
			}
		}
	}
	n += sweep;
	progress(n);
	let mut r = 0u64;
	while r < count {
		// eight queries per page: page generation costs about as much interpreter time as a check
		let b = cases::gen_batch(&mut rng, 8);
		for i in 0..b.nq {
			if r >= count {
				break
			}
			let c = b.case(i);
			announce(&c);
			match cases::check_case(&c) {
				Ok(o) => {
					n += 1;
					r += 1;
					if n % 16 == 0 {
						progress(n);
					}
					if o.fast.is_some() {
						found += 1;
					}
					if o.fallback {
						fallback += 1;
					}
				},
				Err(f) => fail(&c, &f),
			}
		}
	}
	println!("MIRI_CASES {} fast_found={} fallback={}", n, found, fallback);
}
