#!/bin/bash
# Pre-builds what the C19 engine needs besides its own binary, so that the first
# `check C19 <tier>` does not pay for it:
#   1. the Miri sysroot and the Miri build of /repo + dependencies  (target-miri, both tiers)
#   2. the AddressSanitizer build of pdbv-pagesearch                (target-asan, thorough tier)
# Works offline. Safe to re-run (cargo freshness). `--no-asan` skips step 2.
set -u
HERE=$(cd "$(dirname "$0")" && pwd)
HARNESS=$(cd "$HERE/.." && pwd)
export CARGO_NET_OFFLINE=true
rc=0
cd "$HERE/miri"
cmp -s /repo/Cargo.lock Cargo.lock || cp /repo/Cargo.lock Cargo.lock
echo "[setup_miri] miri sysroot" >&2
cargo +nightly miri setup >&2 || rc=1
echo "[setup_miri] miri build of parity-db + case driver" >&2
out=$(RUSTFLAGS="--cfg parity_db_verif" MIRIFLAGS="${PDBV_MIRIFLAGS:-}" \
  cargo +nightly miri run --offline --manifest-path "$HERE/miri/Cargo.toml" \
  --target-dir "$HARNESS/target-miri" -- 1 20) || rc=1
echo "$out" >&2
case "$out" in *"MIRI_CASES 20"*) ;; *) echo "[setup_miri] miri smoke run failed" >&2; rc=1 ;; esac
if [ "${1:-}" != "--no-asan" ]; then
  echo "[setup_miri] address-sanitizer build of pdbv-pagesearch" >&2
  cd "$HARNESS"
  RUSTFLAGS="--cfg parity_db_verif -Zsanitizer=address -Cforce-frame-pointers=yes" \
    cargo +nightly build --release --offline --target x86_64-unknown-linux-gnu \
    -p pdbv-pagesearch --target-dir "$HARNESS/target-asan" >&2 || rc=1
fi
exit $rc
