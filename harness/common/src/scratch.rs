//! Scratch directories (tmpfs) and panic capture.

use std::{
	cell::RefCell,
	path::{Path, PathBuf},
	sync::atomic::{AtomicU64, Ordering},
};

static COUNTER: AtomicU64 = AtomicU64::new(0);

pub fn scratch_base() -> PathBuf {
	let shm = Path::new("/dev/shm");
	if shm.is_dir() && std::fs::metadata(shm).map(|m| !m.permissions().readonly()).unwrap_or(false) {
		shm.to_path_buf()
	} else {
		std::env::temp_dir()
	}
}

/// A scratch directory removed on drop.
pub struct Scratch {
	pub path: PathBuf,
}

impl Scratch {
	pub fn new(tag: &str) -> Scratch {
		let n = COUNTER.fetch_add(1, Ordering::SeqCst);
		let path = scratch_base().join(format!("pdbv-{}-{}-{}", std::process::id(), tag, n));
		let _ = std::fs::remove_dir_all(&path);
		std::fs::create_dir_all(&path).expect("create scratch dir");
		Scratch { path }
	}
	pub fn sub(&self, name: &str) -> PathBuf {
		self.path.join(name)
	}
}

impl Drop for Scratch {
	fn drop(&mut self) {
		let _ = std::fs::remove_dir_all(&self.path);
	}
}

pub fn cleanup_pid(pid: u32) {
	let base = scratch_base();
	let prefix = format!("pdbv-{}-", pid);
	if let Ok(rd) = std::fs::read_dir(&base) {
		for e in rd.flatten() {
			if let Some(n) = e.file_name().to_str() {
				if n.starts_with(&prefix) {
					let _ = std::fs::remove_dir_all(e.path());
				}
			}
		}
	}
}

pub fn cleanup_all() {
	cleanup_pid(std::process::id());
}

pub fn parent_workdir(prop: &str) -> PathBuf {
	let p = scratch_base().join(format!("pdbvrun-{}-{}", prop, std::process::id()));
	let _ = std::fs::remove_dir_all(&p);
	std::fs::create_dir_all(&p).expect("workdir");
	p
}

/// Copy a flat database directory (files only). Sparse-aware: holes are preserved by seeking
/// over all-zero 64 KiB blocks.
pub fn copy_dir(src: &Path, dst: &Path) -> std::io::Result<()> {
	let _ = std::fs::remove_dir_all(dst);
	std::fs::create_dir_all(dst)?;
	for e in std::fs::read_dir(src)? {
		let e = e?;
		if e.file_type()?.is_file() {
			copy_file_sparse(&e.path(), &dst.join(e.file_name()))?;
		}
	}
	Ok(())
}

pub fn copy_file_sparse(src: &Path, dst: &Path) -> std::io::Result<()> {
	use std::io::{Read, Seek, SeekFrom, Write};
	let mut f = std::fs::File::open(src)?;
	let len = f.metadata()?.len();
	let mut o = std::fs::File::create(dst)?;
	if len == 0 {
		return Ok(())
	}
	// Use SEEK_DATA / SEEK_HOLE to skip holes.
	use std::os::unix::io::AsRawFd;
	let fd = f.as_raw_fd();
	let mut pos: i64 = 0;
	let mut buf = vec![0u8; 1 << 16];
	loop {
		let data = unsafe { libc::lseek(fd, pos, libc::SEEK_DATA) };
		if data < 0 {
			break
		}
		let hole = unsafe { libc::lseek(fd, data, libc::SEEK_HOLE) };
		let end = if hole < 0 { len as i64 } else { hole };
		f.seek(SeekFrom::Start(data as u64))?;
		o.seek(SeekFrom::Start(data as u64))?;
		let mut left = (end - data) as usize;
		while left > 0 {
			let n = left.min(buf.len());
			f.read_exact(&mut buf[..n])?;
			if buf[..n].iter().any(|b| *b != 0) {
				o.write_all(&buf[..n])?;
			} else {
				o.seek(SeekFrom::Current(n as i64))?;
			}
			left -= n;
		}
		pos = end;
		if pos >= len as i64 {
			break
		}
	}
	o.set_len(len)?;
	Ok(())
}

thread_local! {
	static LAST_PANIC: RefCell<Option<String>> = RefCell::new(None);
}

/// Every panic of the process, whatever thread it happened in ("thread name: message @ location").
static ALL_PANICS: std::sync::Mutex<Vec<String>> = std::sync::Mutex::new(Vec::new());

/// Panics recorded since the last call (threads of the library under test included).
pub fn take_all_panics() -> Vec<String> {
	match ALL_PANICS.lock() {
		Ok(mut g) => std::mem::take(&mut *g),
		Err(p) => std::mem::take(&mut *p.into_inner()),
	}
}

/// Quiet panic hook that remembers message + location (per thread) for `catch`.
pub fn install_panic_hook() {
	std::panic::set_hook(Box::new(|info| {
		let msg = if let Some(s) = info.payload().downcast_ref::<&str>() {
			s.to_string()
		} else if let Some(s) = info.payload().downcast_ref::<String>() {
			s.clone()
		} else {
			"<non-string panic>".to_string()
		};
		let loc = info.location().map(|l| format!("{}:{}", l.file(), l.line())).unwrap_or_default();
		let full = format!("{} @ {}", msg, loc);
		if std::env::var("PDBV_PANIC_TRACE").is_ok() {
			eprintln!("panic: {}\n{}", full, std::backtrace::Backtrace::force_capture());
		}
		if let Ok(mut g) = ALL_PANICS.lock() {
			if g.len() < 64 {
				g.push(format!("{}: {}", std::thread::current().name().unwrap_or("unnamed"), full));
			}
		}
		LAST_PANIC.with(|p| *p.borrow_mut() = Some(full));
	}));
}

/// Run `f`, converting a panic into `Err(message @ location)`.
pub fn catch<T>(f: impl FnOnce() -> T) -> Result<T, String> {
	LAST_PANIC.with(|p| *p.borrow_mut() = None);
	match std::panic::catch_unwind(std::panic::AssertUnwindSafe(f)) {
		Ok(v) => Ok(v),
		Err(_) => Err(LAST_PANIC.with(|p| p.borrow_mut().take()).unwrap_or_else(|| "panic".to_string())),
	}
}

/// Stable short form of a panic location for signatures: file:line with the /repo prefix removed.
pub fn panic_site(msg: &str) -> String {
	match msg.rfind(" @ ") {
		Some(i) => msg[i + 3..].replace("/repo/", "").to_string(),
		None => "unknown".to_string(),
	}
}

struct StderrLogger(log::LevelFilter);

impl log::Log for StderrLogger {
	fn enabled(&self, m: &log::Metadata) -> bool {
		m.level() <= self.0
	}
	fn log(&self, r: &log::Record) {
		if self.enabled(r.metadata()) {
			eprintln!("    [parity-db {}] {}", r.level(), r.args());
		}
	}
	fn flush(&self) {}
}

/// Print the library's own log lines (PDBV_LOG=warn|info|debug|trace); used when replaying.
pub fn install_logger() {
	let lvl = match std::env::var("PDBV_LOG").ok().as_deref() {
		Some("trace") => log::LevelFilter::Trace,
		Some("debug") => log::LevelFilter::Debug,
		Some("info") => log::LevelFilter::Info,
		Some("warn") => log::LevelFilter::Warn,
		_ => return,
	};
	let l: &'static StderrLogger = Box::leak(Box::new(StderrLogger(lvl)));
	let _ = log::set_logger(l);
	log::set_max_level(lvl);
}

struct SinkLogger;

impl log::Log for SinkLogger {
	fn enabled(&self, _m: &log::Metadata) -> bool {
		true
	}
	fn log(&self, r: &log::Record) {
		// format the arguments (that is where a logging statement can panic), discard the text
		use std::fmt::Write;
		let mut s = String::new();
		let _ = write!(s, "{}", r.args());
		std::hint::black_box(&s);
	}
	fn flush(&self) {}
}

/// Install a logger that evaluates and discards every log line; `log_level(on)` then switches
/// the library's debug logging on or off per case. A panic inside a log statement of a library
/// call is a panic of that call.
pub fn install_sink_logger() {
	static L: SinkLogger = SinkLogger;
	let _ = log::set_logger(&L);
	log::set_max_level(log::LevelFilter::Off);
}

pub fn log_level(debug_on: bool) {
	if std::env::var("PDBV_LOG").is_ok() {
		return
	}
	log::set_max_level(if debug_on { log::LevelFilter::Debug } else { log::LevelFilter::Off });
}
