//! Reference model of one multitree column (C10 / C11).

use crate::model::{ChildSpec, Op, TreeSpec, Validity};
use std::collections::{BTreeMap, BTreeSet};

#[derive(Clone, Debug, PartialEq, Eq)]
pub struct MNode {
	pub data: Vec<u8>,
	pub children: Vec<u64>,
	/// address reported by the database when the node was first read back
	pub addr: Option<u64>,
	/// number of references from live parents (nodes or roots), duplicates counted
	pub refs: u64,
}

#[derive(Clone, Debug, PartialEq, Eq)]
pub struct MRoot {
	pub data: Vec<u8>,
	pub children: Vec<u64>,
	pub count: u64,
}

#[derive(Clone, Debug, PartialEq, Eq)]
pub struct TreeModel {
	pub append_only: bool,
	pub rc_roots: bool,
	pub next_id: u64,
	pub nodes: BTreeMap<u64, MNode>,
	pub roots: BTreeMap<Vec<u8>, MRoot>,
}

pub trait TreeAccess {
	fn root(&self) -> Result<Option<(Vec<u8>, Vec<u64>)>, String>;
	fn node(&self, addr: u64) -> Result<Option<(Vec<u8>, Vec<u64>)>, String>;
}

#[derive(Default, Debug, Clone)]
pub struct WalkStats {
	pub nodes_checked: u64,
	pub shared_hits: u64,
	pub bound: u64,
	pub max_depth: u64,
}

pub const MAX_FANOUT: usize = 255;

impl TreeModel {
	pub fn new(append_only: bool, rc_roots: bool) -> TreeModel {
		TreeModel { append_only, rc_roots, next_id: 1, nodes: BTreeMap::new(), roots: BTreeMap::new() }
	}

	pub fn validity(&self, op: &Op) -> Validity {
		match op {
			Op::InsertTree(_, _k, spec) =>
				if spec.max_fanout() > MAX_FANOUT {
					Validity::Invalid(format!("fan-out {} cannot be represented", spec.max_fanout()))
				} else {
					Validity::Valid
				},
			Op::RefTree(..) =>
				if self.append_only || self.rc_roots {
					Validity::Valid
				} else {
					Validity::Invalid("reference on a tree column without root counting".into())
				},
			Op::DerefTree(_, k) =>
				if self.append_only {
					Validity::Invalid("dereference on an append-only tree column".into())
				} else if !self.roots.contains_key(k) {
					Validity::Invalid("dereference of a missing tree root".into())
				} else {
					Validity::Valid
				},
			_ => Validity::Invalid("plain op on multitree column".into()),
		}
	}

	fn add_spec_children(&mut self, spec: &TreeSpec) -> Vec<u64> {
		let mut out = vec![];
		for c in &spec.children {
			match c {
				ChildSpec::New(t) => {
					let id = self.next_id;
					self.next_id += 1;
					// reserve the id before recursing so ids follow pre-order
					self.nodes.insert(id, MNode { data: t.data.clone(), children: vec![], addr: None, refs: 1 });
					let ch = self.add_spec_children(t);
					self.nodes.get_mut(&id).unwrap().children = ch;
					out.push(id);
				},
				ChildSpec::Existing(id) => {
					if let Some(n) = self.nodes.get_mut(id) {
						if !self.append_only {
							n.refs += 1;
						}
					}
					out.push(*id);
				},
			}
		}
		out
	}

	fn release(&mut self, id: u64) {
		let gone = if let Some(n) = self.nodes.get_mut(&id) {
			n.refs -= 1;
			n.refs == 0
		} else {
			false
		};
		if gone {
			let n = self.nodes.remove(&id).unwrap();
			for c in n.children {
				self.release(c);
			}
		}
	}

	/// Apply a valid operation.
	pub fn apply(&mut self, op: &Op) {
		match op {
			Op::InsertTree(_, k, spec) => {
				if let Some(r) = self.roots.get_mut(k) {
					// re-insertion of a live root key: only meaningful with counted roots
					r.count += 1;
					return
				}
				let children = self.add_spec_children(spec);
				self.roots.insert(k.clone(), MRoot { data: spec.data.clone(), children, count: 1 });
			},
			Op::RefTree(_, k) =>
				if !self.append_only {
					if let Some(r) = self.roots.get_mut(k) {
						r.count += 1;
					}
				},
			Op::DerefTree(_, k) => {
				let gone = if let Some(r) = self.roots.get_mut(k) {
					r.count -= 1;
					r.count == 0
				} else {
					false
				};
				if gone {
					let r = self.roots.remove(k).unwrap();
					for c in r.children {
						self.release(c);
					}
				}
			},
			_ => {},
		}
	}

	pub fn live_nodes(&self) -> usize {
		self.nodes.len()
	}

	pub fn live_entries(&self) -> usize {
		self.nodes.len() + self.roots.len()
	}

	pub fn addr_of(&self, id: u64) -> Option<u64> {
		self.nodes.get(&id).and_then(|n| n.addr)
	}

	/// nodes that can be named as `Existing` children (address known)
	pub fn addressable(&self) -> Vec<u64> {
		self.nodes.iter().filter(|(_, n)| n.addr.is_some()).map(|(id, _)| *id).collect()
	}

	/// ids reachable from one root
	pub fn reachable(&self, key: &[u8]) -> BTreeSet<u64> {
		let mut seen = BTreeSet::new();
		if let Some(r) = self.roots.get(key) {
			let mut stack: Vec<u64> = r.children.clone();
			while let Some(id) = stack.pop() {
				if seen.insert(id) {
					if let Some(n) = self.nodes.get(&id) {
						stack.extend(n.children.iter().copied());
					}
				}
			}
		}
		seen
	}

	/// Compare one live tree with what the database returns; binds addresses of nodes seen for
	/// the first time. `Err` carries a description of the first mismatch.
	pub fn check_tree(&mut self, key: &[u8], acc: &dyn TreeAccess) -> Result<WalkStats, String> {
		let root = self.roots.get(key).cloned().ok_or_else(|| "model has no such root".to_string())?;
		let got = acc.root()?.ok_or_else(|| "live root is not readable".to_string())?;
		if got.0 != root.data {
			return Err(format!("root data differs: model {} bytes, db {} bytes", root.data.len(), got.0.len()))
		}
		if got.1.len() != root.children.len() {
			return Err(format!(
				"root child count differs: model {}, db {}",
				root.children.len(),
				got.1.len()
			))
		}
		let mut st = WalkStats::default();
		let mut visited = BTreeSet::new();
		for (i, id) in root.children.iter().enumerate() {
			self.check_node(*id, got.1[i], acc, &mut st, &mut visited, 1)?;
		}
		Ok(st)
	}

	fn check_node(
		&mut self,
		id: u64,
		addr: u64,
		acc: &dyn TreeAccess,
		st: &mut WalkStats,
		visited: &mut BTreeSet<u64>,
		depth: u64,
	) -> Result<(), String> {
		st.max_depth = st.max_depth.max(depth);
		let node = self.nodes.get(&id).cloned().ok_or_else(|| format!("model node {} is not live", id))?;
		match node.addr {
			Some(a) if a != addr =>
				return Err(format!("child resolves to address {:#x}, expected the shared node at {:#x}", addr, a)),
			Some(_) => {},
			None => {
				// a freshly inserted node: its address must not collide with another live node
				if let Some((other, _)) = self.nodes.iter().find(|(oid, n)| **oid != id && n.addr == Some(addr)) {
					return Err(format!("new node {} got address {:#x} already used by live node {}", id, addr, other))
				}
				self.nodes.get_mut(&id).unwrap().addr = Some(addr);
				st.bound += 1;
			},
		}
		if !visited.insert(id) {
			st.shared_hits += 1;
			return Ok(())
		}
		let got = acc.node(addr)?.ok_or_else(|| format!("live node {} at {:#x} is not readable", id, addr))?;
		st.nodes_checked += 1;
		if got.0 != node.data {
			return Err(format!(
				"node {} at {:#x}: data differs (model {} bytes, db {} bytes)",
				id,
				addr,
				node.data.len(),
				got.0.len()
			))
		}
		if got.1.len() != node.children.len() {
			return Err(format!(
				"node {} at {:#x}: child count differs (model {}, db {})",
				id,
				addr,
				node.children.len(),
				got.1.len()
			))
		}
		for (i, c) in node.children.iter().enumerate() {
			self.check_node(*c, got.1[i], acc, st, visited, depth + 1)?;
		}
		Ok(())
	}
}
