//! Database configuration helper and the legal stepping driver shared by the engines.

use parity_db::{ColumnOptions, CompressionType, Db, Options, VerifStatus};
use std::{collections::HashMap, path::Path};

#[derive(Clone, Debug)]
pub struct DbCfg {
	pub cols: Vec<ColumnOptions>,
	pub thresholds: HashMap<u8, u32>,
	pub salt: Option<[u8; 32]>,
	pub background: bool,
	pub always_flush: bool,
	pub sync_wal: bool,
	pub sync_data: bool,
	pub stats: bool,
}

impl DbCfg {
	pub fn new(cols: Vec<ColumnOptions>) -> DbCfg {
		DbCfg {
			cols,
			thresholds: HashMap::new(),
			salt: None,
			background: false,
			always_flush: false,
			sync_wal: true,
			sync_data: true,
			stats: false,
		}
	}
	pub fn options(&self, path: &Path) -> Options {
		let mut o = Options::with_columns(path, self.cols.len() as u8);
		o.columns = self.cols.clone();
		o.compression_threshold = self.thresholds.clone();
		o.salt = self.salt;
		o.with_background_thread = self.background;
		o.always_flush = self.always_flush;
		o.sync_wal = self.sync_wal;
		o.sync_data = self.sync_data;
		o.stats = self.stats;
		o
	}
	pub fn describe(&self) -> String {
		let mut s = String::new();
		for (i, c) in self.cols.iter().enumerate() {
			if i > 0 {
				s.push('|');
			}
			s.push_str(&col_kind(c));
			if let Some(t) = self.thresholds.get(&(i as u8)) {
				s.push_str(&format!("@{}", t));
			}
		}
		if self.salt == Some([0u8; 32]) {
			s.push_str(" zero-salt");
		}
		if self.background {
			s.push_str(" bg");
		}
		if self.always_flush {
			s.push_str(" always_flush");
		}
		s
	}
}

pub fn col_kind(c: &ColumnOptions) -> String {
	let mut s = String::new();
	s.push_str(if c.btree_index {
		"btree"
	} else if c.multitree {
		"multitree"
	} else {
		"hash"
	});
	if c.uniform {
		s.push_str("+uniform");
	}
	if c.preimage {
		s.push_str("+preimage");
	}
	if c.ref_counted {
		s.push_str("+rc");
	}
	if c.append_only {
		s.push_str("+append_only");
	}
	if c.allow_direct_node_access {
		s.push_str("+direct");
	}
	match c.compression {
		CompressionType::NoCompression => {},
		CompressionType::Lz4 => s.push_str("+lz4"),
		CompressionType::Snappy => s.push_str("+snappy"),
	}
	s
}

pub fn col(
	btree: bool,
	uniform: bool,
	preimage: bool,
	rc: bool,
	compression: CompressionType,
) -> ColumnOptions {
	ColumnOptions {
		preimage,
		uniform,
		ref_counted: rc,
		compression,
		btree_index: btree,
		multitree: false,
		append_only: false,
		allow_direct_node_access: false,
	}
}

pub fn multitree_col(append_only: bool, rc: bool, direct: bool) -> ColumnOptions {
	ColumnOptions {
		preimage: rc,
		uniform: false,
		ref_counted: rc,
		compression: CompressionType::NoCompression,
		btree_index: false,
		multitree: true,
		append_only,
		allow_direct_node_access: direct,
	}
}

/// Pipeline steps of the stepping API.
#[derive(Clone, Copy, Debug, PartialEq, Eq)]
pub enum Step {
	ProcessCommits,
	ProcessReindex,
	FlushLogs,
	EnactOne,
	EnactAll,
	CleanLogs,
}

impl Step {
	pub fn name(&self) -> &'static str {
		match self {
			Step::ProcessCommits => "process_commits",
			Step::ProcessReindex => "process_reindex",
			Step::FlushLogs => "flush_logs",
			Step::EnactOne => "enact_one",
			Step::EnactAll => "enact_all",
			Step::CleanLogs => "clean_logs",
		}
	}
}

/// Coarse description of where data currently sits, used as a coverage key only.
pub fn shape(st: &VerifStatus) -> String {
	let idx_files: usize = st
		.columns
		.iter()
		.map(|c| c.reindex_index_bits.len() + c.reindex_ref_count_bits.len())
		.sum();
	format!(
		"q{}a{}r{}d{}x{}i{}",
		st.queued_commits.min(3),
		st.appending.map_or(0, |a| if a.1 > 0 { 1 } else { 0 }),
		(st.read_queue_len + st.reading.map_or(0, |_| 1)).min(3),
		st.dirty_logs.min(3),
		if st.next_reindex != 0 { 1 } else { 0 },
		idx_files.min(3),
	)
}

pub fn pending_log_files(st: &VerifStatus) -> usize {
	st.reading.map_or(0, |_| 1) +
		st.read_queue_len +
		st.appending.map_or(0, |_| 1) +
		// drop flushes the appending file first, so queued commits always go to a new file
		if st.queued_commits > 0 { 1 } else { 0 }
}

/// Max dirty logs the commit stage tolerates before it waits for the cleanup stage.
pub const MAX_DIRTY: usize = 4;

/// Perform one pipeline step, respecting the schedule-legality rules L1 (DESIGN 3.1):
/// an enact is only issued while `dirty_logs <= 4`; the cleanup step the real cleanup
/// worker would have run is inserted first otherwise. Returns the step's result.
pub fn do_step(db: &Db, step: Step) -> parity_db::Result<()> {
	match step {
		Step::ProcessCommits => db.process_commits(),
		Step::ProcessReindex => db.process_reindex(),
		Step::FlushLogs => db.flush_logs(),
		Step::CleanLogs => db.clean_logs(),
		Step::EnactOne => {
			if db.verif_status().dirty_logs > MAX_DIRTY {
				db.clean_logs()?;
			}
			db.verif_enact_one().map(|_| ())
		},
		Step::EnactAll => {
			// `enact_logs(false)` also returns false at the end of each log file: keep going
			// while another flushed file is waiting (what the commit worker's loop does)
			loop {
				let st = db.verif_status();
				if st.dirty_logs > MAX_DIRTY {
					db.clean_logs()?;
				}
				if !db.verif_enact_one()? {
					let st = db.verif_status();
					if st.read_queue_len == 0 && st.reading.is_none() {
						break
					}
				}
			}
			Ok(())
		},
	}
}

/// Run a pipeline step on a helper thread and watch it: used by the histories that hold tree
/// reader guards on the stepping thread. The real log worker never waits for a client-held tree
/// lock (a dereference of a locked tree is postponed, C11); if the step nevertheless blocks on
/// such a lock it can never return here - the only holder is the caller. The refuting event is the
/// helper thread SLEEPING without consuming any CPU time for `patience` while the caller does
/// nothing else (a stable blocked state read from /proc, not a deadline for slow code): then
/// `Err(description with the thread states)` is returned and the helper thread is abandoned.
pub fn do_step_watched(db: &Db, step: Step, patience: std::time::Duration) -> Result<parity_db::Result<()>, String> {
	use std::sync::{atomic::{AtomicU64, Ordering}, mpsc, Arc};
	let dbp = db as *const Db as usize;
	let tid = Arc::new(AtomicU64::new(0));
	let tid2 = tid.clone();
	let (tx, rx) = mpsc::channel();
	let h = std::thread::Builder::new()
		.name("pdbv-step".into())
		.spawn(move || {
			tid2.store(unsafe { libc::syscall(libc::SYS_gettid) } as u64, Ordering::SeqCst);
			// SAFETY: the caller keeps `db` alive until this thread reported back; if it never
			// does, the caller leaks the handle (a failed history never drops its Db)
			let db: &Db = unsafe { &*(dbp as *const Db) };
			let r = do_step(db, step);
			let _ = tx.send(r);
		})
		.map_err(|e| format!("cannot spawn the step thread: {}", e))?;
	let cpu_and_state = |t: u64| -> Option<(u64, char)> {
		let s = std::fs::read_to_string(format!("/proc/self/task/{}/stat", t)).ok()?;
		let rest = &s[s.rfind(')')? + 2..];
		let f: Vec<&str> = rest.split_whitespace().collect();
		Some((f.get(11)?.parse::<u64>().ok()? + f.get(12)?.parse::<u64>().ok()?, f.first()?.chars().next()?))
	};
	let mut last_cpu = 0u64;
	let mut idle_since = std::time::Instant::now();
	loop {
		match rx.recv_timeout(std::time::Duration::from_millis(250)) {
			Ok(r) => {
				let _ = h.join();
				return Ok(r)
			},
			Err(mpsc::RecvTimeoutError::Disconnected) => {
				let _ = h.join();
				return Err("the step thread ended without a result (panic inside the step)".into())
			},
			Err(mpsc::RecvTimeoutError::Timeout) => {
				let t = tid.load(Ordering::SeqCst);
				match cpu_and_state(t) {
					Some((cpu, st)) if st == 'S' && cpu == last_cpu => {
						if idle_since.elapsed() >= patience {
							return Err(format!("step thread {} sleeps without consuming CPU time for {:?}\n{}", t, idle_since.elapsed(), crate::run::thread_states()))
						}
					},
					Some((cpu, _)) => {
						last_cpu = cpu;
						idle_since = std::time::Instant::now();
					},
					None => {},
				}
			},
		}
	}
}

// ---------------------------------------------------------------------------------------------
// Nested stepping: a deterministic stand-in for two pipeline workers running at the same time.
// While the OUTER step runs on this thread, the library reaches one of its hand-over sites
// (`parity_db::verif::yield_point`); at the chosen hit of the chosen site the hook runs the
// INNER steps - steps that in the real program belong to ANOTHER worker thread - and then lets
// the outer step continue. Only (site, inner) pairs are generated at which the outer step holds
// no lock the inner steps need and which correspond to distinct workers (DESIGN 3.1).
// ---------------------------------------------------------------------------------------------

/// Sites of `parity_db::verif` (numbers fixed by the hook commit).
pub mod site {
	pub const BEFORE_END_RECORD: u32 = 2;
	pub const AFTER_END_RECORD: u32 = 3;
	pub const AFTER_OVERLAY_CLEAN: u32 = 4;
	pub const BEFORE_END_READ: u32 = 5;
	pub const AFTER_END_READ: u32 = 6;
	pub const ENACT_ACTION: u32 = 7;
	pub const FLUSH_SYNCED: u32 = 8;
	pub const DROP_INDEX: u32 = 11;
	pub const BEFORE_CLEAN: u32 = 12;
	pub const REINDEX_RECORD: u32 = 15;
}

#[derive(Clone, Debug, PartialEq, Eq)]
pub struct Nest {
	pub site: u32,
	/// fire at the n-th time (1-based) the site is reached inside the outer step
	pub hit: u32,
	pub inner: Vec<Step>,
}

impl Nest {
	pub fn show(&self) -> String {
		format!("@site{}#{}[{}]", self.site, self.hit, self.inner.iter().map(|s| s.name()).collect::<Vec<_>>().join(","))
	}
}

/// Which worker a step belongs to: 0 log worker, 1 flush worker, 2 commit worker, 3 cleanup worker.
pub fn worker_of(step: Step) -> u8 {
	match step {
		Step::ProcessCommits | Step::ProcessReindex => 0,
		Step::FlushLogs => 1,
		Step::EnactOne | Step::EnactAll => 2,
		Step::CleanLogs => 3,
	}
}

/// Sites that an outer step can reach without holding a lock an inner step of another worker needs.
pub fn sites_of(outer: Step) -> &'static [u32] {
	match outer {
		Step::ProcessCommits => &[site::BEFORE_END_RECORD, site::AFTER_END_RECORD, site::AFTER_OVERLAY_CLEAN],
		Step::ProcessReindex => &[site::REINDEX_RECORD],
		// at FLUSH_SYNCED the flush stage still holds the `appending` write lock: no other stage can run there
		Step::FlushLogs => &[],
		Step::EnactOne | Step::EnactAll => &[site::ENACT_ACTION, site::BEFORE_END_READ, site::AFTER_END_READ],
		Step::CleanLogs => &[site::BEFORE_CLEAN],
	}
}

/// A random nested schedule for `outer`: a site the outer step reaches without holding a lock
/// the inner steps need, and 1-2 steps of other workers. None when the outer step has no such site.
pub fn random_nest(rng: &mut crate::Rng, outer: Step) -> Option<Nest> {
	let sites = sites_of(outer);
	if sites.is_empty() {
		return None
	}
	let s = *rng.pick(sites);
	let hit = if s == site::ENACT_ACTION { rng.range(1, 8) as u32 } else { rng.range(1, 2) as u32 };
	let all = [Step::ProcessCommits, Step::ProcessReindex, Step::FlushLogs, Step::EnactOne, Step::EnactAll, Step::CleanLogs];
	let others: Vec<Step> = all.iter().copied().filter(|x| worker_of(*x) != worker_of(outer)).collect();
	let n = rng.range(1, 2) as usize;
	let inner = (0..n).map(|_| *rng.pick(&others)).collect();
	Some(Nest { site: s, hit, inner })
}

struct NestState {
	db: usize,
	site: u32,
	remaining: u32,
	inner: Vec<Step>,
	fired: bool,
	executed: usize,
	err: Option<String>,
}

static NEST: std::sync::Mutex<Option<NestState>> = std::sync::Mutex::new(None);
static INNER_ENACT: std::sync::atomic::AtomicBool = std::sync::atomic::AtomicBool::new(false);

/// True while (and after, until the next nested call) the current nested schedule has let the
/// commit stage apply log records inside another stage's step.
pub fn nested_enact_fired() -> bool {
	INNER_ENACT.load(std::sync::atomic::Ordering::SeqCst)
}

fn nest_hook(site: u32) {
	let (dbp, inner) = {
		let mut g = NEST.lock().unwrap_or_else(|e| e.into_inner());
		match g.as_mut() {
			Some(n) if !n.fired && n.site == site => {
				n.remaining = n.remaining.saturating_sub(1);
				if n.remaining > 0 {
					return
				}
				n.fired = true;
				(n.db, n.inner.clone())
			},
			_ => return,
		}
	};
	// SAFETY: the pointer is the `&Db` of the enclosing `do_step_nested` call on this thread
	let db: &Db = unsafe { &*(dbp as *const Db) };
	let mut executed = 0;
	let mut err = None;
	for s in inner {
		if matches!(s, Step::EnactOne | Step::EnactAll) {
			INNER_ENACT.store(true, std::sync::atomic::Ordering::SeqCst);
		}
		match do_step_inner(db, s) {
			Ok(true) => executed += 1,
			Ok(false) => {},
			Err(e) => {
				err = Some(format!("{}: {}", s.name(), e));
				break
			},
		}
	}
	let mut g = NEST.lock().unwrap_or_else(|e| e.into_inner());
	if let Some(n) = g.as_mut() {
		n.executed = executed;
		n.err = err;
	}
}

/// An inner step: as `do_step`, but never inserts a cleanup step (it may run inside one) -
/// an enact that the commit worker would have to wait for is skipped instead.
fn do_step_inner(db: &Db, step: Step) -> parity_db::Result<bool> {
	match step {
		Step::ProcessCommits => db.process_commits().map(|_| true),
		Step::ProcessReindex => db.process_reindex().map(|_| true),
		Step::FlushLogs => db.flush_logs().map(|_| true),
		Step::CleanLogs => db.clean_logs().map(|_| true),
		Step::EnactOne => {
			if db.verif_status().dirty_logs > MAX_DIRTY {
				return Ok(false)
			}
			db.verif_enact_one().map(|_| true)
		},
		Step::EnactAll => {
			let mut any = false;
			for _ in 0..10_000 {
				let st = db.verif_status();
				if st.dirty_logs > MAX_DIRTY {
					break
				}
				any = true;
				if !db.verif_enact_one()? {
					let st = db.verif_status();
					if st.read_queue_len == 0 && st.reading.is_none() {
						break
					}
				}
			}
			Ok(any)
		},
	}
}

pub struct NestOutcome {
	/// the site was reached often enough and the inner steps were started
	pub fired: bool,
	pub inner_executed: usize,
	pub inner_err: Option<String>,
}

/// Run `outer` with the inner steps of `nest` injected at its site. The outer result is returned
/// as for `do_step`; an error of an inner step is reported in the outcome (with the fault
/// injector armed the outer step then fails at its next file operation as well).
pub fn do_step_nested(db: &Db, outer: Step, nest: &Nest) -> (parity_db::Result<()>, NestOutcome) {
	{
		let mut g = NEST.lock().unwrap_or_else(|e| e.into_inner());
		*g = Some(NestState { db: db as *const Db as usize, site: nest.site, remaining: nest.hit.max(1), inner: nest.inner.clone(), fired: false, executed: 0, err: None });
	}
	INNER_ENACT.store(false, std::sync::atomic::Ordering::SeqCst);
	parity_db::verif::set_yield_hook(Some(nest_hook));
	let r = do_step(db, outer);
	parity_db::verif::set_yield_hook(None);
	let st = NEST.lock().unwrap_or_else(|e| e.into_inner()).take();
	let out = match st {
		Some(n) => NestOutcome { fired: n.fired, inner_executed: n.executed, inner_err: n.err },
		None => NestOutcome { fired: false, inner_executed: 0, inner_err: None },
	};
	(r, out)
}

/// Make the state legal for dropping the handle (rule L2): `drop` enacts every pending log
/// file without a cleanup stage, so the number of uncleaned + pending files must stay <= 5.
pub fn make_drop_legal(db: &Db) -> parity_db::Result<()> {
	let st = db.verif_status();
	if st.dirty_logs + pending_log_files(&st) > MAX_DIRTY + 1 {
		do_step(db, Step::EnactAll)?;
		db.clean_logs()?;
	}
	Ok(())
}

/// Drive everything to the tables: process all commits and reindex batches, flush, enact,
/// clean. Bounded; returns the number of rounds used.
pub fn drain(db: &Db) -> parity_db::Result<usize> {
	drain_opt(db, true)
}

/// `process_queue = false`: the caller logs the commit queue itself (and keeps track of
/// postponed transactions); only reindex / flush / enact / clean are driven here.
pub fn drain_opt(db: &Db, process_queue: bool) -> parity_db::Result<usize> {
	let mut rounds = 0;
	loop {
		rounds += 1;
		let mut stuck = false;
		loop {
			let before = db.verif_status();
			if before.queued_commits == 0 {
				break
			}
			if !process_queue {
				stuck = true;
				break
			}
			db.process_commits()?;
			let after = db.verif_status();
			if after.queued_commits >= before.queued_commits {
				// the commit was postponed (a tree reader is locked): cannot drain further
				stuck = true;
				break
			}
		}
		db.flush_logs()?;
		do_step(db, Step::EnactAll)?;
		db.clean_logs()?;
		// reindex batches become possible once their trigger record is enacted
		let before = db.verif_status().next_record_id;
		db.process_reindex()?;
		let st = db.verif_status();
		let idle = st.queued_commits == 0 &&
			st.appending.map_or(true, |a| a.1 == 0) &&
			st.read_queue_len == 0 &&
			st.reading.is_none() &&
			st.next_record_id == before &&
			st.next_reindex == 0;
		if idle || stuck || rounds > 10_000 {
			// final: one more enact to retire a finished reader
			do_step(db, Step::EnactAll)?;
			db.clean_logs()?;
			return Ok(rounds)
		}
	}
}

pub fn is_fully_logged(st: &VerifStatus) -> bool {
	st.queued_commits == 0
}

pub fn list_files(dir: &Path) -> Vec<(String, u64)> {
	let mut v = vec![];
	if let Ok(rd) = std::fs::read_dir(dir) {
		for e in rd.flatten() {
			if let (Some(n), Ok(m)) = (e.file_name().to_str().map(|s| s.to_string()), e.metadata()) {
				if m.is_file() {
					v.push((n, m.len()));
				}
			}
		}
	}
	v.sort();
	v
}

/// FNV-1a 64 over a file's content (content identity, not cryptographic).
pub fn file_hash(p: &Path) -> u64 {
	let data = std::fs::read(p).unwrap_or_default();
	fnv(&data)
}

pub fn fnv(data: &[u8]) -> u64 {
	let mut h: u64 = 0xcbf29ce484222325;
	for b in data {
		h ^= *b as u64;
		h = h.wrapping_mul(0x100000001b3);
	}
	h
}

pub fn dir_hashes(dir: &Path) -> Vec<(String, u64, u64)> {
	list_files(dir).into_iter().map(|(n, l)| {
		let h = file_hash(&dir.join(&n));
		(n, l, h)
	}).collect()
}

/// Owner of a `Db` that is only dropped through `close()`. If a history fails (oracle violation
/// or panic) the handle is leaked instead: dropping a Db whose pipeline is in an arbitrary state
/// could block forever (see rule L2) and would turn a finding into a hang.
pub struct Handle(std::mem::ManuallyDrop<Db>);

impl Handle {
	pub fn new(db: Db) -> Handle {
		Handle(std::mem::ManuallyDrop::new(db))
	}
	pub fn close(mut self) {
		unsafe { std::mem::ManuallyDrop::drop(&mut self.0) };
		std::mem::forget(self);
	}
}

impl std::ops::Deref for Handle {
	type Target = Db;
	fn deref(&self) -> &Db {
		&self.0
	}
}

/// With live workers: wait (bounded) until nothing is queued, logged-unflushed or
/// flushed-unenacted. Used before dropping a handle opened with the test-only `always_flush`
/// option: that option can leave more than 4 tiny log files pending, a state in which `drop`
/// waits for a cleanup worker that has already exited (not reachable with production log
/// sizes; see DESIGN.md section 11).
pub fn wait_idle(db: &Db, max: std::time::Duration) -> bool {
	let t0 = std::time::Instant::now();
	while t0.elapsed() < max {
		let st = db.verif_status();
		if st.queued_commits == 0 && st.read_queue_len == 0 && st.reading.is_none() && st.dirty_logs <= 2 {
			return true
		}
		std::thread::sleep(std::time::Duration::from_millis(5));
	}
	false
}
