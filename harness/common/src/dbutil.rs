//! Database configuration helper and the legal stepping driver shared by the engines.

use parity_db::{ColumnOptions, CompressionType, Db, Options, VerifStatus};
use std::{collections::HashMap, path::Path};

#[derive(Clone, Debug)]
pub struct DbCfg {
	pub cols: Vec<ColumnOptions>,
	pub thresholds: HashMap<u8, u32>,
	pub salt: Option<[u8; 32]>,
	pub background: bool,
	pub always_flush: bool,
	pub sync_wal: bool,
	pub sync_data: bool,
	pub stats: bool,
}

impl DbCfg {
	pub fn new(cols: Vec<ColumnOptions>) -> DbCfg {
		DbCfg {
			cols,
			thresholds: HashMap::new(),
			salt: None,
			background: false,
			always_flush: false,
			sync_wal: true,
			sync_data: true,
			stats: false,
		}
	}
	pub fn options(&self, path: &Path) -> Options {
		let mut o = Options::with_columns(path, self.cols.len() as u8);
		o.columns = self.cols.clone();
		o.compression_threshold = self.thresholds.clone();
		o.salt = self.salt;
		o.with_background_thread = self.background;
		o.always_flush = self.always_flush;
		o.sync_wal = self.sync_wal;
		o.sync_data = self.sync_data;
		o.stats = self.stats;
		o
	}
	pub fn describe(&self) -> String {
		let mut s = String::new();
		for (i, c) in self.cols.iter().enumerate() {
			if i > 0 {
				s.push('|');
			}
			s.push_str(&col_kind(c));
			if let Some(t) = self.thresholds.get(&(i as u8)) {
				s.push_str(&format!("@{}", t));
			}
		}
		if self.salt == Some([0u8; 32]) {
			s.push_str(" zero-salt");
		}
		if self.background {
			s.push_str(" bg");
		}
		if self.always_flush {
			s.push_str(" always_flush");
		}
		s
	}
}

pub fn col_kind(c: &ColumnOptions) -> String {
	let mut s = String::new();
	s.push_str(if c.btree_index {
		"btree"
	} else if c.multitree {
		"multitree"
	} else {
		"hash"
	});
	if c.uniform {
		s.push_str("+uniform");
	}
	if c.preimage {
		s.push_str("+preimage");
	}
	if c.ref_counted {
		s.push_str("+rc");
	}
	if c.append_only {
		s.push_str("+append_only");
	}
	if c.allow_direct_node_access {
		s.push_str("+direct");
	}
	match c.compression {
		CompressionType::NoCompression => {},
		CompressionType::Lz4 => s.push_str("+lz4"),
		CompressionType::Snappy => s.push_str("+snappy"),
	}
	s
}

pub fn col(
	btree: bool,
	uniform: bool,
	preimage: bool,
	rc: bool,
	compression: CompressionType,
) -> ColumnOptions {
	ColumnOptions {
		preimage,
		uniform,
		ref_counted: rc,
		compression,
		btree_index: btree,
		multitree: false,
		append_only: false,
		allow_direct_node_access: false,
	}
}

pub fn multitree_col(append_only: bool, rc: bool, direct: bool) -> ColumnOptions {
	ColumnOptions {
		preimage: rc,
		uniform: false,
		ref_counted: rc,
		compression: CompressionType::NoCompression,
		btree_index: false,
		multitree: true,
		append_only,
		allow_direct_node_access: direct,
	}
}

/// Pipeline steps of the stepping API.
#[derive(Clone, Copy, Debug, PartialEq, Eq)]
pub enum Step {
	ProcessCommits,
	ProcessReindex,
	FlushLogs,
	EnactOne,
	EnactAll,
	CleanLogs,
}

impl Step {
	pub fn name(&self) -> &'static str {
		match self {
			Step::ProcessCommits => "process_commits",
			Step::ProcessReindex => "process_reindex",
			Step::FlushLogs => "flush_logs",
			Step::EnactOne => "enact_one",
			Step::EnactAll => "enact_all",
			Step::CleanLogs => "clean_logs",
		}
	}
}

/// Coarse description of where data currently sits, used as a coverage key only.
pub fn shape(st: &VerifStatus) -> String {
	let idx_files: usize = st
		.columns
		.iter()
		.map(|c| c.reindex_index_bits.len() + c.reindex_ref_count_bits.len())
		.sum();
	format!(
		"q{}a{}r{}d{}x{}i{}",
		st.queued_commits.min(3),
		st.appending.map_or(0, |a| if a.1 > 0 { 1 } else { 0 }),
		(st.read_queue_len + st.reading.map_or(0, |_| 1)).min(3),
		st.dirty_logs.min(3),
		if st.next_reindex != 0 { 1 } else { 0 },
		idx_files.min(3),
	)
}

pub fn pending_log_files(st: &VerifStatus) -> usize {
	st.reading.map_or(0, |_| 1) +
		st.read_queue_len +
		st.appending.map_or(0, |_| 1) +
		// drop flushes the appending file first, so queued commits always go to a new file
		if st.queued_commits > 0 { 1 } else { 0 }
}

/// Max dirty logs the commit stage tolerates before it waits for the cleanup stage.
pub const MAX_DIRTY: usize = 4;

/// Perform one pipeline step, respecting the schedule-legality rules L1 (DESIGN 3.1):
/// an enact is only issued while `dirty_logs <= 4`; the cleanup step the real cleanup
/// worker would have run is inserted first otherwise. Returns the step's result.
pub fn do_step(db: &Db, step: Step) -> parity_db::Result<()> {
	match step {
		Step::ProcessCommits => db.process_commits(),
		Step::ProcessReindex => db.process_reindex(),
		Step::FlushLogs => db.flush_logs(),
		Step::CleanLogs => db.clean_logs(),
		Step::EnactOne => {
			if db.verif_status().dirty_logs > MAX_DIRTY {
				db.clean_logs()?;
			}
			db.verif_enact_one().map(|_| ())
		},
		Step::EnactAll => {
			// `enact_logs(false)` also returns false at the end of each log file: keep going
			// while another flushed file is waiting (what the commit worker's loop does)
			loop {
				let st = db.verif_status();
				if st.dirty_logs > MAX_DIRTY {
					db.clean_logs()?;
				}
				if !db.verif_enact_one()? {
					let st = db.verif_status();
					if st.read_queue_len == 0 && st.reading.is_none() {
						break
					}
				}
			}
			Ok(())
		},
	}
}

/// Make the state legal for dropping the handle (rule L2): `drop` enacts every pending log
/// file without a cleanup stage, so the number of uncleaned + pending files must stay <= 5.
pub fn make_drop_legal(db: &Db) -> parity_db::Result<()> {
	let st = db.verif_status();
	if st.dirty_logs + pending_log_files(&st) > MAX_DIRTY + 1 {
		do_step(db, Step::EnactAll)?;
		db.clean_logs()?;
	}
	Ok(())
}

/// Drive everything to the tables: process all commits and reindex batches, flush, enact,
/// clean. Bounded; returns the number of rounds used.
pub fn drain(db: &Db) -> parity_db::Result<usize> {
	drain_opt(db, true)
}

/// `process_queue = false`: the caller logs the commit queue itself (and keeps track of
/// postponed transactions); only reindex / flush / enact / clean are driven here.
pub fn drain_opt(db: &Db, process_queue: bool) -> parity_db::Result<usize> {
	let mut rounds = 0;
	loop {
		rounds += 1;
		let mut stuck = false;
		loop {
			let before = db.verif_status();
			if before.queued_commits == 0 {
				break
			}
			if !process_queue {
				stuck = true;
				break
			}
			db.process_commits()?;
			let after = db.verif_status();
			if after.queued_commits >= before.queued_commits {
				// the commit was postponed (a tree reader is locked): cannot drain further
				stuck = true;
				break
			}
		}
		db.flush_logs()?;
		do_step(db, Step::EnactAll)?;
		db.clean_logs()?;
		// reindex batches become possible once their trigger record is enacted
		let before = db.verif_status().next_record_id;
		db.process_reindex()?;
		let st = db.verif_status();
		let idle = st.queued_commits == 0 &&
			st.appending.map_or(true, |a| a.1 == 0) &&
			st.read_queue_len == 0 &&
			st.reading.is_none() &&
			st.next_record_id == before &&
			st.next_reindex == 0;
		if idle || stuck || rounds > 10_000 {
			// final: one more enact to retire a finished reader
			do_step(db, Step::EnactAll)?;
			db.clean_logs()?;
			return Ok(rounds)
		}
	}
}

pub fn is_fully_logged(st: &VerifStatus) -> bool {
	st.queued_commits == 0
}

pub fn list_files(dir: &Path) -> Vec<(String, u64)> {
	let mut v = vec![];
	if let Ok(rd) = std::fs::read_dir(dir) {
		for e in rd.flatten() {
			if let (Some(n), Ok(m)) = (e.file_name().to_str().map(|s| s.to_string()), e.metadata()) {
				if m.is_file() {
					v.push((n, m.len()));
				}
			}
		}
	}
	v.sort();
	v
}

/// FNV-1a 64 over a file's content (content identity, not cryptographic).
pub fn file_hash(p: &Path) -> u64 {
	let data = std::fs::read(p).unwrap_or_default();
	fnv(&data)
}

pub fn fnv(data: &[u8]) -> u64 {
	let mut h: u64 = 0xcbf29ce484222325;
	for b in data {
		h ^= *b as u64;
		h = h.wrapping_mul(0x100000001b3);
	}
	h
}

pub fn dir_hashes(dir: &Path) -> Vec<(String, u64, u64)> {
	list_files(dir).into_iter().map(|(n, l)| {
		let h = file_hash(&dir.join(&n));
		(n, l, h)
	}).collect()
}

/// Owner of a `Db` that is only dropped through `close()`. If a history fails (oracle violation
/// or panic) the handle is leaked instead: dropping a Db whose pipeline is in an arbitrary state
/// could block forever (see rule L2) and would turn a finding into a hang.
pub struct Handle(std::mem::ManuallyDrop<Db>);

impl Handle {
	pub fn new(db: Db) -> Handle {
		Handle(std::mem::ManuallyDrop::new(db))
	}
	pub fn close(mut self) {
		unsafe { std::mem::ManuallyDrop::drop(&mut self.0) };
		std::mem::forget(self);
	}
}

impl std::ops::Deref for Handle {
	type Target = Db;
	fn deref(&self) -> &Db {
		&self.0
	}
}

/// With live workers: wait (bounded) until nothing is queued, logged-unflushed or
/// flushed-unenacted. Used before dropping a handle opened with the test-only `always_flush`
/// option: that option can leave more than 4 tiny log files pending, a state in which `drop`
/// waits for a cleanup worker that has already exited (not reachable with production log
/// sizes; see DESIGN.md section 11).
pub fn wait_idle(db: &Db, max: std::time::Duration) -> bool {
	let t0 = std::time::Instant::now();
	while t0.elapsed() < max {
		let st = db.verif_status();
		if st.queued_commits == 0 && st.read_queue_len == 0 && st.reading.is_none() && st.dirty_logs <= 2 {
			return true
		}
		std::thread::sleep(std::time::Duration::from_millis(5));
	}
	false
}
