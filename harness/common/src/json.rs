//! Minimal JSON value, serializer and parser (no external crates available offline is a risk
//! we do not want to take for the evidence path).

use std::collections::BTreeMap;
use std::fmt::Write;

#[derive(Clone, Debug, PartialEq)]
pub enum J {
	Null,
	Bool(bool),
	Int(i64),
	Num(f64),
	Str(String),
	Arr(Vec<J>),
	Obj(BTreeMap<String, J>),
}

impl J {
	pub fn obj() -> J {
		J::Obj(BTreeMap::new())
	}
	pub fn arr() -> J {
		J::Arr(Vec::new())
	}
	pub fn s(s: impl Into<String>) -> J {
		J::Str(s.into())
	}
	pub fn i(i: impl TryInto<i64>) -> J {
		J::Int(i.try_into().ok().unwrap_or(i64::MAX))
	}
	pub fn set(mut self, k: &str, v: J) -> J {
		if let J::Obj(m) = &mut self {
			m.insert(k.to_string(), v);
		}
		self
	}
	pub fn put(&mut self, k: &str, v: J) {
		if let J::Obj(m) = self {
			m.insert(k.to_string(), v);
		}
	}
	pub fn push(&mut self, v: J) {
		if let J::Arr(a) = self {
			a.push(v);
		}
	}
	pub fn get(&self, k: &str) -> Option<&J> {
		if let J::Obj(m) = self {
			m.get(k)
		} else {
			None
		}
	}
	pub fn as_str(&self) -> Option<&str> {
		if let J::Str(s) = self {
			Some(s)
		} else {
			None
		}
	}
	pub fn as_i64(&self) -> Option<i64> {
		match self {
			J::Int(i) => Some(*i),
			J::Num(f) => Some(*f as i64),
			_ => None,
		}
	}
	pub fn as_u64(&self) -> Option<u64> {
		self.as_i64().map(|i| i as u64)
	}
	pub fn as_arr(&self) -> Option<&Vec<J>> {
		if let J::Arr(a) = self {
			Some(a)
		} else {
			None
		}
	}
	pub fn as_obj(&self) -> Option<&BTreeMap<String, J>> {
		if let J::Obj(a) = self {
			Some(a)
		} else {
			None
		}
	}
	pub fn as_bool(&self) -> Option<bool> {
		if let J::Bool(b) = self {
			Some(*b)
		} else {
			None
		}
	}
	pub fn strs<I: IntoIterator<Item = S>, S: Into<String>>(it: I) -> J {
		J::Arr(it.into_iter().map(|s| J::Str(s.into())).collect())
	}

	pub fn to_string(&self) -> String {
		let mut s = String::new();
		self.write(&mut s, None, 0);
		s
	}
	pub fn to_pretty(&self) -> String {
		let mut s = String::new();
		self.write(&mut s, Some(1), 0);
		s.push('\n');
		s
	}
	fn write(&self, out: &mut String, indent: Option<usize>, level: usize) {
		let nl = |out: &mut String, level: usize| {
			if let Some(n) = indent {
				out.push('\n');
				for _ in 0..(n * level) {
					out.push(' ');
				}
			}
		};
		match self {
			J::Null => out.push_str("null"),
			J::Bool(b) => out.push_str(if *b { "true" } else { "false" }),
			J::Int(i) => {
				let _ = write!(out, "{}", i);
			},
			J::Num(f) => {
				if f.is_finite() {
					let _ = write!(out, "{}", f);
					if f.fract() == 0.0 && !out.ends_with(|c: char| c == 'e' || c == '.') {
						// keep it a number either way
					}
				} else {
					out.push_str("null");
				}
			},
			J::Str(s) => write_str(out, s),
			J::Arr(a) => {
				out.push('[');
				let compact = a.iter().all(|x| !matches!(x, J::Arr(_) | J::Obj(_)));
				for (i, v) in a.iter().enumerate() {
					if i > 0 {
						out.push(',');
						if compact && indent.is_some() {
							out.push(' ');
						}
					}
					if !compact {
						nl(out, level + 1);
					}
					v.write(out, indent, level + 1);
				}
				if !a.is_empty() && !compact {
					nl(out, level);
				}
				out.push(']');
			},
			J::Obj(m) => {
				out.push('{');
				for (i, (k, v)) in m.iter().enumerate() {
					if i > 0 {
						out.push(',');
					}
					nl(out, level + 1);
					write_str(out, k);
					out.push(':');
					if indent.is_some() {
						out.push(' ');
					}
					v.write(out, indent, level + 1);
				}
				if !m.is_empty() {
					nl(out, level);
				}
				out.push('}');
			},
		}
	}

	pub fn parse(s: &str) -> Result<J, String> {
		let b = s.as_bytes();
		let mut p = 0usize;
		let v = parse_value(b, &mut p)?;
		skip_ws(b, &mut p);
		if p != b.len() {
			return Err(format!("trailing data at {}", p))
		}
		Ok(v)
	}
}

fn write_str(out: &mut String, s: &str) {
	out.push('"');
	for c in s.chars() {
		match c {
			'"' => out.push_str("\\\""),
			'\\' => out.push_str("\\\\"),
			'\n' => out.push_str("\\n"),
			'\r' => out.push_str("\\r"),
			'\t' => out.push_str("\\t"),
			c if (c as u32) < 0x20 => {
				let _ = write!(out, "\\u{:04x}", c as u32);
			},
			c => out.push(c),
		}
	}
	out.push('"');
}

fn skip_ws(b: &[u8], p: &mut usize) {
	while *p < b.len() && (b[*p] == b' ' || b[*p] == b'\n' || b[*p] == b'\t' || b[*p] == b'\r') {
		*p += 1;
	}
}

fn parse_value(b: &[u8], p: &mut usize) -> Result<J, String> {
	skip_ws(b, p);
	if *p >= b.len() {
		return Err("eof".into())
	}
	match b[*p] {
		b'{' => {
			*p += 1;
			let mut m = BTreeMap::new();
			skip_ws(b, p);
			if *p < b.len() && b[*p] == b'}' {
				*p += 1;
				return Ok(J::Obj(m))
			}
			loop {
				skip_ws(b, p);
				let k = match parse_value(b, p)? {
					J::Str(s) => s,
					_ => return Err("key".into()),
				};
				skip_ws(b, p);
				if *p >= b.len() || b[*p] != b':' {
					return Err(format!("expected : at {}", p))
				}
				*p += 1;
				let v = parse_value(b, p)?;
				m.insert(k, v);
				skip_ws(b, p);
				if *p >= b.len() {
					return Err("eof".into())
				}
				if b[*p] == b',' {
					*p += 1;
					continue
				}
				if b[*p] == b'}' {
					*p += 1;
					return Ok(J::Obj(m))
				}
				return Err(format!("expected , or }} at {}", p))
			}
		},
		b'[' => {
			*p += 1;
			let mut a = Vec::new();
			skip_ws(b, p);
			if *p < b.len() && b[*p] == b']' {
				*p += 1;
				return Ok(J::Arr(a))
			}
			loop {
				a.push(parse_value(b, p)?);
				skip_ws(b, p);
				if *p >= b.len() {
					return Err("eof".into())
				}
				if b[*p] == b',' {
					*p += 1;
					continue
				}
				if b[*p] == b']' {
					*p += 1;
					return Ok(J::Arr(a))
				}
				return Err(format!("expected , or ] at {}", p))
			}
		},
		b'"' => {
			*p += 1;
			let mut s = Vec::new();
			while *p < b.len() {
				let c = b[*p];
				*p += 1;
				match c {
					b'"' => return String::from_utf8(s).map(J::Str).map_err(|e| e.to_string()),
					b'\\' => {
						if *p >= b.len() {
							return Err("eof".into())
						}
						let e = b[*p];
						*p += 1;
						match e {
							b'n' => s.push(b'\n'),
							b't' => s.push(b'\t'),
							b'r' => s.push(b'\r'),
							b'b' => s.push(8),
							b'f' => s.push(12),
							b'u' => {
								if *p + 4 > b.len() {
									return Err("eof".into())
								}
								let h = std::str::from_utf8(&b[*p..*p + 4]).map_err(|e| e.to_string())?;
								let cp = u32::from_str_radix(h, 16).map_err(|e| e.to_string())?;
								*p += 4;
								let ch = char::from_u32(cp).unwrap_or('?');
								let mut buf = [0u8; 4];
								s.extend_from_slice(ch.encode_utf8(&mut buf).as_bytes());
							},
							other => s.push(other),
						}
					},
					c => s.push(c),
				}
			}
			Err("unterminated string".into())
		},
		b't' if b[*p..].starts_with(b"true") => {
			*p += 4;
			Ok(J::Bool(true))
		},
		b'f' if b[*p..].starts_with(b"false") => {
			*p += 5;
			Ok(J::Bool(false))
		},
		b'n' if b[*p..].starts_with(b"null") => {
			*p += 4;
			Ok(J::Null)
		},
		_ => {
			let start = *p;
			while *p < b.len() &&
				(b[*p].is_ascii_digit() || matches!(b[*p], b'-' | b'+' | b'.' | b'e' | b'E'))
			{
				*p += 1;
			}
			let t = std::str::from_utf8(&b[start..*p]).map_err(|e| e.to_string())?;
			if t.is_empty() {
				return Err(format!("unexpected byte at {}", start))
			}
			if let Ok(i) = t.parse::<i64>() {
				Ok(J::Int(i))
			} else {
				t.parse::<f64>().map(J::Num).map_err(|e| e.to_string())
			}
		},
	}
}

pub fn hex(b: &[u8]) -> String {
	let mut s = String::with_capacity(b.len() * 2);
	for x in b {
		let _ = write!(s, "{:02x}", x);
	}
	s
}

/// Short printable form of a byte string for samples / replays.
pub fn short_bytes(b: &[u8]) -> String {
	if b.len() <= 24 {
		format!("{}B:{}", b.len(), hex(b))
	} else {
		format!("{}B:{}..{}", b.len(), hex(&b[..12]), hex(&b[b.len() - 4..]))
	}
}
