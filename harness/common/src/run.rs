//! Check runner: argument parsing, 16-way sharding into child processes, watchdog, merge,
//! evidence file, known-findings matching, VIOLATION / KNOWN-FINDING lines, exit codes.
//!
//! exit 0 = held on everything explored (possibly with KNOWN-FINDING lines)
//! exit 1 = at least one violation not listed in known_findings.json (VIOLATION lines printed)
//! exit 2 = inconclusive / harness failure (never prints VIOLATION)

use crate::json::J;
use std::{
	collections::{BTreeMap, BTreeSet},
	io::Write,
	path::{Path, PathBuf},
	process::{Command, Stdio},
	time::{Duration, Instant},
};

pub const VERIF_ROOT: &str = "/verif";

/// Root of the verification tree: `/verif`, or `PDBV_ROOT` for a development copy (evidence,
/// replays and known findings are then read / written there).
pub fn verif_root() -> PathBuf {
	match std::env::var("PDBV_ROOT") {
		Ok(p) if !p.is_empty() => PathBuf::from(p),
		_ => PathBuf::from(VERIF_ROOT),
	}
}

#[derive(Clone, Copy, Debug, PartialEq, Eq)]
pub enum Tier {
	Quick,
	Thorough,
}

impl Tier {
	pub fn name(&self) -> &'static str {
		match self {
			Tier::Quick => "quick",
			Tier::Thorough => "thorough",
		}
	}
	pub fn pick<T>(&self, quick: T, thorough: T) -> T {
		match self {
			Tier::Quick => quick,
			Tier::Thorough => thorough,
		}
	}
}

#[derive(Clone, Debug)]
pub struct Violation {
	/// `k=v;k=v` signature used for known-findings matching.
	pub sig: String,
	pub detail: String,
	pub replay: J,
}

#[derive(Clone, Debug, Default)]
pub struct Report {
	pub evaluations: u64,
	pub cases: u64,
	pub distinct: BTreeSet<String>,
	pub samples: Vec<J>,
	pub observed: BTreeMap<String, u64>,
	pub violations: Vec<Violation>,
	pub inconclusive: Vec<String>,
	pub notes: Vec<String>,
}

impl Report {
	pub fn count(&mut self, k: &str, n: u64) {
		*self.observed.entry(k.to_string()).or_insert(0) += n;
	}
	pub fn max(&mut self, k: &str, n: u64) {
		let e = self.observed.entry(format!("max_{}", k)).or_insert(0);
		if n > *e {
			*e = n;
		}
	}
	pub fn seen(&mut self, s: impl Into<String>) {
		if self.distinct.len() < 200_000 {
			self.distinct.insert(s.into());
		}
	}
	pub fn sample(&mut self, j: J) {
		if self.samples.len() < 3 {
			self.samples.push(j);
		}
	}
	pub fn violation(&mut self, sig: impl Into<String>, detail: impl Into<String>, replay: J) {
		if self.violations.len() < 50 {
			self.violations.push(Violation { sig: sig.into(), detail: detail.into(), replay });
		}
		self.count("violations_raw", 1);
	}
	pub fn inconclusive(&mut self, why: impl Into<String>) {
		if self.inconclusive.len() < 50 {
			self.inconclusive.push(why.into());
		}
	}
	pub fn get(&self, k: &str) -> u64 {
		self.observed.get(k).copied().unwrap_or(0)
	}

	pub fn to_json(&self) -> J {
		let mut obs = J::obj();
		for (k, v) in &self.observed {
			obs.put(k, J::i(*v));
		}
		J::obj()
			.set("evaluations", J::i(self.evaluations))
			.set("cases", J::i(self.cases))
			.set("distinct", J::strs(self.distinct.iter().cloned()))
			.set("samples", J::Arr(self.samples.clone()))
			.set("observed", obs)
			.set(
				"violations",
				J::Arr(
					self.violations
						.iter()
						.map(|v| {
							J::obj()
								.set("sig", J::s(&v.sig))
								.set("detail", J::s(&v.detail))
								.set("replay", v.replay.clone())
						})
						.collect(),
				),
			)
			.set("inconclusive", J::strs(self.inconclusive.iter().cloned()))
			.set("notes", J::strs(self.notes.iter().cloned()))
	}

	pub fn from_json(j: &J) -> Report {
		let mut r = Report::default();
		r.evaluations = j.get("evaluations").and_then(|x| x.as_u64()).unwrap_or(0);
		r.cases = j.get("cases").and_then(|x| x.as_u64()).unwrap_or(0);
		if let Some(a) = j.get("distinct").and_then(|x| x.as_arr()) {
			for s in a {
				if let Some(s) = s.as_str() {
					r.distinct.insert(s.to_string());
				}
			}
		}
		if let Some(a) = j.get("samples").and_then(|x| x.as_arr()) {
			r.samples = a.clone();
		}
		if let Some(m) = j.get("observed").and_then(|x| x.as_obj()) {
			for (k, v) in m {
				r.observed.insert(k.clone(), v.as_u64().unwrap_or(0));
			}
		}
		if let Some(a) = j.get("violations").and_then(|x| x.as_arr()) {
			for v in a {
				r.violations.push(Violation {
					sig: v.get("sig").and_then(|x| x.as_str()).unwrap_or("").to_string(),
					detail: v.get("detail").and_then(|x| x.as_str()).unwrap_or("").to_string(),
					replay: v.get("replay").cloned().unwrap_or(J::Null),
				});
			}
		}
		if let Some(a) = j.get("inconclusive").and_then(|x| x.as_arr()) {
			r.inconclusive = a.iter().filter_map(|x| x.as_str().map(|s| s.to_string())).collect();
		}
		if let Some(a) = j.get("notes").and_then(|x| x.as_arr()) {
			r.notes = a.iter().filter_map(|x| x.as_str().map(|s| s.to_string())).collect();
		}
		r
	}

	pub fn merge(&mut self, o: Report) {
		self.evaluations += o.evaluations;
		self.cases += o.cases;
		for d in o.distinct {
			self.seen(d);
		}
		for s in o.samples {
			if self.samples.len() < 6 {
				self.samples.push(s);
			}
		}
		for (k, v) in o.observed {
			if k.starts_with("max_") {
				let e = self.observed.entry(k).or_insert(0);
				if v > *e {
					*e = v;
				}
			} else {
				*self.observed.entry(k).or_insert(0) += v;
			}
		}
		self.violations.extend(o.violations);
		self.inconclusive.extend(o.inconclusive);
		for n in o.notes {
			if self.notes.len() < 40 && !self.notes.contains(&n) {
				self.notes.push(n);
			}
		}
	}
}

/// Static description of a check, used by the parent to judge coverage and write evidence.
#[derive(Clone, Debug)]
pub struct Spec {
	pub prop: String,
	pub level: &'static str,
	pub rule: String,
	pub assumptions: Vec<String>,
	pub shards: usize,
	/// wall budget (seconds) the shard work is sized for: (quick, thorough)
	pub budget_s: (u64, u64),
	/// abnormal death of a shard (signal/abort) while a case is marked is a violation
	pub crash_is_violation: bool,
	/// observed counters that must reach the given value, otherwise the run is inconclusive
	pub required: Vec<(String, u64)>,
	pub min_distinct: u64,
	pub exhaustive: bool,
	/// a single case making no progress for this long ends the shard (hang)
	pub case_timeout_s: u64,
	/// a hang (no progress, see above) is a violation of this property (C15) instead of inconclusive
	pub hang_is_violation: bool,
}

impl Spec {
	pub fn new(prop: &str, level: &'static str, rule: &str) -> Spec {
		Spec {
			prop: prop.to_string(),
			level,
			rule: rule.to_string(),
			assumptions: vec![],
			shards: 16,
			budget_s: (90, 900),
			crash_is_violation: true,
			required: vec![],
			min_distinct: 2,
			exhaustive: false,
			case_timeout_s: 120,
			hang_is_violation: false,
		}
	}
	pub fn assume(mut self, s: &str) -> Spec {
		self.assumptions.push(s.to_string());
		self
	}
	pub fn require(mut self, k: &str, n: u64) -> Spec {
		self.required.push((k.to_string(), n));
		self
	}
	pub fn budget(mut self, q: u64, t: u64) -> Spec {
		self.budget_s = (q, t);
		self
	}
	pub fn shards(mut self, n: usize) -> Spec {
		self.shards = n;
		self
	}
}

pub struct Ctx {
	pub prop: String,
	pub tier: Tier,
	/// base seed given by VERIF_SEED
	pub base_seed: u64,
	/// derived seed of this shard: base*1000+shard
	pub seed: u64,
	pub shard: usize,
	pub nshards: usize,
	pub start: Instant,
	pub budget: Duration,
	pub marker: Option<PathBuf>,
	pub replay: Option<J>,
	pub verbose: bool,
	pub extra: Vec<String>,
	pub out: Option<PathBuf>,
	pub last_checkpoint: std::cell::Cell<Option<Instant>>,
}

static PROGRESS_MS: std::sync::atomic::AtomicU64 = std::sync::atomic::AtomicU64::new(0);

impl Ctx {
	/// Tell the in-shard watchdog that the current case is making progress.
	pub fn progress(&self) {
		PROGRESS_MS.store(self.start.elapsed().as_millis() as u64, std::sync::atomic::Ordering::Relaxed);
	}
	/// Persist the report so far (at most every 2 s) so that a later hang/abort of this shard
	/// does not lose what was already observed.
	pub fn checkpoint(&self, rep: &Report) {
		self.progress();
		if let Some(out) = &self.out {
			let due = self.last_checkpoint.get().map_or(true, |t| t.elapsed() > Duration::from_secs(2));
			if due {
				let tmp = PathBuf::from(format!("{}.tmp", out.display()));
				if std::fs::write(&tmp, rep.to_json().to_string()).is_ok() {
					let _ = std::fs::rename(&tmp, out);
				}
				self.last_checkpoint.set(Some(Instant::now()));
			}
		}
	}

	pub fn time_left(&self) -> bool {
		self.start.elapsed() < self.budget
	}
	pub fn elapsed_frac(&self) -> f64 {
		self.start.elapsed().as_secs_f64() / self.budget.as_secs_f64().max(0.001)
	}
	/// Record the case about to run so that an abort can be attributed to it.
	pub fn mark(&self, desc: &str) {
		if let Some(m) = &self.marker {
			let _ = std::fs::write(m, desc);
		}
		if self.verbose {
			eprintln!("[case] {}", desc);
		}
	}
	pub fn unmark(&self) {
		if let Some(m) = &self.marker {
			let _ = std::fs::write(m, "");
		}
	}
	pub fn has_flag(&self, f: &str) -> bool {
		self.extra.iter().any(|x| x == f)
	}
	pub fn opt(&self, name: &str) -> Option<String> {
		let p = format!("{}=", name);
		self.extra.iter().find_map(|x| x.strip_prefix(&p).map(|s| s.to_string()))
	}
}

fn env_seed() -> u64 {
	std::env::var("VERIF_SEED").ok().and_then(|s| s.trim().parse::<u64>().ok()).unwrap_or(1)
}

pub fn sig_map(sig: &str) -> BTreeMap<String, String> {
	sig.split(';')
		.filter_map(|kv| {
			let mut it = kv.splitn(2, '=');
			Some((it.next()?.trim().to_string(), it.next()?.trim().to_string()))
		})
		.collect()
}

pub struct Known {
	pub id: String,
	pub property: String,
	pub status: String,
	pub signature: BTreeMap<String, String>,
	pub text: String,
}

pub fn load_known() -> Vec<Known> {
	let p = verif_root().join("known_findings.json");
	let s = match std::fs::read_to_string(&p) {
		Ok(s) => s,
		Err(_) => return vec![],
	};
	let j = match J::parse(&s) {
		Ok(j) => j,
		Err(e) => {
			eprintln!("known_findings.json unreadable: {}", e);
			return vec![]
		},
	};
	let mut out = vec![];
	if let Some(a) = j.get("findings").and_then(|x| x.as_arr()) {
		for f in a {
			let mut sigm = BTreeMap::new();
			if let Some(m) = f.get("signature").and_then(|x| x.as_obj()) {
				for (k, v) in m {
					sigm.insert(k.clone(), v.as_str().unwrap_or("").to_string());
				}
			}
			out.push(Known {
				id: f.get("id").and_then(|x| x.as_str()).unwrap_or("").to_string(),
				property: f.get("property").and_then(|x| x.as_str()).unwrap_or("").to_string(),
				status: f.get("status").and_then(|x| x.as_str()).unwrap_or("").to_string(),
				signature: sigm,
				text: f.get("text").and_then(|x| x.as_str()).unwrap_or("").to_string(),
			});
		}
	}
	out
}

/// Is this signature one of the listed (status = known) findings of the property?
pub fn is_known(prop: &str, sig: &str, known: &[Known]) -> bool {
	matches_known(prop, sig, known).is_some()
}

fn matches_known<'a>(prop: &str, sig: &str, known: &'a [Known]) -> Option<&'a Known> {
	let m = sig_map(sig);
	known.iter().find(|k| {
		k.status == "known" &&
			k.property == prop &&
			!k.signature.is_empty() &&
			k.signature.iter().all(|(kk, vv)| m.get(kk) == Some(vv))
	})
}

pub struct Parsed {
	pub prop: String,
	pub tier: Tier,
	pub shard: Option<(usize, usize)>,
	pub out: Option<PathBuf>,
	pub replay: Option<PathBuf>,
	pub verbose: bool,
	pub extra: Vec<String>,
}

pub fn parse_args() -> Parsed {
	let a: Vec<String> = std::env::args().collect();
	if a.len() < 3 {
		eprintln!("usage: {} <PROPERTY> <quick|thorough> [--replay file] [--verbose] [k=v ...]", a[0]);
		std::process::exit(2);
	}
	let tier = match a[2].as_str() {
		"quick" => Tier::Quick,
		"thorough" => Tier::Thorough,
		_ => {
			eprintln!("bad tier {}", a[2]);
			std::process::exit(2)
		},
	};
	let mut p = Parsed {
		prop: a[1].clone(),
		tier,
		shard: None,
		out: None,
		replay: None,
		verbose: false,
		extra: vec![],
	};
	let mut i = 3;
	while i < a.len() {
		match a[i].as_str() {
			"--shard" => {
				let v: Vec<usize> = a[i + 1].split('/').filter_map(|x| x.parse().ok()).collect();
				p.shard = Some((v[0], v[1]));
				i += 1;
			},
			"--out" => {
				p.out = Some(PathBuf::from(&a[i + 1]));
				i += 1;
			},
			"--replay" => {
				p.replay = Some(PathBuf::from(&a[i + 1]));
				i += 1;
			},
			"--verbose" => p.verbose = true,
			other => p.extra.push(other.to_string()),
		}
		i += 1;
	}
	p
}

/// Entry point used by every engine binary.
///
/// `spec_for(prop, tier)` describes the check; `shard_fn(ctx, report)` does the work of one shard
/// (or of a replay when `ctx.replay` is set).
pub fn main_entry(
	spec_for: impl Fn(&str, Tier) -> Option<Spec>,
	shard_fn: impl Fn(&Ctx, &mut Report),
) -> ! {
	let args = parse_args();
	let spec = match spec_for(&args.prop, args.tier) {
		Some(s) => s,
		None => {
			eprintln!("property {} is not served by this engine", args.prop);
			std::process::exit(2)
		},
	};
	let base_seed = env_seed();
	let budget = Duration::from_secs(
		std::env::var("PDBV_BUDGET_S").ok().and_then(|s| s.parse::<u64>().ok()).unwrap_or_else(|| args.tier.pick(spec.budget_s.0, spec.budget_s.1)),
	);

	// ---- replay mode: run the case in-process, print what happens
	if let Some(path) = &args.replay {
		let txt = std::fs::read_to_string(path).unwrap_or_else(|e| {
			eprintln!("cannot read replay {}: {}", path.display(), e);
			std::process::exit(2)
		});
		let j = J::parse(&txt).unwrap_or_else(|e| {
			eprintln!("bad replay: {}", e);
			std::process::exit(2)
		});
		let seed = j.get("shard_seed").and_then(|x| x.as_u64()).unwrap_or(base_seed * 1000);
		let ctx = Ctx {
			prop: args.prop.clone(),
			tier: args.tier,
			base_seed,
			seed,
			shard: 0,
			nshards: 1,
			start: Instant::now(),
			budget: Duration::from_secs(3600),
			marker: None,
			replay: Some(j),
			verbose: true,
			extra: args.extra.clone(),
			out: None,
			last_checkpoint: std::cell::Cell::new(None),
		};
		crate::scratch::install_logger();
		let mut rep = Report::default();
		shard_fn(&ctx, &mut rep);
		for v in &rep.violations {
			println!("REPLAY-VIOLATION property={} sig={} :: {}", args.prop, v.sig, v.detail);
		}
		if std::env::var("PDBV_REPLAY_COUNTERS").is_ok() {
			for (k, v) in &rep.observed {
				println!("  observed {} = {}", k, v);
			}
		}
		println!("replay finished: {} evaluations, {} violations", rep.evaluations, rep.violations.len());
		std::process::exit(if rep.violations.is_empty() { 0 } else { 1 });
	}

	// ---- shard mode
	if let Some((shard, n)) = args.shard {
		crate::scratch::install_panic_hook();
		let out = args.out.clone().expect("--out");
		let marker = PathBuf::from(format!("{}.cur", out.display()));
		let ctx = Ctx {
			prop: args.prop.clone(),
			tier: args.tier,
			base_seed,
			seed: base_seed.wrapping_mul(1000).wrapping_add(shard as u64),
			shard,
			nshards: n,
			start: Instant::now(),
			budget,
			marker: Some(marker),
			replay: None,
			verbose: args.verbose,
			extra: args.extra.clone(),
			out: Some(out.clone()),
			last_checkpoint: std::cell::Cell::new(None),
		};
		// in-shard watchdog: a case that makes no progress for `case_timeout_s` ends the shard
		// with exit code 3; the parent keeps the last checkpoint and reports the hang.
		{
			let start = ctx.start;
			let limit = spec.case_timeout_s * 1000;
			let hang = PathBuf::from(format!("{}.hang", out.display()));
			let marker = ctx.marker.clone().unwrap();
			std::thread::spawn(move || loop {
				std::thread::sleep(Duration::from_millis(500));
				let now = start.elapsed().as_millis() as u64;
				let last = PROGRESS_MS.load(std::sync::atomic::Ordering::Relaxed);
				if now.saturating_sub(last) > limit {
					let cur = std::fs::read_to_string(&marker).unwrap_or_default();
					let threads = thread_states();
					let _ = std::fs::write(&hang, format!("{}\n--- thread states ---\n{}", cur, threads));
					crate::scratch::cleanup_all();
					unsafe { libc::_exit(3) };
				}
			});
		}
		let mut rep = Report::default();
		shard_fn(&ctx, &mut rep);
		ctx.unmark();
		let tmp = PathBuf::from(format!("{}.tmp", out.display()));
		std::fs::write(&tmp, rep.to_json().to_string()).expect("write shard report");
		std::fs::rename(&tmp, &out).expect("rename shard report");
		crate::scratch::cleanup_all();
		std::process::exit(0);
	}

	// ---- parent mode
	let t0 = Instant::now();
	let exe = std::env::current_exe().expect("current_exe");
	let work = crate::scratch::parent_workdir(&args.prop);
	let nshards = std::env::var("VERIF_SHARDS")
		.ok()
		.and_then(|s| s.parse::<usize>().ok())
		.unwrap_or(spec.shards)
		.max(1);
	let mut children = vec![];
	for s in 0..nshards {
		let out = work.join(format!("shard{}.json", s));
		let log = std::fs::File::create(work.join(format!("shard{}.log", s))).expect("log");
		let mut cmd = Command::new(&exe);
		cmd.arg(&args.prop)
			.arg(args.tier.name())
			.arg("--shard")
			.arg(format!("{}/{}", s, nshards))
			.arg("--out")
			.arg(&out)
			.args(&args.extra)
			.env("VERIF_SEED", base_seed.to_string())
			.stdin(Stdio::null())
			.stdout(Stdio::from(log.try_clone().expect("clone")))
			.stderr(Stdio::from(log));
		if args.verbose {
			cmd.arg("--verbose");
		}
		let child = cmd.spawn().expect("spawn shard");
		children.push((s, out, child, None::<std::process::ExitStatus>));
	}
	let watchdog = budget * 4 + Duration::from_secs(180);
	let mut timed_out = vec![];
	loop {
		let mut running = 0;
		for (s, _out, child, status) in children.iter_mut() {
			if status.is_none() {
				match child.try_wait() {
					Ok(Some(st)) => *status = Some(st),
					Ok(None) => {
						running += 1;
						if t0.elapsed() > watchdog {
							let _ = child.kill();
							let _ = child.wait();
							timed_out.push(*s);
							*status = Some(std::os::unix::process::ExitStatusExt::from_raw(9));
						}
					},
					Err(_) => *status = Some(std::os::unix::process::ExitStatusExt::from_raw(9)),
				}
			}
		}
		if running == 0 {
			break
		}
		std::thread::sleep(Duration::from_millis(50));
	}

	let mut merged = Report::default();
	for (s, out, child, status) in &children {
		crate::scratch::cleanup_pid(child.id());
		let st = status.unwrap();
		let marker = PathBuf::from(format!("{}.cur", out.display()));
		if timed_out.contains(s) {
			let cur = std::fs::read_to_string(&marker).unwrap_or_default();
			merged.inconclusive(format!("shard {} exceeded the watchdog ({:?}) in case [{}]", s, watchdog, cur));
			continue
		}
		let hang = PathBuf::from(format!("{}.hang", out.display()));
		if st.code() == Some(3) && hang.exists() {
			let info = std::fs::read_to_string(&hang).unwrap_or_default();
			if let Some(j) = std::fs::read_to_string(out).ok().and_then(|t| J::parse(&t).ok()) {
				merged.merge(Report::from_json(&j));
			}
			if spec.hang_is_violation {
				merged.violation(
					"failure=hang".to_string(),
					format!("shard {}: no progress for {} s in case [{}]", s, spec.case_timeout_s, info),
					J::obj().set("case", J::s(info.clone())).set("shard_seed", J::i(base_seed * 1000 + *s as u64)),
				);
			} else {
				merged.inconclusive(format!("shard {}: no progress for {} s in case [{}]", s, spec.case_timeout_s, info));
			}
			continue
		}
		match std::fs::read_to_string(out).ok().and_then(|t| J::parse(&t).ok()) {
			Some(j) if st.success() => merged.merge(Report::from_json(&j)),
			other => {
				if let Some(j) = other {
					// checkpoint of a shard that died later
					merged.merge(Report::from_json(&j));
				}
				let cur = std::fs::read_to_string(&marker).unwrap_or_default();
				let logtail = tail(&work.join(format!("shard{}.log", s)), 30);
				// exit status 101 is an uncaught Rust panic: every library call of a case runs under
				// catch_unwind, so a panic that takes the whole shard down comes from the harness
				// itself (generator, bookkeeping) - that is inconclusive, never a violation. Death by
				// signal (SIGSEGV / SIGBUS / abort) can only come out of the library's unsafe code.
				let harness_panic = st.code() == Some(101);
				// SIGKILL is never raised by the program itself: the kernel's out-of-memory killer
				// or an outside kill took the shard - resource exhaustion is inconclusive
				let killed = std::os::unix::process::ExitStatusExt::signal(&st) == Some(9);
				if spec.crash_is_violation && !cur.is_empty() && !harness_panic && !killed {
					merged.violation(
						format!("failure=process_abort;status={:?}", st.code().map(|c| c.to_string()).unwrap_or_else(|| format!("signal{}", std::os::unix::process::ExitStatusExt::signal(&st).unwrap_or(0)))),
						format!("shard {} died ({:?}) while running case [{}]; log tail:\n{}", s, st, cur, logtail),
						J::obj().set("case", J::s(cur.clone())).set("shard_seed", J::i(base_seed * 1000 + *s as u64)).set("log_tail", J::s(logtail)),
					);
				} else {
					merged.inconclusive(format!("shard {} produced no report ({:?}); log tail:\n{}", s, st, logtail));
				}
			},
		}
	}

	// coverage requirements
	for (k, n) in &spec.required {
		if merged.get(k) < *n {
			merged.inconclusive(format!("coverage requirement not met: {} = {} < {}", k, merged.get(k), n));
		}
	}
	if (merged.distinct.len() as u64) < spec.min_distinct {
		merged.inconclusive(format!("distinct_nontrivial = {} < {}", merged.distinct.len(), spec.min_distinct));
	}
	if merged.evaluations == 0 {
		merged.inconclusive("no oracle evaluation was performed".to_string());
	}

	// known findings
	let known = load_known();
	let mut new_violations = vec![];
	let mut known_hit: BTreeMap<String, (String, u64)> = BTreeMap::new();
	for v in &merged.violations {
		if let Some(k) = matches_known(&spec.prop, &v.sig, &known) {
			let e = known_hit.entry(k.id.clone()).or_insert((k.text.clone(), 0));
			e.1 += 1;
		} else {
			new_violations.push(v.clone());
		}
	}

	// replays
	let replay_dir = verif_root().join("replays");
	let _ = std::fs::create_dir_all(&replay_dir);
	let mut vio_lines = vec![];
	let mut seen_sigs = BTreeSet::new();
	for (i, v) in new_violations.iter().enumerate() {
		if !seen_sigs.insert(v.sig.clone()) && i >= 3 {
			continue
		}
		if vio_lines.len() >= 8 {
			break
		}
		let path = replay_dir.join(format!("{}-{}-s{}-{}.json", spec.prop, args.tier.name(), base_seed, i));
		let mut rj = v.replay.clone();
		if !matches!(rj, J::Obj(_)) {
			rj = J::obj().set("case", rj);
		}
		rj.put("property", J::s(&spec.prop));
		rj.put("sig", J::s(&v.sig));
		rj.put("detail", J::s(&v.detail));
		let _ = std::fs::write(&path, rj.to_pretty());
		vio_lines.push((path, v.sig.clone(), v.detail.clone()));
	}

	// evidence
	let wall = t0.elapsed().as_secs_f64();
	let mut obs = J::obj();
	for (k, v) in &merged.observed {
		obs.put(k, J::i(*v));
	}
	let mut kf = J::arr();
	for (id, (text, n)) in &known_hit {
		kf.push(J::obj().set("id", J::s(id)).set("text", J::s(text)).set("witnesses_this_run", J::i(*n)));
	}
	let mut distinct_sample: Vec<String> = merged.distinct.iter().take(40).cloned().collect();
	distinct_sample.sort();
	let mut cov = J::obj()
		.set("evaluations", J::i(merged.evaluations))
		.set("distinct_nontrivial", J::i(merged.distinct.len() as u64))
		.set("rule", J::s(&spec.rule))
		.set("samples", J::Arr(if merged.samples.is_empty() { vec![J::s("(no sample recorded)")] } else { merged.samples.clone() }))
		.set("cases", J::i(merged.cases))
		.set("observed", obs)
		.set("distinct_examples", J::strs(distinct_sample))
		.set("shards", J::i(nshards as u64))
		.set("inconclusive", J::strs(merged.inconclusive.iter().cloned()))
		.set("known_findings_observed", kf)
		.set("notes", J::strs(merged.notes.iter().cloned()));
	if spec.exhaustive {
		cov.put("exhaustive", J::Bool(true));
	}
	let ev = J::obj()
		.set("property_id", J::s(&spec.prop))
		.set("tier", J::s(args.tier.name()))
		.set("seed", J::i(base_seed))
		.set("level", J::s(spec.level))
		.set("coverage", cov)
		.set("assumptions", J::strs(spec.assumptions.iter().cloned()))
		.set("wall_s", J::Num((wall * 100.0).round() / 100.0))
		.set("violations", J::i(new_violations.len() as u64))
		.set(
			"verdict",
			J::s(if !new_violations.is_empty() {
				"violated"
			} else if !merged.inconclusive.is_empty() {
				"inconclusive"
			} else {
				"held_on_observed"
			}),
		);
	let evdir = verif_root().join("evidence");
	let _ = std::fs::create_dir_all(&evdir);
	let evpath = evdir.join(format!("{}.json", spec.prop));
	// A property decided by two engines (C03): the second phase of the same check invocation
	// adds its numbers to the evidence written by the first phase.
	let ev = if std::env::var("PDBV_EVIDENCE_MERGE").is_ok() {
		match std::fs::read_to_string(&evpath).ok().and_then(|t| J::parse(&t).ok()) {
			Some(prev) if prev.get("tier").and_then(|x| x.as_str()) == Some(args.tier.name()) && prev.get("seed").and_then(|x| x.as_u64()) == Some(base_seed) => merge_evidence(prev, ev),
			_ => ev,
		}
	} else {
		ev
	};
	let tmp = evdir.join(format!(".{}.json.tmp", spec.prop));
	std::fs::write(&tmp, ev.to_pretty()).expect("write evidence");
	std::fs::rename(&tmp, &evpath).expect("rename evidence");

	// output
	let so = std::io::stdout();
	let mut so = so.lock();
	let _ = writeln!(
		so,
		"[{} {} seed={}] cases={} evaluations={} distinct={} wall={:.1}s",
		spec.prop,
		args.tier.name(),
		base_seed,
		merged.cases,
		merged.evaluations,
		merged.distinct.len(),
		wall
	);
	for (k, v) in &merged.observed {
		let _ = writeln!(so, "  observed {} = {}", k, v);
	}
	for (id, (text, n)) in &known_hit {
		let _ = writeln!(so, "KNOWN-FINDING: property={} {} [{}; {} witness(es) this run]", spec.prop, text, id, n);
	}
	for (path, sig, detail) in &vio_lines {
		let d: String = detail.chars().take(600).collect();
		let _ = writeln!(so, "VIOLATION property={} replay={}", spec.prop, path.display());
		let _ = writeln!(so, "  sig: {}\n  detail: {}", sig, d.replace('\n', "\n    "));
	}
	let _ = std::fs::remove_dir_all(&work);
	for i in merged.inconclusive.iter().take(10) {
		let _ = writeln!(so, "INCONCLUSIVE: {}", i);
	}
	if !new_violations.is_empty() {
		std::process::exit(1);
	}
	if !merged.inconclusive.is_empty() {
		std::process::exit(2);
	}
	let _ = writeln!(so, "OK property={} held on everything explored", spec.prop);
	std::process::exit(0);
}

fn merge_evidence(prev: J, cur: J) -> J {
	let num = |j: &J, path: &[&str]| -> f64 {
		let mut x = j;
		for p in path {
			match x.get(p) {
				Some(y) => x = y,
				None => return 0.0,
			}
		}
		match x {
			J::Int(i) => *i as f64,
			J::Num(f) => *f,
			_ => 0.0,
		}
	};
	let mut out = cur.clone();
	let mut cov = cur.get("coverage").cloned().unwrap_or_else(J::obj);
	let pcov = prev.get("coverage").cloned().unwrap_or_else(J::obj);
	for k in ["evaluations", "distinct_nontrivial", "cases"] {
		cov.put(k, J::i((num(&prev, &["coverage", k]) + num(&cur, &["coverage", k])) as i64));
	}
	let rule = format!(
		"PHASE 1: {} PHASE 2: {} (distinct_nontrivial is the sum of the two phases' class counts; the class spaces are disjoint)",
		pcov.get("rule").and_then(|x| x.as_str()).unwrap_or(""),
		cov.get("rule").and_then(|x| x.as_str()).unwrap_or("")
	);
	cov.put("rule", J::s(rule));
	let mut samples = pcov.get("samples").and_then(|x| x.as_arr()).cloned().unwrap_or_default();
	samples.extend(cov.get("samples").and_then(|x| x.as_arr()).cloned().unwrap_or_default());
	cov.put("samples", J::Arr(samples));
	cov.put("phase1", J::obj().set("observed", pcov.get("observed").cloned().unwrap_or(J::Null)).set("inconclusive", pcov.get("inconclusive").cloned().unwrap_or(J::Null)).set("known_findings_observed", pcov.get("known_findings_observed").cloned().unwrap_or(J::Null)));
	out.put("coverage", cov);
	// a check of several phases enumerates faults as soon as one of its phases does (the level
	// in MANIFEST level_claimed.category); otherwise the phases agree
	let fe = |j: &J| j.get("level").and_then(|x| x.as_str()) == Some("fault_enumeration");
	if fe(&prev) || fe(&cur) {
		out.put("level", J::s("fault_enumeration"));
	}
	out.put("wall_s", J::Num(num(&prev, &["wall_s"]) + num(&cur, &["wall_s"])));
	out.put("violations", J::i((num(&prev, &["violations"]) + num(&cur, &["violations"])) as i64));
	let mut assumptions = prev.get("assumptions").and_then(|x| x.as_arr()).cloned().unwrap_or_default();
	assumptions.extend(cur.get("assumptions").and_then(|x| x.as_arr()).cloned().unwrap_or_default());
	out.put("assumptions", J::Arr(assumptions));
	let pv = prev.get("verdict").and_then(|x| x.as_str()).unwrap_or("");
	let cv = cur.get("verdict").and_then(|x| x.as_str()).unwrap_or("");
	let verdict = if pv == "violated" || cv == "violated" { "violated" } else if pv == "inconclusive" || cv == "inconclusive" { "inconclusive" } else { "held_on_observed" };
	out.put("verdict", J::s(verdict));
	out
}

/// One line per thread of this process: name, state, voluntary/involuntary context switches.
pub fn thread_states() -> String {
	let mut out = String::new();
	if let Ok(rd) = std::fs::read_dir("/proc/self/task") {
		for e in rd.flatten() {
			let st = std::fs::read_to_string(e.path().join("status")).unwrap_or_default();
			let mut name = "";
			let mut state = "";
			let mut vol = "";
			let mut invol = "";
			for l in st.lines() {
				if let Some(v) = l.strip_prefix("Name:") {
					name = v.trim();
				} else if let Some(v) = l.strip_prefix("State:") {
					state = v.trim();
				} else if let Some(v) = l.strip_prefix("voluntary_ctxt_switches:") {
					vol = v.trim();
				} else if let Some(v) = l.strip_prefix("nonvoluntary_ctxt_switches:") {
					invol = v.trim();
				}
			}
			let wchan = std::fs::read_to_string(e.path().join("wchan")).unwrap_or_default();
			out.push_str(&format!("{} {} [{}] vol={} invol={} wchan={}\n", e.file_name().to_string_lossy(), name, state, vol, invol, wchan.trim()));
		}
	}
	out
}

fn tail(p: &Path, n: usize) -> String {
	let s = std::fs::read_to_string(p).unwrap_or_default();
	let lines: Vec<&str> = s.lines().collect();
	let start = lines.len().saturating_sub(n);
	lines[start..].join("\n")
}
