//! Reference models: tiny, deterministic, sequential.

use crate::json::{short_bytes, J};
use parity_db::{ColumnOptions, NewNode, NodeRef, Operation};
use std::collections::BTreeMap;

#[derive(Clone, Debug, PartialEq, Eq)]
pub struct TreeSpec {
	pub data: Vec<u8>,
	pub children: Vec<ChildSpec>,
}

#[derive(Clone, Debug, PartialEq, Eq)]
pub enum ChildSpec {
	New(TreeSpec),
	/// Existing node named by its model node id (resolved to an address when submitted).
	Existing(u64),
}

#[derive(Clone, Debug, PartialEq, Eq)]
pub enum Op {
	Set(u8, Vec<u8>, Vec<u8>),
	Deref(u8, Vec<u8>),
	Ref(u8, Vec<u8>),
	InsertTree(u8, Vec<u8>, TreeSpec),
	RefTree(u8, Vec<u8>),
	DerefTree(u8, Vec<u8>),
}

impl Op {
	pub fn col(&self) -> u8 {
		match self {
			Op::Set(c, ..) |
			Op::Deref(c, ..) |
			Op::Ref(c, ..) |
			Op::InsertTree(c, ..) |
			Op::RefTree(c, ..) |
			Op::DerefTree(c, ..) => *c,
		}
	}
	pub fn key(&self) -> &Vec<u8> {
		match self {
			Op::Set(_, k, _) |
			Op::Deref(_, k) |
			Op::Ref(_, k) |
			Op::InsertTree(_, k, _) |
			Op::RefTree(_, k) |
			Op::DerefTree(_, k) => k,
		}
	}
	pub fn show(&self) -> String {
		match self {
			Op::Set(c, k, v) => format!("set(c{},{},{})", c, short_bytes(k), short_bytes(v)),
			Op::Deref(c, k) => format!("deref(c{},{})", c, short_bytes(k)),
			Op::Ref(c, k) => format!("ref(c{},{})", c, short_bytes(k)),
			Op::InsertTree(c, k, t) => format!("insert_tree(c{},{},{})", c, short_bytes(k), t.show()),
			Op::RefTree(c, k) => format!("ref_tree(c{},{})", c, short_bytes(k)),
			Op::DerefTree(c, k) => format!("deref_tree(c{},{})", c, short_bytes(k)),
		}
	}
	/// Plain (non-tree) operations convert directly.
	pub fn to_db(&self) -> (u8, Operation<Vec<u8>, Vec<u8>>) {
		match self {
			Op::Set(c, k, v) => (*c, Operation::Set(k.clone(), v.clone())),
			Op::Deref(c, k) => (*c, Operation::Dereference(k.clone())),
			Op::Ref(c, k) => (*c, Operation::Reference(k.clone())),
			Op::RefTree(c, k) => (*c, Operation::ReferenceTree(k.clone())),
			Op::DerefTree(c, k) => (*c, Operation::DereferenceTree(k.clone())),
			Op::InsertTree(c, k, t) => (*c, Operation::InsertTree(k.clone(), t.to_new_node(&|id| id))),
		}
	}
}

impl TreeSpec {
	pub fn leaf(data: Vec<u8>) -> TreeSpec {
		TreeSpec { data, children: vec![] }
	}
	pub fn show(&self) -> String {
		let mut s = format!("[{}", short_bytes(&self.data));
		for c in &self.children {
			s.push(' ');
			match c {
				ChildSpec::New(t) => s.push_str(&t.show()),
				ChildSpec::Existing(id) => s.push_str(&format!("@{}", id)),
			}
		}
		s.push(']');
		if s.len() > 400 {
			s.truncate(400);
			s.push_str("...");
		}
		s
	}
	pub fn count_new(&self) -> usize {
		1 + self
			.children
			.iter()
			.map(|c| match c {
				ChildSpec::New(t) => t.count_new(),
				_ => 0,
			})
			.sum::<usize>()
	}
	pub fn max_fanout(&self) -> usize {
		self.children
			.iter()
			.map(|c| match c {
				ChildSpec::New(t) => t.max_fanout(),
				_ => 0,
			})
			.max()
			.unwrap_or(0)
			.max(self.children.len())
	}
	pub fn to_new_node(&self, resolve: &dyn Fn(u64) -> u64) -> NewNode {
		NewNode {
			data: self.data.clone(),
			children: self
				.children
				.iter()
				.map(|c| match c {
					ChildSpec::New(t) => NodeRef::New(t.to_new_node(resolve)),
					ChildSpec::Existing(id) => NodeRef::Existing(resolve(*id)),
				})
				.collect(),
		}
	}
}

pub fn tx_show(tx: &[Op]) -> J {
	J::strs(tx.iter().map(|o| o.show()))
}

/// Key-value column model (hash or btree, without reference counting).
#[derive(Clone, Debug, Default, PartialEq, Eq)]
pub struct KvCol {
	pub map: BTreeMap<Vec<u8>, Vec<u8>>,
	pub preimage: bool,
}

/// Reference counted column model: key -> (value, count>0).
#[derive(Clone, Debug, Default, PartialEq, Eq)]
pub struct RcCol {
	pub map: BTreeMap<Vec<u8>, (Vec<u8>, u64)>,
}

#[derive(Clone, Debug, PartialEq, Eq)]
pub enum ColModel {
	Kv(KvCol),
	Rc(RcCol),
	/// multitree columns are modelled separately (tree.rs); placeholder here
	Tree,
}

#[derive(Clone, Debug, PartialEq, Eq)]
pub struct Model {
	pub cols: Vec<ColModel>,
	pub opts: Vec<ColumnOptions>,
}

#[derive(Clone, Debug, PartialEq, Eq)]
pub enum Validity {
	Valid,
	/// the commit call must return an error (operation not valid for the column)
	Invalid(String),
}

impl Model {
	pub fn new(opts: &[ColumnOptions]) -> Model {
		Model {
			cols: opts
				.iter()
				.map(|o| {
					if o.multitree {
						ColModel::Tree
					} else if o.ref_counted {
						ColModel::Rc(RcCol::default())
					} else {
						ColModel::Kv(KvCol { map: BTreeMap::new(), preimage: o.preimage })
					}
				})
				.collect(),
			opts: opts.to_vec(),
		}
	}

	/// Static validity of a plain transaction (tree operations on multitree columns are judged
	/// by the tree model).
	pub fn validity(&self, tx: &[Op]) -> Validity {
		for op in tx {
			let o = &self.opts[op.col() as usize];
			let tree_op = matches!(op, Op::InsertTree(..) | Op::RefTree(..) | Op::DerefTree(..));
			if o.multitree {
				if !tree_op {
					return Validity::Invalid(format!("plain op on multitree column: {}", op.show()))
				}
			} else {
				if tree_op {
					return Validity::Invalid(format!("tree op on non-tree column: {}", op.show()))
				}
				if matches!(op, Op::Ref(..)) && !o.ref_counted {
					return Validity::Invalid(format!("reference on a column without counting: {}", op.show()))
				}
			}
		}
		Validity::Valid
	}

	/// Apply a valid transaction of plain operations in the order given.
	pub fn apply(&mut self, tx: &[Op]) {
		for op in tx {
			let c = op.col() as usize;
			match &mut self.cols[c] {
				ColModel::Kv(kv) => match op {
					Op::Set(_, k, v) => {
						if kv.preimage && kv.map.contains_key(k) {
							// replacement is a no-op for preimage columns (value is f(key) anyway)
						} else {
							kv.map.insert(k.clone(), v.clone());
						}
					},
					Op::Deref(_, k) => {
						kv.map.remove(k);
					},
					_ => {},
				},
				ColModel::Rc(rc) => match op {
					Op::Set(_, k, v) => {
						let e = rc.map.entry(k.clone()).or_insert_with(|| (v.clone(), 0));
						e.1 += 1;
					},
					Op::Ref(_, k) => {
						if let Some(e) = rc.map.get_mut(k) {
							e.1 += 1;
						}
					},
					Op::Deref(_, k) => {
						let gone = if let Some(e) = rc.map.get_mut(k) {
							e.1 -= 1;
							e.1 == 0
						} else {
							false
						};
						if gone {
							rc.map.remove(k);
						}
					},
					_ => {},
				},
				ColModel::Tree => {},
			}
		}
	}

	pub fn get(&self, col: u8, key: &[u8]) -> Option<&Vec<u8>> {
		match &self.cols[col as usize] {
			ColModel::Kv(kv) => kv.map.get(key),
			ColModel::Rc(rc) => rc.map.get(key).map(|e| &e.0),
			ColModel::Tree => None,
		}
	}

	pub fn count(&self, col: u8, key: &[u8]) -> u64 {
		match &self.cols[col as usize] {
			ColModel::Rc(rc) => rc.map.get(key).map_or(0, |e| e.1),
			ColModel::Kv(kv) => kv.map.contains_key(key) as u64,
			ColModel::Tree => 0,
		}
	}

	pub fn keys(&self, col: u8) -> Vec<Vec<u8>> {
		match &self.cols[col as usize] {
			ColModel::Kv(kv) => kv.map.keys().cloned().collect(),
			ColModel::Rc(rc) => rc.map.keys().cloned().collect(),
			ColModel::Tree => vec![],
		}
	}

	pub fn len(&self, col: u8) -> usize {
		match &self.cols[col as usize] {
			ColModel::Kv(kv) => kv.map.len(),
			ColModel::Rc(rc) => rc.map.len(),
			ColModel::Tree => 0,
		}
	}

	/// Ordered view (for btree columns).
	pub fn ordered(&self, col: u8) -> Vec<(&Vec<u8>, &Vec<u8>)> {
		match &self.cols[col as usize] {
			ColModel::Kv(kv) => kv.map.iter().collect(),
			ColModel::Rc(rc) => rc.map.iter().map(|(k, v)| (k, &v.0)).collect(),
			ColModel::Tree => vec![],
		}
	}

	/// smallest key >= k (incl) or > k
	pub fn next_key(&self, col: u8, k: &[u8], inclusive: bool) -> Option<(Vec<u8>, Vec<u8>)> {
		use std::ops::Bound::*;
		let lo = if inclusive { Included(k.to_vec()) } else { Excluded(k.to_vec()) };
		match &self.cols[col as usize] {
			ColModel::Kv(kv) => kv.map.range((lo, Unbounded)).next().map(|(k, v)| (k.clone(), v.clone())),
			ColModel::Rc(rc) => rc.map.range((lo, Unbounded)).next().map(|(k, v)| (k.clone(), v.0.clone())),
			ColModel::Tree => None,
		}
	}

	pub fn prev_key(&self, col: u8, k: &[u8], inclusive: bool) -> Option<(Vec<u8>, Vec<u8>)> {
		use std::ops::Bound::*;
		let hi = if inclusive { Included(k.to_vec()) } else { Excluded(k.to_vec()) };
		match &self.cols[col as usize] {
			ColModel::Kv(kv) => kv.map.range((Unbounded, hi)).next_back().map(|(k, v)| (k.clone(), v.clone())),
			ColModel::Rc(rc) => rc.map.range((Unbounded, hi)).next_back().map(|(k, v)| (k.clone(), v.0.clone())),
			ColModel::Tree => None,
		}
	}

	pub fn first(&self, col: u8) -> Option<(Vec<u8>, Vec<u8>)> {
		self.next_key(col, &[], true)
	}

	pub fn last(&self, col: u8) -> Option<(Vec<u8>, Vec<u8>)> {
		match &self.cols[col as usize] {
			ColModel::Kv(kv) => kv.map.iter().next_back().map(|(k, v)| (k.clone(), v.clone())),
			ColModel::Rc(rc) => rc.map.iter().next_back().map(|(k, v)| (k.clone(), v.0.clone())),
			ColModel::Tree => None,
		}
	}
}

/// Cursor of the btree iterator model (C04).
#[derive(Clone, Debug, PartialEq, Eq)]
pub enum Cursor {
	Start,
	End,
	Seeked(Vec<u8>),
	At(Vec<u8>),
}

impl Cursor {
	pub fn kind(&self) -> &'static str {
		match self {
			Cursor::Start => "start",
			Cursor::End => "end",
			Cursor::Seeked(_) => "seeked",
			Cursor::At(_) => "at",
		}
	}
	/// expected result of next() against `m`; updates the cursor
	pub fn next(&mut self, m: &Model, col: u8) -> Option<(Vec<u8>, Vec<u8>)> {
		let r = match self {
			Cursor::Start => m.first(col),
			Cursor::End => None,
			Cursor::Seeked(k) => m.next_key(col, k, true),
			Cursor::At(k) => m.next_key(col, k, false),
		};
		*self = match &r {
			Some((k, _)) => Cursor::At(k.clone()),
			None => Cursor::End,
		};
		r
	}
	pub fn prev(&mut self, m: &Model, col: u8) -> Option<(Vec<u8>, Vec<u8>)> {
		let r = match self {
			Cursor::Start => None,
			Cursor::End => m.last(col),
			Cursor::Seeked(k) => m.prev_key(col, k, true),
			Cursor::At(k) => m.prev_key(col, k, false),
		};
		*self = match &r {
			Some((k, _)) => Cursor::At(k.clone()),
			None => Cursor::Start,
		};
		r
	}
}
