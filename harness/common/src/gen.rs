//! Seeded workload generators biased to boundaries.

use crate::{dbutil::fnv, rng::Rng};

/// Entry sizes of the 255 fixed-size value tables (copied from the documented table in
/// column.rs; the multipart table uses 4096-byte parts).
pub const SIZES: [u16; 255] = [
	32, 33, 34, 35, 36, 37, 38, 39, 40, 41, 42, 43, 44, 46, 47, 48, 50, 51, 52, 54, 55, 57, 58, 60,
	62, 63, 65, 67, 69, 71, 73, 75, 77, 79, 81, 83, 85, 88, 90, 93, 95, 98, 101, 103, 106, 109,
	112, 115, 119, 122, 125, 129, 132, 136, 140, 144, 148, 152, 156, 160, 165, 169, 174, 179, 183,
	189, 194, 199, 205, 210, 216, 222, 228, 235, 241, 248, 255, 262, 269, 276, 284, 292, 300, 308,
	317, 325, 334, 344, 353, 363, 373, 383, 394, 405, 416, 428, 439, 452, 464, 477, 490, 504, 518,
	532, 547, 562, 577, 593, 610, 627, 644, 662, 680, 699, 718, 738, 758, 779, 801, 823, 846, 869,
	893, 918, 943, 969, 996, 1024, 1052, 1081, 1111, 1142, 1174, 1206, 1239, 1274, 1309, 1345,
	1382, 1421, 1460, 1500, 1542, 1584, 1628, 1673, 1720, 1767, 1816, 1866, 1918, 1971, 2025, 2082,
	2139, 2198, 2259, 2322, 2386, 2452, 2520, 2589, 2661, 2735, 2810, 2888, 2968, 3050, 3134, 3221,
	3310, 3402, 3496, 3593, 3692, 3794, 3899, 4007, 4118, 4232, 4349, 4469, 4593, 4720, 4850, 4984,
	5122, 5264, 5410, 5559, 5713, 5871, 6034, 6200, 6372, 6548, 6729, 6916, 7107, 7303, 7506, 7713,
	7927, 8146, 8371, 8603, 8841, 9085, 9337, 9595, 9860, 10133, 10413, 10702, 10998, 11302, 11614,
	11936, 12266, 12605, 12954, 13312, 13681, 14059, 14448, 14848, 15258, 15681, 16114, 16560,
	17018, 17489, 17973, 18470, 18981, 19506, 20046, 20600, 21170, 21756, 22358, 22976, 23612,
	24265, 24936, 25626, 26335, 27064, 27812, 28582, 29372, 30185, 31020, 31878, 32760,
];

/// Arbitrary byte-string keys for hashed / btree columns.
pub fn key_pool(rng: &mut Rng, n: usize, btree: bool) -> Vec<Vec<u8>> {
	let mut v: Vec<Vec<u8>> = vec![];
	let prefix = rng.bytes_in(1, 40);
	while v.len() < n {
		let k = match rng.below(16) {
			0 => vec![],
			1 => vec![rng.next() as u8],
			2 => rng.bytes(31),
			3 => rng.bytes(32),
			4 => rng.bytes(33),
			5 => rng.bytes_in(250, 300),
			6 => {
				let n = if btree { *rng.pick(&[253usize, 254, 255, 256, 257]) } else { 4096 };
				rng.bytes(n)
			},
			7 | 8 | 9 => {
				// shared prefix
				let mut k = prefix.clone();
				let ext = rng.bytes_in(0, 5);
				k.extend_from_slice(&ext);
				k
			},
			10 if !v.is_empty() => {
				// extension or truncation of an existing key (prefixes of each other)
				let mut k = rng.pick(&v).clone();
				if rng.chance(1, 2) || k.is_empty() {
					k.push(rng.next() as u8);
				} else {
					k.pop();
				}
				k
			},
			_ => rng.bytes_in(1, 24),
		};
		if !v.contains(&k) {
			v.push(k);
		}
	}
	v
}

/// Keys for uniform-key columns: >= 32 bytes, first 32 bytes random.
pub fn uniform_key_pool(rng: &mut Rng, n: usize, allow_long: bool) -> Vec<Vec<u8>> {
	let mut v: Vec<Vec<u8>> = vec![];
	while v.len() < n {
		let len = if allow_long { *rng.pick(&[32usize, 32, 32, 33, 64, 200]) } else { 32 };
		let k = rng.bytes(len);
		if !v.iter().any(|x: &Vec<u8>| x[..32] == k[..32]) {
			v.push(k);
		}
	}
	v
}

#[derive(Clone, Copy, Debug, PartialEq, Eq)]
pub enum Fill {
	Random,
	Compressible,
	/// random head + repetitive tail: compression pays off but the result stays large (a
	/// compressed value that still needs a multipart chain)
	Semi,
}

pub fn make_value(rng: &mut Rng, len: usize, fill: Fill) -> Vec<u8> {
	match fill {
		Fill::Random => rng.bytes(len),
		Fill::Compressible => {
			let pat = rng.bytes_in(1, 7);
			let mut v = Vec::with_capacity(len);
			while v.len() < len {
				let n = (len - v.len()).min(pat.len());
				v.extend_from_slice(&pat[..n]);
			}
			// make each value unique-ish at the head so mix-ups are visible
			if len >= 8 {
				let tag = rng.next().to_le_bytes();
				v[..8].copy_from_slice(&tag);
			}
			v
		},
		Fill::Semi => {
			let head = len * 55 / 100;
			let mut v = rng.bytes(head);
			let pat = rng.bytes_in(1, 7);
			while v.len() < len {
				let n = (len - v.len()).min(pat.len());
				v.extend_from_slice(&pat[..n]);
			}
			v
		},
	}
}

/// Value lengths that hop between size classes, with occasional multipart values.
pub fn value_len(rng: &mut Rng, big: bool) -> usize {
	match rng.below(20) {
		0 => 0,
		1 => 1,
		2..=9 => rng.range(0, 600) as usize,
		10..=13 => {
			// exactly around a size-class boundary (hash column overhead 28/32, btree 2)
			let s = *rng.pick(&SIZES[..140]) as i64;
			let overhead = *rng.pick(&[2i64, 28, 32]);
			(s - overhead + rng.range(0, 2) as i64 - 1).max(0) as usize
		},
		14 | 15 => rng.range(600, 5000) as usize,
		16 if big => rng.range(5_000, 40_000) as usize,
		17 if big => rng.range(32_000, 34_000) as usize,
		18 if big => rng.range(60_000, 130_000) as usize,
		_ => rng.range(0, 120) as usize,
	}
}

pub fn random_value(rng: &mut Rng, big: bool) -> Vec<u8> {
	let len = value_len(rng, big);
	let fill = match rng.below(4) {
		0 | 1 => Fill::Compressible,
		2 => Fill::Random,
		_ if len >= 4096 => Fill::Semi,
		_ => Fill::Random,
	};
	make_value(rng, len, fill)
}

/// Value as a function of the key (preimage contract).
pub fn value_for_key(key: &[u8], big: bool) -> Vec<u8> {
	let mut r = Rng::new(fnv(key) ^ 0x5151_7777);
	random_value(&mut r, big)
}
