//! Self-contained xorshift64* PRNG so a (seed, case) pair replays exactly.

#[derive(Clone, Debug)]
pub struct Rng(pub u64);

impl Rng {
	pub fn new(seed: u64) -> Rng {
		// splitmix to avoid weak low seeds
		let mut z = seed.wrapping_add(0x9E3779B97F4A7C15);
		z = (z ^ (z >> 30)).wrapping_mul(0xBF58476D1CE4E5B9);
		z = (z ^ (z >> 27)).wrapping_mul(0x94D049BB133111EB);
		z ^= z >> 31;
		Rng(if z == 0 { 0x1234_5678_9abc_def1 } else { z })
	}
	pub fn derive(&self, tag: u64) -> Rng {
		Rng::new(self.0 ^ tag.wrapping_mul(0xD6E8FEB86659FD93))
	}
	#[inline]
	pub fn next(&mut self) -> u64 {
		let mut x = self.0;
		x ^= x >> 12;
		x ^= x << 25;
		x ^= x >> 27;
		self.0 = x;
		x.wrapping_mul(0x2545F4914F6CDD1D)
	}
	/// uniform in 0..n (n > 0)
	#[inline]
	pub fn below(&mut self, n: u64) -> u64 {
		debug_assert!(n > 0);
		self.next() % n
	}
	#[inline]
	pub fn range(&mut self, lo: u64, hi_incl: u64) -> u64 {
		lo + self.below(hi_incl - lo + 1)
	}
	#[inline]
	pub fn usize(&mut self, n: usize) -> usize {
		self.below(n as u64) as usize
	}
	#[inline]
	pub fn chance(&mut self, num: u64, den: u64) -> bool {
		self.below(den) < num
	}
	pub fn pick<'a, T>(&mut self, v: &'a [T]) -> &'a T {
		&v[self.usize(v.len())]
	}
	pub fn bytes(&mut self, n: usize) -> Vec<u8> {
		let mut v = Vec::with_capacity(n);
		while v.len() + 8 <= n {
			v.extend_from_slice(&self.next().to_le_bytes());
		}
		while v.len() < n {
			v.push(self.next() as u8);
		}
		v
	}
	/// random bytes with a length drawn from lo..=hi
	pub fn bytes_in(&mut self, lo: u64, hi: u64) -> Vec<u8> {
		let n = self.range(lo, hi) as usize;
		self.bytes(n)
	}
	pub fn fill(&mut self, b: &mut [u8]) {
		for c in b.chunks_mut(8) {
			let r = self.next().to_le_bytes();
			c.copy_from_slice(&r[..c.len()]);
		}
	}
	pub fn shuffle<T>(&mut self, v: &mut [T]) {
		for i in (1..v.len()).rev() {
			let j = self.usize(i + 1);
			v.swap(i, j);
		}
	}
	/// pick an index according to integer weights
	pub fn weighted(&mut self, w: &[u32]) -> usize {
		let total: u64 = w.iter().map(|x| *x as u64).sum();
		let mut r = self.below(total.max(1));
		for (i, x) in w.iter().enumerate() {
			if r < *x as u64 {
				return i
			}
			r -= *x as u64;
		}
		w.len() - 1
	}
}
