//! Shared infrastructure of the parity-db runtime monitors.
pub mod dbutil;
pub mod gen;
pub mod json;
pub mod model;
pub mod rng;
pub mod run;
pub mod scratch;
pub mod tree;

pub use json::J;
pub use rng::Rng;
pub use run::{Ctx, Report, Spec, Tier};
