//! Seeded delays at the library's yield hooks (hand-over sites of the write pipeline).

use std::{
	cell::Cell,
	sync::atomic::{AtomicU64, Ordering},
};

pub const NUM_SITES: usize = 18;
/// reader-side site (between index lookup and value fetch of a point read): reached millions of
/// times per history, so it is delayed with its own, much smaller probability
pub const READ_SITE: usize = 17;

static HITS: [AtomicU64; NUM_SITES] = [const { AtomicU64::new(0) }; NUM_SITES];
static DELAYED: AtomicU64 = AtomicU64::new(0);
/// probability numerator out of 1000
static PROB: AtomicU64 = AtomicU64::new(0);
static MAX_US: AtomicU64 = AtomicU64::new(0);
static SEED: AtomicU64 = AtomicU64::new(1);
/// bit i set = site i may be delayed
static MASK: AtomicU64 = AtomicU64::new(u64::MAX);
/// per-site fixed extra delay in microseconds (0 = none); used to slow one stage down
static SLOW_SITE: AtomicU64 = AtomicU64::new(0);
static SLOW_US: AtomicU64 = AtomicU64::new(0);
/// reader-side site: delays per million hits, and their maximal length in microseconds
static READ_PPM: AtomicU64 = AtomicU64::new(0);
static READ_MAX_US: AtomicU64 = AtomicU64::new(0);

thread_local! {
	static RNG: Cell<u64> = const { Cell::new(0) };
}

fn next() -> u64 {
	RNG.with(|r| {
		let mut x = r.get();
		if x == 0 {
			// derive a per-thread stream from the seed and the thread id
			let tid = unsafe { libc::syscall(libc::SYS_gettid) } as u64;
			x = SEED.load(Ordering::Relaxed) ^ tid.wrapping_mul(0x9E3779B97F4A7C15) | 1;
		}
		x ^= x >> 12;
		x ^= x << 25;
		x ^= x >> 27;
		r.set(x);
		x.wrapping_mul(0x2545F4914F6CDD1D)
	})
}

fn hook(site: u32) {
	let s = site as usize;
	if s < NUM_SITES {
		HITS[s].fetch_add(1, Ordering::Relaxed);
	}
	if SLOW_SITE.load(Ordering::Relaxed) == site as u64 {
		let us = SLOW_US.load(Ordering::Relaxed);
		if us > 0 {
			std::thread::sleep(std::time::Duration::from_micros(us));
		}
	}
	if s == READ_SITE {
		let ppm = READ_PPM.load(Ordering::Relaxed);
		if ppm > 0 {
			let r = next();
			if r % 1_000_000 < ppm {
				DELAYED.fetch_add(1, Ordering::Relaxed);
				let us = 20 + (r >> 24) % READ_MAX_US.load(Ordering::Relaxed).max(1);
				std::thread::sleep(std::time::Duration::from_micros(us));
			}
		}
		return
	}
	let p = PROB.load(Ordering::Relaxed);
	if p == 0 || MASK.load(Ordering::Relaxed) & (1 << s) == 0 {
		return
	}
	let r = next();
	if r % 1000 < p {
		let max = MAX_US.load(Ordering::Relaxed).max(1);
		let us = (r >> 20) % max;
		DELAYED.fetch_add(1, Ordering::Relaxed);
		if us < 30 {
			std::thread::yield_now();
		} else {
			std::thread::sleep(std::time::Duration::from_micros(us));
		}
	}
}

pub fn install(seed: u64, prob_per_mille: u64, max_us: u64, mask: u64) {
	SEED.store(seed | 1, Ordering::SeqCst);
	PROB.store(prob_per_mille, Ordering::SeqCst);
	MAX_US.store(max_us, Ordering::SeqCst);
	MASK.store(mask, Ordering::SeqCst);
	SLOW_SITE.store(0, Ordering::SeqCst);
	SLOW_US.store(0, Ordering::SeqCst);
	READ_PPM.store(0, Ordering::SeqCst);
	parity_db::verif::set_yield_hook(Some(hook));
}

pub fn slow_site(site: u32, us: u64) {
	SLOW_SITE.store(site as u64, Ordering::SeqCst);
	SLOW_US.store(us, Ordering::SeqCst);
}

/// Hold readers between their index lookup and their value fetch: `ppm` of a million point reads
/// sleep 20..20+max_us microseconds there.
pub fn slow_readers(ppm: u64, max_us: u64) {
	READ_MAX_US.store(max_us, Ordering::SeqCst);
	READ_PPM.store(ppm, Ordering::SeqCst);
}

pub fn uninstall() {
	READ_PPM.store(0, Ordering::SeqCst);
	PROB.store(0, Ordering::SeqCst);
	SLOW_US.store(0, Ordering::SeqCst);
	parity_db::verif::set_yield_hook(None);
}

pub fn take_hits() -> (Vec<u64>, u64) {
	let v = HITS.iter().map(|h| h.swap(0, Ordering::Relaxed)).collect();
	(v, DELAYED.swap(0, Ordering::Relaxed))
}

pub const SITE_NAMES: [&str; NUM_SITES] = [
	"-",
	"commit_enter",
	"before_end_record",
	"after_end_record",
	"after_overlay_clean",
	"before_end_read",
	"after_end_read",
	"enact_action",
	"flush_synced",
	"before_defer",
	"after_defer",
	"drop_index",
	"before_clean",
	"before_wait",
	"after_signal",
	"reindex_record",
	"commit_queued",
	"get_value_lookup",
];
