//! C16, threaded half: a file operation of a LIVE background worker starts to fail (errno
//! injection by libc interposition, persisting from then on) while client threads commit and
//! read. The failure must be reported (later commits refused), reads keep returning committed
//! data, nothing panics, the handle goes away, and with the fault gone the directory reopens to
//! a prefix of the accepted transactions that contains everything made durable before the fault.

use crate::{delays, inject};
use parity_db::{CompressionType, Db, Operation};
use pv::{
	dbutil::{col, DbCfg},
	json::{short_bytes, J},
	scratch::{catch, panic_site, take_all_panics, Scratch},
	Ctx, Report, Rng,
};
use std::{
	collections::BTreeMap,
	sync::{
		atomic::{AtomicBool, AtomicU64, Ordering},
		Arc, Mutex,
	},
	time::{Duration, Instant},
};

const CLASS_SETS: [(&str, u64); 8] = [
	("all", 0x3f),
	("write", 1 << inject::CLASS_WRITE),
	("read", 1 << inject::CLASS_READ),
	("sync", 1 << inject::CLASS_SYNC),
	("msync", 1 << inject::CLASS_MSYNC),
	("truncate_unlink", (1 << inject::CLASS_TRUNCATE) | (1 << inject::CLASS_UNLINK)),
	("all_but_write", 0x3e),
	// the cleanup stage fails (truncation of a reclaimed log) while it lags several log files
	// behind the commit stage: large transactions, default options
	("log_truncate_under_backlog", 1 << inject::CLASS_TRUNCATE),
];

type Key = (u8, Vec<u8>);
/// one accepted transaction: the writes it made (None = removal)
type Tx = Vec<(Key, Option<Vec<u8>>)>;

fn value(seq: u64, len: usize) -> Vec<u8> {
	let mut v = Vec::with_capacity(len.max(9));
	v.extend_from_slice(&seq.to_le_bytes());
	v.push(0xC6);
	while v.len() < len {
		v.push((seq as u8).wrapping_mul(31).wrapping_add(v.len() as u8));
	}
	v
}

fn seq_of(v: &[u8]) -> Option<u64> {
	if v.len() >= 9 && v[8] == 0xC6 {
		Some(u64::from_le_bytes(v[..8].try_into().unwrap()))
	} else {
		None
	}
}

struct Shared {
	/// accepted transactions in commit order (commits are serialised by this mutex, so the order
	/// in which the calls returned is the order of the queue)
	hist: Mutex<Vec<Tx>>,
	acked: AtomicU64,
	next_seq: AtomicU64,
	stop: AtomicBool,
	refused: AtomicU64,
	other_errors: Mutex<Vec<String>>,
}

pub fn run_case(ctx: &Ctx, rep: &mut Report, case_seed: u64, variant: u64) {
	let class = (variant % 8) as usize;
	let backlog = class == 7;
	// log syncs fail while the commit stage lags behind the flush stage (every enacted action is
	// slowed down): a log file that was handed over for enactment must have been synced
	let enact_lag = class == 3 && (variant / 8) % 2 == 1;
	let always_flush = enact_lag || (!backlog && (variant / 16) % 2 == 0);
	let growth = !backlog && (variant / 32) % 2 == 1;
	let drop_with_fault = (variant / 64) % 2 == 1;
	let desc = format!(
		"C16 threaded case_seed={} variant={} failing_calls={}{} always_flush={} index_growth={} drop_with_fault={}",
		case_seed, variant, CLASS_SETS[class].0, if enact_lag { "+enact_lag" } else { "" }, always_flush, growth, drop_with_fault
	);
	ctx.mark(&desc);
	ctx.progress();
	let _ = take_all_panics();
	let r = catch(|| scenario(ctx, rep, case_seed, variant, class, always_flush, growth, drop_with_fault, &desc));
	let _ = backlog;
	inject::trace_r1(false);
	inject::stop();
	delays::uninstall();
	let replay = J::obj().set("case", J::s(desc.clone())).set("case_seed", J::i(case_seed)).set("variant", J::i(variant));
	if let Err(p) = r {
		rep.violation(format!("scenario=C16;mode=threaded;failure=panic;site={}", panic_site(&p)), format!("panic: {}", p), replay.clone());
	}
	// a panic in any other thread (the library's workers) while the case ran
	let others: Vec<String> = take_all_panics().into_iter().filter(|p| p.contains("/repo/") || p.contains("parity")).collect();
	if let Some(p) = others.first() {
		rep.violation(format!("scenario=C16;mode=threaded;failure=worker_panic;site={}", panic_site(p)), format!("a thread panicked while a file operation was failing: {}", p), replay);
	}
}

#[allow(clippy::too_many_arguments)]
fn scenario(ctx: &Ctx, rep: &mut Report, case_seed: u64, variant: u64, class: usize, always_flush: bool, growth: bool, drop_with_fault: bool, desc: &str) {
	let mut rng = Rng::new(case_seed);
	let dir = Scratch::new("c16t");
	let dbdir = dir.path.join("db");
	let mut cfg = DbCfg::new(vec![col(false, growth, false, false, CompressionType::NoCompression), col(true, false, false, false, if variant % 3 == 0 { CompressionType::Lz4 } else { CompressionType::NoCompression })]);
	if growth {
		cfg.salt = Some([0u8; 32]);
	}
	cfg.background = true;
	cfg.always_flush = always_flush;
	let opts = cfg.options(&dbdir);
	let replay = J::obj().set("case", J::s(desc.to_string())).set("case_seed", J::i(case_seed)).set("variant", J::i(variant));
	let hot = rng.below(1 << 16) as u16;
	let n_clients = 2usize;
	let key_of = move |r: &mut Rng, client: usize| -> Key {
		if r.chance(1, 3) {
			(1u8, format!("c{}-b{:03}", client, r.below(30)).into_bytes())
		} else if growth {
			// one 16-bit index page, random tail: the index grows while the history runs; a key is
			// re-used by drawing its tail from a small per-client pool
			let mut k = hot.to_be_bytes().to_vec();
			let id = r.below(150);
			let mut t = Rng::new(id * 7919 + client as u64 * 1_000_003 + 17);
			k.extend_from_slice(&t.bytes(30));
			(0u8, k)
		} else {
			(0u8, format!("c{}-k{:03}", client, r.below(60)).into_bytes())
		}
	};
	let backlog = class == 7;
	let make_tx = move |r: &mut Rng, client: usize, seq: u64| -> Tx {
		let mut tx: Tx = vec![];
		if backlog && seq > 60 {
			// 8-20 MiB per transaction: a log file (64 MiB) fills every few commits
			for i in 0..r.range(8, 20) {
				tx.push(((1u8, format!("c{}-big-{}-{}", client, seq % 4, i).into_bytes()), Some(value(seq, 1 << 20))));
			}
			return tx
		}
		for _ in 0..r.range(1, 4) {
			let k = key_of(r, client);
			if tx.iter().any(|(k2, _)| *k2 == k) {
				continue
			}
			if r.chance(1, 5) {
				tx.push((k, None));
			} else {
				let len = match r.below(20) {
					0 => r.range(33_000, 70_000),
					1..=4 => r.range(600, 5000),
					_ => r.range(9, 400),
				} as usize;
				tx.push((k, Some(value(seq, len))));
			}
		}
		tx
	};
	let to_ops = |tx: &Tx| -> Vec<(u8, Operation<Vec<u8>, Vec<u8>>)> {
		tx.iter()
			.map(|((c, k), v)| match v {
				Some(v) => (*c, Operation::Set(k.clone(), v.clone())),
				None => (*c, Operation::Dereference(k.clone())),
			})
			.collect()
	};

	// ---- phase A: a durable base. n0 transactions, clean shutdown, reopen: by C03 all of them
	// are durable, so every later recovery must contain them (lower bound of the prefix).
	let mut hist: Vec<Tx> = vec![];
	{
		let db = Db::open_or_create(&opts).expect("open_or_create");
		let n0 = rng.range(10, 60);
		for seq in 1..=n0 {
			let tx = make_tx(&mut rng, (seq % 2) as usize, seq);
			db.commit_changes(to_ops(&tx)).expect("commit without fault");
			hist.push(tx);
		}
		drop(db);
	}
	let n0 = hist.len();
	let db = Arc::new(Db::open(&opts).expect("reopen of the base"));
	let sh = Arc::new(Shared {
		hist: Mutex::new(hist),
		acked: AtomicU64::new(n0 as u64),
		next_seq: AtomicU64::new(n0 as u64 + 1),
		stop: AtomicBool::new(false),
		refused: AtomicU64::new(0),
		other_errors: Mutex::new(vec![]),
	});
	if rng.chance(1, 2) {
		delays::install(case_seed, rng.range(20, 200), rng.range(100, 1500), u64::MAX);
	}
	inject::start(&dbdir, CLASS_SETS[class].1);
	// rule R1 of C12 stays in force when a file operation fails: a log file whose sync FAILED
	// still has unsynced bytes and must never be read for enactment ("no table byte is modified
	// on behalf of a record before the log bytes of that record were synced")
	inject::trace_r1(true);
	if class == 3 && (variant / 8) % 2 == 1 {
		// enact lag: only log files are failed, the commit stage sleeps before every action it applies
		inject::only_logs(true);
		delays::install(case_seed, 0, 0, 0);
		delays::slow_site(7, rng.range(300, 4000));
		rep.count("sync_failures_under_enact_lag", 1);
	}
	if backlog {
		// the cleanup stage is slow (stands for a long msync of the tables): several enacted log
		// files pile up behind it; then its truncation of the first one fails
		inject::only_logs(true);
		delays::install(case_seed, 0, 0, 0);
		delays::slow_site(12, rng.range(1_500_000, 4_000_000));
	}

	// ---- phase B: committers (serialised by the history mutex) and a reader
	let mut clients = vec![];
	for c in 0..n_clients {
		let db = db.clone();
		let sh = sh.clone();
		let mut r = rng.derive(100 + c as u64);
		let make_tx = make_tx.clone();
		clients.push(std::thread::spawn(move || {
			let mut accepted = 0u64;
			while !sh.stop.load(Ordering::Relaxed) {
				{
					let mut h = sh.hist.lock().unwrap();
					let seq = sh.next_seq.fetch_add(1, Ordering::SeqCst);
					let tx = make_tx(&mut r, c, seq);
					match db.commit_changes(to_ops(&tx)) {
						Ok(()) => {
							h.push(tx);
							sh.acked.store(h.len() as u64, Ordering::SeqCst);
							accepted += 1;
						},
						Err(parity_db::Error::Background(_)) => {
							sh.refused.fetch_add(1, Ordering::SeqCst);
							break
						},
						Err(e) => {
							sh.other_errors.lock().unwrap().push(format!("commit returned {}", e));
							break
						},
					}
				}
				if r.chance(1, 4) {
					std::thread::sleep(Duration::from_micros(r.range(50, 2000)));
				}
			}
			accepted
		}));
	}
	// reads: (key, accepted-before, what was seen)
	let reader = {
		let db = db.clone();
		let sh = sh.clone();
		let mut r = rng.derive(7);
		let key_of = key_of.clone();
		std::thread::spawn(move || {
			let mut reads: Vec<(Key, u64, Result<Option<Vec<u8>>, String>)> = vec![];
			while !sh.stop.load(Ordering::Relaxed) && reads.len() < 200_000 {
				let who = r.usize(2);
				let k = key_of(&mut r, who);
				let before = sh.acked.load(Ordering::SeqCst);
				let got = db.get(k.0, &k.1).map_err(|e| e.to_string());
				// keep only the header of large values
				let got = got.map(|o| o.map(|v| if v.len() > 16 { let mut h = v[..9].to_vec(); h.extend_from_slice(&(v.len() as u64).to_le_bytes()); h } else { v }));
				reads.push((k, before, got));
				if r.chance(1, 8) {
					std::thread::sleep(Duration::from_micros(r.range(10, 300)));
				}
			}
			reads
		})
	};

	// ---- the fault arrives
	std::thread::sleep(Duration::from_millis(rng.range(5, 400)));
	let armed_at_acked = sh.acked.load(Ordering::SeqCst);
	inject::fail_after(if backlog { 0 } else { rng.range(0, 40) });
	let t_armed = Instant::now();
	let mut t_delivered: Option<Instant> = None;
	let mut reported = false;
	let run_limit = Duration::from_millis(if backlog { 25_000 } else { ctx.tier.pick(2500, 6000) });
	loop {
		std::thread::sleep(Duration::from_millis(10));
		ctx.progress();
		if t_delivered.is_none() && inject::delivered() > 0 {
			t_delivered = Some(Instant::now());
		}
		if clients.iter().all(|c| c.is_finished()) {
			reported = sh.refused.load(Ordering::SeqCst) > 0;
			break
		}
		match t_delivered {
			// a worker's file operation failed: from now on commits must be refused - the worker
			// reports the error as soon as its step returns; 30 s is three orders of magnitude
			// above what that takes
			Some(t) if t.elapsed() > Duration::from_secs(30) => break,
			// the failing class of calls was never reached while the clients ran
			None if t_armed.elapsed() > run_limit => break,
			_ => {},
		}
	}
	sh.stop.store(true, Ordering::SeqCst);
	let mut accepted = 0;
	for c in clients {
		accepted += c.join().expect("client");
	}
	let reads = reader.join().expect("reader");
	let delivered_live = inject::delivered();
	rep.count("commits_accepted", accepted);
	rep.count("reads_recorded", reads.len() as u64);
	if let Some(e) = sh.other_errors.lock().unwrap().first() {
		rep.violation("scenario=C16;mode=threaded;failure=commit_error_not_background".to_string(), format!("{} (a commit may only be refused with the background error)", e), replay.clone());
		std::mem::forget(db);
		return
	}
	if delivered_live > 0 {
		rep.count("faults_delivered_to_live_workers", 1);
		rep.count(&format!("fault_class_{}", CLASS_SETS[class].0), 1);
		if !reported {
			// give the error one more chance to surface through a fresh commit
			let probe = db.commit_changes(vec![(1u8, Operation::Set(b"probe-key-c16".to_vec(), b"probe".to_vec()))]);
			match probe {
				Err(parity_db::Error::Background(_)) => reported = true,
				Ok(()) => {
					sh.hist.lock().unwrap().push(vec![((1u8, b"probe-key-c16".to_vec()), Some(b"probe".to_vec()))]);
				},
				Err(_) => {},
			}
		}
		if !reported {
			rep.violation(
				"scenario=C16;mode=threaded;failure=fault_not_reported".to_string(),
				format!(
					"{} file operation(s) of the background workers failed with EIO ({:?} by class {:?}) yet commits were still accepted 30 s later: the failure was swallowed",
					delivered_live,
					inject::delivered_by_class(),
					inject::CLASS_NAMES
				),
				replay.clone(),
			);
			std::mem::forget(db);
			return
		}
		rep.count("refusals_after_fault", 1);
		rep.evaluations += 1;
	} else {
		rep.count("fault_not_reached_while_live", 1);
	}
	for (i, n) in inject::seen_by_class().iter().enumerate() {
		rep.count(&format!("calls_seen_{}", inject::CLASS_NAMES[i]), *n);
	}

	// ---- reads recorded while the fault arrived: every value is one an accepted transaction
	// wrote, and not older than the last accepted write that had returned before the read began
	let hist: Vec<Tx> = sh.hist.lock().unwrap().clone();
	let n = hist.len();
	let mut writers: BTreeMap<&Key, Vec<(usize, Option<u64>)>> = BTreeMap::new(); // key -> (tx index 1-based, seq or removal)
	for (i, tx) in hist.iter().enumerate() {
		for (k, v) in tx {
			writers.entry(k).or_default().push((i + 1, v.as_ref().map(|v| seq_of(v).unwrap_or(0))));
		}
	}
	for (k, before, got) in &reads {
		rep.evaluations += 1;
		let got = match got {
			Ok(g) => g,
			Err(e) => {
				rep.violation("scenario=C16;mode=threaded;failure=read_error".to_string(), format!("get({}) returned an error while the pipeline was failing: {}", short_bytes(&k.1), e), replay.clone());
				std::mem::forget(db);
				return
			},
		};
		let ws = writers.get(k).map(|w| w.as_slice()).unwrap_or(&[]);
		// last write accepted before the read began
		let floor = ws.iter().rev().find(|(i, _)| *i as u64 <= *before).map(|(i, _)| *i).unwrap_or(0);
		let seen_seq = got.as_ref().and_then(|v| seq_of(v));
		let ok = match got {
			None => floor == 0 || ws.iter().any(|(i, s)| *i >= floor && s.is_none()),
			Some(_) => ws.iter().any(|(i, s)| *i >= floor && s.is_some() && *s == seen_seq),
		};
		if !ok {
			rep.violation(
				"scenario=C16;mode=threaded;failure=read_not_committed_data".to_string(),
				format!(
					"get({}) in column {} returned {} although {} transactions had been accepted before the read began and the accepted writes to this key (transaction number, value sequence) are {:?}",
					short_bytes(&k.1),
					k.0,
					match got {
						None => "nothing".to_string(),
						Some(_) => format!("the value of sequence {:?}", seen_seq),
					},
					before,
					ws
				),
				replay.clone(),
			);
			std::mem::forget(db);
			return
		}
	}
	// ---- now that everything stands still: every key shows the last accepted write
	let mut model: BTreeMap<Key, Option<Vec<u8>>> = BTreeMap::new();
	for tx in &hist {
		for (k, v) in tx {
			model.insert(k.clone(), v.clone());
		}
	}
	for (k, v) in &model {
		rep.evaluations += 1;
		let got = db.get(k.0, &k.1);
		let same = matches!(&got, Ok(g) if g == v);
		if !same {
			rep.violation(
				"scenario=C16;mode=threaded;failure=read_mismatch_after_fault".to_string(),
				format!(
					"after the workers stopped on the I/O error, get({}) of column {} returns {} but the last accepted transaction left {}",
					short_bytes(&k.1),
					k.0,
					match &got {
						Ok(None) => "nothing".to_string(),
						Ok(Some(g)) => format!("{} bytes (sequence {:?})", g.len(), seq_of(g)),
						Err(e) => format!("error {}", e),
					},
					v.as_ref().map_or("a removal".to_string(), |x| format!("{} bytes (sequence {:?})", x.len(), seq_of(x)))
				),
				replay.clone(),
			);
			std::mem::forget(db);
			return
		}
	}
	rep.count("final_read_checks", 1);

	// ---- the handle goes away (with the fault still there, or gone)
	if !drop_with_fault {
		inject::heal();
	}
	ctx.mark(&format!("{} :: dropping the handle", desc));
	ctx.progress();
	let db = match Arc::try_unwrap(db) {
		Ok(d) => d,
		Err(_) => panic!("handle still shared"),
	};
	drop(db);
	ctx.progress();
	let delivered_total = inject::delivered();
	inject::trace_r1(false);
	inject::stop();
	delays::uninstall();
	rep.count("drops_completed", 1);
	rep.count("r1_checks_under_faults", inject::R1_CHECKS.load(std::sync::atomic::Ordering::SeqCst));
	let rules = inject::take_rule_violations();
	if let Some(r) = rules.first() {
		rep.violation(
			"scenario=C16;mode=threaded;failure=sync_order_rule;rule=R1".to_string(),
			format!("{} (failing class {}, {} call(s) failed; a record whose log bytes never reached the disk was applied to the tables: after a power loss the tables would hold it without its log) :: {}", r, CLASS_SETS[class].0, delivered_total, desc),
			replay,
		);
		return
	}
	if delivered_total > delivered_live {
		rep.count("faults_delivered_during_drop", 1);
	}

	// ---- the fault is gone: reopen, prefix of the accepted transactions, at least the base
	ctx.mark(&format!("{} :: reopening without the fault", desc));
	let mut o2 = opts.clone();
	o2.with_background_thread = false;
	let db = match Db::open(&o2) {
		Ok(d) => d,
		Err(e) => {
			rep.violation("scenario=C16;mode=threaded;failure=open_error".to_string(), format!("reopening after the fault was gone failed: {}", e), replay.clone());
			return
		},
	};
	let mut observed: BTreeMap<Key, Option<Vec<u8>>> = BTreeMap::new();
	for k in model.keys() {
		observed.insert(k.clone(), db.get(k.0, &k.1).expect("get after reopen"));
	}
	// highest m such that the state after m transactions equals what is observed
	let mut state: BTreeMap<Key, Option<Vec<u8>>> = model.keys().map(|k| (k.clone(), None)).collect();
	let mut matches = vec![];
	let mut differing = state.iter().filter(|(k, v)| observed.get(*k) != Some(*v)).count();
	if differing == 0 {
		matches.push(0usize);
	}
	for (i, tx) in hist.iter().enumerate() {
		for (k, v) in tx {
			let was = observed.get(k) == state.get(k);
			state.insert(k.clone(), v.clone());
			let is = observed.get(k) == state.get(k);
			if was && !is {
				differing += 1;
			} else if !was && is {
				differing -= 1;
			}
		}
		if differing == 0 {
			matches.push(i + 1);
		}
	}
	rep.evaluations += 1;
	rep.count("reopen_prefix_checks", 1);
	let m = match matches.last() {
		Some(m) => *m,
		None => {
			rep.violation(
				"scenario=C16;mode=threaded;failure=non_prefix_state".to_string(),
				format!("after the fault was gone the reopened database matches no prefix of the {} accepted transactions ({} of them made durable by a clean shutdown before the fault)", n, n0),
				replay.clone(),
			);
			return
		},
	};
	if m < n0 {
		rep.violation(
			"scenario=C16;mode=threaded;failure=synced_commit_lost".to_string(),
			format!("the reopened database holds the first {} transactions only; {} had been made durable by a clean shutdown before the fault", m, n0),
			replay.clone(),
		);
		return
	}
	if delivered_total == 0 && m != n {
		rep.violation(
			"scenario=C16;mode=threaded;failure=not_persisted_after_drop".to_string(),
			format!("no file operation failed, yet after drop + reopen only {} of {} accepted transactions are present", m, n),
			replay.clone(),
		);
		return
	}
	rep.count(if m == n { "recovered_everything" } else { "recovered_proper_prefix" }, 1);
	rep.seen(format!(
		"{}|af{}|growth{}|dropfault{}|live{}|dropdeliv{}|{}",
		CLASS_SETS[class].0,
		always_flush as u8,
		growth as u8,
		drop_with_fault as u8,
		(delivered_live > 0) as u8,
		(delivered_total > delivered_live) as u8,
		if m == n { "all" } else { "prefix" }
	));
	// ---- the recovered database works: a few more transactions, drained by the shutdown
	let mut base: BTreeMap<Key, Option<Vec<u8>>> = BTreeMap::new();
	for tx in &hist[..m] {
		for (k, v) in tx {
			base.insert(k.clone(), v.clone());
		}
	}
	for j in 0..rng.range(2, 8) {
		let tx = make_tx(&mut rng, (j % 2) as usize, 1_000_000 + j);
		if let Err(e) = db.commit_changes(to_ops(&tx)) {
			rep.violation("scenario=C16;mode=threaded;failure=continuation_commit_refused".to_string(), format!("a commit on the recovered database failed: {}", e), replay.clone());
			return
		}
		for (k, v) in tx {
			base.insert(k, v);
		}
	}
	drop(db);
	let db = Db::open(&o2).expect("second reopen");
	for (k, v) in &base {
		rep.evaluations += 1;
		let got = db.get(k.0, &k.1).expect("get");
		if &got != v {
			rep.violation(
				"scenario=C16;mode=threaded;failure=continuation_diverged".to_string(),
				format!("after recovery + {} more transactions + clean restart, key {} of column {} differs from the model re-based at the recovered prefix {}", "a few", short_bytes(&k.1), k.0, m),
				replay.clone(),
			);
			return
		}
	}
	rep.count("continuation_checks", 1);
	if rep.samples.len() < 3 {
		rep.sample(
			J::obj()
				.set("case", J::s(desc.to_string()))
				.set("base_transactions", J::i(n0 as u64))
				.set("accepted_transactions", J::i(n as u64))
				.set("accepted_when_fault_armed", J::i(armed_at_acked))
				.set("failed_calls_while_live", J::i(delivered_live))
				.set("failed_calls_during_drop", J::i(delivered_total - delivered_live))
				.set("recovered_prefix", J::i(m as u64))
				.set("reads_checked", J::i(reads.len() as u64)),
		);
	}
}
