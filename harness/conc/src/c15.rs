//! C15: the pipeline always drains - bounded progress with live workers.

use crate::delays;
use parity_db::{CompressionType, Db, Operation};
use pv::{
	dbutil::{col, multitree_col, DbCfg},
	model::{ChildSpec, TreeSpec},
	json::J,
	scratch::{catch, panic_site, Scratch},
	Ctx, Report, Rng,
};
use std::{
	collections::BTreeMap,
	sync::{
		atomic::{AtomicU64, Ordering},
		Arc,
	},
	time::{Duration, Instant},
};

const KINDS: [&str; 9] = ["tiny_commits", "huge_transactions", "index_growth", "slow_workers", "slow_clients", "giant_transaction", "worker_dies_while_throttled", "postponed_dereference", "queue_limit_boundary"];

fn value(client: u8, seq: u64, len: usize) -> Vec<u8> {
	let mut v = Vec::with_capacity(len.max(10));
	v.push(client);
	v.extend_from_slice(&seq.to_le_bytes());
	v.push(0xEE);
	while v.len() < len {
		v.push((seq as u8).wrapping_add(v.len() as u8));
	}
	v
}

pub fn run_case(ctx: &Ctx, rep: &mut Report, case_seed: u64, variant: u64) {
	let kind = (variant % 9) as usize;
	let always_flush = kind != 5 && kind != 8 && (variant / 16) % 2 == 0;
	// shutdown requested at any moment: half of the histories drop the handle the instant the last
	// commit call returned (queue, log and enact stages still busy) instead of waiting for the drain
	// (not with the test-only `always_flush` option: there the log worker enacts inline and a drop
	// with more than four uncleaned logs waits for a cleanup stage that has already left - outside
	// the property, whose configurations are the public options)
	let immediate = kind == 5 || (kind != 8 && !always_flush && (variant / 14) % 2 == 1) || (kind != 8 && !always_flush && variant % 5 == 3);
	let desc = format!("C15 case_seed={} variant={} scenario={} always_flush={} drop={}", case_seed, variant, KINDS[kind], always_flush, if immediate { "immediately" } else { "after drain" });
	ctx.mark(&desc);
	ctx.progress();
	let r = catch(|| scenario(ctx, rep, case_seed, variant, kind, always_flush, immediate, &desc));
	delays::uninstall();
	match r {
		Ok(()) => {},
		Err(p) => rep.violation(
			format!("scenario=C15;failure=panic;site={}", panic_site(&p)),
			format!("panic: {}", p),
			J::obj().set("case", J::s(desc)).set("case_seed", J::i(case_seed)).set("variant", J::i(variant)),
		),
	}
}

fn scenario(ctx: &Ctx, rep: &mut Report, case_seed: u64, variant: u64, kind: usize, always_flush: bool, immediate: bool, desc: &str) {
	let mut rng = Rng::new(case_seed);
	let dir = Scratch::new("c15");
	let mut cols = vec![col(false, kind == 2, false, false, CompressionType::NoCompression), col(true, false, false, false, CompressionType::NoCompression)];
	if kind == 7 {
		// a tree column with pruning: a dereference committed while the tree's reader is locked is
		// postponed by the log worker; it must be picked up again WITHOUT further client activity
		cols.push(multitree_col(false, variant % 3 == 1, variant % 5 == 2));
	}
	let mut cfg = DbCfg::new(cols);
	if kind == 2 {
		cfg.salt = Some([0u8; 32]);
	}
	cfg.background = true;
	cfg.always_flush = always_flush;
	// the public syncing options in all four combinations (the limits of the commit and cleanup
	// stages depend on them): the default in half of the histories
	if (variant / 9) % 2 == 1 && kind != 6 {
		cfg.sync_wal = (variant / 18) % 2 == 0;
		cfg.sync_data = (variant / 36) % 2 == 0;
	}
	let sync_tag = format!("w{}d{}", cfg.sync_wal as u8, cfg.sync_data as u8);
	let opts = cfg.options(&dir.path.join("db"));
	let db = Arc::new(Db::open_or_create(&opts).expect("open_or_create"));
	if kind == 8 {
		return boundary(ctx, rep, case_seed, variant, db, &opts, desc)
	}
	if kind == 6 {
		// the LOG worker itself is to fail while committers are throttled: every log file name
		// from the third on is occupied by a directory, so creating that log file fails (EISDIR)
		for i in 2..80 {
			let _ = std::fs::create_dir(dir.path.join("db").join(format!("log{}", i)));
		}
	}
	// delay profile
	let profile = rng.below(4);
	match profile {
		0 => delays::install(case_seed, 0, 0, 0),
		1 => delays::install(case_seed, rng.range(50, 300), rng.range(100, 1500), u64::MAX),
		2 => delays::install(case_seed, 500, 300, (1 << 13) | (1 << 14)), // wait / signal sites only
		_ => delays::install(case_seed, rng.range(20, 100), 3000, u64::MAX),
	}
	if kind == 3 {
		// the commit (enact) stage or the cleanup stage is much slower than the clients
		if rng.chance(1, 2) {
			delays::slow_site(7, rng.range(50, 400));
		} else {
			delays::slow_site(12, rng.range(2000, 20_000));
		}
	}
	let returned = Arc::new(AtomicU64::new(0));
	let refused = Arc::new(AtomicU64::new(0));
	let n_clients = if kind == 5 { 1 } else if kind == 1 || kind == 6 { rng.range(2, 3) } else { rng.range(2, 4) } as usize;
	let quick = ctx.tier == pv::Tier::Quick;
	let hot = rng.below(1 << 16) as u16;
	let mut handles = vec![];
	for c in 0..n_clients {
		let db = db.clone();
		let returned = returned.clone();
		let refused = refused.clone();
		let mut r = rng.derive(300 + c as u64);
		let n_tx: u64 = match kind {
			0 => if quick { 1500 } else { 6000 },
			1 | 6 => if quick { r.range(3, 6) } else { r.range(8, 16) },
			2 => if quick { 50 } else { 90 },
			3 => if quick { 300 } else { 1500 },
			5 => 2,
			_ => if quick { 120 } else { 500 },
		};
		handles.push(std::thread::spawn(move || {
			let mut expect: BTreeMap<(u8, Vec<u8>), Option<Vec<u8>>> = BTreeMap::new();
			let mut err = None;
			let mut max_latency = Duration::ZERO;
			let mut live_trees: Vec<Vec<u8>> = vec![];
			let mut dead_trees: Vec<Vec<u8>> = vec![];
			let mut guarded_derefs = 0u64;
			for seq in 1..=n_tx {
				let mut tx = vec![];
				if kind == 7 {
					// insert a small tree; every third round (and in the last one) dereference an older
					// tree WHILE holding its read guard, keep the guard for a while (further commits
					// may or may not follow under it), release it - and in the last round do nothing
					// more: the postponed removal has to complete on its own
					let key = format!("c{}-tree-{}", c, seq).into_bytes();
					let spec = TreeSpec {
						data: value(c as u8, seq, r.range(4, 200) as usize),
						children: (0..r.range(0, 4)).map(|i| ChildSpec::New(TreeSpec::leaf(value(c as u8, seq * 10 + i, r.range(1, 300) as usize)))).collect(),
					};
					let node = spec.to_new_node(&|id| id);
					if let Err(e) = db.commit_changes(vec![(2u8, Operation::InsertTree(key.clone(), node))]) {
						err = Some(format!("InsertTree {} of client {} failed: {}", seq, c, e));
						break
					}
					returned.fetch_add(1, Ordering::SeqCst);
					live_trees.push(key);
					if (seq % 3 == 0 || seq == n_tx) && !live_trees.is_empty() {
						let victim = live_trees.remove(r.usize(live_trees.len()));
						let reader = match db.get_tree(2, &victim) {
							Ok(Some(t)) => t,
							Ok(None) => {
								err = Some(format!("live tree {} of client {} has no reader", String::from_utf8_lossy(&victim), c));
								break
							},
							Err(e) => {
								err = Some(format!("get_tree failed: {}", e));
								break
							},
						};
						let guard = reader.read();
						let t = Instant::now();
						if let Err(e) = db.commit_changes(vec![(2u8, Operation::DereferenceTree(victim.clone()))]) {
							err = Some(format!("DereferenceTree {} of client {} failed: {}", seq, c, e));
							break
						}
						max_latency = max_latency.max(t.elapsed());
						returned.fetch_add(1, Ordering::SeqCst);
						guarded_derefs += 1;
						dead_trees.push(victim);
						for _ in 0..r.range(0, 2) {
							let key = format!("c{}-k{}", c, r.below(50)).into_bytes();
							let v = value(c as u8, seq, r.range(10, 700) as usize);
							expect.insert((0, key.clone()), Some(v.clone()));
							if db.commit_changes(vec![(0u8, Operation::Set(key, v))]).is_ok() {
								returned.fetch_add(1, Ordering::SeqCst);
							}
						}
						std::thread::sleep(Duration::from_millis(r.range(5, if seq == n_tx { 400 } else { 60 })));
						drop(guard);
						drop(reader);
					}
					continue
				}
				match kind {
					1 | 5 | 6 => {
						// 1 - 20 MiB per transaction; the giant one exceeds the 128 MiB limit of
						// logged-but-unapplied bytes all by itself and is followed by a small one
						let total = if kind == 5 { if seq == 1 { r.range(130 << 20, 142 << 20) as usize } else { 4096 } } else { r.range(1 << 20, 20 << 20) as usize };
						let mut sum = 0;
						let mut i = 0u64;
						while sum < total {
							let len = if total <= 4096 { 4096 } else { r.range(64 << 10, 1 << 20) as usize };
							let key = format!("c{}-big-{}-{}", c, seq % 3, i).into_bytes();
							let v = value(c as u8, seq, len);
							expect.insert((1, key.clone()), Some(v.clone()));
							tx.push((1u8, Operation::Set(key, v)));
							sum += len;
							i += 1;
						}
					},
					2 => {
						// all clients fill one 16-bit index page; bits 16.. are random, so the index
						// stops growing at ~19-20 bits (a few hundred keys in total)
						for _ in 0..r.range(1, 3) {
							let mut key = hot.to_be_bytes().to_vec();
							key.extend_from_slice(&r.bytes(30));
							let v = value(c as u8, seq, r.range(10, 120) as usize);
							expect.insert((0, key.clone()), Some(v.clone()));
							tx.push((0u8, Operation::Set(key, v)));
						}
					},
					_ => {
						for _ in 0..r.range(0, 3) {
							let colid = r.below(2) as u8;
							let key = format!("c{}-k{}", c, r.below(200)).into_bytes();
							if r.chance(1, 4) {
								expect.insert((colid, key.clone()), None);
								tx.push((colid, Operation::Dereference(key)));
							} else {
								let v = value(c as u8, seq, r.range(10, 700) as usize);
								expect.insert((colid, key.clone()), Some(v.clone()));
								tx.push((colid, Operation::Set(key, v)));
							}
						}
					},
				}
				let t = Instant::now();
				if let Err(e) = db.commit_changes(tx) {
					if kind == 6 && matches!(e, parity_db::Error::Background(_)) {
						// the workers are gone: the call returned, with the error, as it must
						refused.fetch_add(1, Ordering::SeqCst);
						break
					}
					err = Some(format!("commit {} of client {} failed: {}", seq, c, e));
					break
				}
				max_latency = max_latency.max(t.elapsed());
				returned.fetch_add(1, Ordering::SeqCst);
				if kind == 4 && r.chance(1, 3) {
					std::thread::sleep(Duration::from_micros(r.range(100, 5000)));
				}
			}
			(expect, err, max_latency, live_trees, dead_trees, guarded_derefs)
		}));
	}
	// ---- monitor: progress = a commit returned or a pipeline counter moved
	let mut last = (0u64, 0u64, 0u64, 0usize);
	let mut throttled = false;
	let mut killed = false;
	let kill_delay_ms = rng.range(0, 30);
	let t_start = Instant::now();
	loop {
		std::thread::sleep(Duration::from_millis(50));
		let st = db.verif_status();
		let now = (returned.load(Ordering::SeqCst), st.next_record_id, st.last_enacted, st.dirty_logs);
		if now != last {
			last = now;
			ctx.progress();
		}
		if st.queued_bytes > 16 * 1024 * 1024 {
			throttled = true;
		}
		if kind == 6 && !killed {
			// a background worker fails while committers are held back by the full queue:
			// "throttled only while the queue exceeds its limit AND the workers are alive"
			if st.has_bg_err {
				killed = true;
				rep.count("worker_failures_while_throttled", throttled as u64);
				rep.count("log_worker_failures", 1);
			} else if throttled && t_start.elapsed() > Duration::from_secs(5) {
				// the log worker did not run into the blocked file name: report a failure on its behalf
				std::thread::sleep(Duration::from_millis(kill_delay_ms));
				db.verif_store_err(parity_db::Error::InvalidInput("worker failure injected by the monitor".into()));
				killed = true;
				rep.count("worker_failures_while_throttled", 1);
			}
		}
		if handles.iter().all(|h| h.is_finished()) {
			break
		}
	}
	if kind == 6 && !killed {
		// the clients finished before any worker ran into a blocked file name: this scenario never
		// continues into the persistence checks (the blocked names would fail the shutdown too)
		if db.verif_status().has_bg_err {
			rep.count("log_worker_failures", 1);
		}
		killed = true;
	}
	if throttled {
		rep.count("queue_full_throttles", 1);
	}
	let mut expects = vec![];
	let mut live_trees: Vec<Vec<u8>> = vec![];
	let mut dead_trees: Vec<Vec<u8>> = vec![];
	for h in handles {
		let (e, err, lat, lt, dt, gd) = h.join().expect("client");
		live_trees.extend(lt);
		dead_trees.extend(dt);
		rep.count("dereferences_under_guard", gd);
		rep.max("commit_latency_ms", lat.as_millis() as u64);
		if let Some(e) = err {
			rep.violation("scenario=C15;failure=commit_error".to_string(), e, J::obj().set("case", J::s(desc.to_string())));
			std::mem::forget(db);
			return
		}
		expects.push(e);
	}
	rep.count("commits_returned", returned.load(Ordering::SeqCst));
	rep.evaluations += returned.load(Ordering::SeqCst);
	if killed {
		// every commit call has returned (the client threads were joined above); the handle must
		// still go away; nothing is claimed about persistence after a worker failure (C16)
		rep.count("commit_calls_released_by_worker_failure", refused.load(Ordering::SeqCst));
		rep.seen(format!("{}|throttled{}|killed", KINDS[kind], throttled as u8));
		ctx.mark(&format!("{} :: dropping the handle after the worker failure", desc));
		ctx.progress();
		let db = match Arc::try_unwrap(db) {
			Ok(d) => d,
			Err(_) => panic!("handle still shared"),
		};
		drop(db);
		ctx.progress();
		rep.count("drops_completed", 1);
		rep.evaluations += 1;
		delays::uninstall();
		return
	}
	// ---- no further client activity: the queue must empty (and, with always_flush, be enacted)
	let t0 = Instant::now();
	let mut last = (0u64, 0u64, 0usize, 0usize);
	if immediate {
		rep.count("immediate_drops", 1);
		if kind == 5 {
			rep.count("giant_transactions", 1);
		}
		let st = db.verif_status();
		if st.queued_commits > 0 || st.read_queue_len > 0 || st.appending.map_or(false, |a| a.1 > 0) {
			rep.count("immediate_drops_with_work_pending", 1);
		}
	}
	while !immediate {
		let st = db.verif_status();
		let logged = st.queued_commits == 0;
		let enacted = st.read_queue_len == 0 && st.reading.is_none() && st.appending.map_or(true, |a| a.1 == 0) && st.last_enacted + 1 >= st.next_record_id;
		if logged && (!always_flush || enacted) {
			break
		}
		let now = (st.next_record_id, st.last_enacted, st.queued_commits, st.read_queue_len);
		if now != last {
			last = now;
			ctx.progress();
		}
		if st.has_bg_err {
			rep.violation("scenario=C15;failure=background_error".to_string(), "a background worker reported an error although no fault was injected".to_string(), J::obj().set("case", J::s(desc.to_string())));
			std::mem::forget(db);
			return
		}
		std::thread::sleep(Duration::from_millis(20));
		if t0.elapsed() > Duration::from_secs(600) {
			break
		}
	}
	if !immediate {
		rep.count("drained_checks", 1);
		rep.evaluations += 1;
	}
	let (hits, delayed) = delays::take_hits();
	rep.count("yield_hits", hits.iter().sum());
	rep.count("yield_delays", delayed);
	if kind == 7 {
		rep.count("postponements_seen", hits[9]);
		if hits[9] > 0 {
			rep.count(if immediate { "postponed_then_dropped" } else { "postponed_then_drained_without_client" }, 1);
		}
	}
	rep.seen(format!("{}|throttled{}|af{}|delay{}|imm{}|postponed{}|{}", KINDS[kind], throttled as u8, always_flush as u8, profile, immediate as u8, (kind == 7 && hits[9] > 0) as u8, sync_tag));
	rep.count(&format!("sync_options_{}", sync_tag), 1);
	// ---- shutdown terminates
	ctx.mark(&format!("{} :: dropping the handle", desc));
	ctx.progress();
	let db = match Arc::try_unwrap(db) {
		Ok(d) => d,
		Err(_) => panic!("handle still shared"),
	};
	drop(db);
	ctx.progress();
	rep.count("drops_completed", 1);
	rep.evaluations += 1;
	delays::uninstall();
	// ---- everything persisted
	let mut o2 = opts.clone();
	o2.with_background_thread = false;
	let db = Db::open(&o2).expect("reopen");
	let mut checked = 0;
	for e in &expects {
		let step = (e.len() / 400).max(1);
		for ((c, k), v) in e.iter().step_by(step) {
			let g = db.get(*c, k).expect("get");
			checked += 1;
			if g.as_ref() != v.as_ref() {
				rep.violation(
					"scenario=C15;failure=not_persisted_after_drop".to_string(),
					format!("after drop + reopen key {} of column {} reads {} but the last committed value has {}", pv::json::short_bytes(k), c, g.as_ref().map_or("nothing".to_string(), |x| format!("{} bytes", x.len())), v.as_ref().map_or("been removed".to_string(), |x| format!("{} bytes", x.len()))),
					J::obj().set("case", J::s(desc.to_string())).set("case_seed", J::i(case_seed)).set("variant", J::i(variant)),
				);
				return
			}
		}
	}
	for (keys, want_live) in [(&live_trees, true), (&dead_trees, false)] {
		for k in keys.iter() {
			let root = match db.get_tree(2, k) {
				Ok(None) => None,
				Ok(Some(t)) => t.read().get_root().expect("get_root"),
				Err(e) => panic!("get_tree after reopen: {}", e),
			};
			checked += 1;
			if root.is_some() != want_live {
				rep.violation(
					format!("scenario=C15;failure={}", if want_live { "not_persisted_after_drop" } else { "postponed_dereference_never_applied" }),
					format!("after drop + reopen tree {} is {} although its {} had returned", String::from_utf8_lossy(k), if want_live { "missing" } else { "still readable" }, if want_live { "insertion" } else { "dereference (committed under a read guard, released afterwards)" }),
					J::obj().set("case", J::s(desc.to_string())).set("case_seed", J::i(case_seed)).set("variant", J::i(variant)),
				);
				return
			}
		}
	}
	rep.evaluations += checked;
	rep.count("persisted_checks", 1);
	if rep.samples.len() < 2 {
		rep.sample(J::obj().set("case", J::s(desc.to_string())).set("clients", J::i(n_clients as u64)).set("commits", J::i(returned.load(Ordering::SeqCst))).set("keys_verified_after_reopen", J::i(checked)));
	}
	let _ = variant;
}

/// The commit queue holds EXACTLY its limit (16 MiB), one byte less, or one byte more when
/// another commit arrives: whatever the throttling rule makes of the boundary, that commit has
/// to return (a committer put to sleep at exactly the limit is only woken if the wake-up rule
/// agrees with the sleep rule about which side the boundary is on).
fn boundary(ctx: &Ctx, rep: &mut Report, case_seed: u64, variant: u64, db: Arc<Db>, opts: &parity_db::Options, desc: &str) {
	const LIMIT: usize = 16 * 1024 * 1024;
	let delta: i64 = [0i64, -1, 1, 0][((variant / 9) % 4) as usize];
	let replay = J::obj().set("case", J::s(desc.to_string())).set("case_seed", J::i(case_seed)).set("variant", J::i(variant));
	// the log worker takes the first commit off the queue and is then held for a while right
	// before it would publish the record: the queue is filled behind its back
	delays::install(case_seed, 0, 0, 0);
	delays::slow_site(2, 1_200_000);
	let mut expect: BTreeMap<Vec<u8>, Vec<u8>> = BTreeMap::new();
	let mut put = |db: &Db, k: &str, v: Vec<u8>| {
		db.commit_changes(vec![(0u8, Operation::Set(k.as_bytes().to_vec(), v.clone()))]).expect("commit");
		expect.insert(k.as_bytes().to_vec(), v);
	};
	put(&db, "opener", value(0, 1, 50));
	let t0 = Instant::now();
	while db.verif_status().queued_commits > 0 && t0.elapsed() < Duration::from_secs(20) {
		std::thread::sleep(Duration::from_millis(1));
	}
	// how the queue accounts for one operation: a probe with a one-byte value
	put(&db, "probe", vec![7u8]);
	let after_probe = db.verif_status().queued_bytes;
	if after_probe < 1 || after_probe > 200 || db.verif_status().queued_commits != 1 {
		rep.count("boundary_not_reached", 1);
		delays::uninstall();
		drop(Arc::try_unwrap(db).ok());
		return
	}
	let overhead = after_probe - 1;
	let len = (LIMIT as i64 + delta) as usize - after_probe - overhead;
	put(&db, "filler", value(0, 2, len));
	let st = db.verif_status();
	if st.queued_bytes as i64 != LIMIT as i64 + delta || st.queued_commits != 2 {
		// the worker got ahead of us: this run says nothing about the boundary
		rep.count("boundary_not_reached", 1);
	} else {
		rep.count("boundary_reached", 1);
		rep.count(&format!("boundary_delta_{}", delta), 1);
	}
	ctx.mark(&format!("{} :: commit while the queue holds the limit {:+} bytes", desc, delta));
	ctx.progress();
	// this call may be throttled (above the limit) - but it returns
	let t = Instant::now();
	put(&db, "late", value(0, 3, 100));
	rep.max("commit_latency_ms", t.elapsed().as_millis() as u64);
	rep.count("commits_returned", 4);
	rep.evaluations += 1;
	ctx.progress();
	delays::uninstall();
	// no further client activity: the queue empties
	let t0 = Instant::now();
	while db.verif_status().queued_commits > 0 && t0.elapsed() < Duration::from_secs(60) {
		std::thread::sleep(Duration::from_millis(5));
		ctx.progress();
	}
	rep.count("drained_checks", 1);
	rep.seen(format!("queue_limit_boundary|delta{}", delta));
	ctx.mark(&format!("{} :: dropping the handle", desc));
	let db = Arc::try_unwrap(db).ok().expect("handle still shared");
	drop(db);
	ctx.progress();
	rep.count("drops_completed", 1);
	let mut o2 = opts.clone();
	o2.with_background_thread = false;
	let db = Db::open(&o2).expect("reopen");
	for (k, v) in &expect {
		rep.evaluations += 1;
		if db.get(0, k).expect("get").as_ref() != Some(v) {
			rep.violation("scenario=C15;failure=not_persisted_after_drop".to_string(), format!("after drop + reopen key {} does not hold its committed value", String::from_utf8_lossy(k)), replay);
			return
		}
	}
	rep.count("persisted_checks", 1);
}
