//! C12, threaded half: the ordering rules "log synced before apply" (R1) and "data before log
//! reuse" (R4) evaluated on the file calls of LIVE workers (libc interposition, trace mode of
//! `inject.rs`), with the `set_len` inside `TableFile::grow` held for a while so that the commit
//! stage sits inside a table's exclusive map lock when the cleanup stage comes to flush it.

use crate::inject;
use parity_db::{CompressionType, Db, Operation};
use pv::{
	dbutil::{col, DbCfg},
	json::J,
	scratch::{catch, panic_site, Scratch},
	Ctx, Report, Rng,
};
use std::{
	collections::BTreeMap,
	sync::{
		atomic::{AtomicBool, Ordering},
		Arc,
	},
	time::{Duration, Instant},
};

static STARTED: std::sync::atomic::AtomicU64 = std::sync::atomic::AtomicU64::new(0);
static ACKED: std::sync::atomic::AtomicU64 = std::sync::atomic::AtomicU64::new(0);

fn progress() -> (u64, u64) {
	(STARTED.load(Ordering::SeqCst), ACKED.load(Ordering::SeqCst))
}

/// `pdbv-conc --c12-image <dir> <seed> <variant> <started>`: open a power-loss image and name
/// the prefix of T1..T<started> it holds. Prints `M <m>` or `FAIL <signature> :: <detail>`.
pub fn image_child(a: &[String]) -> ! {
	let dir = std::path::PathBuf::from(&a[0]);
	let seed: u64 = a[1].parse().unwrap_or(0);
	let variant: u64 = a[2].parse().unwrap_or(0);
	let started: u64 = a[3].parse().unwrap_or(0);
	pv::scratch::install_panic_hook();
	let mut o = crate::c02::cfg_of(variant).options(&dir);
	o.with_background_thread = false;
	let db = match catch(|| Db::open(&o)) {
		Ok(Ok(d)) => d,
		Ok(Err(e)) => {
			println!("FAIL failure=open_error :: {}", e);
			std::process::exit(0)
		},
		Err(p) => {
			println!("FAIL failure=open_panic;site={} :: {}", panic_site(&p), p);
			std::process::exit(0)
		},
	};
	let mut keys: Vec<crate::c02::Key> = vec![];
	for idx in 0..160 {
		keys.push((0, crate::c02::key_of(seed, variant, 0, idx)));
	}
	for idx in 0..60 {
		keys.push((1, crate::c02::key_of(seed, variant, 1, idx)));
	}
	let read = catch(|| {
		let mut observed: BTreeMap<crate::c02::Key, Option<Vec<u8>>> = BTreeMap::new();
		for k in &keys {
			observed.insert(k.clone(), db.get(k.0, &k.1).map_err(|e| format!("get: {}", e))?);
		}
		Ok::<_, String>(observed)
	});
	let observed = match read {
		Ok(Ok(o)) => o,
		Ok(Err(e)) => {
			println!("FAIL failure=read_error :: {}", e);
			std::process::exit(0)
		},
		Err(p) => {
			println!("FAIL failure=read_panic;site={} :: {}", panic_site(&p), p);
			std::process::exit(0)
		},
	};
	let mut state: BTreeMap<crate::c02::Key, Option<Vec<u8>>> = keys.iter().map(|k| (k.clone(), None)).collect();
	let mut differing = state.iter().filter(|(k, v)| observed.get(*k) != Some(*v)).count();
	let mut best: Option<u64> = if differing == 0 { Some(0) } else { None };
	for i in 1..=started {
		for (k, v) in crate::c02::tx_of(seed, variant, i) {
			let was = observed.get(&k) == state.get(&k);
			state.insert(k.clone(), v);
			let is = observed.get(&k) == state.get(&k);
			if was && !is {
				differing += 1;
			} else if !was && is {
				differing -= 1;
			}
		}
		if differing == 0 {
			best = Some(i);
		}
	}
	match best {
		Some(m) => println!("M {}", m),
		None => {
			let sample: Vec<String> = observed
				.iter()
				.filter(|(k, v)| state.get(*k) != Some(*v))
				.take(3)
				.map(|(k, v)| format!("{} = {}", pv::json::short_bytes(&k.1), v.as_ref().map_or("absent".to_string(), |v| if v.len() >= 8 { format!("{} bytes of transaction {}", v.len(), u64::from_le_bytes(v[..8].try_into().unwrap())) } else { format!("{} bytes", v.len()) })))
				.collect();
			println!("FAIL failure=non_prefix_state :: the recovered state is no prefix of T1..T{}; e.g. {}", started, sample.join(", "));
		},
	}
	drop(db);
	std::process::exit(0)
}

/// Power-loss images cut from a durable shadow kept next to LIVE workers (see `shadow.rs`).
fn images_case(ctx: &Ctx, rep: &mut Report, case_seed: u64, variant: u64, desc: &str) {
	let mut rng = Rng::new(case_seed ^ 0x1A6E);
	let work = Scratch::new("c12i");
	let dbdir = work.path.join("db");
	let opts = crate::c02::cfg_of(variant).options(&dbdir);
	let replay = J::obj().set("case", J::s(desc.to_string())).set("case_seed", J::i(case_seed)).set("variant", J::i(variant));
	STARTED.store(0, Ordering::SeqCst);
	ACKED.store(0, Ordering::SeqCst);
	let db = Arc::new(Db::open_or_create(&opts).expect("open_or_create"));
	inject::start_trace(&dbdir, if variant % 3 == 0 { 0 } else { rng.range(200, 2000) });
	crate::shadow::start(&dbdir, &work.path, case_seed, 24, progress);
	let stop = Arc::new(AtomicBool::new(false));
	let client = {
		let db = db.clone();
		let stop = stop.clone();
		let mut r = rng.derive(5);
		std::thread::spawn(move || {
			let mut i = 0u64;
			while !stop.load(Ordering::Relaxed) {
				i += 1;
				let tx = crate::c02::tx_of(case_seed, variant, i);
				STARTED.store(i, Ordering::SeqCst);
				if db.commit_changes(crate::c02::to_ops(&tx)).is_err() {
					break
				}
				ACKED.store(i, Ordering::SeqCst);
				if r.chance(1, 3) {
					std::thread::sleep(Duration::from_micros(r.range(50, 3000)));
				}
			}
			i
		})
	};
	let run = Duration::from_millis(ctx.tier.pick(rng.range(1200, 2200), rng.range(2500, 5000)));
	let t0 = Instant::now();
	while t0.elapsed() < run {
		std::thread::sleep(Duration::from_millis(rng.range(60, 250)));
		inject::quiet(|| crate::shadow::cut_now("at a random moment"));
		ctx.progress();
	}
	stop.store(true, Ordering::SeqCst);
	let issued = client.join().expect("client");
	rep.count("image_history_commits", issued);
	let db = Arc::try_unwrap(db).ok().expect("handle still shared");
	pv::dbutil::wait_idle(&db, Duration::from_secs(30));
	ctx.mark(&format!("{} :: dropping the handle", desc));
	ctx.progress();
	drop(db);
	let violations = inject::stop_trace();
	let sh = crate::shadow::stop();
	rep.count("r1_checks", inject::R1_CHECKS.load(Ordering::SeqCst));
	rep.count("r4_checks", inject::R4_CHECKS.load(Ordering::SeqCst));
	rep.count("r4_files_required", inject::R4_FILES.load(Ordering::SeqCst));
	rep.count("grow_calls_held", inject::GROW_DELAYS.load(Ordering::SeqCst));
	if let Some(v) = violations.first() {
		let rule = if v.starts_with("R1") { "R1" } else { "R4" };
		rep.violation(format!("scenario=C12;mode=threaded;failure=sync_order_rule;rule={}", rule), violations.iter().take(3).cloned().collect::<Vec<_>>().join(" | "), replay);
		return
	}
	let sh = match sh {
		Some(s) => s,
		None => return,
	};
	for (k, v) in &sh.counters {
		rep.count(&format!("shadow_{}", k), *v);
	}
	// ---- judge the images: each is opened in a child process (a crash of the child is a result)
	let exe = std::env::current_exe().unwrap();
	for img in &sh.images {
		ctx.mark(&format!("{} :: image {} ({}, pages: {}, {} started)", desc, img.dir.display(), img.at, img.pages, img.started));
		ctx.progress();
		let out = std::process::Command::new(&exe)
			.arg("--c12-image")
			.arg(&img.dir)
			.arg(case_seed.to_string())
			.arg(variant.to_string())
			.arg(img.started.to_string())
			.stdin(std::process::Stdio::null())
			.stderr(std::process::Stdio::null())
			.output();
		rep.evaluations += 1;
		rep.count("power_loss_images_with_live_workers", 1);
		let out = match out {
			Ok(o) => o,
			Err(e) => {
				rep.inconclusive(format!("image child could not be run: {}", e));
				continue
			},
		};
		let text = String::from_utf8_lossy(&out.stdout).to_string();
		let line = text.lines().find(|l| l.starts_with("M ") || l.starts_with("FAIL ")).unwrap_or("").to_string();
		let img_replay = replay.clone().set("image_cut", J::s(img.at.clone())).set("image_pages", J::s(img.pages.to_string())).set("started", J::i(img.started));
		if let Some(m) = line.strip_prefix("M ") {
			let m: u64 = m.trim().parse().unwrap_or(0);
			rep.count(if m >= img.acked { "images_recovered_everything_acknowledged" } else { "images_recovered_proper_prefix" }, 1);
			rep.seen(format!("image|{}|pages_{}|{}", img.at.split(' ').take(2).collect::<Vec<_>>().join("_"), img.pages, if m >= img.acked { "all" } else { "prefix" }));
		} else if let Some(f) = line.strip_prefix("FAIL ") {
			let (sig, detail) = f.split_once(" :: ").unwrap_or((f, ""));
			rep.violation(
				format!("scenario=C12;mode=threaded_images;{}", sig),
				format!("power-loss image cut {} (pages of unsynced changes that reached the disk: {}; {} transactions started, {} acknowledged): {}", img.at, img.pages, img.started, img.acked, detail),
				img_replay,
			);
			return
		} else {
			rep.violation(
				"scenario=C12;mode=threaded_images;failure=process_abort".to_string(),
				format!("opening the power-loss image cut {} killed the process: {:?}", img.at, out.status),
				img_replay,
			);
			return
		}
	}
	rep.count("image_histories", 1);
}

pub fn run_case(ctx: &Ctx, rep: &mut Report, case_seed: u64, variant: u64) {
	if variant % 2 == 1 {
		let desc = format!("C12 threaded images case_seed={} variant={} cfg=[{}]", case_seed, variant, crate::c02::cfg_of(variant / 2).describe());
		ctx.mark(&desc);
		ctx.progress();
		let r = catch(|| images_case(ctx, rep, case_seed, variant / 2, &desc));
		let _ = inject::stop_trace();
		let _ = crate::shadow::stop();
		if let Err(p) = r {
			rep.violation(
				format!("scenario=C12;mode=threaded_images;failure=panic;site={}", panic_site(&p)),
				format!("panic: {}", p),
				J::obj().set("case", J::s(desc)).set("case_seed", J::i(case_seed)).set("variant", J::i(variant)),
			);
		}
		return
	}
	let variant = variant / 2;
	let always_flush = variant % 4 != 3;
	let delay = variant % 3 != 0;
	let desc = format!("C12 threaded case_seed={} variant={} always_flush={} grow_held={}", case_seed, variant, always_flush, delay);
	ctx.mark(&desc);
	ctx.progress();
	let r = catch(|| scenario(ctx, rep, case_seed, variant, always_flush, delay, &desc));
	let _ = inject::stop_trace();
	if let Err(p) = r {
		rep.violation(
			format!("scenario=C12;mode=threaded;failure=panic;site={}", panic_site(&p)),
			format!("panic: {}", p),
			J::obj().set("case", J::s(desc)).set("case_seed", J::i(case_seed)).set("variant", J::i(variant)),
		);
	}
}

fn scenario(ctx: &Ctx, rep: &mut Report, case_seed: u64, variant: u64, always_flush: bool, delay: bool, desc: &str) {
	let mut rng = Rng::new(case_seed);
	let dir = Scratch::new("c12t");
	let dbdir = dir.path.join("db");
	let mut cfg = DbCfg::new(vec![col(false, false, false, false, CompressionType::NoCompression), col(true, false, false, false, CompressionType::NoCompression)]);
	cfg.background = true;
	cfg.always_flush = always_flush;
	let opts = cfg.options(&dbdir);
	let replay = J::obj().set("case", J::s(desc.to_string())).set("case_seed", J::i(case_seed)).set("variant", J::i(variant));
	let db = Arc::new(Db::open_or_create(&opts).expect("open_or_create"));
	// tracing starts after open (replay reads at open are not "reads for enactment")
	inject::start_trace(&dbdir, if delay { rng.range(300, 4000) } else { 0 });
	let stop = Arc::new(AtomicBool::new(false));
	let mut clients = vec![];
	for c in 0..2u64 {
		let db = db.clone();
		let stop = stop.clone();
		let mut r = rng.derive(40 + c);
		clients.push(std::thread::spawn(move || {
			let mut expect: BTreeMap<(u8, Vec<u8>), Vec<u8>> = BTreeMap::new();
			let mut seq = 0u64;
			while !stop.load(Ordering::Relaxed) {
				seq += 1;
				let mut tx = vec![];
				for i in 0..r.range(1, 4) {
					// fresh keys in many size classes: value tables are created and grown all the time
					let colid = (r.below(4) == 0) as u8;
					let key = format!("c{}-{}-{}", c, seq, i).into_bytes();
					let len = match r.below(10) {
						0 => r.range(20_000, 60_000),
						1..=3 => r.range(2000, 20_000),
						_ => r.range(30, 2000),
					} as usize;
					let mut v = vec![(seq as u8).wrapping_add(i as u8); len];
					v[..8.min(len)].copy_from_slice(&seq.to_le_bytes()[..8.min(len)]);
					expect.insert((colid, key.clone()), v.clone());
					tx.push((colid, Operation::Set(key, v)));
				}
				if db.commit_changes(tx).is_err() {
					break
				}
				if !always_flush && r.chance(1, 3) {
					std::thread::sleep(Duration::from_micros(r.range(50, 500)));
				} else if always_flush {
					std::thread::sleep(Duration::from_micros(r.range(200, 3000)));
				}
			}
			expect
		}));
	}
	let run = Duration::from_millis(ctx.tier.pick(rng.range(1500, 2500), rng.range(3000, 6000)));
	let t0 = Instant::now();
	while t0.elapsed() < run {
		std::thread::sleep(Duration::from_millis(30));
		ctx.progress();
	}
	stop.store(true, Ordering::SeqCst);
	let mut expects = vec![];
	for c in clients {
		expects.push(c.join().expect("client"));
	}
	let commits: usize = expects.iter().map(|e| e.len()).sum();
	rep.count("keys_written", commits as u64);
	ctx.mark(&format!("{} :: dropping the handle", desc));
	ctx.progress();
	let db = Arc::try_unwrap(db).ok().expect("handle still shared");
	pv::dbutil::wait_idle(&db, Duration::from_secs(30));
	ctx.progress();
	drop(db);
	ctx.progress();
	let violations = inject::stop_trace();
	rep.count("r1_checks", inject::R1_CHECKS.load(Ordering::SeqCst));
	rep.count("r4_checks", inject::R4_CHECKS.load(Ordering::SeqCst));
	rep.count("r4_files_required", inject::R4_FILES.load(Ordering::SeqCst));
	rep.count("grow_calls_held", inject::GROW_DELAYS.load(Ordering::SeqCst));
	rep.evaluations += inject::R1_CHECKS.load(Ordering::SeqCst) + inject::R4_FILES.load(Ordering::SeqCst);
	rep.seen(format!("threaded|af{}|grow_held{}|r4{}", always_flush as u8, delay as u8, (inject::R4_CHECKS.load(Ordering::SeqCst) > 0) as u8));
	if let Some(v) = violations.first() {
		let rule = if v.starts_with("R1") { "R1" } else { "R4" };
		rep.violation(format!("scenario=C12;mode=threaded;failure=sync_order_rule;rule={}", rule), violations.iter().take(3).cloned().collect::<Vec<_>>().join(" | "), replay);
		return
	}
	// everything committed is there after the clean shutdown (sanity of the run itself)
	let mut o2 = opts.clone();
	o2.with_background_thread = false;
	let db = Db::open(&o2).expect("reopen");
	for e in &expects {
		for ((c, k), v) in e.iter().step_by((e.len() / 300).max(1)) {
			rep.evaluations += 1;
			if db.get(*c, k).expect("get").as_ref() != Some(v) {
				rep.violation("scenario=C12;mode=threaded;failure=not_persisted_after_drop".to_string(), format!("key {} of column {} is not there after drop + reopen", String::from_utf8_lossy(k), c), replay);
				return
			}
		}
	}
	rep.count("threaded_histories", 1);
	if rep.samples.len() < 2 {
		rep.sample(
			J::obj()
				.set("case", J::s(desc.to_string()))
				.set("keys_written", J::i(commits as u64))
				.set("r1_checks", J::i(inject::R1_CHECKS.load(Ordering::SeqCst)))
				.set("r4_checks", J::i(inject::R4_CHECKS.load(Ordering::SeqCst)))
				.set("table_files_required_flushed", J::i(inject::R4_FILES.load(Ordering::SeqCst)))
				.set("grow_calls_held", J::i(inject::GROW_DELAYS.load(Ordering::SeqCst))),
		);
	}
}
