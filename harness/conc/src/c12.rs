//! C12, threaded half: the ordering rules "log synced before apply" (R1) and "data before log
//! reuse" (R4) evaluated on the file calls of LIVE workers (libc interposition, trace mode of
//! `inject.rs`), with the `set_len` inside `TableFile::grow` held for a while so that the commit
//! stage sits inside a table's exclusive map lock when the cleanup stage comes to flush it.

use crate::inject;
use parity_db::{CompressionType, Db, Operation};
use pv::{
	dbutil::{col, DbCfg},
	json::J,
	scratch::{catch, panic_site, Scratch},
	Ctx, Report, Rng,
};
use std::{
	collections::BTreeMap,
	sync::{
		atomic::{AtomicBool, Ordering},
		Arc,
	},
	time::{Duration, Instant},
};

pub fn run_case(ctx: &Ctx, rep: &mut Report, case_seed: u64, variant: u64) {
	let always_flush = variant % 4 != 3;
	let delay = variant % 3 != 0;
	let desc = format!("C12 threaded case_seed={} variant={} always_flush={} grow_held={}", case_seed, variant, always_flush, delay);
	ctx.mark(&desc);
	ctx.progress();
	let r = catch(|| scenario(ctx, rep, case_seed, variant, always_flush, delay, &desc));
	let _ = inject::stop_trace();
	if let Err(p) = r {
		rep.violation(
			format!("scenario=C12;mode=threaded;failure=panic;site={}", panic_site(&p)),
			format!("panic: {}", p),
			J::obj().set("case", J::s(desc)).set("case_seed", J::i(case_seed)).set("variant", J::i(variant)),
		);
	}
}

fn scenario(ctx: &Ctx, rep: &mut Report, case_seed: u64, variant: u64, always_flush: bool, delay: bool, desc: &str) {
	let mut rng = Rng::new(case_seed);
	let dir = Scratch::new("c12t");
	let dbdir = dir.path.join("db");
	let mut cfg = DbCfg::new(vec![col(false, false, false, false, CompressionType::NoCompression), col(true, false, false, false, CompressionType::NoCompression)]);
	cfg.background = true;
	cfg.always_flush = always_flush;
	let opts = cfg.options(&dbdir);
	let replay = J::obj().set("case", J::s(desc.to_string())).set("case_seed", J::i(case_seed)).set("variant", J::i(variant));
	let db = Arc::new(Db::open_or_create(&opts).expect("open_or_create"));
	// tracing starts after open (replay reads at open are not "reads for enactment")
	inject::start_trace(&dbdir, if delay { rng.range(300, 4000) } else { 0 });
	let stop = Arc::new(AtomicBool::new(false));
	let mut clients = vec![];
	for c in 0..2u64 {
		let db = db.clone();
		let stop = stop.clone();
		let mut r = rng.derive(40 + c);
		clients.push(std::thread::spawn(move || {
			let mut expect: BTreeMap<(u8, Vec<u8>), Vec<u8>> = BTreeMap::new();
			let mut seq = 0u64;
			while !stop.load(Ordering::Relaxed) {
				seq += 1;
				let mut tx = vec![];
				for i in 0..r.range(1, 4) {
					// fresh keys in many size classes: value tables are created and grown all the time
					let colid = (r.below(4) == 0) as u8;
					let key = format!("c{}-{}-{}", c, seq, i).into_bytes();
					let len = match r.below(10) {
						0 => r.range(20_000, 60_000),
						1..=3 => r.range(2000, 20_000),
						_ => r.range(30, 2000),
					} as usize;
					let mut v = vec![(seq as u8).wrapping_add(i as u8); len];
					v[..8.min(len)].copy_from_slice(&seq.to_le_bytes()[..8.min(len)]);
					expect.insert((colid, key.clone()), v.clone());
					tx.push((colid, Operation::Set(key, v)));
				}
				if db.commit_changes(tx).is_err() {
					break
				}
				if !always_flush && r.chance(1, 3) {
					std::thread::sleep(Duration::from_micros(r.range(50, 500)));
				} else if always_flush {
					std::thread::sleep(Duration::from_micros(r.range(200, 3000)));
				}
			}
			expect
		}));
	}
	let run = Duration::from_millis(ctx.tier.pick(rng.range(1500, 2500), rng.range(3000, 6000)));
	let t0 = Instant::now();
	while t0.elapsed() < run {
		std::thread::sleep(Duration::from_millis(30));
		ctx.progress();
	}
	stop.store(true, Ordering::SeqCst);
	let mut expects = vec![];
	for c in clients {
		expects.push(c.join().expect("client"));
	}
	let commits: usize = expects.iter().map(|e| e.len()).sum();
	rep.count("keys_written", commits as u64);
	ctx.mark(&format!("{} :: dropping the handle", desc));
	ctx.progress();
	let db = Arc::try_unwrap(db).ok().expect("handle still shared");
	pv::dbutil::wait_idle(&db, Duration::from_secs(30));
	ctx.progress();
	drop(db);
	ctx.progress();
	let violations = inject::stop_trace();
	rep.count("r1_checks", inject::R1_CHECKS.load(Ordering::SeqCst));
	rep.count("r4_checks", inject::R4_CHECKS.load(Ordering::SeqCst));
	rep.count("r4_files_required", inject::R4_FILES.load(Ordering::SeqCst));
	rep.count("grow_calls_held", inject::GROW_DELAYS.load(Ordering::SeqCst));
	rep.evaluations += inject::R1_CHECKS.load(Ordering::SeqCst) + inject::R4_FILES.load(Ordering::SeqCst);
	rep.seen(format!("threaded|af{}|grow_held{}|r4{}", always_flush as u8, delay as u8, (inject::R4_CHECKS.load(Ordering::SeqCst) > 0) as u8));
	if let Some(v) = violations.first() {
		let rule = if v.starts_with("R1") { "R1" } else { "R4" };
		rep.violation(format!("scenario=C12;mode=threaded;failure=sync_order_rule;rule={}", rule), violations.iter().take(3).cloned().collect::<Vec<_>>().join(" | "), replay);
		return
	}
	// everything committed is there after the clean shutdown (sanity of the run itself)
	let mut o2 = opts.clone();
	o2.with_background_thread = false;
	let db = Db::open(&o2).expect("reopen");
	for e in &expects {
		for ((c, k), v) in e.iter().step_by((e.len() / 300).max(1)) {
			rep.evaluations += 1;
			if db.get(*c, k).expect("get").as_ref() != Some(v) {
				rep.violation("scenario=C12;mode=threaded;failure=not_persisted_after_drop".to_string(), format!("key {} of column {} is not there after drop + reopen", String::from_utf8_lossy(k), c), replay);
				return
			}
		}
	}
	rep.count("threaded_histories", 1);
	if rep.samples.len() < 2 {
		rep.sample(
			J::obj()
				.set("case", J::s(desc.to_string()))
				.set("keys_written", J::i(commits as u64))
				.set("r1_checks", J::i(inject::R1_CHECKS.load(Ordering::SeqCst)))
				.set("r4_checks", J::i(inject::R4_CHECKS.load(Ordering::SeqCst)))
				.set("table_files_required_flushed", J::i(inject::R4_FILES.load(Ordering::SeqCst)))
				.set("grow_calls_held", J::i(inject::GROW_DELAYS.load(Ordering::SeqCst))),
		);
	}
}
