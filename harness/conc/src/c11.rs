//! C11, threaded variant: reader threads hold tree guards while a writer inserts trees that
//! share nodes with the previous tree and a pruner dereferences old trees, live workers.

use crate::delays;
use parity_db::{CompressionType, Db, Operation};
use pv::{
	dbutil::{col, multitree_col, DbCfg},
	json::{short_bytes, J},
	model::{ChildSpec, Op, TreeSpec},
	scratch::{catch, panic_site, Scratch},
	tree::{TreeAccess, TreeModel},
	Ctx, Report, Rng,
};
use std::{
	collections::BTreeMap,
	sync::{
		atomic::{AtomicBool, AtomicU64, Ordering},
		Arc, Mutex,
	},
	time::{Duration, Instant},
};

/// What a committed tree looks like (root data + every node by address), as read back by the
/// writer right after its commit returned.
#[derive(Clone, PartialEq, Debug)]
struct Snapshot {
	root: (Vec<u8>, Vec<u64>),
	nodes: BTreeMap<u64, (Vec<u8>, Vec<u64>)>,
}

struct Shared {
	/// model in commit-return order (guarded by the same mutex that serialises commits)
	model: Mutex<TreeModel>,
	/// live trees readers may pick: key -> snapshot
	live: Mutex<BTreeMap<Vec<u8>, Snapshot>>,
	/// keys whose DereferenceTree commit has returned
	dead: Mutex<Vec<Vec<u8>>>,
	/// keys whose DereferenceTree commit call has STARTED (set before the call)
	deref_started: Mutex<std::collections::BTreeSet<Vec<u8>>>,
	late_guards: AtomicU64,
	stop: AtomicBool,
	guard_reads: AtomicU64,
	guards_taken: AtomicU64,
	derefs_while_guarded: AtomicU64,
	guarded: Mutex<BTreeMap<Vec<u8>, u64>>,
}

struct Acc<'a> {
	db: &'a Db,
	key: &'a [u8],
}

impl<'a> TreeAccess for Acc<'a> {
	fn root(&self) -> Result<Option<(Vec<u8>, Vec<u64>)>, String> {
		match self.db.get_tree(0, self.key).map_err(|e| e.to_string())? {
			None => Ok(None),
			Some(t) => t.read().get_root().map_err(|e| e.to_string()),
		}
	}
	fn node(&self, addr: u64) -> Result<Option<(Vec<u8>, Vec<u64>)>, String> {
		match self.db.get_tree(0, self.key).map_err(|e| e.to_string())? {
			None => Err("tree reader unavailable".into()),
			Some(t) => t.read().get_node(addr).map_err(|e| e.to_string()),
		}
	}
}

fn read_snapshot(g: &dyn parity_db::TreeReader) -> Result<Option<Snapshot>, String> {
	let root = match g.get_root().map_err(|e| format!("get_root: {}", e))? {
		Some(r) => r,
		None => return Ok(None),
	};
	let mut nodes = BTreeMap::new();
	let mut stack: Vec<u64> = root.1.clone();
	while let Some(a) = stack.pop() {
		if nodes.contains_key(&a) {
			continue
		}
		let n = g.get_node(a).map_err(|e| format!("get_node({:#x}): {}", a, e))?.ok_or_else(|| format!("node {:#x} is not readable", a))?;
		stack.extend(n.1.iter().copied());
		nodes.insert(a, n);
		if nodes.len() > 5000 {
			break
		}
	}
	Ok(Some(Snapshot { root, nodes }))
}

pub fn run_case(ctx: &Ctx, rep: &mut Report, case_seed: u64, variant: u64) {
	let always_flush = variant % 2 == 0;
	let desc = format!("C11 threaded case_seed={} variant={} always_flush={}", case_seed, variant, always_flush);
	ctx.mark(&desc);
	ctx.progress();
	let r = catch(|| history(ctx, rep, case_seed, variant, always_flush, &desc));
	delays::uninstall();
	if let Err(p) = r {
		rep.violation(
			format!("scenario=C11;failure=panic;site={}", panic_site(&p)),
			format!("panic during the concurrent tree history: {}", p),
			J::obj().set("case", J::s(desc)).set("case_seed", J::i(case_seed)).set("variant", J::i(variant)),
		);
	}
}

fn history(ctx: &Ctx, rep: &mut Report, case_seed: u64, variant: u64, always_flush: bool, desc: &str) {
	let mut rng = Rng::new(case_seed);
	let dir = Scratch::new("c11");
	let rc_roots = variant % 4 == 3;
	let mut cfg = DbCfg::new(vec![multitree_col(false, rc_roots, variant % 3 == 0), col(false, false, false, false, CompressionType::NoCompression)]);
	cfg.background = true;
	cfg.always_flush = always_flush;
	let opts = cfg.options(&dir.path.join("db"));
	let db = Arc::new(Db::open_or_create(&opts).expect("open_or_create"));
	let sh = Arc::new(Shared {
		model: Mutex::new(TreeModel::new(false, rc_roots)),
		live: Mutex::new(BTreeMap::new()),
		dead: Mutex::new(vec![]),
		deref_started: Mutex::new(Default::default()),
		late_guards: AtomicU64::new(0),
		stop: AtomicBool::new(false),
		guard_reads: AtomicU64::new(0),
		guards_taken: AtomicU64::new(0),
		derefs_while_guarded: AtomicU64::new(0),
		guarded: Mutex::new(BTreeMap::new()),
	});
	delays::install(case_seed, rng.range(20, 200), rng.range(200, 2000), u64::MAX);
	let duration = Duration::from_millis(ctx.tier.pick(rng.range(1200, 2200), rng.range(2500, 5000)));
	let violation: Arc<Mutex<Option<(String, String)>>> = Arc::new(Mutex::new(None));

	// ---- writer: inserts trees sharing nodes with the previous tree, holding the previous
	// tree's guard until the commit returned (the documented client protocol)
	let writer = {
		let db = db.clone();
		let sh = sh.clone();
		let violation = violation.clone();
		let mut r = rng.derive(1);
		std::thread::spawn(move || {
			let mut n = 0u64;
			let mut prev: Option<Vec<u8>> = None;
			while !sh.stop.load(Ordering::Relaxed) {
				n += 1;
				let key = format!("tree-{:05}-{}", n, r.below(1000)).into_bytes();
				// hold the guard of the previous tree while referencing its nodes
				let prev_reader = prev.as_ref().and_then(|k| db.get_tree(0, k).ok().flatten());
				let prev_guard = prev_reader.as_ref().map(|t| t.read());
				let prev_alive = match &prev_guard {
					Some(g) => matches!(g.get_root(), Ok(Some(_))),
					None => false,
				};
				let spec = {
					let m = sh.model.lock().unwrap();
					let shareable: Vec<u64> = if prev_alive { prev.as_ref().map(|k| m.reachable(k).into_iter().filter(|id| m.addr_of(*id).is_some()).collect()).unwrap_or_default() } else { vec![] };
					let mut children = vec![];
					for i in 0..r.range(1, 5) {
						if !shareable.is_empty() && r.chance(1, 2) {
							children.push(ChildSpec::Existing(*r.pick(&shareable)));
						} else {
							let mut d = format!("n{}-{}-", n, i).into_bytes();
							d.extend_from_slice(&r.bytes_in(0, 60));
							let sub = if r.chance(1, 3) {
								vec![ChildSpec::New(TreeSpec::leaf(format!("leaf{}-{}", n, i).into_bytes()))]
							} else {
								vec![]
							};
							children.push(ChildSpec::New(TreeSpec { data: d, children: sub }));
						}
					}
					TreeSpec { data: format!("root{}", n).into_bytes(), children }
				};
				// commit under the model lock so that model order = commit-return order
				let mut m = sh.model.lock().unwrap();
				let resolve = |id: u64| m.addr_of(id).unwrap_or(id);
				let node = spec.to_new_node(&resolve);
				if let Err(e) = db.commit_changes(vec![(0u8, Operation::InsertTree(key.clone(), node))]) {
					*violation.lock().unwrap() = Some(("failure=commit_error".into(), format!("InsertTree rejected: {}", e)));
					break
				}
				m.apply(&Op::InsertTree(0, key.clone(), spec));
				// read back (binds addresses) and publish the snapshot
				let acc = Acc { db: &db, key: &key };
				if let Err(e) = m.check_tree(&key, &acc) {
					*violation.lock().unwrap() = Some(("failure=tree_mismatch".into(), format!("tree {} does not read back as committed: {}", short_bytes(&key), e)));
					break
				}
				drop(m);
				drop(prev_guard);
				if let Ok(Some(t)) = db.get_tree(0, &key) {
					if let Ok(Some(s)) = read_snapshot(&**t.read()) {
						sh.live.lock().unwrap().insert(key.clone(), s);
					}
				}
				prev = Some(key);
				if r.chance(1, 3) {
					std::thread::sleep(Duration::from_micros(r.range(100, 3000)));
				}
			}
			n
		})
	};
	// ---- pruner: dereferences the oldest trees beyond a window
	let pruner = {
		let db = db.clone();
		let sh = sh.clone();
		let violation = violation.clone();
		let mut r = rng.derive(2);
		std::thread::spawn(move || {
			let mut n = 0u64;
			while !sh.stop.load(Ordering::Relaxed) {
				let victim = {
					let live = sh.live.lock().unwrap();
					if live.len() > 4 {
						live.keys().next().cloned()
					} else {
						None
					}
				};
				if let Some(k) = victim {
					let mut m = sh.model.lock().unwrap();
					if sh.guarded.lock().unwrap().get(&k).copied().unwrap_or(0) > 0 {
						sh.derefs_while_guarded.fetch_add(1, Ordering::Relaxed);
					}
					sh.deref_started.lock().unwrap().insert(k.clone());
					if let Err(e) = db.commit_changes(vec![(0u8, Operation::DereferenceTree(k.clone()))]) {
						*violation.lock().unwrap() = Some(("failure=commit_error".into(), format!("DereferenceTree of a live tree rejected: {}", e)));
						break
					}
					m.apply(&Op::DerefTree(0, k.clone()));
					drop(m);
					sh.live.lock().unwrap().remove(&k);
					sh.dead.lock().unwrap().push(k);
					n += 1;
				}
				std::thread::sleep(Duration::from_micros(r.range(200, 4000)));
			}
			n
		})
	};
	// ---- readers: hold a guard and re-read the tree; it must never change under the guard
	let mut readers = vec![];
	for rd in 0..3u64 {
		let db = db.clone();
		let sh = sh.clone();
		let violation = violation.clone();
		let mut r = rng.derive(10 + rd);
		readers.push(std::thread::spawn(move || {
			while !sh.stop.load(Ordering::Relaxed) {
				let pick = {
					let live = sh.live.lock().unwrap();
					if live.is_empty() {
						None
					} else if r.chance(1, 2) {
						// the oldest live tree: the pruner's next victim, and the tree the other
						// readers go for as well - several threads ask for its reader at the same
						// moment, again and again from the "no reader handle exists" state
						live.iter().next().map(|(k, s)| (k.clone(), s.clone()))
					} else {
						let i = r.usize(live.len());
						live.iter().nth(i).map(|(k, s)| (k.clone(), s.clone()))
					}
				};
				let (key, snap) = match pick {
					Some(p) => p,
					None => {
						std::thread::sleep(Duration::from_millis(1));
						continue
					},
				};
				let t = match db.get_tree(0, &key) {
					Ok(Some(t)) => t,
					_ => continue, // removed meanwhile
				};
				let g = t.read();
				// the tree may have been removed between the pick and the lock
				let first = match read_snapshot(&**g) {
					Ok(Some(s)) => s,
					Ok(None) => continue,
					Err(_) => continue,
				};
				// The property protects a guard against dereferences that happen WHILE it is held.
				// If the dereference call had already started when this guard was obtained, the
				// tree is legitimately on its way out (the library decides about postponement when
				// it processes that commit, possibly before this lock existed): not judged.
				if sh.deref_started.lock().unwrap().contains(&key) {
					sh.late_guards.fetch_add(1, Ordering::Relaxed);
					continue
				}
				*sh.guarded.lock().unwrap().entry(key.clone()).or_insert(0) += 1;
				sh.guards_taken.fetch_add(1, Ordering::Relaxed);
				let hold = Duration::from_micros(r.range(200, 20_000));
				let t0 = Instant::now();
				let mut bad = None;
				if first != snap {
					bad = Some(("failure=locked_tree_differs_from_commit".to_string(), format!("tree {} read under a fresh guard differs from what its commit wrote", short_bytes(&key))));
				}
				while bad.is_none() && t0.elapsed() < hold {
					match read_snapshot(&**g) {
						Ok(Some(s)) if s == first => {},
						Ok(Some(_)) => bad = Some(("failure=locked_tree_changed".to_string(), format!("tree {} changed while its read guard was held", short_bytes(&key)))),
						Ok(None) => bad = Some(("failure=locked_tree_unreadable".to_string(), format!("root of tree {} vanished while its read guard was held", short_bytes(&key)))),
						Err(e) => bad = Some(("failure=locked_tree_unreadable".to_string(), format!("tree {} became unreadable while its read guard was held: {}", short_bytes(&key), e))),
					}
					sh.guard_reads.fetch_add(1, Ordering::Relaxed);
					std::thread::sleep(Duration::from_micros(r.range(20, 400)));
				}
				{
					let mut gm = sh.guarded.lock().unwrap();
					if let Some(c) = gm.get_mut(&key) {
						*c -= 1;
					}
				}
				drop(g);
				if let Some(b) = bad {
					*violation.lock().unwrap() = Some(b);
					break
				}
			}
		}));
	}
	let t0 = Instant::now();
	while t0.elapsed() < duration && violation.lock().unwrap().is_none() {
		std::thread::sleep(Duration::from_millis(40));
		ctx.progress();
	}
	sh.stop.store(true, Ordering::SeqCst);
	let inserted = writer.join().expect("writer");
	let pruned = pruner.join().expect("pruner");
	for r in readers {
		r.join().expect("reader");
	}
	rep.count("trees_inserted", inserted);
	rep.count("trees_dereferenced", pruned);
	rep.count("guards_taken", sh.guards_taken.load(Ordering::Relaxed));
	rep.count("guard_reads", sh.guard_reads.load(Ordering::Relaxed));
	rep.count("guard_held_derefs", sh.derefs_while_guarded.load(Ordering::Relaxed));
	rep.count("late_guards_not_judged", sh.late_guards.load(Ordering::Relaxed));
	rep.evaluations += sh.guard_reads.load(Ordering::Relaxed);
	let (hits, delayed) = delays::take_hits();
	rep.count("yield_hits", hits.iter().sum());
	rep.count("yield_delays", delayed);
	rep.count("deferred_commits", hits[9]);
	let replay = J::obj().set("case", J::s(desc.to_string())).set("case_seed", J::i(case_seed)).set("variant", J::i(variant));
	if let Some((sig, detail)) = violation.lock().unwrap().take() {
		rep.violation(format!("scenario=C11;{}", sig), detail, replay);
		std::mem::forget(db);
		return
	}
	// ---- all guards released, no further commits: every postponed removal must complete
	let dead = sh.dead.lock().unwrap().clone();
	let model = sh.model.lock().unwrap().clone();
	let expect_entries = model.live_entries() as u64;
	let t0 = Instant::now();
	let mut last = (0u64, 0usize);
	let mut ok = false;
	let mut why = String::new();
	while t0.elapsed() < Duration::from_secs(45) {
		let st = db.verif_status();
		let now = (st.next_record_id, st.queued_commits);
		if now != last {
			last = now;
			ctx.progress();
		}
		let queue_empty = st.queued_commits == 0;
		let still: Vec<&Vec<u8>> = dead.iter().filter(|k| matches!(Acc { db: &db, key: k }.root(), Ok(Some(_)))).collect();
		let entries = db.get_num_column_value_entries(0).unwrap_or(u64::MAX);
		if queue_empty && still.is_empty() && entries == expect_entries {
			ok = true;
			break
		}
		why = format!("{} commit(s) still queued, {} dereferenced tree(s) still readable, {} value entries (model: {})", st.queued_commits, still.len(), entries, expect_entries);
		std::thread::sleep(Duration::from_millis(50));
	}
	rep.evaluations += 1;
	rep.count("completion_checks", 1);
	rep.seen(format!("af{}|rc{}|deferred{}|guarded_deref{}", always_flush as u8, rc_roots as u8, (hits[9] > 0) as u8, (sh.derefs_while_guarded.load(Ordering::Relaxed) > 0) as u8));
	if !ok {
		rep.violation(
			"scenario=C11;failure=postponed_removal_not_completed".to_string(),
			format!("45 s after the last guard was released and without further commits: {}", why),
			replay,
		);
		std::mem::forget(db);
		return
	}
	// every live tree still reads back as committed
	let mut m = model.clone();
	let keys: Vec<Vec<u8>> = m.roots.keys().cloned().collect();
	for k in keys {
		let acc = Acc { db: &db, key: &k };
		rep.evaluations += 1;
		if let Err(e) = m.check_tree(&k, &acc) {
			rep.violation("scenario=C11;failure=live_tree_damaged".to_string(), format!("live tree {} after the history: {}", short_bytes(&k), e), replay);
			std::mem::forget(db);
			return
		}
	}
	if rep.samples.len() < 2 {
		rep.sample(J::obj().set("case", J::s(desc.to_string())).set("trees_inserted", J::i(inserted)).set("trees_dereferenced", J::i(pruned)).set("guards_taken", J::i(sh.guards_taken.load(Ordering::Relaxed))).set("postponed", J::i(hits[9])));
	}
	if let Ok(d) = Arc::try_unwrap(db) {
		pv::dbutil::wait_idle(&d, Duration::from_secs(30));
		ctx.progress();
		drop(d);
	}
}
