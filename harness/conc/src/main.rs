//! E3 `conc`: multi-threaded history recorder + offline checkers. Serves C05, C15, C18.

mod c02;
mod c05;
mod c07;
mod c11;
mod c12;
mod c15;
mod c16;
mod c18;
mod delays;
mod inject;
mod live;
mod shadow;

use pv::{run::main_entry, Ctx, Report, Rng, Spec, Tier};

fn spec_for(prop: &str, _tier: Tier) -> Option<Spec> {
	Some(match prop {
		"C05" => {
			let mut s = Spec::new(
				"C05",
				"exploration",
				"A case is one multi-threaded history (2-4 s): real background workers, 2 committer threads each owning a disjoint key set in a uniform hash column and a btree column (so the version order of every key is its owner's program order), every value carrying (owner, version, key, size class padding), 4 reader threads, a filler thread forcing index growth in the readers' index page, seeded delays at the library's yield hooks (three flavours: delays at the hand-over sites of the write pipeline; 'reader windows' - paced clients, pipeline at full speed, readers held between index lookup and value fetch; 'deep queue' - only the log worker slowed, thousands of commits of the same few keys queued while index growth records are logged in between). Readers sample completed[owner] before and started[owner] after each get; the offline checker (linear, per key) accepts a read iff some version in [max(completed-before, seen-by-this-reader), started-after] has the observed writer as last writer of the key, then raises seen. evaluations = reads checked; distinct_nontrivial = distinct (column, result class, window width bucket, pipeline location of the newest owner version at the time, always_flush) classes among reads with a window of more than one version.",
			)
			.require("reads_checked", 200_000)
			.require("reads_nontrivial_window", 20_000)
			.require("reads_newest", 1000)
			.require("reads_older_feasible", 1000)
			.require("index_growths", 1)
			.require("yield_hits", 1000)
			.require("size_class_moves", 1000)
			.require("histories_reader_windows", 5)
			.require("histories_deep_queue", 3)
			.budget(75, 900);
			s.assumptions.push("owner-partitioned keys make the version order exact; window bounds are sampled outside the call interval (conservative)".into());
			s
		},
		"C15" => {
			let mut s = Spec::new(
				"C15",
				"exploration",
				"A case is one scenario with live workers: clients faster and slower than the workers (seeded delays at the wait/signal and hand-over yield hooks), many tiny commits, transactions of 1-20 MiB crossing the 16 MiB commit-queue limit with 2-3 throttled committers, one transaction of 130-142 MiB (beyond the 128 MiB limit of logged-but-unapplied bytes), index growth in progress, a worker failure reported while committers are held back by the full queue (their calls must return), tree dereferences committed under the tree's read guard (the log worker postpones them; after the guard is released they must complete without another commit), the commit queue holding exactly its 16 MiB limit (and one byte less / more) when another commit arrives, the public syncing options sync_wal / sync_data in all four combinations, always_flush on/off; then the handle is dropped - in half of the histories the instant the last commit call returned, with the queue / log / enact stages still busy - and the database reopened. Bounded-progress oracle: every commit call returns, the queue empties and (with always_flush) everything is enacted without further client activity, drop returns - each within 60 s of the last observed progress; a stall (no status counter moved, no commit returned for 60 s while work is pending) is the refuting event and is reported with the thread states. After reopen every committed key must be present (all data persisted). evaluations = progress conditions evaluated; distinct_nontrivial = distinct (scenario kind, throttling observed, always_flush, delay profile) classes.",
			)
			.require("commits_returned", 2000)
			.require("drops_completed", 20)
			.require("queue_full_throttles", 1)
			.require("drained_checks", 10)
			.require("immediate_drops", 10)
			.require("worker_failures_while_throttled", 3)
			.require("immediate_drops_with_work_pending", 3)
			.require("persisted_checks", 20)
			.require("postponements_seen", 5)
			.require("boundary_reached", 3)
			.require("postponed_then_drained_without_client", 1)
			.budget(75, 900);
			s.case_timeout_s = 90;
			s.hang_is_violation = true;
			s.assumptions.push("'always' is decided as bounded progress: a stall of 60 s with pending work counts as never".into());
			s
		},
		"C04" => Spec::new(
			"C04",
			"exploration",
			"Threaded half: a case is one 1-5 s history on a btree column (plus a hash column written by the same transactions) with LIVE background workers and seeded delays at the yield hooks. ONE client thread is the only writer, so its ordered model is exact at each of its own calls: point reads, sizes and iterator steps (seek / seek_to_first / seek_to_last / next / prev with direction changes, the iterator kept open across its own commits) are compared with the cursor model of C04 while the workers move the data from the commit overlay through the log overlay into the on-disk tree under it. TWO observer threads iterate the same column meanwhile (full scans in both directions, random walks, re-seeks); each step is recorded {cursor, direction, completed-before, started-after, result} and judged offline against the client's per-key write history (every value carries key index + commit number): the key lies beyond the cursor; its value is a version that was the latest at some moment of the call; every key of the universe between the cursor and the returned key (every key beyond the cursor if the step returned nothing) was absent at some moment of the call. Key universes: 400-1400 dense integers (tree depth >= 2, range insertions / removals merge and split nodes) or 40-160 odd keys (empty key, 253-257 bytes, prefixes of each other); values 20 B - 36 KB. After the history: drop, reopen, every key, full iteration in both directions, pvfsck. evaluations = client calls compared + observer steps judged + final reads; distinct_nontrivial = distinct (key universe, always_flush, delay profile, compression) classes.",
		)
		.require("threaded_histories", 8)
		.require("client_iter_calls", 2000)
		.require("observer_steps_judged", 50_000)
		.require("observer_steps_nontrivial_window", 2000)
		.require("client_iter_after_commit_while_open", 200)
		.require("tree_depth_ge2", 1)
		.budget(40, 400),
		"C07" => Spec::new(
			"C07",
			"exploration",
			"Threaded half: a case is one 1-5 s history with LIVE background workers and seeded delays at the yield hooks. ONE writer issues set / reference / dereference transactions over a small pool of a counted hash column (one history in three: identity-hashed keys of one index page, the index grows under the readers) and a counted btree column, values a function of the key, counts kept in 0..=3 so that keys cross zero all the time; the count of every key after every commit is known exactly. Three readers call get / get_size and record {key, completed-before, started-after, result}. Offline per read: a returned value (size) is the key's own; a read that returned nothing is a violation iff the count was positive when the call began and stayed positive through every commit that had started when it returned. After the threads stopped and the handle was dropped: reopen, a key is readable iff its count is positive, value iteration of the hash column yields exactly the live values with their counts, pvfsck agrees. evaluations = reads judged + final comparisons; distinct_nontrivial = distinct (always_flush, index growth, delay profile, compression) classes.",
		)
		.require("threaded_histories", 8)
		.require("reads_judged", 100_000)
		.require("reads_nontrivial_window", 5000)
		.require("rc_zero_crossings_threaded", 1000)
		.require("absent_reads_with_zero_crossing_in_window", 10)
		.budget(35, 300),
		"C11" => Spec::new(
			"C11",
			"exploration",
			"Threaded variant: a case is one 1-5 s history with live workers: a writer inserts trees that share nodes with the previous tree (holding the previous tree's read guard until its commit returned), a pruner dereferences the oldest trees, 3 reader threads take a read guard on a random live tree and re-read the whole tree repeatedly while holding it (it must equal what its commit wrote and never change or vanish under the guard); seeded delays at the yield hooks. After the threads stop and every guard is released - and WITHOUT further commits - every postponed removal must complete within 45 s (dereferenced trees unreadable, value-entry count equal to the model's live nodes + roots) and every live tree must read back exactly. evaluations = guarded re-reads + final comparisons; distinct_nontrivial = distinct (always_flush, counted roots, postponement observed, dereference while guarded observed) classes.",
		)
		.require("guards_taken", 200)
		.require("guard_reads", 2000)
		.require("guard_held_derefs", 5)
		.require("deferred_commits", 5)
		.require("completion_checks", 10)
		.budget(45, 600),
		"C02" => Spec::new(
			"C02",
			"exploration",
			"Threaded half ('kill -9 under load'): a case is one directory on which a child process runs the deterministic transaction sequence T1, T2, ... (hash + btree column, values of 8 B - 80 KiB, removals, one layout in three with identity-hashed keys of one index page so that the index grows) against LIVE background workers with seeded delays at the yield hooks, publishing 'started i' / 'acknowledged i' through shared memory, and is killed with SIGKILL after 2 ms - 0.9 s (1-3 rounds per directory, each continuing at the recovered prefix); in half of the rounds another process then starts the recovery and is killed 0-30 ms into it (once or twice). The parent opens the directory: open must succeed without panic and the state must equal S_m for some m <= started (all 220 keys of the generator's universe compared); finally a continuation (more transactions, clean restart) must match the model re-based at S_m. evaluations = prefix checks + continuation reads; distinct_nontrivial = distinct (always_flush, index growth, kills during recovery, everything / proper prefix recovered) classes.",
		)
		.require("kills_under_load", 40)
		.require("prefix_checks", 40)
		.require("kills_during_recovery", 3)
		.require("continuation_checks", 20)
		.require("recovered_proper_prefix", 3)
		.budget(40, 400),
		"C14" => Spec::new(
			"C14",
			"exploration",
			"Third phase of C14 ('kill -9 under load', the workload of the threaded half of C02): a child process commits the deterministic sequence T1, T2, ... against LIVE workers and is killed with SIGKILL at a random moment (half of the rounds: a second process is killed in the middle of the recovery); after the parent's recovery, a continuation and a clean restart the independent structural checker (pvfsck) validates the files of the hash and the btree column against the recovered prefix state plus the continuation. evaluations = prefix checks + values compared by the structural checker; distinct_nontrivial = distinct (always_flush, index growth, kills during recovery, everything / proper prefix recovered) classes.",
		)
		.require("kills_under_load", 40)
		.require("fsck_after_recovery", 20)
		.budget(30, 300),
		"C12" => Spec::new(
			"C12",
			"exploration",
			"Threaded half: a case is one 1.5-6 s history with LIVE background workers and two committers writing fresh keys of many size classes (value tables are created and grown all the time), sync_wal = sync_data = true. The harness binary interposes write / read / fsync / fdatasync / msync / ftruncate of the database files (thread-safe trace mode, nothing is failed) and evaluates R1 (a log file is read for enactment only while none of its appended bytes is unsynced) and R4 (when a thread truncates a log file, every table / index / ref-count file that was mapped when that thread began its flush and is still mapped has been msynced by it since its previous log truncation) - through the shutdown as well. In two of three histories every set_len of a table file (made inside TableFile::grow under the table's exclusive map lock) is held for 0.3-4 ms, so the cleanup stage meets tables whose lock the commit stage holds. Every other history additionally keeps a DURABLE SHADOW of the directory from the same intercepted calls (fsync / fdatasync: whole file; msync: the range; ftruncate(log, 0): old-or-empty until its fsync; unlink: gone) while one committer issues the deterministic sequence T1, T2, ..., and cuts up to 24 power-loss images per history (after log truncations, after log syncs, at random moments, during the shutdown): durable content + none / half / all of the differing 4 KiB pages + a prefix of the unsynced log tail; each image is opened in a child process and must hold S_m for some m <= started. evaluations = log reads judged by R1 + table files required by R4 + images judged; distinct_nontrivial = distinct (always_flush, grow held, R4 evaluated) classes.",
		)
		.require("r1_checks", 2000)
		.require("r4_checks", 100)
		.require("r4_files_required", 1000)
		.require("grow_calls_held", 200)
		.require("threaded_histories", 10)
		.require("image_histories", 10)
		.require("power_loss_images_with_live_workers", 100)
		.require("shadow_log_truncations", 50)
		.budget(40, 300),
		"C16" => {
			let mut s = Spec::new(
				"C16",
				"fault_enumeration",
				"Threaded half: a case is one history with LIVE background workers. A base of 10-60 transactions is made durable by a clean shutdown; after reopening, 2 committer threads (serialised by one mutex, so the order of the accepted transactions is known) and a reader run while, from a seeded call count on, every write / read / fsync+fdatasync / msync / ftruncate / unlink (one class, or all) that the process makes on a log, table, index or ref-count file of the database fails with EIO (libc interposition inside the harness binary; the failing call is made by whichever worker thread gets there), persistently. Oracle: once a worker's call failed, commits must be refused with the background error within 30 s (else fault_not_reported); every recorded read returns a value written by an accepted transaction and not older than the last accepted write that had returned before the read began; with everything stopped every key shows the last accepted write; no thread panics; drop returns (half of the cases with the fault still present); with the fault gone the directory reopens to S_m with base <= m <= accepted (m = accepted when no call failed), and a continuation (more transactions, clean restart) matches the model re-based at S_m. evaluations = reads + final reads + refusal / prefix / continuation checks; distinct_nontrivial = distinct (failing class, always_flush, index growth, fault present at drop, fault hit a live worker, fault hit the shutdown, everything / proper prefix recovered) classes.",
			)
			.require("faults_delivered_to_live_workers", 20)
			.require("refusals_after_fault", 20)
			.require("reopen_prefix_checks", 40)
			.require("continuation_checks", 40)
			.require("faults_delivered_during_drop", 3)
			.budget(45, 400);
			s.case_timeout_s = 90;
			// the handle must go away after a failure ("stops the writer cleanly"): a drop or a commit
			// call that makes no progress for 90 s is reported with the thread states
			s.hang_is_violation = true;
			s
		},
		"C18" => Spec::new(
			"C18",
			"exploration",
			"A case starts with a creation race (four threads call open_or_create at the same moment on a directory without a database: exactly one handle comes alive, what it commits is there after a reopen) and 1.5 s of spinning retries (four threads retry open in a tight loop across many open -> hold -> drop cycles, so attempts land in the middle of a drop), then one directory on which T threads and P child processes loop open -> (idle) -> drop, one variant with a long log replay so that a second open races the first open's recovery, children also killed with SIGKILL while holding the handle; holders call the administration entry points (clear_column, reset_column, add_column, drop_last_column) against their own live handle - each must be refused with the lock error and change nothing; at the end a tree reader is kept past the drop of its handle and the directory is opened again in this and in another process, and a drop is kept busy for 400 ms (its last queued commit dereferences a tree whose reader is still locked) while every open mode is tried against it: each attempt must be refused until drop has returned. A harness-side counter is raised after open returned Ok and lowered before drop is called: counter > 1 is a violation; every failed open must be a lock error and leave the directory content unchanged; after drop / kill the next open must succeed. evaluations = open attempts judged; distinct_nontrivial = distinct (opener kind, holder kind, outcome, replay pending) classes.",
		)
		.require("open_attempts", 2000)
		.require("open_ok", 200)
		.require("open_locked", 500)
		.require("cross_process_locked", 50)
		.require("reopen_after_kill", 5)
		.require("race_with_recovery", 5)
		.require("creation_races", 20)
		.require("spinning_takeovers", 200)
		.budget(60, 600),
		_ => return None,
	})
}

fn shard(ctx: &Ctx, rep: &mut Report) {
	let mut seeder = Rng::new(ctx.seed ^ 0xE3E3);
	if let Some(j) = &ctx.replay {
		let case_seed = j.get("case_seed").and_then(|x| x.as_u64()).expect("case_seed");
		let variant = j.get("variant").and_then(|x| x.as_u64()).unwrap_or(0);
		run_one(ctx, rep, case_seed, variant);
		return
	}
	let mut i = 0u64;
	while ctx.elapsed_frac() < 0.75 {
		let case_seed = seeder.next() >> 2;
		let variant = ctx.shard as u64 + i * ctx.nshards as u64;
		run_one(ctx, rep, case_seed, variant);
		rep.cases += 1;
		ctx.checkpoint(rep);
		i += 1;
		if rep.get("violations_raw") >= 6 {
			break
		}
	}
}

fn run_one(ctx: &Ctx, rep: &mut Report, case_seed: u64, variant: u64) {
	match ctx.prop.as_str() {
		"C02" | "C14" => c02::run_case(ctx, rep, case_seed, variant),
		"C04" => live::run_case(ctx, rep, case_seed, variant),
		"C05" => c05::run_case(ctx, rep, case_seed, variant),
		"C07" => c07::run_case(ctx, rep, case_seed, variant),
		"C11" => c11::run_case(ctx, rep, case_seed, variant),
		"C12" => c12::run_case(ctx, rep, case_seed, variant),
		"C15" => c15::run_case(ctx, rep, case_seed, variant),
		"C16" => c16::run_case(ctx, rep, case_seed, variant),
		"C18" => c18::run_case(ctx, rep, case_seed, variant),
		_ => {},
	}
}

fn main() {
	// child helper of C18: `pdbv-conc --c18-child <dir> <mode> ...`
	let a: Vec<String> = std::env::args().collect();
	if a.len() > 1 && a[1] == "--c18-child" {
		c18::child_main(&a[2..]);
	}
	if a.len() > 1 && a[1] == "--c02-child" {
		c02::child_main(&a[2..]);
	}
	if a.len() > 1 && a[1] == "--c12-image" {
		c12::image_child(&a[2..]);
	}
	main_entry(spec_for, shard)
}
