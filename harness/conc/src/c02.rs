//! C02, threaded half: "kill -9 under load". A child process runs a deterministic sequence of
//! transactions against a database with LIVE background workers (seeded delays at the yield
//! hooks) and is killed with SIGKILL at a random moment - wherever the four workers happen to be,
//! all at once, which the stepping engine can only approximate with its nested schedules. Some of
//! the images are then opened by another child that is killed again in the middle of its
//! recovery. The parent finally opens the directory: it must open, and show exactly the state
//! after some prefix of the transactions whose commit call had been started; a continuation
//! (more transactions, clean restart) must follow the model re-based at that prefix.

use crate::delays;
use parity_db::{CompressionType, Db, Operation};
use pv::{
	dbutil::{col, DbCfg},
	json::{short_bytes, J},
	scratch::{catch, panic_site, Scratch},
	Ctx, Report, Rng,
};
use std::{
	collections::BTreeMap,
	path::{Path, PathBuf},
	sync::atomic::{AtomicU64, Ordering},
	time::{Duration, Instant},
};

pub type Key = (u8, Vec<u8>);

struct Shared {
	ptr: *mut AtomicU64,
}

const STARTED: usize = 0;
const ACKED: usize = 1;
const READY: usize = 2;

impl Shared {
	fn open(p: &Path) -> Shared {
		use std::os::unix::io::AsRawFd;
		let f = std::fs::OpenOptions::new().read(true).write(true).create(true).open(p).expect("counter file");
		f.set_len(4096).expect("set_len");
		let ptr = unsafe { libc::mmap(std::ptr::null_mut(), 4096, libc::PROT_READ | libc::PROT_WRITE, libc::MAP_SHARED, f.as_raw_fd(), 0) };
		assert!(ptr != libc::MAP_FAILED);
		Shared { ptr: ptr as *mut AtomicU64 }
	}
	fn at(&self, i: usize) -> &AtomicU64 {
		unsafe { &*self.ptr.add(i) }
	}
}

pub fn cfg_of(variant: u64) -> DbCfg {
	let growth = (variant / 2) % 3 == 2;
	let mut c = DbCfg::new(vec![
		col(false, growth, false, false, if variant % 5 == 4 { CompressionType::Lz4 } else { CompressionType::NoCompression }),
		col(true, false, false, false, CompressionType::NoCompression),
	]);
	if growth {
		c.salt = Some([0u8; 32]);
	}
	c.background = true;
	c.always_flush = variant % 2 == 0;
	c
}

pub fn key_of(seed: u64, variant: u64, colid: u8, idx: u64) -> Vec<u8> {
	let growth = (variant / 2) % 3 == 2;
	if colid == 0 && growth {
		// identity-hashed keys of one 16-bit page: the index grows while the history runs
		let mut k = ((seed % 65521) as u16).to_be_bytes().to_vec();
		let mut t = Rng::new(seed ^ idx.wrapping_mul(0x9E3779B97F4A7C15) ^ 0xC02);
		k.extend_from_slice(&t.bytes(30));
		k
	} else {
		format!("{}-key-{:04}", if colid == 0 { "h" } else { "b" }, idx).into_bytes()
	}
}

/// Transaction number `i` (1-based) of the history `seed`: the same in the child and in the parent.
pub fn tx_of(seed: u64, variant: u64, i: u64) -> Vec<(Key, Option<Vec<u8>>)> {
	let mut r = Rng::new(seed ^ i.wrapping_mul(0xD1B54A32D192ED03));
	let mut tx: Vec<(Key, Option<Vec<u8>>)> = vec![];
	for _ in 0..r.range(1, 5) {
		let colid = (r.below(3) == 0) as u8;
		let idx = r.below(if colid == 0 { 160 } else { 60 });
		let k = (colid, key_of(seed, variant, colid, idx));
		if tx.iter().any(|(k2, _)| *k2 == k) {
			continue
		}
		if r.chance(1, 5) {
			tx.push((k, None));
		} else {
			let len = match r.below(16) {
				0 => r.range(33_000, 80_000),
				1..=3 => r.range(500, 6000),
				_ => r.range(8, 300),
			} as usize;
			let mut v = vec![(i as u8).wrapping_mul(13); len];
			v[..8].copy_from_slice(&i.to_le_bytes());
			tx.push((k, Some(v)));
		}
	}
	tx
}

pub fn to_ops(tx: &[(Key, Option<Vec<u8>>)]) -> Vec<(u8, Operation<Vec<u8>, Vec<u8>>)> {
	tx.iter()
		.map(|((c, k), v)| match v {
			Some(v) => (*c, Operation::Set(k.clone(), v.clone())),
			None => (*c, Operation::Dereference(k.clone())),
		})
		.collect()
}

/// `pdbv-conc --c02-child <dir> <counter> <seed> <variant> <mode>`
///   mode `run`  : open (create), commit transaction 1, 2, 3, ... until killed
///   mode `open` : open the directory (recovery) and hold it until killed
pub fn child_main(a: &[String]) -> ! {
	let dir = PathBuf::from(&a[0]);
	let sh = Shared::open(Path::new(&a[1]));
	let seed: u64 = a[2].parse().unwrap_or(1);
	let variant: u64 = a[3].parse().unwrap_or(0);
	let mode = a.get(4).map(|s| s.as_str()).unwrap_or("run");
	let opts = cfg_of(variant).options(&dir);
	if mode == "open" {
		sh.at(READY).store(1, Ordering::SeqCst);
		let db = Db::open(&opts);
		sh.at(READY).store(2, Ordering::SeqCst);
		std::thread::sleep(Duration::from_secs(3600));
		drop(db);
		std::process::exit(0)
	}
	let mut r = Rng::new(seed ^ 0xDE1A);
	match r.below(3) {
		0 => {},
		1 => delays::install(seed, r.range(20, 200), r.range(100, 2000), u64::MAX),
		_ => {
			delays::install(seed, 0, 0, 0);
			// one stage much slower than the rest
			let site = *r.pick(&[2u32, 5, 7, 8, 12, 15]);
			delays::slow_site(site, r.range(200, 5000));
		},
	}
	let db = Db::open_or_create(&opts).expect("open_or_create");
	let start = sh.at(ACKED).load(Ordering::SeqCst);
	sh.at(READY).store(1, Ordering::SeqCst);
	let mut i = start;
	loop {
		i += 1;
		let tx = tx_of(seed, variant, i);
		sh.at(STARTED).store(i, Ordering::SeqCst);
		if db.commit_changes(to_ops(&tx)).is_err() {
			std::process::exit(3)
		}
		sh.at(ACKED).store(i, Ordering::SeqCst);
		if r.chance(1, 6) {
			std::thread::sleep(Duration::from_micros(r.range(20, 1500)));
		}
	}
}

pub fn run_case(ctx: &Ctx, rep: &mut Report, case_seed: u64, variant: u64) {
	let desc = format!("C02 threaded case_seed={} variant={} cfg=[{}]", case_seed, variant, cfg_of(variant).describe());
	ctx.mark(&desc);
	ctx.progress();
	let r = catch(|| scenario(ctx, rep, case_seed, variant, &desc));
	if let Err(p) = r {
		rep.violation(
			format!("scenario={};mode=threaded;failure=panic;site={}", ctx.prop, panic_site(&p)),
			format!("panic: {}", p),
			J::obj().set("case", J::s(desc)).set("case_seed", J::i(case_seed)).set("variant", J::i(variant)),
		);
	}
}

fn spawn_child(dir: &Path, counter: &Path, seed: u64, variant: u64, mode: &str) -> std::process::Child {
	std::process::Command::new(std::env::current_exe().unwrap())
		.arg("--c02-child")
		.arg(dir)
		.arg(counter)
		.arg(seed.to_string())
		.arg(variant.to_string())
		.arg(mode)
		.stdin(std::process::Stdio::null())
		.stdout(std::process::Stdio::null())
		.stderr(std::process::Stdio::null())
		.spawn()
		.expect("spawn child")
}

fn kill(ch: &mut std::process::Child) {
	unsafe {
		libc::kill(ch.id() as i32, libc::SIGKILL);
	}
	let _ = ch.wait();
}

fn scenario(ctx: &Ctx, rep: &mut Report, case_seed: u64, variant: u64, desc: &str) {
	let mut rng = Rng::new(case_seed ^ 0x5EED);
	let work = Scratch::new("c02t");
	let dir = work.path.join("db");
	let counter = work.path.join("counter");
	let sh = Shared::open(&counter);
	let replay = J::obj().set("case", J::s(desc.to_string())).set("case_seed", J::i(case_seed)).set("variant", J::i(variant));
	// the model after every transaction is rebuilt on demand from the deterministic generator
	let mut base: BTreeMap<Key, Option<Vec<u8>>> = BTreeMap::new();
	let mut base_n = 0u64; // transactions known to be in the database (prefix found so far)
	let rounds = rng.range(1, 3);
	for round in 0..rounds {
		// ---- run under load, kill
		sh.at(READY).store(0, Ordering::SeqCst);
		sh.at(ACKED).store(base_n, Ordering::SeqCst);
		sh.at(STARTED).store(base_n, Ordering::SeqCst);
		let mut ch = spawn_child(&dir, &counter, case_seed, variant, "run");
		let t0 = Instant::now();
		while sh.at(READY).load(Ordering::SeqCst) == 0 && t0.elapsed() < Duration::from_secs(30) {
			if let Ok(Some(st)) = ch.try_wait() {
				rep.violation(format!("scenario={};mode=threaded;failure=open_error", ctx.prop), format!("the workload process could not open the database (round {}): {:?}", round, st), replay);
				return
			}
			std::thread::sleep(Duration::from_millis(1));
		}
		std::thread::sleep(Duration::from_micros(rng.range(2_000, ctx.tier.pick(900_000, 2_500_000))));
		ctx.progress();
		if let Ok(Some(st)) = ch.try_wait() {
			rep.violation(format!("scenario={};mode=threaded;failure=commit_error", ctx.prop), format!("the workload process ended by itself (a commit failed or it crashed): {:?}", st), replay);
			return
		}
		kill(&mut ch);
		let started = sh.at(STARTED).load(Ordering::SeqCst);
		let acked = sh.at(ACKED).load(Ordering::SeqCst);
		rep.count("kills_under_load", 1);
		rep.count("commits_before_kill", acked - base_n);
		// ---- sometimes: another process starts the recovery and is killed in the middle of it
		let mut recovery_kills = 0;
		if rng.chance(1, 2) {
			for _ in 0..rng.range(1, 2) {
				sh.at(READY).store(0, Ordering::SeqCst);
				let mut ch = spawn_child(&dir, &counter, case_seed, variant, "open");
				let t0 = Instant::now();
				while sh.at(READY).load(Ordering::SeqCst) == 0 && t0.elapsed() < Duration::from_secs(30) {
					std::thread::sleep(Duration::from_micros(200));
				}
				std::thread::sleep(Duration::from_micros(rng.range(0, 30_000)));
				let finished = sh.at(READY).load(Ordering::SeqCst) == 2;
				kill(&mut ch);
				recovery_kills += 1;
				rep.count(if finished { "kills_after_recovery_completed" } else { "kills_during_recovery" }, 1);
			}
		}
		// ---- open, find the prefix
		ctx.mark(&format!("{} :: opening after kill (round {}, {} started, {} acknowledged)", desc, round, started, acked));
		ctx.progress();
		let mut o2 = cfg_of(variant).options(&dir);
		o2.with_background_thread = false;
		let db = match catch(|| Db::open(&o2)) {
			Ok(Ok(d)) => d,
			Ok(Err(e)) => {
				rep.violation(format!("scenario={};mode=threaded;failure=open_error", ctx.prop), format!("after SIGKILL under load (+ {} kill(s) during recovery) the database does not open: {}", recovery_kills, e), replay);
				return
			},
			Err(p) => {
				rep.violation(format!("scenario={};mode=threaded;failure=open_panic;site={}", ctx.prop, panic_site(&p)), format!("Db::open panicked after SIGKILL under load: {}", p), replay);
				return
			},
		};
		// universe of keys the generator can touch
		let mut keys: Vec<Key> = vec![];
		for idx in 0..160 {
			keys.push((0, key_of(case_seed, variant, 0, idx)));
		}
		for idx in 0..60 {
			keys.push((1, key_of(case_seed, variant, 1, idx)));
		}
		let mut observed: BTreeMap<Key, Option<Vec<u8>>> = BTreeMap::new();
		for k in &keys {
			match db.get(k.0, &k.1) {
				Ok(v) => {
					observed.insert(k.clone(), v);
				},
				Err(e) => {
					rep.violation(
						format!("scenario={};mode=threaded;failure=read_error_after_recovery", ctx.prop),
						format!("after SIGKILL under load and recovery, get({}, {}) returns an error: {}", k.0, short_bytes(&k.1), e),
						replay,
					);
					std::mem::forget(db);
					return
				},
			}
		}
		let mut state: BTreeMap<Key, Option<Vec<u8>>> = keys.iter().map(|k| (k.clone(), base.get(k).cloned().flatten())).collect();
		let mut differing = state.iter().filter(|(k, v)| observed.get(*k) != Some(*v)).count();
		let mut best: Option<(u64, BTreeMap<Key, Option<Vec<u8>>>)> = if differing == 0 { Some((base_n, state.clone())) } else { None };
		for i in base_n + 1..=started {
			for (k, v) in tx_of(case_seed, variant, i) {
				let was = observed.get(&k) == state.get(&k);
				state.insert(k.clone(), v);
				let is = observed.get(&k) == state.get(&k);
				if was && !is {
					differing += 1;
				} else if !was && is {
					differing -= 1;
				}
			}
			if differing == 0 {
				best = Some((i, state.clone()));
			}
		}
		rep.evaluations += 1;
		rep.count("prefix_checks", 1);
		let (m, st) = match best {
			Some(x) => x,
			None => {
				let sample: Vec<String> = observed.iter().filter(|(k, v)| state.get(*k) != Some(*v)).take(3).map(|(k, v)| format!("{} = {}", short_bytes(&k.1), v.as_ref().map_or("absent".to_string(), |v| format!("{} bytes of transaction {}", v.len(), u64::from_le_bytes(v[..8].try_into().unwrap()))))).collect();
				rep.violation(
					format!("scenario={};mode=threaded;failure=non_prefix_state", ctx.prop),
					format!(
						"after SIGKILL under load (round {}, {} transactions known before, {} started, {} acknowledged, {} kill(s) during recovery) the database matches no prefix; e.g. {}",
						round, base_n, started, acked, recovery_kills, sample.join(", ")
					),
					replay,
				);
				return
			},
		};
		rep.count(if m == started { "recovered_everything_started" } else if m >= acked { "recovered_everything_acknowledged" } else { "recovered_proper_prefix" }, 1);
		rep.seen(format!("af{}|growth{}|reckill{}|{}", (variant % 2 == 0) as u8, ((variant / 2) % 3 == 2) as u8, recovery_kills.min(2), if m >= acked { "all" } else { "prefix" }));
		base = st;
		base_n = m;
		// the next round continues the numbering at m+1: transactions m+1.. are generated again
		drop(db);
		ctx.progress();
	}
	// ---- continuation on the recovered database, clean restart
	let mut o2 = cfg_of(variant).options(&dir);
	o2.with_background_thread = false;
	let db = Db::open(&o2).expect("open for the continuation");
	for i in base_n + 1..=base_n + rng.range(3, 12) {
		let tx = tx_of(case_seed ^ 0xC0, variant, i);
		if let Err(e) = db.commit_changes(to_ops(&tx)) {
			rep.violation(format!("scenario={};mode=threaded;failure=continuation_commit_refused", ctx.prop), format!("{}", e), replay);
			return
		}
		for (k, v) in tx {
			base.insert(k, v);
		}
	}
	drop(db);
	let db = Db::open(&o2).expect("reopen after the continuation");
	for (k, v) in &base {
		rep.evaluations += 1;
		if &db.get(k.0, &k.1).expect("get") != v {
			rep.violation(
				format!("scenario={};mode=threaded;failure=continuation_diverged", ctx.prop),
				format!("after recovery, a few more transactions and a clean restart key {} of column {} differs from the model re-based at the recovered prefix {}", short_bytes(&k.1), k.0, base_n),
				replay,
			);
			return
		}
	}
	rep.count("continuation_checks", 1);
	// ---- the files are structurally sound after recovery + continuation + clean restart
	// (independent parser of the files, pvfsck)
	{
		let cfg = cfg_of(variant);
		let specs: Vec<pvfsck::ColSpec> = cfg
			.cols
			.iter()
			.map(|c| pvfsck::ColSpec {
				btree: c.btree_index,
				multitree: c.multitree,
				ref_counted: c.ref_counted,
				preimage: c.preimage,
				uniform: c.uniform,
				append_only: c.append_only,
				compression: match c.compression {
					CompressionType::NoCompression => 0,
					CompressionType::Lz4 => 1,
					CompressionType::Snappy => 2,
				},
			})
			.collect();
		let hash: Vec<_> = base.iter().filter(|(k, v)| k.0 == 0 && v.is_some()).map(|(k, v)| (db.verif_hash_key(0, &k.1), v.clone().unwrap(), 1u32)).collect();
		let btree: Vec<_> = base.iter().filter(|(k, v)| k.0 == 1 && v.is_some()).map(|(k, v)| (k.1.clone(), v.clone().unwrap(), 1u32)).collect();
		let r = pvfsck::check_dir(&dir, &specs, &[pvfsck::Expect::Hash(hash), pvfsck::Expect::Btree(btree)]);
		rep.count("fsck_after_recovery", 1);
		rep.evaluations += 1 + r.stats.get("values_compared").copied().unwrap_or(0);
		if !r.errors.is_empty() {
			let class = r.errors[0].split(':').next().unwrap_or("unknown").to_string();
			rep.violation(
				format!("scenario={};mode=threaded;failure=fsck;class={}", ctx.prop, class),
				format!("after SIGKILL under load, recovery, a continuation and a clean restart the files are not structurally sound: {}", r.errors.iter().take(4).cloned().collect::<Vec<_>>().join(" | ")),
				replay,
			);
			return
		}
	}
	if rep.samples.len() < 2 {
		rep.sample(J::obj().set("case", J::s(desc.to_string())).set("rounds", J::i(rounds)).set("transactions_recovered", J::i(base_n)));
	}
}
