//! C05: concurrent readers see commits atomically, in order, never back in time.

use crate::delays;
use parity_db::{CompressionType, Db, Operation};
use pv::{
	dbutil::{col, DbCfg},
	json::J,
	scratch::{catch, panic_site, Scratch},
	Ctx, Report, Rng,
};
use std::{
	collections::BTreeMap,
	sync::{
		atomic::{AtomicBool, AtomicU64, Ordering},
		Arc,
	},
	time::{Duration, Instant},
};

const HDR: usize = 18;
const SIZES: [usize; 8] = [18, 24, 60, 200, 420, 900, 5000, 36_000];

fn encode(owner: u8, colid: u8, kidx: u16, ver: u64, len: usize) -> Vec<u8> {
	let len = len.max(HDR);
	let mut v = Vec::with_capacity(len);
	v.extend_from_slice(&[0xC0, 0x5E, owner, colid]);
	v.extend_from_slice(&kidx.to_le_bytes());
	v.extend_from_slice(&ver.to_le_bytes());
	v.extend_from_slice(&(len as u32).to_le_bytes());
	for i in HDR..len {
		v.push((ver as u8) ^ (i as u8));
	}
	v
}

#[derive(Clone, Copy, Debug, PartialEq)]
enum Seen {
	Absent,
	Value { ver: u64, len: u32 },
	Garbage(u8),
	/// result of `get_size`: only the length is known (None = absent)
	Size(Option<u32>),
}

fn decode(v: &[u8], owner: u8, colid: u8, kidx: u16) -> Seen {
	if v.len() < HDR || v[0] != 0xC0 || v[1] != 0x5E {
		return Seen::Garbage(1)
	}
	if v[2] != owner || v[3] != colid || u16::from_le_bytes([v[4], v[5]]) != kidx {
		return Seen::Garbage(2) // value of another key
	}
	let ver = u64::from_le_bytes(v[6..14].try_into().unwrap());
	let len = u32::from_le_bytes(v[14..18].try_into().unwrap());
	if len as usize != v.len() {
		return Seen::Garbage(3)
	}
	for (i, b) in v.iter().enumerate().skip(HDR) {
		if *b != (ver as u8) ^ (i as u8) {
			return Seen::Garbage(4) // torn payload
		}
	}
	Seen::Value { ver, len }
}

#[derive(Clone, Copy)]
struct Read {
	colid: u8,
	owner: u8,
	kidx: u16,
	lo_c: u64,
	hi_s: u64,
	seen: Seen,
}

struct OwnerLog {
	/// per (col, kidx): (version, Some(len) | None)
	writes: BTreeMap<(u8, u16), Vec<(u64, Option<u32>)>>,
	versions: u64,
	class_moves: u64,
}

fn size_class(len: usize) -> usize {
	pv::gen::SIZES.iter().position(|s| len + 28 <= *s as usize).unwrap_or(255)
}

pub fn run_case(ctx: &Ctx, rep: &mut Report, case_seed: u64, variant: u64) {
	let always_flush = variant % 2 == 0;
	let desc = format!("C05 case_seed={} variant={} always_flush={}", case_seed, variant, always_flush);
	ctx.mark(&desc);
	let r = catch(|| history(ctx, rep, case_seed, variant, always_flush, &desc));
	delays::uninstall();
	if let Err(p) = r {
		rep.violation(
			format!("scenario=C05;failure=panic;site={}", panic_site(&p)),
			format!("panic during the concurrent history: {}", p),
			J::obj().set("case", J::s(desc)).set("case_seed", J::i(case_seed)).set("variant", J::i(variant)),
		);
	}
}

fn history(ctx: &Ctx, rep: &mut Report, case_seed: u64, variant: u64, always_flush: bool, desc: &str) {
	let mut rng = Rng::new(case_seed);
	let dir = Scratch::new("c5");
	let mut cfg = DbCfg::new(vec![
		// (the padding of the values is periodic, so the 5000 and 36000 byte versions compress:
		// size-only reads of a compressed hash column must still report the value's own length)
		col(false, true, false, false, match (variant / 4) % 3 {
			0 => CompressionType::NoCompression,
			1 => CompressionType::Lz4,
			_ => CompressionType::Snappy,
		}),
		col(true, false, false, false, if variant % 4 < 2 { CompressionType::NoCompression } else { CompressionType::Lz4 }),
	]);
	cfg.salt = Some([0u8; 32]);
	cfg.background = true;
	cfg.always_flush = always_flush;
	let opts = cfg.options(&dir.path.join("db"));
	let db = Arc::new(Db::open_or_create(&opts).expect("open_or_create"));
	let n_owners = 2usize;
	let keys_per = rng.range(6, 12) as usize;
	let hot: u16 = rng.below(1 << 16) as u16;
	// keys[col][owner][kidx]
	let mut keys: Vec<Vec<Vec<Vec<u8>>>> = vec![vec![], vec![]];
	for o in 0..n_owners {
		let mut k0 = vec![];
		let mut k1 = vec![];
		for i in 0..keys_per {
			let mut k = hot.to_be_bytes().to_vec();
			k.extend_from_slice(&rng.bytes(30));
			k0.push(k);
			let mut b = format!("o{}-k{:03}-", o, i).into_bytes();
			b.extend_from_slice(&rng.bytes_in(0, 40));
			k1.push(b);
		}
		keys[0].push(k0);
		keys[1].push(k1);
	}
	// stable keys: written once by the owner's first transaction and never again, so that they
	// stay wherever that write put them (an older index table after growth, an old btree leaf)
	// while everything around them moves; readers read them like any other key
	let n_stable = 4usize;
	for o in 0..n_owners {
		for i in 0..n_stable {
			let mut k = hot.to_be_bytes().to_vec();
			k.extend_from_slice(&rng.bytes(30));
			keys[0][o].push(k);
			let mut b = format!("o{}-s{:03}-", o, i).into_bytes();
			b.extend_from_slice(&rng.bytes_in(0, 40));
			keys[1][o].push(b);
		}
	}
	let keys = Arc::new(keys);
	let started: Arc<Vec<AtomicU64>> = Arc::new((0..n_owners).map(|_| AtomicU64::new(0)).collect());
	let completed: Arc<Vec<AtomicU64>> = Arc::new((0..n_owners).map(|_| AtomicU64::new(0)).collect());
	let stop = Arc::new(AtomicBool::new(false));
	let duration = Duration::from_millis(ctx.tier.pick(rng.range(1500, 2500), rng.range(2500, 5000)));
	// Two flavours. "pipeline windows": seeded delays at the hand-over sites of the write pipeline
	// (commits pile up, readers meet data at every stage). "reader windows" (every third
	// history): the pipeline runs at full speed behind paced clients - a commit is logged, and
	// the slots it frees are released, within microseconds of the call - while READERS are held
	// between their index lookup and their value fetch, the window in which only the
	// commit-overlay lock keeps the slot they are about to read alive.
	let reader_windows = variant % 3 == 1;
	let deep_queue = variant % 9 == 5;
	if reader_windows {
		delays::install(case_seed, 0, 0, 0);
		let ppm = std::env::var("PDBV_READ_PPM").ok().and_then(|s| s.parse().ok()).unwrap_or_else(|| rng.range(3000, 50_000));
		delays::slow_readers(ppm, rng.range(100, 600));
		rep.count("histories_reader_windows", 1);
	} else if deep_queue {
		// "deep queue" (every ninth history): nothing but the log worker is slowed down, right
		// before it publishes each record: the clients run far ahead, dozens to thousands of
		// commits - most of them rewriting the same few keys - wait in the queue while index
		// growth records are logged in between (record ids run ahead of commit ids)
		delays::install(case_seed, 0, 0, 0);
		delays::slow_site(2, rng.range(300, 2500));
		rep.count("histories_deep_queue", 1);
	} else {
		delays::install(case_seed, rng.range(20, 250), rng.range(200, 2500), u64::MAX);
		if variant % 4 != 3 {
			delays::slow_readers(rng.range(200, 3000), rng.range(100, 1500));
		}
	}
	// one hand-over window is held open in every history (readers run through it many times):
	// rare sites (reindex record, index drop) long, per-commit sites short
	match if reader_windows || deep_queue { 0 } else { (variant / 2) % 7 } {
		1 => delays::slow_site(2, rng.range(100, 600)),    // plan made, record not yet published
		2 => delays::slow_site(3, rng.range(100, 600)),    // record published, commit overlay not yet cleaned
		3 => delays::slow_site(5, rng.range(100, 600)),    // tables written, log overlay not yet cleaned
		4 => delays::slow_site(6, rng.range(100, 600)),
		// reindex batch planned, not yet published; every other such history holds the batch for
		// 0.1-0.4 s: the filler overflows a page of the grown index before the first old table was
		// migrated and dropped (two old index tables queued under the readers)
		5 => delays::slow_site(15, if (variant / 14) % 2 == 0 { rng.range(2000, 8000) } else { rng.range(100_000, 400_000) }),
		6 => delays::slow_site(11, rng.range(2000, 8000)), // old index about to be dropped
		_ => {},
	}

	// ---- committers
	let mut owner_handles = vec![];
	for o in 0..n_owners {
		let db = db.clone();
		let keys = keys.clone();
		let started = started.clone();
		let completed = completed.clone();
		let stop = stop.clone();
		let mut r = rng.derive(100 + o as u64);
		let paced = variant % 3 == 1;
		let pace_us = 100 + (case_seed % 900);
		owner_handles.push(std::thread::spawn(move || {
			let mut log = OwnerLog { writes: BTreeMap::new(), versions: 0, class_moves: 0 };
			let mut last_class: BTreeMap<(u8, u16), usize> = BTreeMap::new();
			let mut v = 0u64;
			let mut err = None;
			while !stop.load(Ordering::Relaxed) {
				v += 1;
				let mut tx = vec![];
				let n_ops = r.range(1, 6);
				let mut touched = std::collections::BTreeSet::new();
				if v == 1 {
					// the first transaction writes the stable keys
					for c in 0..2u8 {
						for ki in keys_per..keys[c as usize][o].len() {
							let len = SIZES[2] + r.usize(3);
							tx.push((c, Operation::Set(keys[c as usize][o][ki].clone(), encode(o as u8, c, ki as u16, v, len))));
							log.writes.entry((c, ki as u16)).or_default().push((v, Some(len.max(HDR) as u32)));
						}
					}
				}
				for _ in 0..n_ops {
					let c = r.below(2) as u8;
					let ki = r.usize(keys_per) as u16;
					if !touched.insert((c, ki)) {
						continue
					}
					let key = keys[c as usize][o][ki as usize].clone();
					if r.chance(1, 4) {
						tx.push((c, Operation::Dereference(key)));
						log.writes.entry((c, ki)).or_default().push((v, None));
					} else {
						let len = if r.chance(1, 40) { SIZES[7] } else { *r.pick(&SIZES[..7]) } + r.usize(3);
						let cl = size_class(len);
						if let Some(p) = last_class.insert((c, ki), cl) {
							if p != cl {
								log.class_moves += 1;
							}
						}
						tx.push((c, Operation::Set(key, encode(o as u8, c, ki, v, len))));
						log.writes.entry((c, ki)).or_default().push((v, Some(len.max(HDR) as u32)));
					}
				}
				started[o].store(v, Ordering::SeqCst);
				if let Err(e) = db.commit_changes(tx) {
					err = Some(format!("commit of version {} failed: {}", v, e));
					break
				}
				completed[o].store(v, Ordering::SeqCst);
				if paced {
					// a client slower than the workers: the queue is (nearly) empty when the next
					// commit arrives, so it is logged - and the slots it frees are released -
					// within microseconds of the call, while readers are in the middle of a lookup
					std::thread::sleep(Duration::from_micros(r.range(30, pace_us)));
				} else if r.chance(1, 50) {
					std::thread::sleep(Duration::from_micros(r.range(50, 2000)));
				}
			}
			log.versions = v;
			(log, err)
		}));
	}
	// ---- filler: overflow the readers' index page so that the index grows while they read
	let filler = {
		let db = db.clone();
		let stop = stop.clone();
		let mut r = rng.derive(7);
		std::thread::spawn(move || {
			let mut n = 0u64;
			std::thread::sleep(Duration::from_millis(r.range(100, 500)));
			while !stop.load(Ordering::Relaxed) && n < 400 {
				let mut tx = vec![];
				for _ in 0..r.range(5, 30) {
					let mut k = hot.to_be_bytes().to_vec();
					k.extend_from_slice(&r.bytes(30));
					tx.push((0u8, Operation::Set(k, vec![0xF1; 40])));
					n += 1;
				}
				let _ = db.commit_changes(tx);
				std::thread::sleep(Duration::from_millis(r.range(5, 60)));
			}
			n
		})
	};
	// ---- readers
	let mut reader_handles = vec![];
	for rd in 0..4u64 {
		let db = db.clone();
		let keys = keys.clone();
		let started = started.clone();
		let completed = completed.clone();
		let stop = stop.clone();
		let mut r = rng.derive(200 + rd);
		reader_handles.push(std::thread::spawn(move || {
			let mut reads: Vec<Read> = Vec::with_capacity(400_000);
			let mut err = None;
			while !stop.load(Ordering::Relaxed) && reads.len() < 1_500_000 {
				let c = r.below(2) as u8;
				let o = r.usize(keys[c as usize].len());
				// bursts on one key make back-in-time observations likely to be caught
				let ki = r.usize(keys[c as usize][o].len());
				for _ in 0..r.range(1, 4) {
					let lo_c = completed[o].load(Ordering::SeqCst);
					if r.chance(1, 6) {
						// the size-only read goes through its own code path
						let g = db.get_size(c, &keys[c as usize][o][ki]);
						let hi_s = started[o].load(Ordering::SeqCst);
						match g {
							Ok(sz) => reads.push(Read { colid: c, owner: o as u8, kidx: ki as u16, lo_c, hi_s, seen: Seen::Size(sz) }),
							Err(e) => {
								err = Some(format!("get_size failed: {}", e));
								break
							},
						}
						continue
					}
					let g = db.get(c, &keys[c as usize][o][ki]);
					let hi_s = started[o].load(Ordering::SeqCst);
					let seen = match g {
						Ok(None) => Seen::Absent,
						Ok(Some(v)) => decode(&v, o as u8, c, ki as u16),
						Err(e) => {
							err = Some(format!("get failed: {}", e));
							break
						},
					};
					reads.push(Read { colid: c, owner: o as u8, kidx: ki as u16, lo_c, hi_s, seen });
				}
				if err.is_some() {
					break
				}
			}
			(reads, err)
		}));
	}
	let t0 = Instant::now();
	while t0.elapsed() < duration {
		std::thread::sleep(Duration::from_millis(50));
		ctx.progress();
	}
	stop.store(true, Ordering::SeqCst);
	if deep_queue {
		// let the backlog drain at full speed
		delays::slow_site(0, 0);
	}
	let mut logs = vec![];
	for h in owner_handles {
		let (log, err) = h.join().expect("owner thread");
		if let Some(e) = err {
			rep.violation("scenario=C05;failure=commit_error".to_string(), e, J::obj().set("case", J::s(desc.to_string())));
		}
		logs.push(log);
	}
	let filled = filler.join().unwrap_or(0);
	let mut all_reads = vec![];
	for h in reader_handles {
		let (reads, err) = h.join().expect("reader thread");
		if let Some(e) = err {
			rep.violation("scenario=C05;failure=read_error".to_string(), e, J::obj().set("case", J::s(desc.to_string())));
		}
		all_reads.push(reads);
	}
	let st = db.verif_status();
	let bits = st.columns[0].index_bits.unwrap_or(16);
	if bits > 16 {
		rep.count("index_growths", (bits - 16) as u64);
	}
	rep.count("filler_keys", filled);
	let (hits, delayed) = delays::take_hits();
	rep.count("yield_hits", hits.iter().sum());
	rep.count("yield_delays", delayed);
	for (i, h) in hits.iter().enumerate() {
		if *h > 0 {
			rep.count(&format!("site_{}", delays::SITE_NAMES[i]), *h);
		}
	}
	for l in &logs {
		rep.count("owner_versions", l.versions);
		rep.count("size_class_moves", l.class_moves);
	}

	// ---- offline checker
	let mut witness: Option<(String, String, J)> = None;
	'outer: for (ri, reads) in all_reads.iter().enumerate() {
		let mut seen_v = vec![0u64; n_owners];
		for (i, rd) in reads.iter().enumerate() {
			let o = rd.owner as usize;
			let lo = rd.lo_c.max(seen_v[o]);
			let hi = rd.hi_s;
			let empty = vec![];
			let w = logs[o].writes.get(&(rd.colid, rd.kidx)).unwrap_or(&empty);
			rep.evaluations += 1;
			let fail = |why: String| -> (String, String, J) {
				let near: Vec<String> = w.iter().filter(|(v, _)| *v + 3 >= lo.min(hi) && *v <= hi + 3).map(|(v, s)| format!("v{}:{}", v, s.map_or("removed".to_string(), |s| format!("{}B", s)))).collect();
				(
					why.clone(),
					format!(
						"reader {} read #{}: column {} key #{} of owner {}: {:?}; completed-before={} seen-by-reader={} started-after={}; writes near the window: [{}]",
						ri, i, rd.colid, rd.kidx, o, rd.seen, rd.lo_c, seen_v[o], rd.hi_s, near.join(", ")
					),
					J::obj().set("case", J::s(desc.to_string())).set("case_seed", J::i(case_seed)).set("variant", J::i(variant)).set("reader", J::i(ri as u64)).set("read_index", J::i(i as u64)),
				)
			};
			match rd.seen {
				Seen::Garbage(code) => {
					let what = match code {
						2 => "misattributed_value",
						4 => "torn_value",
						_ => "garbage_value",
					};
					witness = Some(fail(format!("failure={}", what)));
					break 'outer
				},
				Seen::Value { ver, len } => {
					let pos = w.iter().position(|(v, _)| *v == ver);
					let pos = match pos {
						Some(p) if w[p].1 == Some(len) => p,
						_ => {
							witness = Some(fail("failure=value_never_written".to_string()));
							break 'outer
						},
					};
					if ver > hi {
						witness = Some(fail("failure=read_from_unstarted_commit".to_string()));
						break 'outer
					}
					let next = w.get(pos + 1).map_or(u64::MAX, |x| x.0);
					if next <= lo {
						// a newer write to this key was complete (or already seen) before the read began
						let kind = if next <= rd.lo_c { "failure=stale_read" } else { "failure=non_monotonic_read" };
						witness = Some(fail(kind.to_string()));
						break 'outer
					}
					if hi > lo {
						rep.count("reads_nontrivial_window", 1);
						let newest = w.iter().rev().find(|(v, _)| *v <= hi).map(|x| x.0).unwrap_or(0);
						if newest == ver {
							rep.count("reads_newest", 1);
						} else {
							rep.count("reads_older_feasible", 1);
						}
						rep.seen(format!("c{}|value|w{}|af{}|cl{}", rd.colid, bucket(hi - lo), always_flush as u8, size_class(len as usize).min(200) / 20));
					}
					seen_v[o] = seen_v[o].max(ver);
				},
				Seen::Size(sz) => {
					// feasible iff the last write at `lo`, or some write in (lo, hi], left this
					// size (absent: a removal / nothing). Nothing is learnt about `seen`.
					let at_lo = w.iter().rev().find(|(v, _)| *v <= lo).map(|x| x.1);
					let ok = at_lo.unwrap_or(None) == sz || w.iter().any(|(v, s)| *v > lo && *v <= hi && *s == sz);
					rep.count("size_reads", 1);
					if !ok {
						witness = Some(fail("failure=size_of_no_feasible_version".to_string()));
						break 'outer
					}
				},
				Seen::Absent => {
					// last writer at lo
					let at_lo = w.iter().rev().find(|(v, _)| *v <= lo);
					let ok_at_lo = at_lo.map_or(true, |x| x.1.is_none());
					if !ok_at_lo {
						// a removal (or nothing) must lie in (lo, hi]
						let rem = w.iter().find(|(v, s)| *v > lo && *v <= hi && s.is_none());
						match rem {
							Some((v, _)) => seen_v[o] = seen_v[o].max(*v),
							None => {
								let kind = if at_lo.map_or(false, |x| x.0 <= rd.lo_c) { "failure=lost_value" } else { "failure=non_monotonic_read" };
								witness = Some(fail(kind.to_string()));
								break 'outer
							},
						}
					}
					if hi > lo {
						rep.count("reads_nontrivial_window", 1);
						rep.seen(format!("c{}|absent|w{}|af{}", rd.colid, bucket(hi - lo), always_flush as u8));
					}
				},
			}
		}
	}
	let total: usize = all_reads.iter().map(|r| r.len()).sum();
	rep.count("reads_checked", total as u64);
	if let Some((sig, detail, replay)) = witness {
		rep.violation(format!("scenario=C05;{}", sig), detail, replay);
		std::mem::forget(db);
		return
	}
	if rep.samples.len() < 2 {
		rep.sample(
			J::obj()
				.set("case", J::s(desc.to_string()))
				.set("reads", J::i(total as u64))
				.set("owner_versions", J::Arr(logs.iter().map(|l| J::i(l.versions)).collect()))
				.set("index_bits_at_end", J::i(bits as u64))
				.set("first_reads", J::strs(all_reads[0].iter().take(5).map(|r| format!("{:?} col{} key{} window [{}..{}]", r.seen, r.colid, r.kidx, r.lo_c, r.hi_s)))),
		);
	}
	// ---- clean shutdown persists everything (workers running): reopen and compare with the last versions
	let db = match Arc::try_unwrap(db) {
		Ok(d) => d,
		Err(_) => return,
	};
	if always_flush {
		pv::dbutil::wait_idle(&db, Duration::from_secs(30));
	}
	ctx.progress();
	drop(db);
	let mut o2 = opts.clone();
	o2.with_background_thread = false;
	let db = Db::open(&o2).expect("reopen");
	for (o, l) in logs.iter().enumerate() {
		for ((c, ki), w) in &l.writes {
			let last = w.last().unwrap();
			let g = db.get(*c, &keys[*c as usize][o][*ki as usize]).expect("get");
			rep.evaluations += 1;
			let ok = match (last.1, g.as_ref().map(|v| decode(v, o as u8, *c, *ki))) {
				(None, None) => true,
				(Some(len), Some(Seen::Value { ver, len: l2 })) => ver == last.0 && len == l2,
				_ => false,
			};
			if !ok {
				rep.violation(
					"scenario=C05;failure=state_after_clean_shutdown".to_string(),
					format!("after drop + reopen key #{} of owner {} in column {} is {:?} but the last committed write was version {} ({:?})", ki, o, c, g.as_ref().map(|v| decode(v, o as u8, *c, *ki)), last.0, last.1),
					J::obj().set("case", J::s(desc.to_string())).set("case_seed", J::i(case_seed)).set("variant", J::i(variant)),
				);
				return
			}
		}
	}
	rep.count("reopen_checks", 1);
}

fn bucket(w: u64) -> u64 {
	match w {
		0 => 0,
		1 => 1,
		2..=3 => 2,
		4..=15 => 4,
		16..=63 => 16,
		_ => 64,
	}
}
