//! C07, threaded half: reference counts against LIVE workers.
//!
//! ONE writer thread issues set / reference / dereference transactions over a small key pool of a
//! counted hash column and a counted btree column (value = function of the key), so the count of
//! every key after every commit is known exactly; counts are kept in 0..=3 so that keys cross
//! zero all the time (slot freed, re-inserted, freed ...). Reader threads call `get` / `get_size`
//! and record `{key, completed-before, started-after, result}`. Offline, per read:
//!  * a returned value is the value of the key, bit-exact (never another key's, never torn);
//!  * "a key whose count is positive is always readable": a read that returned nothing is a
//!    violation iff the count was positive after EVERY commit from `completed-before` to
//!    `started-after` (positive when the call began and never at zero during it).
//! After the threads stopped and the handle was dropped (everything logged): reopen - a key is
//! readable iff its count is positive, value iteration of the hash column reports exactly the
//! live values with their counts, pvfsck agrees (counts in the entry headers included).

use crate::delays;
use parity_db::{CompressionType, Db, Operation};
use pv::{
	dbutil::{col, DbCfg},
	gen,
	json::{short_bytes, J},
	scratch::{catch, panic_site, Scratch},
	Ctx, Report, Rng,
};
use std::{
	sync::{
		atomic::{AtomicBool, AtomicU64, Ordering},
		Arc,
	},
	time::{Duration, Instant},
};

static WHAT: std::sync::Mutex<Vec<String>> = std::sync::Mutex::new(Vec::new());

#[derive(Clone, Copy)]
struct Read {
	col: u8,
	k: u16,
	lo: u64,
	hi: u64,
	/// 0 = nothing, 1 = the key's value (or its length for get_size), 2 = something else
	res: u8,
	size_only: bool,
}

pub fn run_case(ctx: &Ctx, rep: &mut Report, case_seed: u64, variant: u64) {
	let always_flush = variant % 2 == 0;
	let desc = format!("C07 threaded case_seed={} variant={} always_flush={}", case_seed, variant, always_flush);
	ctx.mark(&desc);
	let r = catch(|| history(ctx, rep, case_seed, variant, always_flush, &desc));
	delays::uninstall();
	if let Err(p) = r {
		rep.violation(
			format!("scenario=C07;mode=threaded;failure=panic;site={}", panic_site(&p)),
			format!("panic during the threaded history: {}", p),
			J::obj().set("engine", J::s("conc")).set("case", J::s(desc)).set("case_seed", J::i(case_seed)).set("variant", J::i(variant)),
		);
	}
}

fn history(ctx: &Ctx, rep: &mut Report, case_seed: u64, variant: u64, always_flush: bool, desc: &str) {
	let mut rng = Rng::new(case_seed);
	WHAT.lock().unwrap().clear();
	let dir = Scratch::new("c7");
	let comp = match (variant / 2) % 3 {
		0 => CompressionType::NoCompression,
		1 => CompressionType::Lz4,
		_ => CompressionType::Snappy,
	};
	// identity-hashed keys of one index page in every third history: the index grows under the readers
	let growth = (variant / 6) % 3 == 0;
	let mut cfg = DbCfg::new(vec![col(false, growth, true, true, comp), col(true, false, true, true, CompressionType::NoCompression)]);
	if growth {
		cfg.salt = Some([0u8; 32]);
	}
	cfg.background = true;
	cfg.always_flush = always_flush;
	let opts = cfg.options(&dir.path.join("db"));
	let replay = || J::obj().set("engine", J::s("conc")).set("case", J::s(desc.to_string())).set("case_seed", J::i(case_seed)).set("variant", J::i(variant));
	let db = match Db::open_or_create(&opts) {
		Ok(d) => Arc::new(d),
		Err(e) => {
			rep.violation("scenario=C07;mode=threaded;failure=open_error", format!("open_or_create: {}", e), replay());
			return
		},
	};
	let big = rng.chance(1, 3);
	let n0 = if growth { rng.range(70, 100) as usize } else { rng.range(12, 40) as usize };
	let keys0: Vec<Vec<u8>> = if growth {
		let hot = rng.below(1 << 16);
		(0..n0)
			.map(|_| {
				let prefix = (hot << 48) | (rng.next() >> 16);
				let mut k = prefix.to_be_bytes().to_vec();
				k.extend_from_slice(&rng.bytes(24));
				k
			})
			.collect()
	} else {
		gen::key_pool(&mut rng, n0, false)
	};
	// "multipart churn": half of the hash column's keys have values of 9-32 parts (chosen by
	// rejection: the value is a function of the key), few keys, so that chains are freed and
	// re-created under the readers all the time
	let churn = !growth && (variant / 18) % 2 == 1;
	let keys0 = if churn {
		let mut ks: Vec<Vec<u8>> = vec![];
		while ks.len() < 6 {
			let k = rng.bytes_in(4, 20);
			if gen::value_for_key(&k, true).len() > 60_000 {
				ks.push(k);
			}
		}
		ks.extend(gen::key_pool(&mut rng, 4, false));
		rep.count("histories_multipart_churn", 1);
		ks
	} else {
		keys0
	};
	let big = big || churn;
	let n1 = rng.range(8, 30) as usize;
	let keys1 = gen::key_pool(&mut rng, n1, true);
	let keys: Arc<Vec<Vec<Vec<u8>>>> = Arc::new(vec![keys0, keys1]);
	let vals: Arc<Vec<Vec<Vec<u8>>>> = Arc::new(keys.iter().map(|ks| ks.iter().map(|k| gen::value_for_key(k, big)).collect()).collect());
	// per (col, key): count after each commit that touched it
	// (commit number, count after it, lowest count reached between the operations of that commit)
	let mut hist: Vec<Vec<Vec<(u64, u32, u32)>>> = keys.iter().map(|ks| vec![vec![]; ks.len()]).collect();
	let mut count: Vec<Vec<u32>> = keys.iter().map(|ks| vec![0; ks.len()]).collect();
	let started = Arc::new(AtomicU64::new(0));
	let completed = Arc::new(AtomicU64::new(0));
	let stop = Arc::new(AtomicBool::new(false));
	match variant % 4 {
		0 => delays::install(case_seed, 0, 0, 0),
		1 => delays::install(case_seed, 60, 300, u64::MAX),
		2 => delays::install(case_seed, 200, 1500, u64::MAX),
		_ => {
			delays::install(case_seed, 30, 200, u64::MAX);
			delays::slow_readers(rng.range(200, 3000), rng.range(50, 1500));
		},
	}
	let mut readers = vec![];
	for t in 0..3u64 {
		let db = db.clone();
		let keys = keys.clone();
		let vals = vals.clone();
		let started = started.clone();
		let completed = completed.clone();
		let stop = stop.clone();
		let mut r = rng.derive(50 + t);
		readers.push(std::thread::spawn(move || -> Result<Vec<Read>, String> {
			let mut out = vec![];
			while !stop.load(Ordering::Relaxed) && out.len() < 400_000 {
				let c = if r.chance(2, 3) { 0usize } else { 1 };
				let k = r.usize(keys[c].len());
				let size_only = r.chance(1, 5);
				let lo = completed.load(Ordering::SeqCst);
				let res = if size_only {
					match db.get_size(c as u8, &keys[c][k]).map_err(|e| format!("get_size: {}", e))? {
						None => 0,
						Some(s) if s as usize == vals[c][k].len() => 1,
						Some(_) => 2,
					}
				} else {
					match db.get(c as u8, &keys[c][k]).map_err(|e| format!("get: {}", e))? {
						None => 0,
						Some(v) if v == vals[c][k] => 1,
						Some(v) => {
							// what is it? another key's value, a truncated / extended / torn one?
							let other = vals.iter().enumerate().find_map(|(cc, vs)| vs.iter().position(|x| *x == v).map(|kk| (cc, kk)));
							let common = v.iter().zip(vals[c][k].iter()).take_while(|(a, b)| a == b).count();
							WHAT.lock().unwrap().push(format!(
								"got {} bytes ({}), expected {} bytes; {}; first {} bytes agree",
								v.len(),
								short_bytes(&v),
								vals[c][k].len(),
								match other {
									Some((cc, kk)) => format!("it is the value of key {} of column {}", short_bytes(&keys[cc][kk]), cc),
									None => "it is no key's value".to_string(),
								},
								common
							));
							2
						},
					}
				};
				let hi = started.load(Ordering::SeqCst);
				out.push(Read { col: c as u8, k: k as u16, lo, hi, res, size_only });
			}
			Ok(out)
		}));
	}
	// ---- the writer
	let t0 = Instant::now();
	let run_for = Duration::from_millis(ctx.tier.pick(rng.range(700, 2000), rng.range(1500, 5000)));
	let mut ver = 0u64;
	let mut failure: Option<(String, String)> = None;
	let mut zero_crossings = 0u64;
	while failure.is_none() && t0.elapsed() < run_for {
		ctx.progress();
		let mut tx: Vec<(u8, Operation<Vec<u8>, Vec<u8>>)> = vec![];
		let mut touched: Vec<(usize, usize, u32)> = vec![];
		for _ in 0..rng.range(1, 6) {
			let c = if rng.chance(2, 3) { 0usize } else { 1 };
			let k = rng.usize(keys[c].len());
			let cur = count[c][k];
			let key = keys[c][k].clone();
			// keep counts in 0..=3; references / dereferences of absent keys are submitted too (ignored)
			match rng.below(10) {
				0..=3 if cur < 3 => {
					tx.push((c as u8, Operation::Set(key, vals[c][k].clone())));
					count[c][k] += 1;
				},
				4 | 5 if cur < 3 => {
					tx.push((c as u8, Operation::Reference(key)));
					if cur > 0 {
						count[c][k] += 1;
					}
				},
				_ => {
					tx.push((c as u8, Operation::Dereference(key)));
					if cur > 0 {
						count[c][k] -= 1;
						if cur == 1 {
							zero_crossings += 1;
						}
					}
				},
			}
			touched.push((c, k, count[c][k]));
		}
		ver += 1;
		started.store(ver, Ordering::SeqCst);
		if let Err(e) = db.commit_changes(tx) {
			failure = Some(("failure=commit_error".into(), format!("commit {}: {}", ver, e)));
			break
		}
		for (c, k, after_op) in touched {
			let h = &mut hist[c][k];
			match h.last_mut() {
				Some(l) if l.0 == ver => {
					l.1 = count[c][k];
					l.2 = l.2.min(after_op);
				},
				_ => h.push((ver, count[c][k], after_op)),
			}
		}
		completed.store(ver, Ordering::SeqCst);
		rep.count("commits", 1);
		if rng.chance(1, 6) {
			std::thread::sleep(Duration::from_micros(rng.range(20, 1500)));
		}
	}
	// (a key that passes through zero BETWEEN the operations of one transaction is recorded with
	// that lowest count: such a window is not judged)
	stop.store(true, Ordering::SeqCst);
	let mut all: Vec<Vec<Read>> = vec![];
	for r in readers {
		match r.join() {
			Ok(Ok(v)) => all.push(v),
			Ok(Err(e)) =>
				if failure.is_none() {
					failure = Some(("failure=read_error".into(), format!("a reader's call failed: {}", e)));
				},
			Err(_) =>
				if failure.is_none() {
					let p = pv::scratch::take_all_panics().join(" | ");
					failure = Some((format!("failure=panic;who=reader;site={}", panic_site(&p)), format!("a reader thread panicked: {}", p)));
				},
		}
	}
	let (hits, delayed) = delays::take_hits();
	rep.count("yield_hits", hits.iter().sum());
	rep.count("yield_delays", delayed);
	delays::uninstall();
	if let Some((sig, detail)) = failure {
		rep.violation(format!("scenario=C07;mode=threaded;{}", sig), detail, replay());
		std::mem::forget(db);
		return
	}
	rep.count("rc_zero_crossings_threaded", zero_crossings);
	// ---- offline judgement
	let mut judged = 0u64;
	for (t, reads) in all.iter().enumerate() {
		for (j, r) in reads.iter().enumerate() {
			judged += 1;
			let h = &hist[r.col as usize][r.k as usize];
			let key = &keys[r.col as usize][r.k as usize];
			if r.res == 2 {
				rep.violation(
					"scenario=C07;mode=threaded;failure=rc_value_not_the_keys_value".to_string(),
					format!("reader {} read {}: {} of key {} (column {}) is not the value of that key (count when the call began {:?}, commits in the window {}..{}): {}", t, j, if r.size_only { "the size" } else { "the value" }, short_bytes(key), r.col, h.iter().filter(|x| x.0 <= r.lo).last(), r.lo, r.hi, WHAT.lock().unwrap().first().cloned().unwrap_or_default()),
					replay(),
				);
				std::mem::forget(db);
				return
			}
			if r.res == 0 {
				// count when the call began, and the minimum over the commits that may have taken effect during it
				let mut at_lo = 0u32;
				let mut min_in = u32::MAX;
				for (v, c, low) in h {
					if *v <= r.lo {
						at_lo = *c;
					} else if *v <= r.hi {
						min_in = min_in.min(*low);
					} else {
						break
					}
				}
				if at_lo > 0 && (min_in == u32::MAX || min_in > 0) {
					rep.violation(
						"scenario=C07;mode=threaded;failure=rc_live_value_unreadable".to_string(),
						format!(
							"reader {} read {}: {} of key {} (column {}) returned nothing although its count was {} when the call began (commits <= {} completed) and stayed positive through every commit that had started when it returned (<= {})",
							t,
							j,
							if r.size_only { "get_size" } else { "get" },
							short_bytes(key),
							r.col,
							at_lo,
							r.lo,
							r.hi
						),
						replay(),
					);
					std::mem::forget(db);
					return
				}
				if at_lo > 0 {
					rep.count("absent_reads_with_zero_crossing_in_window", 1);
				}
			} else {
				rep.count("reads_found", 1);
			}
			if r.hi > r.lo {
				rep.count("reads_nontrivial_window", 1);
			}
		}
	}
	rep.evaluations += judged;
	rep.count("reads_judged", judged);
	// ---- everything logged: drop, reopen, iff
	let db = match Arc::try_unwrap(db) {
		Ok(d) => d,
		Err(_) => {
			rep.inconclusive("a handle clone outlived its thread");
			return
		},
	};
	drop(db);
	let mut o2 = opts.clone();
	o2.with_background_thread = false;
	o2.always_flush = false;
	let db = match Db::open(&o2) {
		Ok(d) => d,
		Err(e) => {
			rep.violation("scenario=C07;mode=threaded;failure=open_error", format!("reopen after the history: {}", e), replay());
			return
		},
	};
	for c in 0..2usize {
		for (k, key) in keys[c].iter().enumerate() {
			let got = db.get(c as u8, key).ok().flatten();
			rep.evaluations += 1;
			let want = if count[c][k] > 0 { Some(&vals[c][k]) } else { None };
			if got.as_ref() != want {
				rep.violation(
					format!("scenario=C07;mode=threaded;failure=rc_iff_violated;phase=reopen;got={};count_positive={}", if got.is_some() { "some" } else { "none" }, count[c][k] > 0),
					format!("after the clean restart key {} of column {} reads {} but its count is {}", short_bytes(key), c, if got.is_some() { "a value" } else { "nothing" }, count[c][k]),
					replay(),
				);
				return
			}
		}
	}
	rep.count("iff_checks_after_threaded_history", 1);
	let mut got: Vec<(Vec<u8>, u32)> = vec![];
	if let Err(e) = db.iter_column_while(0, |s| {
		got.push((s.value, s.rc));
		true
	}) {
		rep.violation("scenario=C07;mode=threaded;failure=iter_values_error", format!("{}", e), replay());
		return
	}
	got.sort();
	let mut expect: Vec<(Vec<u8>, u32)> = (0..keys[0].len()).filter(|k| count[0][*k] > 0).map(|k| (vals[0][k].clone(), count[0][k])).collect();
	expect.sort();
	rep.evaluations += expect.len() as u64 + 1;
	if got != expect {
		rep.violation(
			"scenario=C07;mode=threaded;failure=value_iteration_mismatch".to_string(),
			format!("after the clean restart value iteration yields {} (value, count) pairs, the model {} ({} of them differ)", got.len(), expect.len(), expect.iter().filter(|e| !got.contains(e)).count()),
			replay(),
		);
		return
	}
	rep.count("rc_iter_checks_after_threaded_history", 1);
	let specs: Vec<pvfsck::ColSpec> = cfg
		.cols
		.iter()
		.map(|c| pvfsck::ColSpec {
			btree: c.btree_index,
			multitree: false,
			ref_counted: c.ref_counted,
			preimage: c.preimage,
			uniform: c.uniform,
			append_only: false,
			compression: match c.compression {
				CompressionType::NoCompression => 0,
				CompressionType::Lz4 => 1,
				CompressionType::Snappy => 2,
			},
		})
		.collect();
	let hash: Vec<_> = (0..keys[0].len()).filter(|k| count[0][*k] > 0).map(|k| (db.verif_hash_key(0, &keys[0][k]), vals[0][k].clone(), count[0][k])).collect();
	let btree: Vec<_> = (0..keys[1].len()).filter(|k| count[1][*k] > 0).map(|k| (keys[1][k].clone(), vals[1][k].clone(), count[1][k])).collect();
	drop(db);
	let r = pvfsck::check_dir(&dir.path.join("db"), &specs, &[pvfsck::Expect::Hash(hash), pvfsck::Expect::Btree(btree)]);
	rep.count("fsck_after_threaded_history", 1);
	if let Some(e) = r.errors.first() {
		let class = e.split(':').next().unwrap_or("unknown").to_string();
		rep.violation(
			format!("scenario=C07;mode=threaded;failure=fsck;class={}", class),
			format!("after the threaded history and a clean restart the files disagree with the counts: {}", r.errors.iter().take(4).cloned().collect::<Vec<_>>().join(" | ")),
			replay(),
		);
		return
	}
	rep.count("threaded_histories", 1);
	rep.seen(format!("C07t:{}:{}:{}:{}", always_flush, growth, variant % 4, comp as u8));
	if rep.samples.len() < 2 {
		rep.sample(J::obj().set("case", J::s(desc.to_string())).set("commits", J::i(ver)).set("reads_judged", J::i(judged)).set("zero_crossings", J::i(zero_crossings)));
	}
}
