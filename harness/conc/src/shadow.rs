//! Durable shadow of a database directory kept next to LIVE workers (threaded half of C12),
//! and power-loss images cut from it.
//!
//! The interposed calls of `inject.rs` (trace mode) report here, under one mutex:
//!  * `fsync` / `fdatasync` of a file  -> its whole current content becomes durable;
//!  * `msync` of a range of a mapping  -> that range of the file becomes durable;
//!  * `ftruncate(log, 0)`              -> the log is "old content or empty" until its next fsync;
//!  * `unlink`                         -> the file is gone (directory operations are durable at once).
//! An image = for every file of the directory its durable content (zeros where nothing was ever
//! synced; the current length), optionally plus a random subset of the 4 KiB pages that differ
//! from the durable content, and for logs a random prefix of the unsynced tail. Because other
//! threads keep writing while a snapshot or an image is taken, a copied page may hold a half
//! written entry of a record that is being applied; that is harmless for the oracle: a record is
//! only applied after its log was synced (rule R1), so its log is in the image and recovery
//! writes the entry again. What an image must never hold is a table that LACKS the effects of a
//! record whose log has been reclaimed - the state a missing or misplaced sync produces.

use pv::Rng;
use std::{
	collections::{BTreeMap, BTreeSet},
	path::{Path, PathBuf},
	sync::Mutex,
};

pub struct ImageMeta {
	pub dir: PathBuf,
	pub started: u64,
	pub acked: u64,
	pub at: String,
	pub pages: &'static str,
}

pub struct Shadow {
	root: PathBuf,
	dir: PathBuf,
	images_dir: PathBuf,
	/// logs truncated to zero whose truncation has not been fsynced yet: name -> content before
	truncated_unsynced: BTreeSet<String>,
	pub images: Vec<ImageMeta>,
	max_images: usize,
	rng: Rng,
	pub counters: BTreeMap<&'static str, u64>,
	/// (started, acknowledged) transaction counters of the workload, read when an image is cut
	progress: Option<fn() -> (u64, u64)>,
}

static SHADOW: Mutex<Option<Shadow>> = Mutex::new(None);
static ACTIVE: std::sync::atomic::AtomicBool = std::sync::atomic::AtomicBool::new(false);

pub fn start(root: &Path, work: &Path, seed: u64, max_images: usize, progress: fn() -> (u64, u64)) {
	let dir = work.join("shadow");
	let images_dir = work.join("images");
	let _ = std::fs::create_dir_all(&dir);
	let _ = std::fs::create_dir_all(&images_dir);
	// what exists when the observation starts (a freshly created database: metadata, the btree
	// header tables) counts as durable: creation-time syncing is the stepping half's subject
	if let Ok(rd) = std::fs::read_dir(root) {
		for e in rd.flatten() {
			if e.file_type().map(|t| t.is_file()).unwrap_or(false) {
				let _ = pv::scratch::copy_file_sparse(&e.path(), &dir.join(e.file_name()));
			}
		}
	}
	*SHADOW.lock().unwrap() = Some(Shadow {
		root: root.to_path_buf(),
		dir,
		images_dir,
		truncated_unsynced: BTreeSet::new(),
		images: vec![],
		max_images,
		rng: Rng::new(seed ^ 0x5AD0),
		counters: BTreeMap::new(),
		progress: Some(progress),
	});
	ACTIVE.store(true, std::sync::atomic::Ordering::SeqCst);
}

pub fn stop() -> Option<Shadow> {
	ACTIVE.store(false, std::sync::atomic::Ordering::SeqCst);
	SHADOW.lock().unwrap_or_else(|e| e.into_inner()).take()
}

/// (lock-free: the hooks ask this before they enter their re-entrancy gate)
pub fn active() -> bool {
	ACTIVE.load(std::sync::atomic::Ordering::Relaxed)
}

fn count(s: &mut Shadow, k: &'static str) {
	*s.counters.entry(k).or_insert(0) += 1;
}

fn is_log(n: &str) -> bool {
	n.starts_with("log")
}

/// The whole file became durable.
pub fn synced_file(name: &str) {
	let mut g = SHADOW.lock().unwrap_or_else(|e| e.into_inner());
	if let Some(s) = g.as_mut() {
		let _ = pv::scratch::copy_file_sparse(&s.root.join(name), &s.dir.join(name));
		s.truncated_unsynced.remove(name);
		count(s, "file_syncs");
		if is_log(name) && s.rng.chance(1, 3) {
			cut(s, format!("after sync of {}", name));
		}
	}
}

/// Bytes `[off, off+len)` of the file became durable.
pub fn synced_range(name: &str, off: u64, len: u64) {
	use std::io::{Read, Seek, SeekFrom, Write};
	let mut g = SHADOW.lock().unwrap_or_else(|e| e.into_inner());
	if let Some(s) = g.as_mut() {
		count(s, "range_syncs");
		let (mut f, mut o) = match (std::fs::File::open(s.root.join(name)), std::fs::OpenOptions::new().create(true).write(true).open(s.dir.join(name))) {
			(Ok(f), Ok(o)) => (f, o),
			_ => return,
		};
		let flen = f.metadata().map(|m| m.len()).unwrap_or(0);
		let end = off.saturating_add(len).min(flen);
		let _ = o.set_len(flen.max(o.metadata().map(|m| m.len()).unwrap_or(0)));
		if off >= end || f.seek(SeekFrom::Start(off)).is_err() || o.seek(SeekFrom::Start(off)).is_err() {
			return
		}
		let mut pos = off;
		let mut buf = vec![0u8; 1 << 16];
		while pos < end {
			let n = ((end - pos) as usize).min(buf.len());
			if f.read_exact(&mut buf[..n]).is_err() || o.write_all(&buf[..n]).is_err() {
				return
			}
			pos += n as u64;
		}
	}
}

/// A log file was truncated to zero (not yet fsynced).
pub fn truncated_log(name: &str) {
	let mut g = SHADOW.lock().unwrap_or_else(|e| e.into_inner());
	if let Some(s) = g.as_mut() {
		s.truncated_unsynced.insert(name.to_string());
		count(s, "log_truncations");
		if s.rng.chance(2, 3) {
			cut(s, format!("after truncation of {}", name));
		}
	}
}

pub fn unlinked(name: &str) {
	let mut g = SHADOW.lock().unwrap_or_else(|e| e.into_inner());
	if let Some(s) = g.as_mut() {
		let _ = std::fs::remove_file(s.dir.join(name));
		s.truncated_unsynced.remove(name);
		count(s, "unlinks");
	}
}

/// Cut an image at an arbitrary moment (called by the workload's timer).
pub fn cut_now(at: &str) {
	let mut g = SHADOW.lock().unwrap_or_else(|e| e.into_inner());
	if let Some(s) = g.as_mut() {
		cut(s, at.to_string());
	}
}

fn cut(s: &mut Shadow, at: String) {
	if s.images.len() >= s.max_images {
		return
	}
	// "acknowledged" is sampled before the files are read, "started" after (below): everything
	// the image can hold was started by then
	let (_, acked) = s.progress.map(|f| f()).unwrap_or((0, 0));
	let n = s.images.len();
	let dir = s.images_dir.join(format!("img{}", n));
	let _ = std::fs::remove_dir_all(&dir);
	if std::fs::create_dir_all(&dir).is_err() {
		return
	}
	// which of the differing pages reach the disk: none, all, or each with probability 1/2
	let pages: &'static str = *s.rng.pick(&["none", "none", "half", "all"]);
	let names: Vec<String> = match std::fs::read_dir(&s.root) {
		Ok(rd) => rd.flatten().filter(|e| e.file_type().map(|t| t.is_file()).unwrap_or(false)).filter_map(|e| e.file_name().to_str().map(|x| x.to_string())).collect(),
		Err(_) => return,
	};
	for name in names {
		let src = s.root.join(&name);
		let dst = dir.join(&name);
		let table_like = name.starts_with("table_") || name.starts_with("index_") || name.starts_with("refcount_");
		if !table_like && !is_log(&name) {
			// metadata, lock: as they are
			let _ = std::fs::copy(&src, &dst);
			continue
		}
		let cur = match std::fs::read(&src) {
			Ok(c) => c,
			Err(_) => continue, // removed meanwhile
		};
		let sh = std::fs::read(s.dir.join(&name)).unwrap_or_default();
		let mut out: Vec<u8>;
		if is_log(&name) {
			if s.truncated_unsynced.contains(&name) {
				// the truncation may or may not have reached the disk
				out = if s.rng.chance(1, 2) { sh.clone() } else { vec![] };
			} else {
				// durable prefix + some of the unsynced tail
				out = sh.clone();
				if cur.len() > sh.len() && cur[..sh.len()] == sh[..] && s.rng.chance(1, 2) {
					let extra = s.rng.below((cur.len() - sh.len()) as u64 + 1) as usize;
					out.extend_from_slice(&cur[sh.len()..sh.len() + extra]);
				}
			}
		} else {
			// the current length (growth is a directory-level operation), durable content, zeros
			// where nothing was synced yet
			out = vec![0u8; cur.len()];
			let n = sh.len().min(out.len());
			out[..n].copy_from_slice(&sh[..n]);
			if pages != "none" {
				let mut p = 0;
				while p < cur.len() {
					let e = (p + 4096).min(cur.len());
					if cur[p..e] != out[p..e] && (pages == "all" || s.rng.chance(1, 2)) {
						out[p..e].copy_from_slice(&cur[p..e]);
					}
					p = e;
				}
			}
		}
		let _ = write_sparse(&dst, &out);
	}
	count(s, "images_cut");
	let (started, _) = s.progress.map(|f| f()).unwrap_or((0, 0));
	s.images.push(ImageMeta { dir, started, acked, at, pages });
}

fn write_sparse(dst: &Path, data: &[u8]) -> std::io::Result<()> {
	use std::io::{Seek, SeekFrom, Write};
	let mut o = std::fs::File::create(dst)?;
	let mut p = 0;
	while p < data.len() {
		let e = (p + 65536).min(data.len());
		if data[p..e].iter().any(|b| *b != 0) {
			o.seek(SeekFrom::Start(p as u64))?;
			o.write_all(&data[p..e])?;
		}
		p = e;
	}
	o.set_len(data.len() as u64)?;
	Ok(())
}
