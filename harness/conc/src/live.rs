//! C04, threaded half: ordered iteration and point reads of a btree column against LIVE workers.
//!
//! One client thread is the only writer, so its sequential ordered model is exact at every one of
//! its own calls (point reads, sizes, iterator steps with the cursor model of C04 - the iterator
//! stays open across its own commits) while the four background workers move the data from the
//! commit overlay through the log overlay into the on-disk tree underneath it. Two observer
//! threads iterate the same column at the same time; their steps are recorded
//! `{cursor, direction, completed-before, started-after, result}` and judged offline against the
//! client's per-key write history (every written value carries key index + commit number):
//!  * the returned key lies on the right side of the cursor;
//!  * the returned value is a version of that key that was the latest at some moment of the call
//!    (not superseded by a commit that had completed before the call, not from a commit that had
//!    not started);
//!  * every key of the universe BETWEEN the cursor and the returned key (all keys beyond the
//!    cursor when the step returned nothing) was absent at some moment of the call.
//! This is the per-step statement of C04 with "at the time of the call" read as the call interval.

use crate::delays;
use parity_db::{CompressionType, Db, Operation};
use pv::{
	dbutil::{col, DbCfg},
	json::J,
	model::Cursor,
	scratch::{catch, panic_site, Scratch},
	Ctx, Report, Rng,
};
use std::{
	collections::BTreeMap,
	sync::{
		atomic::{AtomicBool, AtomicU64, Ordering},
		Arc,
	},
	time::{Duration, Instant},
};

const HDR: usize = 20;

fn encode(kidx: u32, ver: u64, len: usize) -> Vec<u8> {
	let len = len.max(HDR);
	let mut v = Vec::with_capacity(len);
	v.extend_from_slice(&[0xC0, 0x4E, 0x17, 0x71]);
	v.extend_from_slice(&kidx.to_le_bytes());
	v.extend_from_slice(&ver.to_le_bytes());
	v.extend_from_slice(&(len as u32).to_le_bytes());
	for i in HDR..len {
		v.push((ver as u8).wrapping_mul(31) ^ (i as u8));
	}
	v
}

/// Ok((kidx, ver)) or Err(reason)
fn decode(v: &[u8]) -> Result<(u32, u64), &'static str> {
	if v.len() < HDR || v[..4] != [0xC0, 0x4E, 0x17, 0x71] {
		return Err("not a value this history wrote")
	}
	let kidx = u32::from_le_bytes(v[4..8].try_into().unwrap());
	let ver = u64::from_le_bytes(v[8..16].try_into().unwrap());
	let len = u32::from_le_bytes(v[16..20].try_into().unwrap());
	if len as usize != v.len() {
		return Err("length differs from the length recorded in the value")
	}
	for (i, b) in v.iter().enumerate().skip(HDR) {
		if *b != (ver as u8).wrapping_mul(31) ^ (i as u8) {
			return Err("torn payload")
		}
	}
	Ok((kidx, ver))
}

fn pick_len(rng: &mut Rng) -> usize {
	match rng.below(20) {
		0 => 36_000,
		1 => 5000,
		2 | 3 => 900,
		4..=7 => 200,
		_ => rng.range(HDR as u64, 64) as usize,
	}
}

#[derive(Clone, Debug)]
struct Obs {
	cursor: Cursor,
	fwd: bool,
	lo: u64,
	hi: u64,
	/// None = the step returned nothing; Some(Ok((kidx, ver))) / Some(Err(text))
	got: Option<Result<(u32, u64), String>>,
}

/// per key: (commit number, present after it?) in commit order
type KeyHist = Vec<(u64, bool)>;

/// the last operation on a key inside one transaction wins
fn push_hist(h: &mut KeyHist, ver: u64, present: bool) {
	if let Some(l) = h.last_mut() {
		if l.0 == ver {
			l.1 = present;
			return
		}
	}
	h.push((ver, present));
}

fn state_at(h: &KeyHist, t: u64) -> bool {
	let mut s = false;
	for (v, p) in h {
		if *v <= t {
			s = *p;
		} else {
			break
		}
	}
	s
}

/// could the key have been absent at some moment between "all commits <= lo done" and "commits
/// <= hi started"?
fn possibly_absent(h: &KeyHist, lo: u64, hi: u64) -> bool {
	if !state_at(h, lo) {
		return true
	}
	h.iter().any(|(v, p)| *v > lo && *v <= hi && !*p)
}

fn short(k: &[u8]) -> String {
	pv::json::short_bytes(k)
}

pub fn run_case(ctx: &Ctx, rep: &mut Report, case_seed: u64, variant: u64) {
	let always_flush = variant % 2 == 0;
	let desc = format!("C04-live case_seed={} variant={} always_flush={}", case_seed, variant, always_flush);
	ctx.mark(&desc);
	let r = catch(|| history(ctx, rep, case_seed, variant, always_flush, &desc));
	delays::uninstall();
	if let Err(p) = r {
		rep.violation(
			format!("scenario=C04;mode=threaded;failure=panic;site={}", panic_site(&p)),
			format!("panic during the threaded iteration history: {}", p),
			J::obj().set("engine", J::s("conc")).set("case", J::s(desc)).set("case_seed", J::i(case_seed)).set("variant", J::i(variant)),
		);
	}
}

fn history(ctx: &Ctx, rep: &mut Report, case_seed: u64, variant: u64, always_flush: bool, desc: &str) {
	let mut rng = Rng::new(case_seed);
	let dir = Scratch::new("lv");
	let comp = match variant % 3 {
		0 => CompressionType::NoCompression,
		1 => CompressionType::Lz4,
		_ => CompressionType::Snappy,
	};
	let mut cfg = DbCfg::new(vec![col(true, false, false, false, comp), col(false, false, false, false, CompressionType::NoCompression)]);
	cfg.background = true;
	cfg.always_flush = always_flush;
	let opts = cfg.options(&dir.path.join("db"));
	let replay = || J::obj().set("engine", J::s("conc")).set("case", J::s(desc.to_string())).set("case_seed", J::i(case_seed)).set("variant", J::i(variant));
	let db = match Db::open_or_create(&opts) {
		Ok(d) => Arc::new(d),
		Err(e) => {
			rep.violation("scenario=C04;mode=threaded;failure=open_error", format!("open_or_create: {}", e), replay());
			return
		},
	};
	// ---- key universe (sorted, distinct)
	let dense = (variant / 2) % 3 == 0;
	let mut univ: Vec<Vec<u8>> = if dense {
		let n = rng.range(400, 1400);
		let base = rng.below(1 << 20);
		(0..n).map(|j| ((base + j * 3) as u32).to_be_bytes().to_vec()).collect()
	} else {
		{
		let cnt = rng.range(40, 160) as usize;
		pv::gen::key_pool(&mut rng, cnt, true)
	}
	};
	univ.sort();
	univ.dedup();
	let n = univ.len();
	rep.count(if dense { "histories_dense_keys" } else { "histories_odd_keys" }, 1);
	// stable keys: written by the first transaction, never touched again
	let stable: Vec<bool> = (0..n).map(|i| i % 7 == 3).collect();
	let mut hist: Vec<KeyHist> = vec![vec![]; n];
	let mut mk = pv::model::Model::new(&cfg.cols);
	let mut hmodel: BTreeMap<Vec<u8>, Vec<u8>> = BTreeMap::new();
	let started = Arc::new(AtomicU64::new(0));
	let completed = Arc::new(AtomicU64::new(0));
	let stop = Arc::new(AtomicBool::new(false));
	let univ = Arc::new(univ);

	let delay_profile = variant % 4;
	match delay_profile {
		0 => delays::install(case_seed, 0, 0, 0),
		1 => delays::install(case_seed, 60, 300, u64::MAX),
		2 => delays::install(case_seed, 200, 1500, u64::MAX),
		_ => {
			delays::install(case_seed, 30, 200, u64::MAX);
			// hold one hand-over window open: record published / overlay not yet cleaned, or
			// tables written / log overlay not yet dropped
			let site = *rng.pick(&[3u32, 4, 5, 6, 7]);
			delays::slow_site(site, rng.range(100, 3000));
		},
	}

	// ---- observers
	let mut observers = vec![];
	for t in 0..2u64 {
		let db = db.clone();
		let univ = univ.clone();
		let started = started.clone();
		let completed = completed.clone();
		let stop = stop.clone();
		let mut rng = rng.derive(100 + t);
		observers.push(std::thread::spawn(move || -> Result<Vec<Obs>, String> {
			let mut out: Vec<Obs> = vec![];
			while !stop.load(Ordering::Relaxed) && out.len() < 150_000 {
				let mut it = db.iter(0).map_err(|e| format!("Db::iter: {}", e))?;
				let mut cur;
				match rng.below(4) {
					0 => {
						it.seek_to_first().map_err(|e| format!("seek_to_first: {}", e))?;
						cur = Cursor::Seeked(vec![]);
					},
					1 => {
						it.seek_to_last().map_err(|e| format!("seek_to_last: {}", e))?;
						cur = Cursor::End;
					},
					_ => {
						let mut k = univ[rng.usize(univ.len())].clone();
						match rng.below(4) {
							0 => k.push(0),
							1 => {
								k.pop();
							},
							_ => {},
						}
						it.seek(&k).map_err(|e| format!("seek: {}", e))?;
						cur = Cursor::Seeked(k);
					},
				}
				// a run: mostly one direction, sometimes turning round
				let mut fwd = !matches!(cur, Cursor::End) && rng.chance(2, 3);
				let steps = if rng.chance(1, 3) { univ.len() + 2 } else { rng.range(3, 60) as usize };
				for _ in 0..steps {
					if stop.load(Ordering::Relaxed) {
						break
					}
					if rng.chance(1, 12) {
						fwd = !fwd;
					}
					if rng.chance(1, 40) {
						// re-seek with the iterator kept
						let k = univ[rng.usize(univ.len())].clone();
						it.seek(&k).map_err(|e| format!("seek: {}", e))?;
						cur = Cursor::Seeked(k);
					}
					let lo = completed.load(Ordering::SeqCst);
					let r = if fwd { it.next() } else { it.prev() };
					let hi = started.load(Ordering::SeqCst);
					let r = r.map_err(|e| format!("{}: {}", if fwd { "next" } else { "prev" }, e))?;
					let before = cur.clone();
					let got = match &r {
						None => {
							cur = if fwd { Cursor::End } else { Cursor::Start };
							None
						},
						Some((k, v)) => {
							cur = Cursor::At(k.clone());
							Some(match univ.binary_search(k) {
								Err(_) => Err(format!("key {} was never written", short(k))),
								Ok(i) => match decode(v) {
									Err(why) => Err(format!("value of key {}: {}", short(k), why)),
									Ok((kidx, ver)) =>
										if kidx as usize != i {
											Err(format!("key {} came with the value of key {}", short(k), short(&univ[kidx as usize % univ.len()])))
										} else {
											Ok((kidx, ver))
										},
								},
							})
						},
					};
					out.push(Obs { cursor: before, fwd, lo, hi, got });
					if r.is_none() {
						break
					}
				}
			}
			Ok(out)
		}));
	}

	// ---- the client: only writer, exact model
	let mut ver = 0u64;
	let t0 = Instant::now();
	let run_for = Duration::from_millis(ctx.tier.pick(rng.range(800, 2200), rng.range(1500, 5000)));
	let mut it = None;
	let mut cursor = Cursor::Start;
	let mut positioned = false;
	let mut failure: Option<(String, String)> = None;
	let mut commits_since_iter = 0u64;
	let mut trace: Vec<String> = vec![];
	macro_rules! commit {
		($tx:expr, $htx:expr) => {{
			ver += 1;
			let tx: Vec<(usize, Option<usize>)> = $tx;
			let htx: Vec<(Vec<u8>, Option<Vec<u8>>)> = $htx;
			let mut ops: Vec<(u8, Operation<Vec<u8>, Vec<u8>>)> = vec![];
			for (i, len) in &tx {
				match len {
					Some(l) => ops.push((0, Operation::Set(univ[*i].clone(), encode(*i as u32, ver, *l)))),
					None => ops.push((0, Operation::Dereference(univ[*i].clone()))),
				}
			}
			for (k, v) in &htx {
				match v {
					Some(v) => ops.push((1, Operation::Set(k.clone(), v.clone()))),
					None => ops.push((1, Operation::Dereference(k.clone()))),
				}
			}
			started.store(ver, Ordering::SeqCst);
			let r = db.commit_changes(ops);
			if let Err(e) = r {
				failure = Some(("failure=commit_error".into(), format!("commit {} failed: {}", ver, e)));
			} else {
				for (i, len) in &tx {
					match len {
						Some(l) => {
							mk.apply(&[pv::model::Op::Set(0, univ[*i].clone(), encode(*i as u32, ver, *l))]);
							push_hist(&mut hist[*i], ver, true);
						},
						None => {
							mk.apply(&[pv::model::Op::Deref(0, univ[*i].clone())]);
							push_hist(&mut hist[*i], ver, false);
						},
					}
				}
				for (k, v) in htx {
					match v {
						Some(v) => {
							hmodel.insert(k, v);
						},
						None => {
							hmodel.remove(&k);
						},
					}
				}
				completed.store(ver, Ordering::SeqCst);
				commits_since_iter += 1;
				rep.count("commits", 1);
			}
		}};
	}
	// first transaction: the stable keys and half of the others
	{
		let mut tx = vec![];
		for i in 0..n {
			if stable[i] || rng.chance(1, 2) {
				tx.push((i, Some(pick_len(&mut rng))));
			}
		}
		commit!(tx, vec![]);
	}
	let movable: Vec<usize> = (0..n).filter(|i| !stable[*i]).collect();
	while failure.is_none() && t0.elapsed() < run_for {
		ctx.progress();
		match rng.below(100) {
			0..=34 => {
				// small transaction
				let k = rng.range(1, 6);
				let mut tx = vec![];
				for _ in 0..k {
					let i = movable[rng.usize(movable.len())];
					tx.push((i, if rng.chance(3, 5) { Some(pick_len(&mut rng)) } else { None }));
				}
				let mut htx = vec![];
				if rng.chance(1, 3) {
					let k = rng.bytes_in(1, 12);
					htx.push((k, if rng.chance(3, 4) { Some(rng.bytes_in(0, 300)) } else { None }));
				}
				trace.push(format!("commit {} ({} btree ops)", ver + 1, tx.len()));
				commit!(tx, htx);
			},
			35..=39 => {
				// range transaction: remove or insert a contiguous run of keys (node merges / splits)
				let a = rng.usize(movable.len());
				let len = rng.range(10, 120) as usize;
				let remove = rng.chance(1, 2);
				let tx: Vec<_> = movable[a..(a + len).min(movable.len())].iter().map(|i| (*i, if remove { None } else { Some(pick_len(&mut rng).min(900)) })).collect();
				trace.push(format!("commit {} (range {} of {} keys)", ver + 1, if remove { "removal" } else { "insertion" }, tx.len()));
				rep.count("range_transactions", 1);
				commit!(tx, vec![]);
			},
			40..=54 => {
				// point reads against the exact model
				for _ in 0..rng.range(1, 8) {
					let i = rng.usize(n);
					let k = &univ[i];
					let exp = mk.get(0, k);
					match db.get(0, k) {
						Ok(got) =>
							if got.as_ref() != exp {
								failure = Some((
									format!("failure=read_mismatch;got={};expected={}", if got.is_some() { "some" } else { "none" }, if exp.is_some() { "some" } else { "none" }),
									format!("get({}) = {:?} but the client's own last write is {:?}", short(k), got.as_ref().map(|v| short(v)), exp.map(|v| short(v))),
								));
								break
							},
						Err(e) => {
							failure = Some(("failure=read_error".into(), format!("get: {}", e)));
							break
						},
					}
					match db.get_size(0, k) {
						Ok(s) =>
							if s != exp.map(|v| v.len() as u32) {
								failure = Some(("failure=size_mismatch".into(), format!("get_size({}) = {:?}, expected {:?}", short(k), s, exp.map(|v| v.len()))));
								break
							},
						Err(e) => {
							failure = Some(("failure=read_error".into(), format!("get_size: {}", e)));
							break
						},
					}
					rep.evaluations += 2;
					rep.count("client_point_reads", 2);
				}
			},
			55..=94 => {
				// iterator calls of the client, cursor model exact
				if it.is_none() {
					match db.iter(0) {
						Ok(i) => {
							it = Some(i);
							positioned = false;
							cursor = Cursor::Start;
						},
						Err(e) => {
							failure = Some(("failure=iter_error".into(), format!("Db::iter: {}", e)));
							continue
						},
					}
				}
				let iter = it.as_mut().unwrap();
				for _ in 0..rng.range(1, 14) {
					let r = rng.below(100);
					let action = if !positioned { rng.below(3) } else if r < 10 { 0 } else if r < 14 { 1 } else if r < 18 { 2 } else if r < 62 { 3 } else { 4 };
					let res = match action {
						0 => {
							let mut k = univ[rng.usize(n)].clone();
							match rng.below(4) {
								0 => k.push(0),
								1 => {
									k.pop();
								},
								_ => {},
							}
							trace.push(format!("iter.seek({})", short(&k)));
							cursor = Cursor::Seeked(k.clone());
							positioned = true;
							iter.seek(&k)
						},
						1 => {
							trace.push("iter.seek_to_first()".into());
							cursor = Cursor::Seeked(vec![]);
							positioned = true;
							iter.seek_to_first()
						},
						2 => {
							trace.push("iter.seek_to_last()".into());
							cursor = Cursor::End;
							positioned = true;
							iter.seek_to_last()
						},
						_ => {
							let fwd = action == 3;
							if commits_since_iter > 0 {
								rep.count("client_iter_after_commit_while_open", 1);
								commits_since_iter = 0;
							}
							let before = cursor.clone();
							let expect = if fwd { cursor.next(&mk, 0) } else { cursor.prev(&mk, 0) };
							let got = if fwd { iter.next() } else { iter.prev() };
							rep.evaluations += 1;
							rep.count("client_iter_calls", 1);
							match got {
								Ok(g) => {
									trace.push(format!("iter.{}() at {:?} -> {}", if fwd { "next" } else { "prev" }, before, g.as_ref().map_or("None".into(), |(k, _)| short(k))));
									if g != expect {
										failure = Some((
											format!("failure=iterator_mismatch;cursor={};dir={}", before.kind(), if fwd { "next" } else { "prev" }),
											format!(
												"the only writer's own iterator: {} from {:?} returned {} but its ordered model gives {}",
												if fwd { "next" } else { "prev" },
												before,
												g.as_ref().map_or("None".to_string(), |(k, v)| format!("({}, {})", short(k), short(v))),
												expect.as_ref().map_or("None".to_string(), |(k, v)| format!("({}, {})", short(k), short(v))),
											),
										));
									}
									Ok(())
								},
								Err(e) => Err(e),
							}
						},
					};
					if let Err(e) = res {
						failure = Some(("failure=iter_error".into(), format!("iterator call failed: {}", e)));
					}
					if failure.is_some() {
						break
					}
				}
				if rng.chance(1, 30) {
					it = None;
				}
			},
			_ => {
				// let the workers catch up / or not
				std::thread::sleep(Duration::from_micros(rng.range(50, 3000)));
			},
		}
	}
	drop(it);
	stop.store(true, Ordering::SeqCst);
	let mut all_obs: Vec<Vec<Obs>> = vec![];
	for o in observers {
		match o.join() {
			Ok(Ok(v)) => all_obs.push(v),
			Ok(Err(e)) =>
				if failure.is_none() {
					failure = Some(("failure=iter_error;who=observer".into(), format!("an observer's iterator call failed: {}", e)));
				},
			Err(_) =>
				if failure.is_none() {
					let p = pv::scratch::take_all_panics().join(" | ");
					failure = Some((format!("failure=panic;who=observer;site={}", panic_site(&p)), format!("an observer thread panicked: {}", p)));
				},
		}
	}
	let (hits, delayed) = delays::take_hits();
	rep.count("yield_hits", hits.iter().sum());
	rep.count("yield_delays", delayed);
	delays::uninstall();
	let tail = |trace: &Vec<String>| J::strs(trace[trace.len().saturating_sub(40)..].iter().cloned());
	if let Some((sig, detail)) = failure {
		rep.violation(format!("scenario=C04;mode=threaded;{}", sig), detail, replay().set("trace_tail", tail(&trace)));
		// the handle is leaked: a failed history must not run the shutdown path
		std::mem::forget(db);
		return
	}
	// ---- offline judgement of the observers' steps
	let mut judged = 0u64;
	for (t, obs) in all_obs.iter().enumerate() {
		for (j, o) in obs.iter().enumerate() {
			judged += 1;
			// index range of the universe on the far side of the cursor
			// forward: candidates are keys >= / > bound; backward: <= / < bound
			let (from, to): (usize, usize) = match (&o.cursor, o.fwd) {
				(Cursor::Start, true) => (0, n),
				(Cursor::Start, false) => (0, 0),
				(Cursor::End, true) => (n, n),
				(Cursor::End, false) => (0, n),
				(Cursor::Seeked(k), true) => (univ.partition_point(|x| x < k), n),
				(Cursor::At(k), true) => (univ.partition_point(|x| x <= k), n),
				(Cursor::Seeked(k), false) => (0, univ.partition_point(|x| x <= k)),
				(Cursor::At(k), false) => (0, univ.partition_point(|x| x < k)),
			};
			let mut bad: Option<(String, String)> = None;
			let skipped: Box<dyn Iterator<Item = usize>> = match &o.got {
				Some(Err(text)) => {
					bad = Some(("failure=iterator_value_garbage".into(), text.clone()));
					Box::new(std::iter::empty())
				},
				Some(Ok((kidx, v))) => {
					let i = *kidx as usize;
					if i < from || i >= to {
						bad = Some((
							format!("failure=iterator_wrong_side;dir={}", if o.fwd { "next" } else { "prev" }),
							format!("{} from {:?} returned key {} which is not beyond the cursor", if o.fwd { "next" } else { "prev" }, o.cursor, short(&univ[i])),
						));
					} else {
						let h = &hist[i];
						let pos = h.iter().position(|(hv, p)| hv == v && *p);
						match pos {
							None => bad = Some(("failure=iterator_value_garbage".into(), format!("key {} returned with commit number {} which never wrote it", short(&univ[i]), v))),
							Some(p) => {
								let superseded_by = h.get(p + 1).map(|x| x.0);
								if *v > o.hi {
									bad = Some(("failure=iterator_value_from_the_future".into(), format!("key {}: commit {} had not started (started={})", short(&univ[i]), v, o.hi)));
								} else if superseded_by.map_or(false, |s| s <= o.lo) {
									bad = Some((
										"failure=iterator_stale_value".into(),
										format!(
											"{} from {:?} returned key {} with the value of commit {}, but commit {} (which {} it) had completed before the call began (completed={})",
											if o.fwd { "next" } else { "prev" },
											o.cursor,
											short(&univ[i]),
											v,
											superseded_by.unwrap(),
											if h[p + 1].1 { "replaced" } else { "removed" },
											o.lo
										),
									));
								}
								if *v > o.lo {
									rep.count("observer_steps_saw_concurrent_commit", 1);
								}
							},
						}
					}
					if o.fwd {
						Box::new(from..i.min(to))
					} else {
						Box::new((i + 1).max(from)..to)
					}
				},
				None => Box::new(from..to),
			};
			if bad.is_none() {
				for x in skipped {
					if !possibly_absent(&hist[x], o.lo, o.hi) {
						bad = Some((
							format!("failure=iterator_skipped_live_key;dir={};end={}", if o.fwd { "next" } else { "prev" }, o.got.is_none()),
							format!(
								"{} from {:?} returned {} although key {} lies in between and was present during the whole call (last write: commit {:?}; completed before the call {}, started after it {})",
								if o.fwd { "next" } else { "prev" },
								o.cursor,
								match &o.got {
									Some(Ok((i, v))) => format!("key {} (commit {})", short(&univ[*i as usize]), v),
									_ => "nothing".into(),
								},
								short(&univ[x]),
								hist[x].iter().rev().find(|(v, _)| *v <= o.hi),
								o.lo,
								o.hi
							),
						));
						break
					}
					if stable[x] {
						// never happens for a stable key (present from commit 1 on) unless lo == 0
					}
				}
			}
			if o.hi > o.lo {
				rep.count("observer_steps_nontrivial_window", 1);
			}
			if let Some((sig, detail)) = bad {
				let ctxt: Vec<String> = obs[j.saturating_sub(6)..=j].iter().map(|o| format!("{:?}", o)).collect();
				rep.violation(
					format!("scenario=C04;mode=threaded;who=observer;{}", sig),
					format!("observer {} step {}: {}", t, j, detail),
					replay().set("observer_steps_before", J::strs(ctxt.into_iter())),
				);
				std::mem::forget(db);
				return
			}
		}
	}
	rep.evaluations += judged;
	rep.count("observer_steps_judged", judged);
	rep.seen(format!("C04live:{}:{}:{}:{}", if dense { "dense" } else { "odd" }, always_flush, delay_profile, comp as u8));
	// ---- shutdown, reopen, everything there, in order, structurally sound
	let db = match Arc::try_unwrap(db) {
		Ok(d) => d,
		Err(_) => {
			rep.inconclusive("a handle clone outlived its thread");
			return
		},
	};
	drop(db);
	let mut o2 = opts.clone();
	o2.with_background_thread = false;
	o2.always_flush = false;
	let db = match Db::open(&o2) {
		Ok(d) => d,
		Err(e) => {
			rep.violation("scenario=C04;mode=threaded;failure=open_error", format!("reopen after the history: {}", e), replay());
			return
		},
	};
	let mut bad: Option<(String, String)> = None;
	for k in univ.iter() {
		let got = db.get(0, k).ok().flatten();
		if got.as_ref() != mk.get(0, k) {
			bad = Some(("failure=read_mismatch;phase=reopen".into(), format!("after the clean restart get({}) = {:?}, the model has {:?}", short(k), got.as_ref().map(|v| short(v)), mk.get(0, k).map(|v| short(v)))));
			break
		}
		rep.evaluations += 1;
	}
	if bad.is_none() {
		let mut it = db.iter(0).unwrap();
		let _ = it.seek_to_first();
		let mut fwd = vec![];
		while let Ok(Some(kv)) = it.next() {
			fwd.push(kv);
			if fwd.len() > n + 2 {
				break
			}
		}
		let exp: Vec<(Vec<u8>, Vec<u8>)> = mk.ordered(0).into_iter().map(|(k, v)| (k.clone(), v.clone())).collect();
		if fwd != exp {
			bad = Some(("failure=iteration_mismatch;phase=reopen;dir=next".into(), format!("forward iteration after the clean restart yields {} pairs, the model {}", fwd.len(), exp.len())));
		}
		let _ = it.seek_to_last();
		let mut bwd = vec![];
		while let Ok(Some(kv)) = it.prev() {
			bwd.push(kv);
			if bwd.len() > n + 2 {
				break
			}
		}
		bwd.reverse();
		if bad.is_none() && bwd != exp {
			bad = Some(("failure=iteration_mismatch;phase=reopen;dir=prev".into(), format!("backward iteration after the clean restart yields {} pairs, the model {}", bwd.len(), exp.len())));
		}
		rep.evaluations += 2 * exp.len() as u64;
		rep.count("final_full_iterations", 2);
	}
	if bad.is_none() {
		for (k, v) in &hmodel {
			if db.get(1, k).ok().flatten().as_ref() != Some(v) {
				bad = Some(("failure=read_mismatch;phase=reopen;col=hash".into(), format!("hash column key {} differs after the restart", short(k))));
				break
			}
		}
	}
	if bad.is_none() {
		let specs: Vec<pvfsck::ColSpec> = cfg
			.cols
			.iter()
			.map(|c| pvfsck::ColSpec {
				btree: c.btree_index,
				multitree: false,
				ref_counted: false,
				preimage: false,
				uniform: false,
				append_only: false,
				compression: match c.compression {
					CompressionType::NoCompression => 0,
					CompressionType::Lz4 => 1,
					CompressionType::Snappy => 2,
				},
			})
			.collect();
		let btree: Vec<_> = mk.ordered(0).into_iter().map(|(k, v)| (k.clone(), v.clone(), 1u32)).collect();
		let hash: Vec<_> = hmodel.iter().map(|(k, v)| (db.verif_hash_key(1, k), v.clone(), 1u32)).collect();
		drop(db);
		let r = pvfsck::check_dir(&dir.path.join("db"), &specs, &[pvfsck::Expect::Btree(btree), pvfsck::Expect::Hash(hash)]);
		rep.count("fsck_after_threaded_history", 1);
		if let Some(d) = r.stats.get("btree_depth") {
			rep.max("btree_depth", *d);
			if *d >= 2 {
				rep.count("tree_depth_ge2", 1);
			}
		}
		if !r.errors.is_empty() {
			let class = r.errors[0].split(':').next().unwrap_or("unknown").to_string();
			bad = Some((format!("failure=fsck;class={}", class), format!("after the threaded history and a clean restart the files are not structurally sound: {}", r.errors.iter().take(4).cloned().collect::<Vec<_>>().join(" | "))));
		}
	}
	if let Some((sig, detail)) = bad {
		rep.violation(format!("scenario=C04;mode=threaded;{}", sig), detail, replay().set("trace_tail", tail(&trace)));
		return
	}
	rep.count("threaded_histories", 1);
	if rep.samples.len() < 2 {
		rep.sample(
			J::obj()
				.set("case", J::s(desc.to_string()))
				.set("keys", J::i(n as u64))
				.set("commits", J::i(ver))
				.set("observer_steps", J::i(judged))
				.set("client_trace_tail", tail(&trace)),
		);
	}
}
