//! C18: at most one live handle per database directory (threads + processes).

use parity_db::{CompressionType, Db, Error, Operation};
use pv::{
	dbutil::{col, dir_hashes, DbCfg},
	json::J,
	scratch::{catch, panic_site, Scratch},
	Ctx, Report, Rng,
};
use std::{
	path::{Path, PathBuf},
	sync::atomic::{AtomicU64, Ordering},
	time::{Duration, Instant},
};

/// Shared (cross-process) counters in a MAP_SHARED file.
struct Shared {
	ptr: *mut AtomicU64,
}

unsafe impl Send for Shared {}
unsafe impl Sync for Shared {}

const LIVE: usize = 0;
const OPENING: usize = 1;
const OK: usize = 2;
const LOCKED: usize = 3;
const RACE: usize = 4;
const VIOL: usize = 5;
const XPROC: usize = 6;
const HOLDER_PID: usize = 7;
const HASH_CHECKS: usize = 8;
const ADMIN: usize = 9;
const MIGRATE: usize = 10;

impl Shared {
	fn open(p: &Path) -> Shared {
		use std::os::unix::io::AsRawFd;
		let f = std::fs::OpenOptions::new().read(true).write(true).create(true).open(p).expect("counter file");
		f.set_len(4096).expect("set_len");
		let ptr = unsafe { libc::mmap(std::ptr::null_mut(), 4096, libc::PROT_READ | libc::PROT_WRITE, libc::MAP_SHARED, f.as_raw_fd(), 0) };
		assert!(ptr != libc::MAP_FAILED);
		Shared { ptr: ptr as *mut AtomicU64 }
	}
	fn at(&self, i: usize) -> &AtomicU64 {
		unsafe { &*self.ptr.add(i) }
	}
}

fn cfg() -> DbCfg {
	let mut c = DbCfg::new(vec![
		col(false, false, false, false, CompressionType::NoCompression),
		col(true, false, false, false, CompressionType::NoCompression),
		pv::dbutil::multitree_col(false, false, false),
	]);
	c.background = true;
	c
}

/// One opener loop (used by threads and by child processes). Returns violation messages.
fn opener_loop(dir: &Path, sh: &Shared, loops: u64, seed: u64, who: &str) -> Vec<String> {
	let mut r = Rng::new(seed);
	let opts = cfg().options(dir);
	let mut out = vec![];
	let me = std::process::id() as u64;
	for _ in 0..loops {
		if sh.at(VIOL).load(Ordering::SeqCst) > 0 {
			// a violation was seen (two live handles may be writing the same files): wind down
			// without touching the database any more
			break
		}
		sh.at(OPENING).fetch_add(1, Ordering::SeqCst);
		// every opening mode takes part in the exclusion
		let res = match r.below(4) {
			0 => Db::open_read_only(&opts),
			1 => Db::open_or_create(&opts),
			_ => Db::open(&opts),
		};
		sh.at(OPENING).fetch_sub(1, Ordering::SeqCst);
		match res {
			Ok(db) => {
				// raised AFTER open returned, lowered BEFORE drop is called: never over-counts
				let before = sh.at(LIVE).fetch_add(1, Ordering::SeqCst);
				sh.at(HOLDER_PID).store(me, Ordering::SeqCst);
				sh.at(OK).fetch_add(1, Ordering::SeqCst);
				if before != 0 {
					sh.at(VIOL).fetch_add(1, Ordering::SeqCst);
					out.push(format!("{}: open returned Ok while {} other handle(s) were alive", who, before));
					// never use or shut down the second handle: two sets of workers on one directory
					// can block each other for good
					sh.at(LIVE).fetch_sub(1, Ordering::SeqCst);
					std::mem::forget(db);
					break
				}
				// idle: failed opens of others must not change any file
				let h0 = dir_hashes(dir);
				std::thread::sleep(Duration::from_micros(r.range(200, 6000)));
				if r.chance(1, 3) {
					// the administration entry points open the database too: with this handle alive
					// every one of them must be refused with the lock error and change nothing
					let mut o = cfg().options(dir);
					if r.chance(1, 2) {
						// options that already carry the database's salt (a caller that read the
						// metadata first)
						if let Ok(Some(m)) = parity_db::Options::load_metadata(dir) {
							o.salt = Some(m.salt);
						}
					}
					let migsrc = dir.parent().map(|p| p.join("migsrc"));
					let (what, res): (&str, parity_db::Result<()>) = match r.below(6) {
						5 if migsrc.as_ref().map_or(false, |p| p.join("metadata").exists()) => {
							// a migration INTO the live directory (first column re-compressed, the
							// others unchanged and therefore copied as files): refused, nothing copied
							let mut to = cfg().options(dir);
							to.columns[0].compression = CompressionType::Lz4;
							sh.at(MIGRATE).fetch_add(1, Ordering::SeqCst);
							("migrate(into the live directory)", parity_db::migrate(migsrc.as_ref().unwrap(), to, false, &[]))
						},
						0 => ("clear_column", parity_db::clear_column(dir, r.below(3) as u8)),
						1 => ("reset_column", Db::reset_column(&mut o, r.below(3) as u8, None)),
						2 => ("add_column", Db::add_column(&mut o, col(false, false, false, false, CompressionType::NoCompression))),
						3 => ("drop_last_column", Db::drop_last_column(&mut o)),
						_ => ("reset_column(new options)", Db::reset_column(&mut o, 0, Some(col(true, false, false, false, CompressionType::NoCompression)))),
					};
					sh.at(ADMIN).fetch_add(1, Ordering::SeqCst);
					match res {
						Err(Error::Locked(_)) => {},
						Ok(()) => {
							sh.at(VIOL).fetch_add(1, Ordering::SeqCst);
							out.push(format!("{}: {} succeeded while a handle was alive", who, what));
						},
						Err(e) => {
							sh.at(VIOL).fetch_add(1, Ordering::SeqCst);
							out.push(format!("{}: {} against a live handle failed with {} instead of a lock error", who, what, e));
						},
					}
				}
				let h1 = dir_hashes(dir);
				sh.at(HASH_CHECKS).fetch_add(1, Ordering::SeqCst);
				if h0 != h1 {
					sh.at(VIOL).fetch_add(1, Ordering::SeqCst);
					let diff: Vec<String> = h1.iter().filter(|x| !h0.contains(x)).map(|x| x.0.clone()).collect();
					out.push(format!("{}: files changed while the handle was idle and only refused opens happened: {:?}", who, diff));
				}
				sh.at(LIVE).fetch_sub(1, Ordering::SeqCst);
				if sh.at(VIOL).load(Ordering::SeqCst) > 0 {
					std::mem::forget(db);
					break
				}
				drop(db);
			},
			Err(Error::Locked(_)) => {
				sh.at(LOCKED).fetch_add(1, Ordering::SeqCst);
				if sh.at(OPENING).load(Ordering::SeqCst) > 0 && sh.at(LIVE).load(Ordering::SeqCst) == 0 {
					// somebody else was still inside open (recovery) when we were refused
					sh.at(RACE).fetch_add(1, Ordering::SeqCst);
				}
				let holder = sh.at(HOLDER_PID).load(Ordering::SeqCst);
				if holder != 0 && holder != me {
					sh.at(XPROC).fetch_add(1, Ordering::SeqCst);
				}
			},
			Err(e) => {
				sh.at(VIOL).fetch_add(1, Ordering::SeqCst);
				out.push(format!("{}: open failed with {} instead of a lock error", who, e));
			},
		}
		if r.chance(1, 3) {
			std::thread::sleep(Duration::from_micros(r.range(10, 800)));
		}
	}
	out
}

/// `pdbv-conc --c18-child <dir> <counter> <loops> <seed> <mode>`; mode `hold` = open once and
/// sleep until killed.
pub fn child_main(a: &[String]) -> ! {
	let dir = PathBuf::from(&a[0]);
	let sh = Shared::open(Path::new(&a[1]));
	let loops: u64 = a[2].parse().unwrap_or(10);
	let seed: u64 = a[3].parse().unwrap_or(1);
	if a.get(4).map(|s| s.as_str()) == Some("hold") {
		let opts = cfg().options(&dir);
		loop {
			match Db::open(&opts) {
				Ok(db) => {
					sh.at(LIVE).fetch_add(1, Ordering::SeqCst);
					sh.at(HOLDER_PID).store(std::process::id() as u64, Ordering::SeqCst);
					println!("HOLDING");
					// commit something so that there is work in flight when we get killed
					let _ = db.commit_changes(vec![(0u8, Operation::Set(b"held".to_vec(), vec![7; 100]))]);
					std::thread::sleep(Duration::from_secs(3600));
					drop(db);
				},
				Err(_) => std::thread::sleep(Duration::from_millis(1)),
			}
		}
	}
	if a.get(4).map(|s| s.as_str()) == Some("once") {
		match Db::open(&cfg().options(&dir)) {
			Ok(db) => {
				println!("ONCE-OK");
				drop(db);
			},
			Err(e) => println!("ONCE-ERR {}", e),
		}
		std::process::exit(0)
	}
	let v = opener_loop(&dir, &sh, loops, seed, &format!("child process {}", std::process::id()));
	for l in v {
		println!("VIOLATION {}", l);
	}
	std::process::exit(0)
}

pub fn run_case(ctx: &Ctx, rep: &mut Report, case_seed: u64, variant: u64) {
	let replay_pending = variant % 2 == 1;
	let desc = format!("C18 case_seed={} variant={} replay_pending={}", case_seed, variant, replay_pending);
	ctx.mark(&desc);
	let r = catch(|| case(ctx, rep, case_seed, variant, replay_pending, &desc));
	if let Err(p) = r {
		rep.violation(format!("scenario=C18;failure=panic;site={}", panic_site(&p)), format!("panic: {}", p), J::obj().set("case", J::s(desc)).set("case_seed", J::i(case_seed)).set("variant", J::i(variant)));
	}
}

fn case(ctx: &Ctx, rep: &mut Report, case_seed: u64, variant: u64, replay_pending: bool, desc: &str) {
	let mut rng = Rng::new(case_seed);
	let work = Scratch::new("c18");
	let dir = work.path.join("db");
	let counter = work.path.join("counter");
	// ---- build the database
	{
		let mut c = cfg();
		c.background = false;
		let db = Db::open_or_create(&c.options(&dir)).expect("create");
		for i in 0..40u32 {
			db.commit_changes(vec![(0u8, Operation::Set(format!("k{}", i).into_bytes(), vec![i as u8; 50])), (1u8, Operation::Set(format!("b{}", i).into_bytes(), vec![i as u8; 20]))]).unwrap();
		}
		db.commit_changes(vec![(
			2u8,
			Operation::InsertTree(
				b"root-of-the-only-tree".to_vec(),
				parity_db::NewNode { data: vec![1, 2, 3], children: vec![parity_db::NodeRef::New(parity_db::NewNode { data: vec![4, 5], children: vec![] })] },
			),
		)])
		.unwrap();
		if replay_pending {
			// leave a long log to replay: many records logged + synced, nothing applied
			for i in 0..ctx.tier.pick(1500u32, 6000) {
				db.commit_changes(vec![(0u8, Operation::Set(format!("p{}", i).into_bytes(), rng.bytes_in(20, 300)))]).unwrap();
				db.process_commits().unwrap();
			}
			db.flush_logs().unwrap();
			let img = work.path.join("img");
			pv::scratch::copy_dir(&dir, &img).unwrap();
			std::mem::forget(db);
			std::fs::remove_dir_all(&dir).unwrap();
			std::fs::rename(&img, &dir).unwrap();
		} else {
			drop(db);
		}
	}
	// ---- a second database of the same layout: source of migrations attempted INTO the live directory
	{
		let mut c = cfg();
		c.background = false;
		let src = work.path.join("migsrc");
		let db = Db::open_or_create(&c.options(&src)).expect("create migration source");
		for i in 0..30u32 {
			db.commit_changes(vec![(0u8, Operation::Set(format!("m{}", i).into_bytes(), vec![0xEE; 60])), (1u8, Operation::Set(format!("mb{}", i).into_bytes(), vec![0xDD; 25]))]).unwrap();
		}
		drop(db);
	}
	// ---- creation race and spinning retries (own directories, before the long loops)
	{
		let mut msgs = vec![];
		creation_race(ctx, rep, &work.path, &mut rng, &mut msgs);
		if msgs.is_empty() {
			spinning_retries(ctx, rep, &work.path, &mut rng, &mut msgs);
		}
		if msgs.is_empty() {
			lock_file_missing(ctx, rep, &work.path, &mut rng, &mut msgs);
		}
		if !msgs.is_empty() {
			report_c18(rep, &msgs, desc, case_seed, variant);
			return
		}
	}
	let sh = std::sync::Arc::new(Shared::open(&counter));
	let exe = std::env::current_exe().unwrap();
	let loops = ctx.tier.pick(60u64, 300);
	// ---- child processes
	let mut children = vec![];
	for p in 0..2u64 {
		let ch = std::process::Command::new(&exe)
			.arg("--c18-child")
			.arg(&dir)
			.arg(&counter)
			.arg(loops.to_string())
			.arg(((case_seed >> 8) + p).to_string())
			.arg("loop")
			.stdout(std::process::Stdio::piped())
			.stderr(std::process::Stdio::null())
			.spawn()
			.expect("spawn child");
		children.push(ch);
	}
	// ---- threads
	let mut threads = vec![];
	for t in 0..3u64 {
		let dir = dir.clone();
		let sh = sh.clone();
		let seed = case_seed ^ (t + 11);
		threads.push(std::thread::spawn(move || opener_loop(&dir, &sh, loops, seed, &format!("thread {}", t))));
	}
	let mut msgs = vec![];
	for t in threads {
		msgs.extend(t.join().expect("thread"));
		ctx.progress();
	}
	for mut ch in children {
		let out = ch.wait_with_output().expect("child output");
		for l in String::from_utf8_lossy(&out.stdout).lines() {
			if let Some(m) = l.strip_prefix("VIOLATION ") {
				msgs.push(m.to_string());
			}
		}
		if !out.status.success() {
			msgs.push(format!("child process ended abnormally: {:?}", out.status));
		}
		ctx.progress();
	}
	if !msgs.is_empty() || sh.at(VIOL).load(Ordering::SeqCst) > 0 {
		if msgs.is_empty() {
			msgs.push("a child process saw a violation: open returned Ok while another handle was alive (other handle)".into());
		}
		report_c18(rep, &msgs, desc, case_seed, variant);
		return
	}
	// ---- a holder process killed with SIGKILL: the directory must be openable again
	let mut holder = std::process::Command::new(&exe)
		.arg("--c18-child")
		.arg(&dir)
		.arg(&counter)
		.arg("1")
		.arg("1")
		.arg("hold")
		.stdout(std::process::Stdio::piped())
		.stderr(std::process::Stdio::null())
		.spawn()
		.expect("spawn holder");
	{
		use std::io::{BufRead, BufReader};
		let so = holder.stdout.take().unwrap();
		let mut line = String::new();
		let _ = BufReader::new(so).read_line(&mut line);
	}
	let opts = cfg().options(&dir);
	// while it holds: refused
	match Db::open(&opts) {
		Err(Error::Locked(_)) => {
			rep.count("cross_process_locked", 1);
		},
		Ok(_) => msgs.push("open succeeded while another process held the handle".into()),
		Err(e) => msgs.push(format!("open against a holder process failed with {} instead of a lock error", e)),
	}
	std::thread::sleep(Duration::from_millis(rng.range(0, 20)));
	unsafe {
		libc::kill(holder.id() as i32, libc::SIGKILL);
	}
	let _ = holder.wait();
	sh.at(LIVE).store(0, Ordering::SeqCst);
	let t0 = Instant::now();
	let mut reopened = false;
	while t0.elapsed() < Duration::from_secs(20) {
		match Db::open(&opts) {
			Ok(db) => {
				reopened = true;
				// content is still there
				if db.get(0, b"k1").ok().flatten() != Some(vec![1u8; 50]) {
					msgs.push("content damaged after the holder process was killed".into());
				}
				drop(db);
				break
			},
			Err(Error::Locked(_)) => std::thread::sleep(Duration::from_millis(2)),
			Err(e) => {
				msgs.push(format!("open after the holder was killed failed with {}", e));
				break
			},
		}
	}
	if reopened {
		rep.count("reopen_after_kill", 1);
	} else if msgs.is_empty() {
		msgs.push("directory could not be opened within 20 s after the holder process was killed".into());
	}
	// ---- a tree reader that outlives its handle must not keep the directory locked
	if msgs.is_empty() {
		match Db::open(&opts) {
			Ok(db) => {
				let reader = db.get_tree(2, b"root-of-the-only-tree").ok().flatten();
				if reader.is_none() {
					msgs.push("the tree inserted at the beginning is not readable".into());
				}
				drop(db);
				// in this process
				match Db::open(&opts) {
					Ok(d2) => drop(d2),
					Err(e) => msgs.push(format!("open after drop failed with {} while only a tree reader of the dropped handle was still around", e)),
				}
				// and from another process
				let out = std::process::Command::new(&exe)
					.arg("--c18-child")
					.arg(&dir)
					.arg(&counter)
					.arg("1")
					.arg("7")
					.arg("once")
					.stdout(std::process::Stdio::piped())
					.stderr(std::process::Stdio::null())
					.output()
					.expect("spawn child");
				let so = String::from_utf8_lossy(&out.stdout).to_string();
				if !so.contains("ONCE-OK") {
					msgs.push(format!("open from another process after drop failed ({}) while only a tree reader of the dropped handle was still around", so.trim()));
				}
				rep.count("reopen_with_lingering_tree_reader", 1);
				rep.evaluations += 2;
				drop(reader);
			},
			Err(e) => msgs.push(format!("final open failed with {}", e)),
		}
	}
	// ---- the handle stays alive until `drop` has RETURNED: a drop that is kept busy (its last
	// queued commit dereferences a tree whose reader the client still holds locked, so the
	// shutdown keeps postponing it) must keep every opener out for as long as it runs
	if msgs.is_empty() {
		match Db::open(&opts) {
			Ok(db) => {
				let key = b"tree-kept-busy".to_vec();
				let ins = db.commit_changes(vec![(
					2u8,
					Operation::InsertTree(key.clone(), parity_db::NewNode { data: vec![9, 9], children: vec![parity_db::NodeRef::New(parity_db::NewNode { data: vec![8], children: vec![] })] }),
				)]);
				let reader = db.get_tree(2, &key).ok().flatten();
				match (ins, reader) {
					(Ok(()), Some(reader)) => {
						let guard = reader.read();
						let _ = db.commit_changes(vec![(2u8, Operation::DereferenceTree(key.clone()))]);
						let dropped = std::sync::Arc::new(std::sync::atomic::AtomicBool::new(false));
						let d2 = dropped.clone();
						let t = std::thread::spawn(move || {
							drop(db);
							d2.store(true, Ordering::SeqCst);
						});
						let t0 = Instant::now();
						let mut attempts = 0u64;
						while t0.elapsed() < Duration::from_millis(400) {
							if dropped.load(Ordering::SeqCst) {
								break
							}
							let r = match attempts % 3 {
								0 => Db::open(&opts),
								1 => Db::open_read_only(&opts),
								_ => Db::open_or_create(&opts),
							};
							attempts += 1;
							match r {
								Err(Error::Locked(_)) => {},
								Ok(d) => {
									if !dropped.load(Ordering::SeqCst) {
										msgs.push(format!("open returned Ok while 1 other handle(s) were alive: its drop had been running for {:?} and had not returned", t0.elapsed()));
									}
									drop(d);
									break
								},
								Err(e) => {
									msgs.push(format!("open during a running drop failed with {} instead of a lock error", e));
									break
								},
							}
							std::thread::sleep(Duration::from_millis(2));
						}
						let busy = !dropped.load(Ordering::SeqCst);
						drop(guard);
						let _ = t.join();
						rep.count("opens_during_a_running_drop", attempts);
						if busy {
							rep.count("drops_kept_busy", 1);
						}
						rep.evaluations += attempts;
						drop(reader);
					},
					_ => msgs.push("could not set up the busy-drop scenario (tree insertion / reader)".into()),
				}
			},
			Err(e) => msgs.push(format!("open before the busy-drop scenario failed with {}", e)),
		}
	}
	let ok = sh.at(OK).load(Ordering::SeqCst);
	let locked = sh.at(LOCKED).load(Ordering::SeqCst);
	rep.count("open_attempts", ok + locked + 2);
	rep.count("open_ok", ok);
	rep.count("open_locked", locked);
	rep.count("cross_process_locked", sh.at(XPROC).load(Ordering::SeqCst));
	rep.count("race_with_recovery", sh.at(RACE).load(Ordering::SeqCst));
	rep.count("idle_hash_checks", sh.at(HASH_CHECKS).load(Ordering::SeqCst));
	rep.count("admin_calls_against_live_handle", sh.at(ADMIN).load(Ordering::SeqCst));
	rep.count("migrations_into_live_directory", sh.at(MIGRATE).load(Ordering::SeqCst));
	rep.evaluations += sh.at(ADMIN).load(Ordering::SeqCst);
	rep.evaluations += ok + locked + 2;
	rep.seen(format!("replay{}|ok{}|locked{}|race{}", replay_pending as u8, (ok > 0) as u8, (locked > 0) as u8, (sh.at(RACE).load(Ordering::SeqCst) > 0) as u8));
	rep.seen(format!("xproc{}|kill_reopen{}", (sh.at(XPROC).load(Ordering::SeqCst) > 0) as u8, reopened as u8));
	if rep.samples.len() < 2 {
		rep.sample(J::obj().set("case", J::s(desc.to_string())).set("open_ok", J::i(ok)).set("open_locked", J::i(locked)).set("refused_while_other_process_held", J::i(sh.at(XPROC).load(Ordering::SeqCst))));
	}
	report_c18(rep, &msgs, desc, case_seed, variant);
}

fn report_c18(rep: &mut Report, msgs: &[String], desc: &str, case_seed: u64, variant: u64) {
	if let Some(m) = msgs.first() {
		let kind = if m.contains("other handle") {
			"two_live_handles"
		} else if m.contains("succeeded while a handle was alive") {
			"admin_call_not_refused"
		} else if m.contains("tree reader of the dropped handle") {
			"still_locked_after_drop"
		} else if m.contains("files changed") {
			"refused_open_changed_files"
		} else if m.contains("creation race") {
			"creation_race_damaged_database"
		} else if m.contains("instead of a lock error") {
			"wrong_error"
		} else {
			"other"
		};
		rep.violation(
			format!("scenario=C18;failure={}", kind),
			msgs.iter().take(4).cloned().collect::<Vec<_>>().join(" | "),
			J::obj().set("case", J::s(desc.to_string())).set("case_seed", J::i(case_seed)).set("variant", J::i(variant)),
		);
	}
}

/// Several threads call `open_or_create` on a directory that holds no database yet, at the same
/// moment. Exactly one handle may come alive; every other attempt fails with the lock error and
/// changes nothing: what the winner commits must be there after its drop and a reopen.
fn creation_race(ctx: &Ctx, rep: &mut Report, work: &Path, rng: &mut Rng, msgs: &mut Vec<String>) {
	for round in 0..ctx.tier.pick(6u64, 30) {
		let dir = work.join(format!("fresh-{}", round));
		let _ = std::fs::remove_dir_all(&dir);
		if rng.chance(1, 2) {
			std::fs::create_dir_all(&dir).unwrap();
		}
		let n = 4usize;
		let barrier = std::sync::Arc::new(std::sync::Barrier::new(n));
		let live = std::sync::Arc::new(AtomicU64::new(0));
		let release = std::sync::Arc::new(std::sync::atomic::AtomicBool::new(false));
		let mut hs = vec![];
		for t in 0..n {
			let dir = dir.clone();
			let barrier = barrier.clone();
			let live = live.clone();
			let release = release.clone();
			hs.push(std::thread::spawn(move || -> (Option<String>, bool) {
				let mut c = cfg();
				c.background = t % 2 == 0;
				let opts = c.options(&dir);
				barrier.wait();
				match Db::open_or_create(&opts) {
					Ok(db) => {
						let before = live.fetch_add(1, Ordering::SeqCst);
						if before != 0 {
							std::mem::forget(db);
							return (Some("creation race: open_or_create returned Ok while another handle was alive (other handle)".to_string()), false)
						}
						let r = db.commit_changes(vec![(0u8, Operation::Set(b"made by the winner".to_vec(), vec![0x5A; 77]))]);
						// stay alive until every other attempt has returned
						while !release.load(Ordering::SeqCst) {
							std::thread::sleep(Duration::from_micros(200));
						}
						live.fetch_sub(1, Ordering::SeqCst);
						drop(db);
						(r.err().map(|e| format!("creation race: the winner's commit failed: {}", e)), true)
					},
					Err(Error::Locked(_)) => (None, false),
					Err(e) => (Some(format!("creation race: open_or_create failed with {} instead of a lock error", e)), false),
				}
			}));
		}
		// the losers return at once; the winner waits for `release`
		let t0 = Instant::now();
		while hs.iter().filter(|h| h.is_finished()).count() < n - 1 && t0.elapsed() < Duration::from_secs(20) {
			std::thread::sleep(Duration::from_micros(300));
		}
		release.store(true, Ordering::SeqCst);
		let mut winners = 0;
		for h in hs {
			let (m, won) = h.join().expect("racer");
			if let Some(m) = m {
				msgs.push(m);
			}
			if won {
				winners += 1;
			}
		}
		ctx.progress();
		rep.count("creation_races", 1);
		rep.count("open_attempts", n as u64);
		rep.evaluations += n as u64;
		if !msgs.is_empty() {
			return
		}
		if winners != 1 {
			msgs.push(format!("creation race: {} of {} simultaneous open_or_create calls succeeded", winners, n));
			return
		}
		let mut c = cfg();
		c.background = false;
		match Db::open(&c.options(&dir)) {
			Ok(db) => {
				let got = db.get(0, b"made by the winner").ok().flatten();
				if got.as_deref() != Some(&[0x5Au8; 77][..]) {
					msgs.push("creation race: the value committed by the only live handle is gone after its drop and a reopen (a refused open_or_create changed the database)".to_string());
				}
				drop(db);
			},
			Err(e) => msgs.push(format!("creation race: the database cannot be reopened afterwards: {}", e)),
		}
		rep.evaluations += 1;
		if !msgs.is_empty() {
			return
		}
	}
}

/// One thread opens, holds briefly and drops, again and again, while others retry `open` in a
/// tight loop (a client waiting for the previous owner to wind down): an attempt that lands in
/// the middle of a drop must either fail or be the one new owner.
fn spinning_retries(ctx: &Ctx, rep: &mut Report, work: &Path, rng: &mut Rng, msgs: &mut Vec<String>) {
	let dir = work.join("spin");
	{
		let mut c = cfg();
		c.background = false;
		let db = Db::open_or_create(&c.options(&dir)).expect("create");
		db.commit_changes(vec![(0u8, Operation::Set(b"k".to_vec(), vec![1; 30]))]).unwrap();
		drop(db);
	}
	let live = std::sync::Arc::new(AtomicU64::new(0));
	let stop = std::sync::Arc::new(std::sync::atomic::AtomicBool::new(false));
	let viol: std::sync::Arc<std::sync::Mutex<Vec<String>>> = Default::default();
	let attempts = std::sync::Arc::new(AtomicU64::new(0));
	let takeovers = std::sync::Arc::new(AtomicU64::new(0));
	let mut hs = vec![];
	for t in 0..4u64 {
		let dir = dir.clone();
		let live = live.clone();
		let stop = stop.clone();
		let viol = viol.clone();
		let attempts = attempts.clone();
		let takeovers = takeovers.clone();
		let mut r = rng.derive(900 + t);
		hs.push(std::thread::spawn(move || {
			let mut c = cfg();
			c.background = t % 2 == 1;
			let opts = c.options(&dir);
			while !stop.load(Ordering::SeqCst) {
				attempts.fetch_add(1, Ordering::Relaxed);
				let res = if r.chance(1, 4) { Db::open_read_only(&opts) } else { Db::open(&opts) };
				match res {
					Ok(db) => {
						let before = live.fetch_add(1, Ordering::SeqCst);
						if before != 0 {
							viol.lock().unwrap().push(format!("spinning retry: open returned Ok while {} other handle(s) were alive (other handle)", before));
							stop.store(true, Ordering::SeqCst);
							std::mem::forget(db);
							return
						}
						takeovers.fetch_add(1, Ordering::Relaxed);
						std::thread::sleep(Duration::from_micros(r.range(100, 1500)));
						live.fetch_sub(1, Ordering::SeqCst);
						if stop.load(Ordering::SeqCst) {
							std::mem::forget(db);
							return
						}
						drop(db);
					},
					Err(Error::Locked(_)) => {},
					Err(e) => {
						viol.lock().unwrap().push(format!("spinning retry: open failed with {} instead of a lock error", e));
						stop.store(true, Ordering::SeqCst);
						return
					},
				}
			}
		}));
	}
	let t0 = Instant::now();
	let run = Duration::from_millis(ctx.tier.pick(1500, 6000));
	while t0.elapsed() < run && !stop.load(Ordering::SeqCst) {
		std::thread::sleep(Duration::from_millis(20));
		ctx.progress();
	}
	stop.store(true, Ordering::SeqCst);
	for h in hs {
		let _ = h.join();
	}
	rep.count("spinning_open_attempts", attempts.load(Ordering::Relaxed));
	rep.count("open_attempts", attempts.load(Ordering::Relaxed));
	rep.count("spinning_takeovers", takeovers.load(Ordering::Relaxed));
	rep.evaluations += attempts.load(Ordering::Relaxed);
	msgs.extend(viol.lock().unwrap().drain(..));
}

/// A database directory whose `lock` file is not there (restored from a backup that skipped it):
/// whichever way the first handle is opened, every other attempt is refused while it lives.
fn lock_file_missing(ctx: &Ctx, rep: &mut Report, work: &Path, rng: &mut Rng, msgs: &mut Vec<String>) {
	let dir = work.join("nolock");
	{
		let mut c = cfg();
		c.background = false;
		let db = Db::open_or_create(&c.options(&dir)).expect("create");
		db.commit_changes(vec![(0u8, Operation::Set(b"k".to_vec(), vec![1; 30]))]).unwrap();
		drop(db);
	}
	let open_as = |mode: u64| -> parity_db::Result<Db> {
		let mut c = cfg();
		c.background = false;
		let o = c.options(&dir);
		match mode {
			0 => Db::open_read_only(&o),
			1 => Db::open(&o),
			_ => Db::open_or_create(&o),
		}
	};
	for first in 0..3u64 {
		for second in 0..3u64 {
			let _ = std::fs::remove_file(dir.join("lock"));
			let holder = match open_as(first) {
				Ok(d) => d,
				Err(e) => {
					msgs.push(format!("lock file missing: the first open (mode {}) failed with {} instead of a lock error", first, e));
					return
				},
			};
			rep.count("open_attempts", 2);
			rep.evaluations += 1;
			match open_as(second) {
				Err(Error::Locked(_)) => rep.count("open_locked", 1),
				Ok(second_handle) => {
					msgs.push(format!(
						"lock file missing: with a handle alive (opened {}) a second open ({}) returned Ok (other handle)",
						["read-only", "plain", "create"][first as usize],
						["read-only", "plain", "create"][second as usize]
					));
					std::mem::forget(second_handle);
					std::mem::forget(holder);
					return
				},
				Err(e) => {
					msgs.push(format!("lock file missing: the second open failed with {} instead of a lock error", e));
					drop(holder);
					return
				},
			}
			drop(holder);
			ctx.progress();
		}
	}
	let _ = rng.below(2);
	rep.count("lock_file_missing_rounds", 1);
}
