//! Thread-safe errno injection by libc interposition (threaded half of C16).
//!
//! The symbols below are linked instead of libc's, so every `write` / `read` / `fsync` /
//! `fdatasync` / `msync` / `ftruncate` / `unlink` the library makes through std / memmap2 passes
//! here - in whatever thread makes it (log, flush, commit and cleanup workers, the dropping
//! thread). While a case has armed the injector, every call of an enabled class that names a
//! database file (log*, table_*, index_*, refcount_* under the case's directory) from the n-th
//! such call on fails with EIO, persistently ("from then on"), until the case disarms it.
//! Nothing else is altered or recorded: disabled, the functions are plain pass-throughs.

#![allow(clippy::missing_safety_doc)]

use std::{
	cell::Cell,
	ffi::CStr,
	os::raw::{c_char, c_int, c_long, c_void},
	sync::atomic::{AtomicBool, AtomicPtr, AtomicU64, Ordering},
};

pub const CLASS_WRITE: usize = 0;
pub const CLASS_READ: usize = 1;
pub const CLASS_SYNC: usize = 2;
pub const CLASS_MSYNC: usize = 3;
pub const CLASS_TRUNCATE: usize = 4;
pub const CLASS_UNLINK: usize = 5;
pub const NUM_CLASSES: usize = 6;
pub const CLASS_NAMES: [&str; NUM_CLASSES] = ["write", "read", "fsync_fdatasync", "msync", "ftruncate", "unlink"];

static ENABLED: AtomicBool = AtomicBool::new(false);
/// directory prefix (with trailing '/') of the database under test; leaked per case
static ROOT: AtomicPtr<Vec<u8>> = AtomicPtr::new(std::ptr::null_mut());
static CLASS_MASK: AtomicU64 = AtomicU64::new(0);
/// only calls on write-ahead log files count (and fail)
static ONLY_LOGS: AtomicBool = AtomicBool::new(false);
static CALLS: AtomicU64 = AtomicU64::new(0);
static FAIL_FROM: AtomicU64 = AtomicU64::new(u64::MAX);
static DELIVERED: [AtomicU64; NUM_CLASSES] = [const { AtomicU64::new(0) }; NUM_CLASSES];
static SEEN: [AtomicU64; NUM_CLASSES] = [const { AtomicU64::new(0) }; NUM_CLASSES];

thread_local! {
	static IN_HOOK: Cell<bool> = const { Cell::new(false) };
}

/// Start counting calls of the classes in `mask` on files of `root`; nothing fails yet.
pub fn start(root: &std::path::Path, mask: u64) {
	let mut p = root.to_str().expect("utf8 path").as_bytes().to_vec();
	p.push(b'/');
	let old = ROOT.swap(Box::into_raw(Box::new(p)), Ordering::SeqCst);
	let _ = old; // leaked on purpose: another thread may still be comparing against it
	CLASS_MASK.store(mask, Ordering::SeqCst);
	ONLY_LOGS.store(false, Ordering::SeqCst);
	CALLS.store(0, Ordering::SeqCst);
	FAIL_FROM.store(u64::MAX, Ordering::SeqCst);
	for c in 0..NUM_CLASSES {
		DELIVERED[c].store(0, Ordering::SeqCst);
		SEEN[c].store(0, Ordering::SeqCst);
	}
	ENABLED.store(true, Ordering::SeqCst);
}

/// Restrict counting and failing to calls on log files.
pub fn only_logs(v: bool) {
	ONLY_LOGS.store(v, Ordering::SeqCst);
}

/// Every matching call from the `n`-th counted one on fails.
pub fn fail_after(n: u64) {
	FAIL_FROM.store(CALLS.load(Ordering::SeqCst).saturating_add(n), Ordering::SeqCst);
}

/// The fault goes away (calls are still counted).
pub fn heal() {
	FAIL_FROM.store(u64::MAX, Ordering::SeqCst);
}

pub fn stop() {
	ENABLED.store(false, Ordering::SeqCst);
	FAIL_FROM.store(u64::MAX, Ordering::SeqCst);
}

pub fn delivered() -> u64 {
	DELIVERED.iter().map(|d| d.load(Ordering::SeqCst)).sum()
}

pub fn delivered_by_class() -> Vec<u64> {
	DELIVERED.iter().map(|d| d.load(Ordering::SeqCst)).collect()
}

pub fn seen_by_class() -> Vec<u64> {
	SEEN.iter().map(|d| d.load(Ordering::SeqCst)).collect()
}

fn is_db_file(name: &[u8]) -> bool {
	let is_log = name.starts_with(b"log") && name.len() > 3 && name[3..].iter().all(|c| c.is_ascii_digit());
	if ONLY_LOGS.load(Ordering::Relaxed) {
		return is_log
	}
	is_log ||
		name.starts_with(b"table_") ||
		name.starts_with(b"index_") ||
		name.starts_with(b"refcount_")
}

fn path_matches(path: &[u8]) -> bool {
	let root = ROOT.load(Ordering::SeqCst);
	if root.is_null() {
		return false
	}
	let root: &Vec<u8> = unsafe { &*root };
	let path = path.strip_suffix(b" (deleted)").unwrap_or(path);
	match path.strip_prefix(root.as_slice()) {
		Some(name) => !name.contains(&b'/') && is_db_file(name),
		None => false,
	}
}

fn fd_matches(fd: c_int) -> bool {
	let mut link = [0u8; 40];
	let s = format_fd(&mut link, fd);
	let mut buf = [0u8; 512];
	let n = unsafe { libc::syscall(libc::SYS_readlink, s.as_ptr(), buf.as_mut_ptr(), buf.len()) };
	if n <= 0 {
		return false
	}
	path_matches(&buf[..n as usize])
}

/// "/proc/self/fd/<fd>\0" without allocating.
fn format_fd(buf: &mut [u8; 40], fd: c_int) -> &[u8] {
	let prefix = b"/proc/self/fd/";
	buf[..prefix.len()].copy_from_slice(prefix);
	let mut digits = [0u8; 12];
	let mut n = 0;
	let mut v = fd.max(0) as u32;
	loop {
		digits[n] = b'0' + (v % 10) as u8;
		n += 1;
		v /= 10;
		if v == 0 {
			break
		}
	}
	let mut pos = prefix.len();
	for i in (0..n).rev() {
		buf[pos] = digits[i];
		pos += 1;
	}
	buf[pos] = 0;
	&buf[..=pos]
}

/// Does this call (already known to name a database file) fail?
fn decide(class: usize) -> bool {
	if CLASS_MASK.load(Ordering::Relaxed) & (1 << class) == 0 {
		return false
	}
	SEEN[class].fetch_add(1, Ordering::Relaxed);
	let n = CALLS.fetch_add(1, Ordering::SeqCst);
	if n >= FAIL_FROM.load(Ordering::SeqCst) {
		DELIVERED[class].fetch_add(1, Ordering::SeqCst);
		true
	} else {
		false
	}
}

fn gate<T>(f: impl FnOnce() -> T, default: T) -> T {
	if !ENABLED.load(Ordering::Relaxed) {
		return default
	}
	IN_HOOK.with(|h| {
		if h.get() {
			return default
		}
		h.set(true);
		let r = f();
		h.set(false);
		r
	})
}

unsafe fn set_errno(e: c_int) {
	*libc::__errno_location() = e;
}

#[no_mangle]
pub unsafe extern "C" fn fdatasync(fd: c_int) -> c_int {
	if gate(|| fd_matches(fd) && decide(CLASS_SYNC), false) {
		set_errno(libc::EIO);
		return -1
	}
	libc::syscall(libc::SYS_fdatasync, fd) as c_int
}

#[no_mangle]
pub unsafe extern "C" fn fsync(fd: c_int) -> c_int {
	if gate(|| fd_matches(fd) && decide(CLASS_SYNC), false) {
		set_errno(libc::EIO);
		return -1
	}
	libc::syscall(libc::SYS_fsync, fd) as c_int
}

/// Is `addr` inside a mapping of a database file?
fn mapping_matches(addr: usize) -> bool {
	let maps = match std::fs::read("/proc/self/maps") {
		Ok(m) => m,
		Err(_) => return false,
	};
	for l in maps.split(|b| *b == b'\n') {
		let dash = match l.iter().position(|b| *b == b'-') {
			Some(d) => d,
			None => continue,
		};
		let sp = match l.iter().position(|b| *b == b' ') {
			Some(d) => d,
			None => continue,
		};
		if dash > sp {
			continue
		}
		let parse = |b: &[u8]| usize::from_str_radix(std::str::from_utf8(b).unwrap_or("x"), 16).ok();
		if let (Some(lo), Some(hi)) = (parse(&l[..dash]), parse(&l[dash + 1..sp])) {
			if addr >= lo && addr < hi {
				return match l.iter().position(|b| *b == b'/') {
					Some(at) => path_matches(&l[at..]),
					None => false,
				}
			}
		}
	}
	false
}

#[no_mangle]
pub unsafe extern "C" fn msync(addr: *mut c_void, len: usize, flags: c_int) -> c_int {
	if gate(|| CLASS_MASK.load(Ordering::Relaxed) & (1 << CLASS_MSYNC) != 0 && mapping_matches(addr as usize) && decide(CLASS_MSYNC), false) {
		set_errno(libc::EIO);
		return -1
	}
	libc::syscall(libc::SYS_msync, addr, len, flags) as c_int
}

#[no_mangle]
pub unsafe extern "C" fn ftruncate64(fd: c_int, len: i64) -> c_int {
	if gate(|| fd_matches(fd) && decide(CLASS_TRUNCATE), false) {
		set_errno(libc::EIO);
		return -1
	}
	libc::syscall(libc::SYS_ftruncate, fd, len) as c_int
}

#[no_mangle]
pub unsafe extern "C" fn ftruncate(fd: c_int, len: c_long) -> c_int {
	ftruncate64(fd, len as i64)
}

#[no_mangle]
pub unsafe extern "C" fn unlink(path: *const c_char) -> c_int {
	if gate(|| path_matches(CStr::from_ptr(path).to_bytes()) && decide(CLASS_UNLINK), false) {
		set_errno(libc::EIO);
		return -1
	}
	libc::syscall(libc::SYS_unlink, path) as c_int
}

#[no_mangle]
pub unsafe extern "C" fn write(fd: c_int, buf: *const c_void, n: usize) -> isize {
	if fd > 2 && gate(|| fd_matches(fd) && decide(CLASS_WRITE), false) {
		set_errno(libc::EIO);
		return -1
	}
	libc::syscall(libc::SYS_write, fd, buf, n) as isize
}

#[no_mangle]
pub unsafe extern "C" fn read(fd: c_int, buf: *mut c_void, n: usize) -> isize {
	if fd > 2 && gate(|| fd_matches(fd) && decide(CLASS_READ), false) {
		set_errno(libc::EIO);
		return -1
	}
	libc::syscall(libc::SYS_read, fd, buf, n) as isize
}
