//! Thread-safe errno injection by libc interposition (threaded half of C16).
//!
//! The symbols below are linked instead of libc's, so every `write` / `read` / `fsync` /
//! `fdatasync` / `msync` / `ftruncate` / `unlink` the library makes through std / memmap2 passes
//! here - in whatever thread makes it (log, flush, commit and cleanup workers, the dropping
//! thread). While a case has armed the injector, every call of an enabled class that names a
//! database file (log*, table_*, index_*, refcount_* under the case's directory) from the n-th
//! such call on fails with EIO, persistently ("from then on"), until the case disarms it.
//! Nothing else is altered or recorded: disabled, the functions are plain pass-throughs.

#![allow(clippy::missing_safety_doc)]

use std::{
	cell::Cell,
	ffi::CStr,
	os::raw::{c_char, c_int, c_long, c_void},
	sync::atomic::{AtomicBool, AtomicPtr, AtomicU64, Ordering},
};

pub const CLASS_WRITE: usize = 0;
pub const CLASS_READ: usize = 1;
pub const CLASS_SYNC: usize = 2;
pub const CLASS_MSYNC: usize = 3;
pub const CLASS_TRUNCATE: usize = 4;
pub const CLASS_UNLINK: usize = 5;
pub const NUM_CLASSES: usize = 6;
pub const CLASS_NAMES: [&str; NUM_CLASSES] = ["write", "read", "fsync_fdatasync", "msync", "ftruncate", "unlink"];

static ENABLED: AtomicBool = AtomicBool::new(false);
/// directory prefix (with trailing '/') of the database under test; leaked per case
static ROOT: AtomicPtr<Vec<u8>> = AtomicPtr::new(std::ptr::null_mut());
static CLASS_MASK: AtomicU64 = AtomicU64::new(0);
/// only calls on write-ahead log files count (and fail)
static ONLY_LOGS: AtomicBool = AtomicBool::new(false);
static CALLS: AtomicU64 = AtomicU64::new(0);
static FAIL_FROM: AtomicU64 = AtomicU64::new(u64::MAX);
static DELIVERED: [AtomicU64; NUM_CLASSES] = [const { AtomicU64::new(0) }; NUM_CLASSES];
static SEEN: [AtomicU64; NUM_CLASSES] = [const { AtomicU64::new(0) }; NUM_CLASSES];

thread_local! {
	static IN_HOOK: Cell<bool> = const { Cell::new(false) };
	/// trace mode: table-like files this thread msynced since its last log truncation, and the
	/// database files that were mapped when it issued the first of those msyncs
	static CYCLE: std::cell::RefCell<(std::collections::BTreeSet<String>, Option<std::collections::BTreeSet<String>>)> = const { std::cell::RefCell::new((std::collections::BTreeSet::new(), None)) };
}

/// trace mode (C12, threaded): ordering rules over the observed calls, no failures injected
static TRACE: AtomicBool = AtomicBool::new(false);
/// microseconds every `ftruncate` of a table file (the `set_len` inside `TableFile::grow`, made
/// under the table's exclusive map lock) is held before it is forwarded
static GROW_DELAY_US: AtomicU64 = AtomicU64::new(0);
static RULE_VIOLATIONS: std::sync::Mutex<Vec<String>> = std::sync::Mutex::new(Vec::new());
static LOG_UNSYNCED: std::sync::Mutex<std::collections::BTreeMap<String, u64>> = std::sync::Mutex::new(std::collections::BTreeMap::new());
/// rule R1 only (used together with failure injection, where an aborted flush makes R4 meaningless)
static R4_OFF: AtomicBool = AtomicBool::new(false);
pub static R1_CHECKS: AtomicU64 = AtomicU64::new(0);
pub static R4_CHECKS: AtomicU64 = AtomicU64::new(0);
pub static R4_FILES: AtomicU64 = AtomicU64::new(0);
pub static GROW_DELAYS: AtomicU64 = AtomicU64::new(0);

/// Observe (never fail) the calls on the database files of `root` and evaluate
///  R1: a log file is read (for enactment) only while none of its appended bytes are unsynced;
///  R4: when a thread truncates a log file, every table / index / ref-count file that was mapped
///      when this thread began its flush (its first msync since its previous log truncation) and
///      is still mapped has been msynced by this thread in between.
pub fn start_trace(root: &std::path::Path, grow_delay_us: u64) {
	start(root, 0);
	RULE_VIOLATIONS.lock().unwrap().clear();
	LOG_UNSYNCED.lock().unwrap().clear();
	R1_CHECKS.store(0, Ordering::SeqCst);
	R4_CHECKS.store(0, Ordering::SeqCst);
	R4_FILES.store(0, Ordering::SeqCst);
	GROW_DELAYS.store(0, Ordering::SeqCst);
	GROW_DELAY_US.store(grow_delay_us, Ordering::SeqCst);
	TRACE.store(true, Ordering::SeqCst);
}

pub fn stop_trace() -> Vec<String> {
	TRACE.store(false, Ordering::SeqCst);
	GROW_DELAY_US.store(0, Ordering::SeqCst);
	stop();
	std::mem::take(&mut *RULE_VIOLATIONS.lock().unwrap())
}

/// Evaluate rule R1 on the observed calls while failures are being injected (C16, threaded): a
/// log file whose sync FAILED still has unsynced bytes and must not be read for enactment.
/// Call after `start`; `take_rule_violations` collects.
pub fn trace_r1(on: bool) {
	if on {
		RULE_VIOLATIONS.lock().unwrap().clear();
		LOG_UNSYNCED.lock().unwrap().clear();
		R1_CHECKS.store(0, Ordering::SeqCst);
	}
	R4_OFF.store(on, Ordering::SeqCst);
	TRACE.store(on, Ordering::SeqCst);
}

pub fn take_rule_violations() -> Vec<String> {
	std::mem::take(&mut *RULE_VIOLATIONS.lock().unwrap())
}

fn rule_violation(s: String) {
	let mut v = RULE_VIOLATIONS.lock().unwrap();
	if v.len() < 10 {
		v.push(s);
	}
}

/// File name (inside the database directory) behind `fd`, if it is a database file.
fn fd_name(fd: c_int) -> Option<String> {
	let mut link = [0u8; 40];
	let s = format_fd(&mut link, fd);
	let mut buf = [0u8; 512];
	let n = unsafe { libc::syscall(libc::SYS_readlink, s.as_ptr(), buf.as_mut_ptr(), buf.len()) };
	if n <= 0 {
		return None
	}
	name_of(&buf[..n as usize])
}

fn name_of(path: &[u8]) -> Option<String> {
	let root = ROOT.load(Ordering::SeqCst);
	if root.is_null() {
		return None
	}
	let root: &Vec<u8> = unsafe { &*root };
	let path = path.strip_suffix(b" (deleted)").unwrap_or(path);
	let name = path.strip_prefix(root.as_slice())?;
	if name.contains(&b'/') || !is_db_file(name) {
		return None
	}
	Some(String::from_utf8_lossy(name).to_string())
}

fn is_log_name(n: &str) -> bool {
	n.starts_with("log")
}

/// Database files currently mapped into the process, and the one containing `addr` (if any).
fn mapped_files(addr: usize) -> (std::collections::BTreeSet<String>, Option<String>) {
	let (all, hit) = mapped_files_off(addr);
	(all, hit.map(|h| h.0))
}

/// Also the file offset `addr` corresponds to.
fn mapped_files_off(addr: usize) -> (std::collections::BTreeSet<String>, Option<(String, u64)>) {
	let mut all = std::collections::BTreeSet::new();
	let mut hit = None;
	let maps = match std::fs::read("/proc/self/maps") {
		Ok(m) => m,
		Err(_) => return (all, hit),
	};
	for l in maps.split(|b| *b == b'\n') {
		let at = match l.iter().position(|b| *b == b'/') {
			Some(a) => a,
			None => continue,
		};
		let name = match name_of(&l[at..]) {
			Some(n) => n,
			None => continue,
		};
		let dash = l.iter().position(|b| *b == b'-').unwrap_or(0);
		let sp = l.iter().position(|b| *b == b' ').unwrap_or(0);
		let parse = |b: &[u8]| usize::from_str_radix(std::str::from_utf8(b).unwrap_or("x"), 16).ok();
		if dash < sp {
			if let (Some(lo), Some(hi)) = (parse(&l[..dash]), parse(&l[dash + 1..sp])) {
				if addr >= lo && addr < hi {
					// fields: range perms offset dev inode path
					let off = l.split(|b| *b == b' ').filter(|x| !x.is_empty()).nth(2).and_then(|x| u64::from_str_radix(std::str::from_utf8(x).unwrap_or("x"), 16).ok()).unwrap_or(0);
					hit = Some((name.clone(), off + (addr - lo) as u64));
				}
			}
		}
		all.insert(name);
	}
	(all, hit)
}

fn trace_on() -> bool {
	TRACE.load(Ordering::Relaxed)
}

fn trace_msync(addr: usize, len: usize) {
	let (all, hit) = mapped_files_off(addr);
	if let Some((name, off)) = &hit {
		if crate::shadow::active() {
			crate::shadow::synced_range(name, *off, len as u64);
		}
	}
	if let Some((name, _)) = hit {
		CYCLE.with(|c| {
			let mut c = c.borrow_mut();
			if c.1.is_none() {
				c.1 = Some(all);
			}
			c.0.insert(name);
		});
	}
}

fn trace_log_truncate(log: &str) {
	let started = CYCLE.with(|c| c.borrow_mut().1.take());
	let synced = CYCLE.with(|c| std::mem::take(&mut c.borrow_mut().0));
	if let Some(at_start) = started.filter(|_| !R4_OFF.load(Ordering::Relaxed)) {
		let (now, _) = mapped_files(0);
		R4_CHECKS.fetch_add(1, Ordering::Relaxed);
		for f in at_start.intersection(&now) {
			R4_FILES.fetch_add(1, Ordering::Relaxed);
			if !synced.contains(f) {
				rule_violation(format!(
					"R4 data-before-log-reuse: {} is truncated by a thread that flushed {} table file(s) since its previous log truncation but not {} (mapped before the flush began and still mapped)",
					log,
					synced.len(),
					f
				));
			}
		}
	}
	LOG_UNSYNCED.lock().unwrap().remove(log);
}

/// Start counting calls of the classes in `mask` on files of `root`; nothing fails yet.
pub fn start(root: &std::path::Path, mask: u64) {
	let mut p = root.to_str().expect("utf8 path").as_bytes().to_vec();
	p.push(b'/');
	let old = ROOT.swap(Box::into_raw(Box::new(p)), Ordering::SeqCst);
	let _ = old; // leaked on purpose: another thread may still be comparing against it
	CLASS_MASK.store(mask, Ordering::SeqCst);
	ONLY_LOGS.store(false, Ordering::SeqCst);
	CALLS.store(0, Ordering::SeqCst);
	FAIL_FROM.store(u64::MAX, Ordering::SeqCst);
	for c in 0..NUM_CLASSES {
		DELIVERED[c].store(0, Ordering::SeqCst);
		SEEN[c].store(0, Ordering::SeqCst);
	}
	ENABLED.store(true, Ordering::SeqCst);
}

/// Restrict counting and failing to calls on log files.
pub fn only_logs(v: bool) {
	ONLY_LOGS.store(v, Ordering::SeqCst);
}

/// Every matching call from the `n`-th counted one on fails.
pub fn fail_after(n: u64) {
	FAIL_FROM.store(CALLS.load(Ordering::SeqCst).saturating_add(n), Ordering::SeqCst);
}

/// The fault goes away (calls are still counted).
pub fn heal() {
	FAIL_FROM.store(u64::MAX, Ordering::SeqCst);
}

pub fn stop() {
	ENABLED.store(false, Ordering::SeqCst);
	FAIL_FROM.store(u64::MAX, Ordering::SeqCst);
}

pub fn delivered() -> u64 {
	DELIVERED.iter().map(|d| d.load(Ordering::SeqCst)).sum()
}

pub fn delivered_by_class() -> Vec<u64> {
	DELIVERED.iter().map(|d| d.load(Ordering::SeqCst)).collect()
}

pub fn seen_by_class() -> Vec<u64> {
	SEEN.iter().map(|d| d.load(Ordering::SeqCst)).collect()
}

fn is_db_file(name: &[u8]) -> bool {
	let is_log = name.starts_with(b"log") && name.len() > 3 && name[3..].iter().all(|c| c.is_ascii_digit());
	if ONLY_LOGS.load(Ordering::Relaxed) {
		return is_log
	}
	is_log ||
		name.starts_with(b"table_") ||
		name.starts_with(b"index_") ||
		name.starts_with(b"refcount_")
}

fn path_matches(path: &[u8]) -> bool {
	let root = ROOT.load(Ordering::SeqCst);
	if root.is_null() {
		return false
	}
	let root: &Vec<u8> = unsafe { &*root };
	let path = path.strip_suffix(b" (deleted)").unwrap_or(path);
	match path.strip_prefix(root.as_slice()) {
		Some(name) => !name.contains(&b'/') && is_db_file(name),
		None => false,
	}
}

fn fd_matches(fd: c_int) -> bool {
	let mut link = [0u8; 40];
	let s = format_fd(&mut link, fd);
	let mut buf = [0u8; 512];
	let n = unsafe { libc::syscall(libc::SYS_readlink, s.as_ptr(), buf.as_mut_ptr(), buf.len()) };
	if n <= 0 {
		return false
	}
	path_matches(&buf[..n as usize])
}

/// "/proc/self/fd/<fd>\0" without allocating.
fn format_fd(buf: &mut [u8; 40], fd: c_int) -> &[u8] {
	let prefix = b"/proc/self/fd/";
	buf[..prefix.len()].copy_from_slice(prefix);
	let mut digits = [0u8; 12];
	let mut n = 0;
	let mut v = fd.max(0) as u32;
	loop {
		digits[n] = b'0' + (v % 10) as u8;
		n += 1;
		v /= 10;
		if v == 0 {
			break
		}
	}
	let mut pos = prefix.len();
	for i in (0..n).rev() {
		buf[pos] = digits[i];
		pos += 1;
	}
	buf[pos] = 0;
	&buf[..=pos]
}

/// Does this call (already known to name a database file) fail?
fn decide(class: usize) -> bool {
	if CLASS_MASK.load(Ordering::Relaxed) & (1 << class) == 0 {
		return false
	}
	SEEN[class].fetch_add(1, Ordering::Relaxed);
	let n = CALLS.fetch_add(1, Ordering::SeqCst);
	if n >= FAIL_FROM.load(Ordering::SeqCst) {
		DELIVERED[class].fetch_add(1, Ordering::SeqCst);
		true
	} else {
		false
	}
}

/// Run harness code whose own file traffic must not be traced (or failed).
pub fn quiet<T>(f: impl FnOnce() -> T) -> T {
	IN_HOOK.with(|h| {
		let was = h.replace(true);
		let r = f();
		h.set(was);
		r
	})
}

fn gate<T>(f: impl FnOnce() -> T, default: T) -> T {
	if !ENABLED.load(Ordering::Relaxed) {
		return default
	}
	IN_HOOK.with(|h| {
		if h.get() {
			return default
		}
		h.set(true);
		let r = f();
		h.set(false);
		r
	})
}

unsafe fn set_errno(e: c_int) {
	*libc::__errno_location() = e;
}

#[no_mangle]
pub unsafe extern "C" fn fdatasync(fd: c_int) -> c_int {
	if gate(|| fd_matches(fd) && decide(CLASS_SYNC), false) {
		set_errno(libc::EIO);
		return -1
	}
	let r = libc::syscall(libc::SYS_fdatasync, fd) as c_int;
	if r == 0 && trace_on() {
		gate(
			|| {
				if let Some(n) = fd_name(fd) {
					if crate::shadow::active() {
						crate::shadow::synced_file(&n);
					}
					if is_log_name(&n) {
						LOG_UNSYNCED.lock().unwrap().insert(n, 0);
					}
				}
			},
			(),
		);
	}
	r
}

#[no_mangle]
pub unsafe extern "C" fn fsync(fd: c_int) -> c_int {
	if gate(|| fd_matches(fd) && decide(CLASS_SYNC), false) {
		set_errno(libc::EIO);
		return -1
	}
	let r = libc::syscall(libc::SYS_fsync, fd) as c_int;
	if r == 0 && trace_on() {
		gate(
			|| {
				if let Some(n) = fd_name(fd) {
					if crate::shadow::active() {
						crate::shadow::synced_file(&n);
					}
					if is_log_name(&n) {
						LOG_UNSYNCED.lock().unwrap().insert(n, 0);
					}
				}
			},
			(),
		);
	}
	r
}

/// Is `addr` inside a mapping of a database file?
fn mapping_matches(addr: usize) -> bool {
	let maps = match std::fs::read("/proc/self/maps") {
		Ok(m) => m,
		Err(_) => return false,
	};
	for l in maps.split(|b| *b == b'\n') {
		let dash = match l.iter().position(|b| *b == b'-') {
			Some(d) => d,
			None => continue,
		};
		let sp = match l.iter().position(|b| *b == b' ') {
			Some(d) => d,
			None => continue,
		};
		if dash > sp {
			continue
		}
		let parse = |b: &[u8]| usize::from_str_radix(std::str::from_utf8(b).unwrap_or("x"), 16).ok();
		if let (Some(lo), Some(hi)) = (parse(&l[..dash]), parse(&l[dash + 1..sp])) {
			if addr >= lo && addr < hi {
				return match l.iter().position(|b| *b == b'/') {
					Some(at) => path_matches(&l[at..]),
					None => false,
				}
			}
		}
	}
	false
}

#[no_mangle]
pub unsafe extern "C" fn msync(addr: *mut c_void, len: usize, flags: c_int) -> c_int {
	if gate(|| CLASS_MASK.load(Ordering::Relaxed) & (1 << CLASS_MSYNC) != 0 && mapping_matches(addr as usize) && decide(CLASS_MSYNC), false) {
		set_errno(libc::EIO);
		return -1
	}
	let r = libc::syscall(libc::SYS_msync, addr, len, flags) as c_int;
	if r == 0 && trace_on() {
		gate(|| trace_msync(addr as usize, len), ());
	}
	r
}

#[no_mangle]
pub unsafe extern "C" fn ftruncate64(fd: c_int, len: i64) -> c_int {
	if gate(|| fd_matches(fd) && decide(CLASS_TRUNCATE), false) {
		set_errno(libc::EIO);
		return -1
	}
	let mut truncated_log: Option<String> = None;
	if trace_on() {
		gate(
			|| {
				if let Some(n) = fd_name(fd) {
					if is_log_name(&n) {
						if len == 0 {
							trace_log_truncate(&n);
							truncated_log = Some(n);
						}
					} else if n.starts_with("table_") {
						let us = GROW_DELAY_US.load(Ordering::Relaxed);
						if us > 0 {
							GROW_DELAYS.fetch_add(1, Ordering::Relaxed);
							std::thread::sleep(std::time::Duration::from_micros(us));
						}
					}
				}
			},
			(),
		);
	}
	let r = libc::syscall(libc::SYS_ftruncate, fd, len) as c_int;
	if r == 0 {
		if let Some(n) = truncated_log {
			if crate::shadow::active() {
				gate(|| crate::shadow::truncated_log(&n), ());
			}
		}
	}
	r
}

#[no_mangle]
pub unsafe extern "C" fn ftruncate(fd: c_int, len: c_long) -> c_int {
	ftruncate64(fd, len as i64)
}

#[no_mangle]
pub unsafe extern "C" fn unlink(path: *const c_char) -> c_int {
	if gate(|| path_matches(CStr::from_ptr(path).to_bytes()) && decide(CLASS_UNLINK), false) {
		set_errno(libc::EIO);
		return -1
	}
	let r = libc::syscall(libc::SYS_unlink, path) as c_int;
	if r == 0 && trace_on() && crate::shadow::active() {
		// (a nested call made by the shadow code itself is stopped by the gate)
		gate(
			|| {
				if let Some(n) = name_of(CStr::from_ptr(path).to_bytes()) {
					crate::shadow::unlinked(&n);
				}
			},
			(),
		);
	}
	r
}

#[no_mangle]
pub unsafe extern "C" fn write(fd: c_int, buf: *const c_void, n: usize) -> isize {
	if fd > 2 && gate(|| fd_matches(fd) && decide(CLASS_WRITE), false) {
		set_errno(libc::EIO);
		return -1
	}
	let r = libc::syscall(libc::SYS_write, fd, buf, n) as isize;
	if r > 0 && fd > 2 && trace_on() {
		gate(
			|| {
				if let Some(name) = fd_name(fd) {
					if is_log_name(&name) {
						*LOG_UNSYNCED.lock().unwrap().entry(name).or_insert(0) += r as u64;
					}
				}
			},
			(),
		);
	}
	r
}

#[no_mangle]
pub unsafe extern "C" fn read(fd: c_int, buf: *mut c_void, n: usize) -> isize {
	if fd > 2 && gate(|| fd_matches(fd) && decide(CLASS_READ), false) {
		set_errno(libc::EIO);
		return -1
	}
	if fd > 2 && trace_on() {
		gate(
			|| {
				if let Some(name) = fd_name(fd) {
					if is_log_name(&name) {
						R1_CHECKS.fetch_add(1, Ordering::Relaxed);
						let unsynced = LOG_UNSYNCED.lock().unwrap().get(&name).copied().unwrap_or(0);
						if unsynced > 0 {
							rule_violation(format!("R1 log-synced-before-apply: {} is read for enactment while {} appended bytes were never synced", name, unsynced));
						}
					}
				}
			},
			(),
		);
	}
	libc::syscall(libc::SYS_read, fd, buf, n) as isize
}
