//! C13: damaged / stale write-ahead logs.

use crate::{
	child::{self, run_child, Outcome},
	history::{log_sizes, Act, Recorded},
	oracle,
};
use parity_db::Db;
use pv::{
	dbutil::{self, Step},
	json::J,
	scratch::Scratch,
	Ctx, Report, Rng, Tier,
};
use std::{
	collections::BTreeMap,
	path::{Path, PathBuf},
	time::Duration,
};

/// One WAL record as observed from file growth during the re-run.
#[derive(Clone, Debug)]
pub struct Rec {
	pub file: String,
	pub start: u64,
	pub end: u64,
	/// commits fully logged before this record
	pub commits_before: usize,
	pub is_commit: bool,
}

/// Build the base image in a child (the handle is leaked: nothing is applied at drop) and
/// return the record map.
fn build_base(rec: &Recorded, dir: &Path, base: &Path, stale: &Path) -> Result<(Vec<Rec>, usize), String> {
	let opts = rec.cfg.options(dir);
	let mut db = Some(Db::open_or_create(&opts).map_err(|e| e.to_string())?);
	let mut records: Vec<Rec> = vec![];
	let mut sizes: BTreeMap<String, u64> = BTreeMap::new();
	let mut logged = 0usize;
	let mut commits = 0usize;
	let mut stale_saved = false;
	for a in rec.acts.iter() {
		let d = db.as_ref().unwrap();
		let before = d.verif_status();
		match a {
			Act::Commit(tx) => {
				d.commit_changes(tx.iter().map(|o| o.to_db()).collect::<Vec<_>>()).map_err(|e| e.to_string())?;
				commits += 1;
			},
			Act::Step(s) => {
				dbutil::do_step(d, *s).map_err(|e| e.to_string())?;
				let after = d.verif_status();
				let now = log_sizes(dir);
				// a log file that shrank (or vanished) was cleaned and possibly recycled: its old records are gone
				for (n, old) in &sizes {
					if now.get(n).copied().unwrap_or(0) < *old {
						records.retain(|r| &r.file != n);
					}
				}
				if matches!(s, Step::ProcessCommits | Step::ProcessReindex) && after.next_record_id > before.next_record_id {
					let is_commit = *s == Step::ProcessCommits && after.queued_commits + 1 == before.queued_commits;
					for (n, sz) in &now {
						let old = sizes.get(n).copied().unwrap_or(0);
						let old = if *sz < old { 0 } else { old };
						if *sz > old {
							records.push(Rec { file: n.clone(), start: old, end: *sz, commits_before: logged, is_commit });
						}
					}
					if is_commit {
						logged += 1;
					}
				}
				// files that were truncated / recycled start again at 0
				sizes = now;
				// keep one complete, already applied log of an earlier generation for the stale-log mutation
				if !stale_saved && *s == Step::FlushLogs && logged >= 2 {
					if let Some((n, _)) = sizes.iter().find(|(_, s)| **s > 0) {
						let _ = std::fs::copy(dir.join(n), stale);
						stale_saved = true;
					}
				}
			},
			Act::Nested(..) => return Err("nested schedules are not generated for log-mutation histories".into()),
			Act::Restart => {
				dbutil::make_drop_legal(d).map_err(|e| e.to_string())?;
				drop(db.take());
				db = Some(Db::open(&opts).map_err(|e| e.to_string())?);
				records.clear();
				// a clean restart logs and applies everything that was queued
				logged = commits;
				sizes = log_sizes(dir);
			},
		}
	}
	// only records still present in the files matter
	let now = log_sizes(dir);
	records.retain(|r| now.get(&r.file).copied().unwrap_or(0) >= r.end);
	pv::scratch::copy_dir(dir, base).map_err(|e| e.to_string())?;
	if let Some(d) = db.take() {
		std::mem::forget(d);
	}
	Ok((records, logged))
}

#[derive(Clone, Debug)]
enum Mutation {
	Truncate(String, u64),
	BitFlip(String, u64, u8),
	Overwrite(String, u64, Vec<u8>),
	/// zero-filled trailer (checksum) of a record plus one flipped bit in its body
	ZeroTrailerAndFlip(String, u64, u64, u8),
	Append(String, Vec<u8>),
	Duplicate(String),
	Swap(String, String),
	Delete(String),
	ExtraFile(Vec<u8>),
	Stale,
}

impl Mutation {
	fn class(&self) -> &'static str {
		match self {
			Mutation::Truncate(..) => "mut_truncate",
			Mutation::BitFlip(..) | Mutation::Overwrite(..) | Mutation::ZeroTrailerAndFlip(..) => "mut_bitflip",
			Mutation::Append(..) => "mut_append",
			_ => "mut_file_level",
		}
	}
	fn show(&self) -> String {
		match self {
			Mutation::Truncate(f, x) => format!("truncate {} at {}", f, x),
			Mutation::BitFlip(f, x, b) => format!("flip bit {} of byte {} in {}", b, x, f),
			Mutation::Overwrite(f, x, d) => format!("overwrite {} bytes at {} in {} with {:02x}..", d.len(), x, f, d.first().copied().unwrap_or(0)),
			Mutation::ZeroTrailerAndFlip(f, end, x, b) => format!("zero the 4 checksum bytes before {} and flip bit {} of byte {} in {}", end, b, x, f),
			Mutation::Append(f, d) => format!("append {} bytes to {}", d.len(), f),
			Mutation::Duplicate(f) => format!("duplicate {} under a new name", f),
			Mutation::Swap(a, b) => format!("swap the names of {} and {}", a, b),
			Mutation::Delete(f) => format!("delete {}", f),
			Mutation::ExtraFile(d) => format!("add a {}-byte log file", d.len()),
			Mutation::Stale => "add a complete log of an earlier generation".to_string(),
		}
	}
}

/// One action of a log record as laid out in the file (DESIGN appendix A).
struct Action {
	offset: usize,
	code: u8,
	len: usize,
}

/// Parse the actions of the record occupying `data[start..end]`
/// (`[01][id u64] actions* [04][crc u32]`). Stops silently at anything unexpected.
fn parse_actions(data: &[u8], start: usize, end: usize) -> Vec<Action> {
	let mut out = vec![];
	if end > data.len() || start + 9 + 5 > end || data[start] != 1 {
		return out
	}
	let stop = end - 5;
	let mut p = start + 9;
	let u64_at = |p: usize| -> u64 { u64::from_le_bytes(data[p..p + 8].try_into().unwrap()) };
	while p < stop {
		let code = data[p];
		let len = match code {
			2 | 6 => {
				if p + 19 > stop {
					break
				}
				let mask = u64_at(p + 11);
				19 + mask.count_ones() as usize * if code == 2 { 8 } else { 16 }
			},
			3 => {
				if p + 13 > stop {
					break
				}
				let slot = u64_at(p + 3);
				let body = if slot == 0 {
					16
				} else {
					match (data[p + 11], data[p + 12]) {
						(0xff, 0xff) => 10,
						(0xfd, 0xff) | (0xfe, 0xff) | (0xfd, 0x7f) => 4096,
						(lo, hi) => 2 + (u16::from_le_bytes([lo, hi]) & 0x7fff) as usize,
					}
				};
				11 + body
			},
			5 | 7 => 3,
			_ => break,
		};
		if p + len > stop {
			break
		}
		out.push(Action { offset: p, code, len });
		p += len;
	}
	out
}

fn free_log_name(dir: &Path) -> String {
	let used: Vec<String> = dbutil::list_files(dir).into_iter().map(|f| f.0).collect();
	for i in 0..10_000 {
		let n = format!("log{}", i + 20);
		if !used.contains(&n) {
			return n
		}
	}
	"log9999".into()
}

/// Returns false when the mutation did not change any byte (e.g. zero-filling zeros).
fn apply(m: &Mutation, img: &Path, stale: &Path) -> std::io::Result<bool> {
	let changed = apply_inner(m, img, stale)?;
	Ok(changed)
}

thread_local! {
	/// offset of the first byte an Overwrite really changed
	static FIRST_CHANGED: std::cell::Cell<Option<u64>> = const { std::cell::Cell::new(None) };
}

fn apply_inner(m: &Mutation, img: &Path, stale: &Path) -> std::io::Result<bool> {
	FIRST_CHANGED.with(|c| c.set(None));
	match m {
		Mutation::Truncate(f, x) => {
			let fh = std::fs::OpenOptions::new().write(true).open(img.join(f))?;
			fh.set_len(*x)?;
			Ok(true)
		},
		Mutation::BitFlip(f, x, b) => {
			let mut d = std::fs::read(img.join(f))?;
			d[*x as usize] ^= 1 << b;
			std::fs::write(img.join(f), d)?;
			Ok(true)
		},
		Mutation::Overwrite(f, x, data) => {
			let mut d = std::fs::read(img.join(f))?;
			let before = d.clone();
			for (i, b) in data.iter().enumerate() {
				if (*x as usize + i) < d.len() {
					d[*x as usize + i] = *b;
				}
			}
			let changed = d != before;
			if let Some(i) = d.iter().zip(before.iter()).position(|(a, b)| a != b) {
				FIRST_CHANGED.with(|c| c.set(Some(i as u64)));
			}
			std::fs::write(img.join(f), d)?;
			Ok(changed)
		},
		Mutation::ZeroTrailerAndFlip(f, end, x, b) => {
			let mut d = std::fs::read(img.join(f))?;
			let e = *end as usize;
			if e >= 4 && e <= d.len() {
				for i in e - 4..e {
					d[i] = 0;
				}
			}
			if (*x as usize) < d.len() {
				d[*x as usize] ^= 1 << b;
			}
			std::fs::write(img.join(f), d)?;
			Ok(true)
		},
		Mutation::Append(f, data) => {
			let mut d = std::fs::read(img.join(f))?;
			d.extend_from_slice(data);
			std::fs::write(img.join(f), d)?;
			Ok(true)
		},
		Mutation::Duplicate(f) => std::fs::copy(img.join(f), img.join(free_log_name(img))).map(|_| true),
		Mutation::Swap(a, b) => {
			let t = img.join("swap.tmp");
			std::fs::rename(img.join(a), &t)?;
			std::fs::rename(img.join(b), img.join(a))?;
			std::fs::rename(&t, img.join(b))?;
			Ok(true)
		},
		Mutation::Delete(f) => std::fs::remove_file(img.join(f)).map(|_| true),
		Mutation::ExtraFile(d) => std::fs::write(img.join(free_log_name(img)), d).map(|_| true),
		Mutation::Stale => std::fs::copy(stale, img.join(free_log_name(img))).map(|_| true),
	}
}

#[allow(clippy::too_many_arguments)]
pub fn run(ctx: &Ctx, rep: &mut Report, rec: &Recorded, work: &Scratch, rng: &mut Rng, desc: &str, case_seed: u64, variant: u64) {
	let dir = work.path.join("run");
	let base = work.path.join("base");
	let stale = work.path.join("stale.log");
	// base image + record map, in a child (the handle must be leaked)
	let res = work.path.join("records.json");
	let out = run_child(&work.path, "base", Duration::from_secs(60), || {
		match build_base(rec, &dir, &base, &stale) {
			Ok((records, logged)) => {
				let arr: Vec<J> = records
					.iter()
					.map(|r| {
						J::obj()
							.set("file", J::s(r.file.clone()))
							.set("start", J::i(r.start))
							.set("end", J::i(r.end))
							.set("commits_before", J::i(r.commits_before as u64))
							.set("is_commit", J::Bool(r.is_commit))
					})
					.collect();
				J::obj().set("records", J::Arr(arr)).set("logged", J::i(logged as u64))
			},
			Err(e) => J::obj().set("error", J::s(e)),
		}
	});
	let _ = res;
	let j = match out {
		Outcome::Done(j) => j,
		Outcome::Died(how, ph) => {
			rep.inconclusive(format!("base image child died ({}) in [{}]", how, ph));
			return
		},
		Outcome::Timeout(ph) => {
			rep.inconclusive(format!("base image child timed out in [{}]", ph));
			return
		},
	};
	if let Some(e) = j.get("error").and_then(|x| x.as_str()) {
		rep.inconclusive(format!("could not build the base image: {}", e));
		return
	}
	if let Some(p) = j.get("panic").and_then(|x| x.as_str()) {
		rep.violation(format!("scenario=C13;failure=panic;site={}", pv::scratch::panic_site(p)), format!("panic while building the base image: {}", p), J::obj().set("case_seed", J::i(case_seed)).set("variant", J::i(variant)));
		return
	}
	let records: Vec<Rec> = j
		.get("records")
		.and_then(|x| x.as_arr())
		.map(|a| {
			a.iter()
				.map(|r| Rec {
					file: r.get("file").and_then(|x| x.as_str()).unwrap_or("").to_string(),
					start: r.get("start").and_then(|x| x.as_u64()).unwrap_or(0),
					end: r.get("end").and_then(|x| x.as_u64()).unwrap_or(0),
					commits_before: r.get("commits_before").and_then(|x| x.as_u64()).unwrap_or(0) as usize,
					is_commit: r.get("is_commit").and_then(|x| x.as_bool()).unwrap_or(false),
				})
				.collect()
		})
		.unwrap_or_default();
	let n = j.get("logged").and_then(|x| x.as_u64()).unwrap_or(0) as usize;
	let logs: Vec<(String, u64)> = dbutil::list_files(&base).into_iter().filter(|(f, l)| f.starts_with("log") && *l > 0).collect();
	if logs.is_empty() || records.is_empty() {
		rep.count("bases_without_pending_logs", 1);
		return
	}
	if ctx.verbose {
		eprintln!("  base image: tables+logs; n(logged)={} records:", n);
		for r in &records {
			eprintln!("    {:?}", r);
		}
		eprintln!("  log files: {:?}", logs);
	}
	rep.count("base_images", 1);
	rep.max("pending_log_files", logs.len() as u64);
	// j = what the tables hold on their own (all logs removed); n_full = unmodified recovery
	let judge = |rep: &mut Report, img: &Path, tag: &str| -> Option<Result<usize, (String, String)>> {
		let imgc = img.to_path_buf();
		let out = run_child(&work.path, tag, Duration::from_secs(40), || {
			let mut r = Rng::new(1);
			let v = oracle::eval_image(&imgc, rec, 0, n, &mut r, false);
			let mut o = J::obj().set("evals", J::i(v.evals));
			if let Some(m) = v.m {
				o.put("m", J::i(m as u64));
			}
			if let Some((s, d)) = v.fail {
				o.put("sig", J::s(s));
				o.put("detail", J::s(d));
			}
			o
		});
		match out {
			Outcome::Done(j) => {
				if let Some(p) = j.get("panic").and_then(|x| x.as_str()) {
					return Some(Err((format!("failure=open_panic;site={}", pv::scratch::panic_site(p)), format!("panic: {}", p))))
				}
				rep.evaluations += j.get("evals").and_then(|x| x.as_u64()).unwrap_or(0);
				if let Some(s) = j.get("sig").and_then(|x| x.as_str()) {
					return Some(Err((s.to_string(), j.get("detail").and_then(|x| x.as_str()).unwrap_or("").to_string())))
				}
				Some(Ok(j.get("m").and_then(|x| x.as_u64()).unwrap_or(0) as usize))
			},
			Outcome::Died(how, ph) => Some(Err(("failure=process_abort".into(), format!("opening the image killed the process ({}) during [{}]", how, ph)))),
			Outcome::Timeout(ph) => {
				rep.inconclusive(format!("image evaluation timed out in [{}]", ph));
				None
			},
		}
	};
	let img = work.path.join("m");
	let replay = |m: &str| {
		J::obj()
			.set("engine", J::s("crashsim"))
			.set("case", J::s(desc.to_string()))
			.set("case_seed", J::i(case_seed))
			.set("variant", J::i(variant))
			.set("shard_seed", J::i(ctx.seed))
			.set("mutation", J::s(m.to_string()))
	};
	// tables only
	pv::scratch::copy_dir(&base, &img).expect("copy");
	for (f, _) in &logs {
		let _ = std::fs::remove_file(img.join(f));
	}
	let j0 = match judge(rep, &img, "j0") {
		Some(Ok(m)) => m,
		Some(Err((sig, d))) => {
			rep.violation(format!("scenario=C13;{};mutation=all_logs_removed", sig), format!("tables without any log are no prefix state: {}", d), replay("remove all logs"));
			return
		},
		None => return,
	};
	pv::scratch::copy_dir(&base, &img).expect("copy");
	match judge(rep, &img, "full") {
		Some(Ok(m)) => {
			rep.evaluations += 1;
			if m != n {
				rep.violation(
					"scenario=C13;failure=valid_logs_not_fully_replayed".to_string(),
					format!("undamaged logs hold {} commits, recovery stopped at {}", n, m),
					replay("none"),
				);
				return
			}
		},
		Some(Err((sig, d))) => {
			rep.violation(format!("scenario=C13;{};mutation=none", sig), format!("undamaged base image: {}", d), replay("none"));
			return
		},
		None => return,
	}
	// ---- mutations
	let limit_at = |file: &str, x: u64| -> usize {
		// commits before the first record touched at or after offset x of this file
		records.iter().filter(|r| r.file == file && r.end > x).map(|r| r.commits_before).min().unwrap_or(n)
	};
	// commits applied once replay has consumed the whole file (a duplicate of it stops replay there)
	let file_end_limit = |file: &str| -> usize { records.iter().filter(|r| r.file == file).map(|r| r.commits_before + r.is_commit as usize).max().unwrap_or(n) };
	let file_first_limit = |file: &str| -> usize { records.iter().filter(|r| r.file == file).map(|r| r.commits_before).min().unwrap_or(n) };
	let mut muts: Vec<(Mutation, usize)> = vec![];
	for (f, len) in &logs {
		let small = *len <= 1500;
		// truncations
		if small && ctx.tier == Tier::Thorough {
			for x in 0..*len {
				muts.push((Mutation::Truncate(f.clone(), x), limit_at(f, x)));
			}
		} else {
			let mut xs: Vec<u64> = vec![0, 1, 8, 9, 10, len.saturating_sub(1), len.saturating_sub(4), len.saturating_sub(5)];
			for r in records.iter().filter(|r| &r.file == f) {
				xs.extend_from_slice(&[r.start, r.start + 1, r.start + 9, r.end.saturating_sub(1), r.end.saturating_sub(5)]);
			}
			for _ in 0..ctx.tier.pick(6, 60) {
				xs.push(rng.below(*len));
			}
			xs.sort();
			xs.dedup();
			for x in xs {
				if x < *len {
					muts.push((Mutation::Truncate(f.clone(), x), limit_at(f, x)));
				}
			}
		}
		// bit flips: every byte of every record header (first 9 bytes) + trailer (5 bytes) + sampled payload
		let mut pos: Vec<u64> = vec![];
		for r in records.iter().filter(|r| &r.file == f) {
			for d in 0..9u64.min(r.end - r.start) {
				pos.push(r.start + d);
			}
			for d in 1..=5u64.min(r.end - r.start) {
				pos.push(r.end - d);
			}
		}
		for _ in 0..ctx.tier.pick(12, 200) {
			pos.push(rng.below(*len));
		}
		pos.sort();
		pos.dedup();
		if ctx.tier == Tier::Quick && pos.len() > 40 {
			rng.shuffle(&mut pos);
			pos.truncate(40);
		}
		for x in pos {
			muts.push((Mutation::BitFlip(f.clone(), x, rng.below(8) as u8), limit_at(f, x)));
		}
		for _ in 0..ctx.tier.pick(3, 30) {
			let x = rng.below(*len);
			let n_bytes = rng.range(2, 64) as usize;
			muts.push((Mutation::Overwrite(f.clone(), x, rng.bytes(n_bytes)), limit_at(f, x)));
		}
		// zero-filled and ff-filled ranges (lost / erased sectors)
		for _ in 0..ctx.tier.pick(3, 30) {
			let x = rng.below(*len);
			let n_bytes = rng.range(1, 600) as usize;
			let fill = if rng.chance(2, 3) { 0u8 } else { 0xff };
			muts.push((Mutation::Overwrite(f.clone(), x, vec![fill; n_bytes]), limit_at(f, x)));
		}
		// a record whose checksum field reads zero and whose body is damaged
		for r in records.iter().filter(|r| &r.file == f) {
			if r.end - r.start > 16 && (ctx.tier == Tier::Thorough || rng.chance(1, 2)) {
				let x = r.start + 9 + rng.below(r.end - r.start - 14);
				muts.push((Mutation::ZeroTrailerAndFlip(f.clone(), r.end, x, rng.below(8) as u8), r.commits_before));
			}
		}
		// structure-aware damage: the header fields of EVERY action of every record (action code,
		// table id = size tier / index bits + column, chunk / slot number, entry mask, entry size)
		// are overwritten with "interesting" values, incl. ids no table can have and masks with
		// more bits than a chunk has entries. Validation runs before the checksum is verified and
		// must reject all of it without panicking (slices, shifts, additions).
		{
			const VALUES: [u8; 18] = [0, 1, 2, 3, 4, 5, 6, 7, 8, 0x10, 0x32, 0x3f, 0x40, 0x7f, 0x80, 0xf1, 0xf2, 0xff];
			let data = std::fs::read(base.join(f)).unwrap_or_default();
			let mut cand: Vec<(u64, Vec<u8>, &'static str)> = vec![];
			for r in records.iter().filter(|r| &r.file == f) {
				for a in parse_actions(&data, r.start as usize, r.end as usize) {
					let o = a.offset as u64;
					for v in VALUES {
						cand.push((o, vec![v], "action_code"));
						cand.push((o + 1, vec![v], "table_id"));
						cand.push((o + 2, vec![v], "table_id"));
					}
					if a.code == 2 || a.code == 3 || a.code == 6 {
						// chunk / slot number: far beyond the table
						cand.push((o + 3 + 7, vec![0xff], "chunk_number"));
						cand.push((o + 3 + 3, vec![0x7f], "chunk_number"));
						cand.push((o + 3, vec![0xff; 8], "chunk_number"));
					}
					if a.code == 2 || a.code == 6 {
						// entry mask: all bits, the upper half, single high bits
						cand.push((o + 11, vec![0xff; 8], "entry_mask"));
						cand.push((o + 11 + 4, vec![0xff; 4], "entry_mask"));
						cand.push((o + 11 + 7, vec![0x80], "entry_mask"));
						cand.push((o + 11, vec![0; 8], "entry_mask"));
					}
					if a.code == 3 && a.len > 13 {
						// entry size / marker field
						for v in [[0xffu8, 0x7f], [0x00, 0x80], [0xff, 0xff], [0xfd, 0xff], [0xfe, 0xff], [0xfd, 0x7f], [0x00, 0x00], [0xf8, 0x7f]] {
							cand.push((o + 11, v.to_vec(), "entry_size"));
						}
					}
				}
			}
			let keep = ctx.tier.pick(40, 1200);
			if cand.len() > keep {
				rng.shuffle(&mut cand);
				cand.truncate(keep);
			}
			for (x, v, _what) in cand {
				if (x as usize) + v.len() <= data.len() && data[x as usize..x as usize + v.len()] != v[..] {
					muts.push((Mutation::Overwrite(f.clone(), x, v), limit_at(f, x)));
				}
			}
		}
		// two-byte entry markers of value-table entries inside the records (tombstone ff ff,
		// multipart fd ff / fe ff / fd 7f): every bit of both bytes
		{
			let data = std::fs::read(base.join(f)).unwrap_or_default();
			let mut hits: Vec<u64> = vec![];
			for i in 0..data.len().saturating_sub(1) {
				if matches!((data[i], data[i + 1]), (0xff, 0xff) | (0xfd, 0xff) | (0xfe, 0xff) | (0xfd, 0x7f)) {
					hits.push(i as u64);
				}
			}
			if ctx.tier == Tier::Quick && hits.len() > 4 {
				rng.shuffle(&mut hits);
				hits.truncate(4);
			}
			for h in hits {
				for b in 0..8u8 {
					muts.push((Mutation::BitFlip(f.clone(), h, b), limit_at(f, h)));
					muts.push((Mutation::BitFlip(f.clone(), h + 1, b), limit_at(f, h + 1)));
				}
			}
		}
	}
	// appended tails on the last log (by record order)
	if let Some(last) = records.last().map(|r| r.file.clone()) {
		muts.push((Mutation::Append(last.clone(), rng.bytes_in(1, 200)), n));
		muts.push((Mutation::Append(last.clone(), vec![1, 0xff, 0xff, 0, 0, 0, 0, 0, 0]), n));
		muts.push((Mutation::Append(last.clone(), vec![1]), n));
		muts.push((Mutation::Append(last.clone(), vec![0u8; 64]), n));
		muts.push((Mutation::Duplicate(last), n));
		let _ = &file_end_limit;
	}
	// file level
	let names: Vec<String> = logs.iter().map(|l| l.0.clone()).collect();
	if names.len() >= 2 {
		muts.push((Mutation::Swap(names[0].clone(), names[1].clone()), n));
	}
	for f in &names {
		muts.push((Mutation::Delete(f.clone()), file_first_limit(f)));
		muts.push((Mutation::Duplicate(f.clone()), file_end_limit(f)));
	}
	for len in [0usize, 1, 2, 8, 9, 10] {
		muts.push((Mutation::ExtraFile(vec![1u8; len]), n));
	}
	muts.push((Mutation::ExtraFile(rng.bytes_in(10, 300)), n));
	if stale.exists() {
		muts.push((Mutation::Stale, n));
	}
	if ctx.tier == Tier::Quick && muts.len() > 200 {
		// keep all file-level ones, sample the byte-level ones
		let (file_level, mut byte_level): (Vec<_>, Vec<_>) = muts.into_iter().partition(|(m, _)| m.class() == "mut_file_level" || m.class() == "mut_append");
		rng.shuffle(&mut byte_level);
		byte_level.truncate(170);
		muts = file_level;
		muts.extend(byte_level);
	}
	// the first pending log in record order: replay trusts its first record id (finding F6)
	let first_file: Option<String> = records.first().map(|r| r.file.clone());
	let hides_first = |m: &Mutation| -> bool {
		if logs.len() < 2 {
			return false
		}
		let is_first = |f: &String| Some(f) == first_file.as_ref();
		match m {
			Mutation::Delete(f) => is_first(f),
			Mutation::Truncate(f, x) => is_first(f) && *x < 9,
			Mutation::BitFlip(f, x, _) => is_first(f) && *x >= 1 && *x < 9,
			Mutation::Overwrite(f, x, d) => is_first(f) && *x < 9 && *x + d.len() as u64 > 1,
			_ => false,
		}
	};
	for (mi, (m, limit)) in muts.iter().enumerate() {
		if !ctx.time_left() {
			break
		}
		ctx.progress();
		child::phase("");
		pv::scratch::copy_dir(&base, &img).expect("copy");
		match apply(m, &img, &stale) {
			Ok(true) => {},
			Ok(false) => {
				rep.count("mutations_without_effect_skipped", 1);
				continue
			},
			Err(_) => continue,
		}
		rep.count("mutations", 1);
		rep.count(m.class(), 1);
		// an overwrite may start with bytes that already had the new value: the first record
		// really touched is the one holding the first CHANGED byte
		let adjusted;
		let limit = match (m, FIRST_CHANGED.with(|c| c.get())) {
			(Mutation::Overwrite(f, _, _), Some(first)) => {
				adjusted = limit_at(f, first);
				&adjusted
			},
			_ => limit,
		};
		let lim = (*limit).max(j0);
		let which_record = match m {
			Mutation::Truncate(f, x) | Mutation::BitFlip(f, x, _) | Mutation::Overwrite(f, x, _) | Mutation::ZeroTrailerAndFlip(f, _, x, _) => {
				records.iter().position(|r| &r.file == f && r.end > *x).map(|i| if records[i].start > *x { "boundary" } else if *x < records[i].start + 9 { "header" } else if *x + 5 >= records[i].end { "trailer" } else { "payload" })
			},
			_ => None,
		};
		rep.seen(format!("{}|{}|{}|logs{}", rec.kind, m.class(), which_record.unwrap_or(match m {
			Mutation::Delete(_) => "delete",
			Mutation::Duplicate(_) => "duplicate",
			Mutation::Swap(..) => "swap",
			Mutation::ExtraFile(_) => "extra",
			Mutation::Stale => "stale",
			Mutation::Append(..) => "append",
			_ => "other",
		}), logs.len().min(4)));
		match judge(rep, &img, &format!("mut{}", mi % 4)) {
			None => {
				rep.notes.push(format!("timed out: {} ({})", m.show(), desc));
				eprintln!("TIMEOUT-MUTATION {} :: {}", m.show(), desc);
			},
			Some(Err((sig, d))) => {
				let scenario = match m {
					_ if hides_first(m) => "first_pending_log_hidden",
					_ if *limit < j0 => "damage_before_table_state",
					Mutation::Delete(_) => "log_file_deleted",
					Mutation::Stale => "stale_generation_log",
					Mutation::Duplicate(_) => "log_file_duplicated",
					Mutation::Swap(..) => "log_files_swapped",
					Mutation::ExtraFile(_) => "extra_log_file",
					Mutation::Truncate(..) => "log_truncated",
					Mutation::BitFlip(..) | Mutation::Overwrite(..) | Mutation::ZeroTrailerAndFlip(..) => "log_bytes_damaged",
					Mutation::Append(..) => "log_tail_appended",
				};
				let f6 = matches!(scenario, "first_pending_log_hidden" | "stale_generation_log" | "damage_before_table_state");
				if !f6 {
					rep.count("violations_other_than_f6", 1);
				}
				if !f6 || rep.get(&format!("f6_reports_{}", scenario)) < 3 {
					rep.count(&format!("f6_reports_{}", scenario), 1);
					rep.violation(format!("scenario=C13;{};mutation={}", sig, scenario), format!("{} -> {} (tables alone hold prefix {}, logs hold up to {})", m.show(), d, j0, n), replay(&m.show()));
				} else {
					rep.count("f6_witnesses_not_reported_again", 1);
				}
			},
			Some(Ok(mm)) => {
				// `mm` is the highest matching prefix; equal-looking lower prefixes are as good
				if ctx.verbose && (mm < j0 || oracle::lowest_equal(rec, mm) > lim) {
					eprintln!("  debug: {} -> mm={} lowest_equal={} lim={} j0={}", m.show(), mm, oracle::lowest_equal(rec, mm), lim, j0);
					for i in lim..mm {
						eprintln!("    obs_equal(S_{}, S_{}) = {}; model eq = {}", i, i + 1, oracle::obs_equal(rec, &rec.states[i], &rec.states[i + 1]), rec.states[i] == rec.states[i + 1]);
						if let Some(Act::Commit(tx)) = rec.acts.iter().filter(|a| matches!(a, Act::Commit(_))).nth(i) {
							eprintln!("      commit {}: {}", i + 1, tx.iter().map(|o| o.show()).collect::<Vec<_>>().join(", ").chars().take(300).collect::<String>());
						}
					}
				}
				if mm < j0 || oracle::lowest_equal(rec, mm) > lim {
					let scenario = match m {
						_ if hides_first(m) => "first_pending_log_hidden",
						_ if *limit < j0 => "damage_before_table_state",
						Mutation::Stale => "stale_generation_log",
						// an exact OLDER prefix than the tables held can only come from complete,
						// already applied records being replayed again without catching up (e.g. a
						// later file whose damaged first record id sorts it into the middle): the
						// same root cause (no persisted last-enacted id)
						_ if mm < j0 => "damage_before_table_state",
						_ => m.class(),
					};
					let f6 = matches!(scenario, "first_pending_log_hidden" | "stale_generation_log" | "damage_before_table_state");
					if !f6 {
						rep.count("violations_other_than_f6", 1);
					}
					if f6 && rep.get(&format!("f6_reports_{}", scenario)) >= 3 {
						rep.count("f6_witnesses_not_reported_again", 1);
						continue
					}
					rep.count(&format!("f6_reports_{}", scenario), 1);
					rep.violation(
						format!("scenario=C13;failure=applied_past_damage;mutation={}", scenario),
						format!("{} -> recovered prefix {} but only prefixes {}..={} are admissible (first touched record follows commit {})", m.show(), mm, j0, lim, limit),
						replay(&m.show()),
					);
				}
			},
		}
		if rep.get("violations_other_than_f6") >= 12 {
			break
		}
	}
	let _ = std::fs::remove_dir_all(&img);
	let _: Option<PathBuf> = None;
}
