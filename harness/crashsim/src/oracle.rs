//! Recovery oracle: open an image, decide which prefix S_m of the committed transactions it
//! exposes (lo <= m <= hi), run a continuation workload.

use crate::history::{Recorded, State};
use parity_db::{Db, Operation};
use pv::{
	dbutil::{self, col_kind},
	json::short_bytes,
	model::{ColModel, Op},
	scratch::{catch, panic_site},
	tree::TreeAccess,
	Rng,
};
use std::path::Path;

pub static FSCK_AFTER_RECOVERY: std::sync::atomic::AtomicBool = std::sync::atomic::AtomicBool::new(false);

pub struct Verdict {
	pub m: Option<usize>,
	pub evals: u64,
	pub fail: Option<(String, String)>,
}

struct Acc<'a> {
	db: &'a Db,
	col: u8,
	key: &'a [u8],
}

impl<'a> TreeAccess for Acc<'a> {
	fn root(&self) -> Result<Option<(Vec<u8>, Vec<u64>)>, String> {
		match self.db.get_tree(self.col, self.key).map_err(|e| e.to_string())? {
			None => Ok(None),
			Some(t) => t.read().get_root().map_err(|e| e.to_string()),
		}
	}
	fn node(&self, addr: u64) -> Result<Option<(Vec<u8>, Vec<u64>)>, String> {
		match self.db.get_tree(self.col, self.key).map_err(|e| e.to_string())? {
			None => Err("tree reader unavailable".into()),
			Some(t) => t.read().get_node(addr).map_err(|e| e.to_string()),
		}
	}
}

/// Cheap observation used to shortlist candidate prefixes: point reads of every pool key and
/// root presence.
pub fn snapshot(db: &Db, rec: &Recorded) -> Result<Vec<Vec<Option<Vec<u8>>>>, String> {
	let mut out = vec![];
	for (ci, c) in rec.cfg.cols.iter().enumerate() {
		let mut v = vec![];
		for k in &rec.pools[ci] {
			if c.multitree {
				let acc = Acc { db, col: ci as u8, key: k };
				v.push(acc.root()?.map(|r| r.0));
			} else {
				v.push(db.get(ci as u8, k).map_err(|e| format!("get error: {}", e))?);
			}
		}
		out.push(v);
	}
	Ok(out)
}

fn state_snapshot(rec: &Recorded, st: &State) -> Vec<Vec<Option<Vec<u8>>>> {
	let mut out = vec![];
	for (ci, c) in rec.cfg.cols.iter().enumerate() {
		let mut v = vec![];
		for k in &rec.pools[ci] {
			if c.multitree {
				v.push(st.trees.get(&(ci as u8)).and_then(|t| t.roots.get(k)).map(|r| r.data.clone()));
			} else {
				v.push(st.model.get(ci as u8, k).cloned());
			}
		}
		out.push(v);
	}
	out
}

/// Full comparison of every public observable with one state. Returns number of evaluations.
pub fn deep_match(db: &Db, rec: &Recorded, st: &State) -> Result<u64, String> {
	let mut evals = 0u64;
	for (ci, c) in rec.cfg.cols.iter().enumerate() {
		let ci8 = ci as u8;
		let kind = col_kind(c);
		if c.multitree {
			let mut tm = st.trees.get(&ci8).unwrap().clone();
			let roots: Vec<Vec<u8>> = tm.roots.keys().cloned().collect();
			for k in &roots {
				let acc = Acc { db, col: ci8, key: k };
				let ws = tm.check_tree(k, &acc).map_err(|e| format!("[{}] tree {}: {}", kind, short_bytes(k), e))?;
				evals += ws.nodes_checked + 1;
			}
			for k in &rec.pools[ci] {
				if !tm.roots.contains_key(k) {
					let acc = Acc { db, col: ci8, key: k };
					evals += 1;
					if acc.root()?.is_some() {
						return Err(format!("[{}] root {} is readable but not part of this prefix", kind, short_bytes(k)))
					}
				}
			}
			match db.get_num_column_value_entries(ci8) {
				Ok(n) => {
					evals += 1;
					// claimed-but-lost entries of unlogged insertions may remain accounted (see
					// finding F13); fewer entries than live ones is always wrong
					if (n as usize) < tm.live_entries() {
						return Err(format!("[{}] {} value entries but {} live nodes+roots", kind, n, tm.live_entries()))
					}
				},
				Err(_) => {},
			}
			continue
		}
		for k in &rec.pools[ci] {
			let e = st.model.get(ci8, k);
			let g = db.get(ci8, k).map_err(|e| format!("get error: {}", e))?;
			evals += 1;
			if g.as_ref() != e {
				return Err(format!(
					"[{}] key {}: read {} expected {}",
					kind,
					short_bytes(k),
					g.as_ref().map_or("nothing".into(), |v| short_bytes(v)),
					e.map_or("nothing".into(), |v| short_bytes(v))
				))
			}
			let s = db.get_size(ci8, k).map_err(|e| format!("get_size error: {}", e))?;
			if s != e.map(|v| v.len() as u32) {
				return Err(format!("[{}] key {}: get_size {:?} expected {:?}", kind, short_bytes(k), s, e.map(|v| v.len())))
			}
		}
		if c.btree_index {
			let mut it = db.iter(ci8).map_err(|e| format!("iter error: {}", e))?;
			it.seek_to_first().map_err(|e| format!("seek error: {}", e))?;
			let mut got = vec![];
			while let Some(kv) = it.next().map_err(|e| format!("iterator error: {}", e))? {
				got.push(kv);
				if got.len() > 100_000 {
					return Err("iterator does not terminate".into())
				}
			}
			let exp: Vec<(Vec<u8>, Vec<u8>)> = st.model.ordered(ci8).into_iter().map(|(k, v)| (k.clone(), v.clone())).collect();
			evals += exp.len() as u64 + 1;
			if got != exp {
				return Err(format!("[{}] ordered iteration yields {} entries, prefix has {}", kind, got.len(), exp.len()))
			}
		} else {
			let mut got: Vec<(Vec<u8>, u32)> = vec![];
			db.iter_column_while(ci8, |s| {
				got.push((s.value, s.rc));
				true
			})
			.map_err(|e| format!("iter_column_while error: {}", e))?;
			let rc = matches!(st.model.cols[ci], ColModel::Rc(_));
			if !rc {
				for g in got.iter_mut() {
					g.1 = 0;
				}
			}
			got.sort();
			let mut exp: Vec<(Vec<u8>, u32)> =
				st.model.keys(ci8).iter().map(|k| (st.model.get(ci8, k).unwrap().clone(), if rc { st.model.count(ci8, k) as u32 } else { 0 })).collect();
			exp.sort();
			evals += exp.len() as u64 + 1;
			if got != exp {
				return Err(format!(
					"[{}] value iteration yields {} values{} but the prefix has {}",
					kind,
					got.len(),
					if rc { " (with counts)" } else { "" },
					exp.len()
				))
			}
		}
	}
	Ok(evals)
}

/// Two prefix states that no public read can tell apart (reference counts of btree columns
/// are not observable).
type TreeCanon = (std::collections::BTreeMap<Vec<u8>, (Vec<u8>, Vec<u64>)>, std::collections::BTreeMap<u64, (Vec<u8>, Vec<u64>)>);

/// What can be observed of a tree column: roots and nodes by address (model node ids, counts
/// of roots and the id counter are not observable).
fn tree_canon(t: &pv::tree::TreeModel) -> TreeCanon {
	let addr = |id: &u64| t.addr_of(*id).unwrap_or(u64::MAX - *id);
	let roots = t.roots.iter().map(|(k, r)| (k.clone(), (r.data.clone(), r.children.iter().map(addr).collect()))).collect();
	let nodes = t.nodes.iter().map(|(id, n)| (addr(id), (n.data.clone(), n.children.iter().map(addr).collect()))).collect();
	(roots, nodes)
}

pub fn obs_equal(rec: &Recorded, a: &State, b: &State) -> bool {
	for (c, ta) in &a.trees {
		match b.trees.get(c) {
			Some(tb) if tree_canon(ta) == tree_canon(tb) => {},
			_ => return false,
		}
	}
	for (ci, c) in rec.cfg.cols.iter().enumerate() {
		if c.multitree {
			continue
		}
		if c.btree_index && c.ref_counted {
			let ka = a.model.ordered(ci as u8);
			let kb = b.model.ordered(ci as u8);
			if ka != kb {
				return false
			}
		} else if a.model.cols[ci] != b.model.cols[ci] {
			return false
		}
	}
	true
}

/// Lowest prefix index that is observationally equal to prefix `m`.
pub fn lowest_equal(rec: &Recorded, m: usize) -> usize {
	(0..=m).find(|i| obs_equal(rec, &rec.states[*i], &rec.states[m])).unwrap_or(m)
}

/// Highest m in 0..=hi whose state matches; the caller compares it with lo.
pub fn find_prefix(db: &Db, rec: &Recorded, hi: usize) -> (Option<usize>, u64, String) {
	let mut evals = 0;
	let snap = match snapshot(db, rec) {
		Ok(s) => s,
		Err(e) => return (None, 0, e),
	};
	let mut why = String::new();
	for m in (0..=hi.min(rec.states.len() - 1)).rev() {
		evals += 1;
		if state_snapshot(rec, &rec.states[m]) != snap {
			continue
		}
		match deep_match(db, rec, &rec.states[m]) {
			Ok(n) => return (Some(m), evals + n, String::new()),
			Err(e) => {
				if why.is_empty() {
					why = format!("closest prefix {}: {}", m, e);
				}
			},
		}
	}
	if why.is_empty() {
		// explain against the newest state
		why = match deep_match(db, rec, &rec.states[hi.min(rec.states.len() - 1)]) {
			Err(e) => format!("against the newest state ({} commits): {}", hi, e),
			Ok(_) => "point reads match no prefix".to_string(),
		};
	}
	(None, evals, why)
}

/// Open the image and judge it. `lo..=hi` is the admissible prefix range.
pub fn eval_image(img: &Path, rec: &Recorded, lo: usize, hi: usize, rng: &mut Rng, continuation: bool) -> Verdict {
	let opts = rec.cfg.options(img);
	crate::child::phase(&format!("open image {}", img.display()));
	let opened = catch(|| Db::open(&opts));
	let db = match opened {
		Err(p) => {
			return Verdict { m: None, evals: 1, fail: Some((format!("failure=open_panic;site={}", panic_site(&p)), format!("Db::open panicked on the image: {}", p))) }
		},
		Ok(Err(e)) => return Verdict { m: None, evals: 1, fail: Some(("failure=open_error".into(), format!("Db::open failed on the image: {}", e))) },
		Ok(Ok(db)) => dbutil::Handle::new(db),
	};
	crate::child::phase("judge image");
	let judged = catch(|| find_prefix(&db, rec, hi));
	let (m, mut evals, why) = match judged {
		Ok(r) => r,
		Err(p) => return Verdict { m: None, evals: 1, fail: Some((format!("failure=read_panic;site={}", panic_site(&p)), format!("panic while reading the recovered database: {}", p))) },
	};
	let m = match m {
		Some(m) => m,
		None => {
			return Verdict { m: None, evals, fail: Some(("failure=non_prefix_state".into(), format!("recovered state is no prefix S_0..S_{} of the committed transactions; {}", hi, why))) }
		},
	};
	if m < lo {
		return Verdict {
			m: Some(m),
			evals,
			fail: Some((
				"failure=synced_commit_lost".into(),
				format!("recovered state is prefix {} but {} commits had their log record synced before the crash ({} issued)", m, lo, hi),
			)),
		}
	}
	if continuation {
		crate::child::phase("continuation");
		let r = catch(|| continuation_run(&db, rec, m, rng));
		match r {
			Err(p) => return Verdict { m: Some(m), evals, fail: Some((format!("failure=continuation_panic;site={}", panic_site(&p)), format!("panic in the continuation workload after recovery: {}", p))) },
			Ok(Err(e)) => return Verdict { m: Some(m), evals, fail: Some(("failure=continuation_diverged".into(), format!("after recovery to prefix {} the database does not obey the model any more: {}", m, e))) },
			Ok(Ok((n, st))) => {
				evals += n;
				db.close();
				// reopen once more: the continued database must be stable across a clean restart
				crate::child::phase("reopen after continuation");
				match catch(|| Db::open(&opts)) {
					Ok(Ok(d2)) => {
						let d2 = dbutil::Handle::new(d2);
						if FSCK_AFTER_RECOVERY.load(std::sync::atomic::Ordering::Relaxed) {
							crate::child::phase("fsck after recovery + continuation");
							let _ = dbutil::drain(&d2);
							match fsck_state(&d2, img, rec, &st) {
								Ok(n) => evals += n,
								Err((sig, detail)) => return Verdict { m: Some(m), evals, fail: Some((sig, detail)) },
							}
						}
						match catch(|| deep_match(&d2, rec, &st)) {
							Ok(Ok(n)) => evals += n,
							Ok(Err(e)) => return Verdict { m: Some(m), evals, fail: Some(("failure=continuation_diverged".into(), format!("after recovery to prefix {}, a continuation and a clean restart: {}", m, e))) },
							Err(p) => return Verdict { m: Some(m), evals, fail: Some((format!("failure=read_panic;site={}", panic_site(&p)), format!("panic after continuation + restart: {}", p))) },
						}
						d2.close();
					},
					Ok(Err(e)) => return Verdict { m: Some(m), evals, fail: Some(("failure=open_error".into(), format!("reopen after continuation failed: {}", e))) },
					Err(p) => return Verdict { m: Some(m), evals, fail: Some((format!("failure=open_panic;site={}", panic_site(&p)), format!("reopen after continuation panicked: {}", p))) },
				}
			},
		}
	} else {
		db.close();
		// whatever recovery made of the logs, it is final: a clean restart right after it must
		// show the same state (a log that recovery rejected must not be applied by a later open)
		crate::child::phase("reopen after recovery");
		match catch(|| Db::open(&opts)) {
			Ok(Ok(d2)) => {
				let d2 = dbutil::Handle::new(d2);
				match catch(|| find_prefix(&d2, rec, hi)) {
					Ok((m2, n, why2)) => {
						evals += n;
						if m2 != Some(m) {
							return Verdict {
								m: Some(m),
								evals,
								fail: Some((
									"failure=state_changed_by_second_open".into(),
									format!("recovery gave prefix {}; after a clean close the next open shows {} {}", m, m2.map_or("no prefix state at all;".to_string(), |x| format!("prefix {}", x)), why2),
								)),
							}
						}
					},
					Err(p) => return Verdict { m: Some(m), evals, fail: Some((format!("failure=read_panic;site={}", panic_site(&p)), format!("panic while reading after the second open: {}", p))) },
				}
				d2.close();
			},
			Ok(Err(e)) => return Verdict { m: Some(m), evals, fail: Some(("failure=open_error".into(), format!("second open after recovery failed: {}", e))) },
			Err(p) => return Verdict { m: Some(m), evals, fail: Some((format!("failure=open_panic;site={}", panic_site(&p)), format!("second open after recovery panicked: {}", p))) },
		}
	}
	Verdict { m: Some(m), evals, fail: None }
}

/// A few more commits on the recovered database, drained, compared with the model re-based at S_m.
fn continuation_run(db: &Db, rec: &Recorded, m: usize, rng: &mut Rng) -> Result<(u64, State), String> {
	let mut st = rec.states[m].clone();
	let mut evals = 0;
	for round in 0..2 {
		let mut tx: Vec<Op> = vec![];
		for (ci, c) in rec.cfg.cols.iter().enumerate() {
			// reference counts of a btree column are not observable through the API, so the
			// prefix found for it may differ in counts: no count-sensitive continuation there
			if c.multitree || (c.btree_index && c.ref_counted) {
				continue
			}
			for _ in 0..3 {
				let k = rng.pick(&rec.pools[ci]).clone();
				let op = if c.ref_counted {
					match rng.below(3) {
						0 => Op::Set(ci as u8, k.clone(), pv::gen::value_for_key(&k, false)),
						1 => Op::Ref(ci as u8, k),
						_ => Op::Deref(ci as u8, k),
					}
				} else if rng.chance(2, 3) {
					let v = if c.preimage { pv::gen::value_for_key(&k, false) } else { rng.bytes_in(0, 200) };
					Op::Set(ci as u8, k, v)
				} else {
					Op::Deref(ci as u8, k)
				};
				tx.push(op);
			}
		}
		let dbtx: Vec<(u8, Operation<Vec<u8>, Vec<u8>>)> = tx.iter().map(|o| o.to_db()).collect();
		db.commit_changes(dbtx).map_err(|e| format!("commit after recovery rejected: {}", e))?;
		st.apply(&rec.cfg, &tx);
		if round == 0 {
			// visible immediately (overlay)
			for op in &tx {
				if !rec.cfg.cols[op.col() as usize].ref_counted {
					let g = db.get(op.col(), op.key()).map_err(|e| e.to_string())?;
					evals += 1;
					if g.as_ref() != st.model.get(op.col(), op.key()) {
						return Err(format!("key {} wrong right after a post-recovery commit", short_bytes(op.key())))
					}
				}
			}
		}
		dbutil::drain(db).map_err(|e| format!("drain after recovery failed: {}", e))?;
	}
	evals += deep_match(db, rec, &st)?;
	Ok((evals, st))
}

/// Structural check of the files of an open, drained database against a state (C14 after recovery).
pub fn fsck_state(db: &Db, dir: &Path, rec: &Recorded, st: &State) -> Result<u64, (String, String)> {
	use pvfsck::{ColSpec, Expect};
	let specs: Vec<ColSpec> = rec
		.cfg
		.cols
		.iter()
		.map(|c| ColSpec {
			btree: c.btree_index,
			multitree: c.multitree,
			ref_counted: c.ref_counted,
			preimage: c.preimage,
			uniform: c.uniform,
			append_only: c.append_only,
			compression: match c.compression {
				parity_db::CompressionType::NoCompression => 0,
				parity_db::CompressionType::Lz4 => 1,
				parity_db::CompressionType::Snappy => 2,
			},
		})
		.collect();
	let mut expect = vec![];
	for (ci, c) in rec.cfg.cols.iter().enumerate() {
		let ci8 = ci as u8;
		if c.multitree {
			let tm = st.trees.get(&ci8).unwrap();
			// counted roots: the count is not observable through reads, so the prefix found
			// may differ in it - structure only
			if tm.rc_roots || tm.nodes.values().any(|n| n.addr.is_none()) {
				expect.push(Expect::Unknown);
				continue
			}
			let addr = |id: &u64| tm.addr_of(*id).unwrap();
			let roots = tm.roots.iter().map(|(k, r)| (db.verif_hash_key(ci8, k), r.data.clone(), r.children.iter().map(addr).collect(), r.count as u32)).collect();
			let nodes = tm.nodes.iter().map(|(id, n)| (addr(id), n.data.clone(), n.children.iter().map(addr).collect(), n.refs)).collect();
			expect.push(Expect::Tree { roots, nodes });
		} else if c.btree_index {
			if c.ref_counted {
				// counts of a btree column are not identifiable from reads: structure only
				expect.push(Expect::Unknown);
			} else {
				expect.push(Expect::Btree(st.model.ordered(ci8).into_iter().map(|(k, v)| (k.clone(), v.clone(), 1)).collect()));
			}
		} else {
			let rc = matches!(st.model.cols[ci], ColModel::Rc(_));
			expect.push(Expect::Hash(st.model.keys(ci8).iter().map(|k| (db.verif_hash_key(ci8, k), st.model.get(ci8, k).unwrap().clone(), if rc { st.model.count(ci8, k) as u32 } else { 1 })).collect()));
		}
	}
	let r = pvfsck::check_dir(dir, &specs, &expect);
	if r.errors.is_empty() {
		return Ok(1 + r.stats.get("values_compared").copied().unwrap_or(0))
	}
	let class = r.errors[0].split(':').next().unwrap_or("unknown").to_string();
	let multitree = r.errors[0].contains("multitree") || rec.cfg.cols.iter().any(|c| c.multitree);
	Err((
		format!("failure=fsck;class={};has_multitree={}", class, multitree),
		format!("structural check after recovery failed: {} problem(s): {}", r.errors.len(), r.errors.iter().take(5).cloned().collect::<Vec<_>>().join(" | ")),
	))
}
