//! Run a closure in a forked child with a watchdog; the child reports through a file.

use pv::json::J;
use std::{
	path::{Path, PathBuf},
	time::{Duration, Instant},
};

pub enum Outcome {
	Done(J),
	/// died by signal / non-zero exit; the string is the phase marker the child wrote last
	Died(String, String),
	Timeout(String),
}

static mut PHASE_FILE: Option<PathBuf> = None;

/// Inside the child: note the phase about to run (so the parent can attribute an abort).
#[allow(static_mut_refs)]
pub fn phase(s: &str) {
	unsafe {
		if let Some(p) = &PHASE_FILE {
			crate::interpose::quiet(|| {
				let _ = std::fs::write(p, s);
			});
		}
	}
}

pub fn run_child(work: &Path, tag: &str, timeout: Duration, f: impl FnOnce() -> J) -> Outcome {
	let res = work.join(format!("{}.res", tag));
	let ph = work.join(format!("{}.phase", tag));
	let _ = std::fs::remove_file(&res);
	let _ = std::fs::remove_file(&ph);
	let pid = unsafe { libc::fork() };
	if pid < 0 {
		return Outcome::Died("fork failed".into(), String::new())
	}
	if pid == 0 {
		// child
		unsafe {
			PHASE_FILE = Some(ph.clone());
		}
		let out = match pv::scratch::catch(f) {
			Ok(j) => j,
			Err(p) => J::obj().set("panic", J::s(p)),
		};
		crate::interpose::quiet(|| {
			let tmp = PathBuf::from(format!("{}.tmp", res.display()));
			let _ = std::fs::write(&tmp, out.to_string());
			let _ = std::fs::rename(&tmp, &res);
		});
		unsafe { libc::_exit(0) };
	}
	let t0 = Instant::now();
	let mut status: libc::c_int = 0;
	loop {
		let r = unsafe { libc::waitpid(pid, &mut status, libc::WNOHANG) };
		if r == pid {
			break
		}
		if r < 0 {
			break
		}
		if t0.elapsed() > timeout {
			unsafe {
				libc::kill(pid, libc::SIGKILL);
				libc::waitpid(pid, &mut status, 0);
			}
			let p = std::fs::read_to_string(&ph).unwrap_or_default();
			return Outcome::Timeout(p)
		}
		std::thread::sleep(Duration::from_micros(300));
	}
	match std::fs::read_to_string(&res).ok().and_then(|t| J::parse(&t).ok()) {
		Some(j) => Outcome::Done(j),
		None => {
			let p = std::fs::read_to_string(&ph).unwrap_or_default();
			let how = if libc::WIFSIGNALED(status) { format!("signal {}", libc::WTERMSIG(status)) } else { format!("exit status {}", libc::WEXITSTATUS(status)) };
			Outcome::Died(how, p)
		},
	}
}
