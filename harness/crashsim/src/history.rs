//! Deterministic histories for the crash simulator: abstract plan -> recording run ->
//! concrete, replayable action list with prefix states.

use parity_db::{CompressionType, Db};
use pv::{
	dbutil::{self, col, multitree_col, DbCfg, Nest, Step},
	gen,
	model::{ChildSpec, Model, Op, TreeSpec},
	tree::{TreeAccess, TreeModel},
	Rng, Tier,
};
use std::collections::{BTreeMap, BTreeSet};

#[derive(Clone, Debug)]
pub enum Act {
	Commit(Vec<Op>),
	Step(Step),
	/// outer step with the steps of OTHER workers run inside it at a hand-over site
	/// (`dbutil::do_step_nested`): a deterministic two-worker interleaving
	Nested(Step, Nest),
	Restart,
}

impl Act {
	pub fn show(&self) -> String {
		match self {
			Act::Commit(tx) => format!("commit [{}]", tx.iter().map(|o| o.show()).collect::<Vec<_>>().join(", ")),
			Act::Step(s) => s.name().to_string(),
			Act::Nested(s, n) => format!("{}{}", s.name(), n.show()),
			Act::Restart => "restart (drop + open)".to_string(),
		}
	}
}

#[derive(Clone, Debug, PartialEq, Eq)]
pub struct State {
	pub model: Model,
	pub trees: BTreeMap<u8, TreeModel>,
}

impl State {
	pub fn new(cfg: &DbCfg) -> State {
		State {
			model: Model::new(&cfg.cols),
			trees: cfg
				.cols
				.iter()
				.enumerate()
				.filter(|(_, c)| c.multitree)
				.map(|(i, c)| (i as u8, TreeModel::new(c.append_only, c.ref_counted)))
				.collect(),
		}
	}
	pub fn apply(&mut self, cfg: &DbCfg, tx: &[Op]) {
		for op in tx {
			if cfg.cols[op.col() as usize].multitree {
				self.trees.get_mut(&op.col()).unwrap().apply(op);
			} else {
				self.model.apply(std::slice::from_ref(op));
			}
		}
	}
}

pub struct Plan {
	pub cfg: DbCfg,
	pub acts: Vec<Act>,
	pub pools: Vec<Vec<Vec<u8>>>,
	pub kind: &'static str,
}

pub const KINDS: [&str; 8] = ["hash", "hash_rc", "btree", "multitree", "mixed", "reindex", "btree_rc", "multitree_rc"];

fn config(rng: &mut Rng, variant: u64) -> (DbCfg, &'static str) {
	let comp = |rng: &mut Rng| *rng.pick(&[CompressionType::NoCompression, CompressionType::Lz4, CompressionType::Snappy]);
	let k = (variant % 8) as usize;
	let cfg = match k {
		0 => DbCfg::new(vec![col(false, false, false, false, comp(rng))]),
		1 => DbCfg::new(vec![col(false, false, true, true, comp(rng))]),
		2 => DbCfg::new(vec![col(true, false, false, false, comp(rng))]),
		3 => DbCfg::new(vec![multitree_col(false, false, rng.chance(1, 2)), col(false, false, false, false, CompressionType::NoCompression)]),
		4 => DbCfg::new(vec![
			col(false, false, false, false, comp(rng)),
			col(true, false, false, false, comp(rng)),
			col(false, false, true, true, comp(rng)),
		]),
		5 => {
			let mut cols = vec![col(false, true, false, false, CompressionType::NoCompression)];
			if rng.chance(1, 3) {
				// a reference-counted column growing its index as well
				cols.push(col(false, true, true, true, CompressionType::NoCompression));
			}
			let mut c = DbCfg::new(cols);
			c.salt = Some([0u8; 32]);
			c
		},
		6 => DbCfg::new(vec![col(true, false, true, true, comp(rng)), col(false, false, false, false, comp(rng))]),
		_ => DbCfg::new(vec![multitree_col(false, true, false), col(false, false, false, false, comp(rng))]),
	};
	(cfg, KINDS[k])
}

fn random_tree(rng: &mut Rng, nonce: &mut u64, depth: u32, budget: &mut i32, existing: &[u64]) -> TreeSpec {
	*nonce += 1;
	let dlen = if rng.chance(1, 40) { rng.range(32_000, 33_500) as usize } else if rng.chance(1, 8) { rng.range(100, 500) as usize } else { rng.range(0, 30) as usize };
	let mut data = rng.bytes(dlen);
	data.extend_from_slice(&nonce.to_le_bytes());
	let mut children = vec![];
	if depth > 0 && *budget > 0 {
		let fan = match rng.below(20) {
			0 => rng.range(10, 40) as usize,
			1..=5 => 0,
			_ => rng.range(1, 4) as usize,
		};
		for _ in 0..fan {
			if !existing.is_empty() && rng.chance(1, 4) {
				children.push(ChildSpec::Existing(*rng.pick(existing)));
			} else {
				*budget -= 1;
				children.push(ChildSpec::New(random_tree(rng, nonce, if fan > 6 { 0 } else { depth - 1 }, budget, existing)));
			}
		}
	}
	TreeSpec { data, children }
}

/// Abstract plan: the model is simulated so that only valid transactions are generated.
fn burst_pending_any(cfg: &DbCfg) -> bool {
	cfg.salt == Some([0u8; 32]) && cfg.cols.first().map_or(false, |c| c.uniform && !c.ref_counted)
}

pub fn gen_plan(rng: &mut Rng, variant: u64, tier: Tier, only_commit_and_log_tail: bool) -> Plan {
	let (cfg, kind) = config(rng, variant);
	let mut pools: Vec<Vec<Vec<u8>>> = vec![];
	// "burst" histories of the reindex layout: one transaction inserts so many keys of one index
	// page (sharing 17-18 hash bits) that a SINGLE log record grows the index by several steps
	let burst = kind == "reindex" && rng.chance(1, 2);
	for c in &cfg.cols {
		let n = rng.range(6, 20) as usize;
		if c.multitree {
			pools.push(gen::key_pool(rng, 8, false));
		} else if c.uniform && cfg.salt == Some([0u8; 32]) {
			// > 64 keys in one 16-bit index page: forces growth 16 -> 17/18
			let hot = rng.below(1 << 16);
			let n = if burst { rng.range(140, 270) as usize } else { tier.pick(rng.range(70, 90), rng.range(80, 140)) as usize };
			let extra = if burst { rng.range(1, 2) } else { 0 };
			let sub = rng.below(1 << extra);
			let mut p = vec![];
			while p.len() < n {
				let rest = (rng.next() >> (17 + extra)) | (sub << (47 - extra));
				let prefix = (hot << 48) | rest;
				let mut k = prefix.to_be_bytes().to_vec();
				k.extend_from_slice(&rng.bytes(24));
				p.push(k);
			}
			pools.push(p);
		} else if c.uniform {
			pools.push(gen::uniform_key_pool(rng, n, true));
		} else {
			pools.push(gen::key_pool(rng, n, c.btree_index));
		}
	}
	let mut st = State::new(&cfg);
	let mut acts = vec![];
	let mut nonce = 0u64;
	let n_acts = tier.pick(rng.range(18, 45), rng.range(30, 90)) as usize;
	let reindex = kind == "reindex";
	let mut mood = rng.below(4);
	let mut queued = 0usize;
	let mut burst_pending = burst;
	// every third history starts with a scripted "log recycling" prefix: two flushed log
	// files, the first one applied and reclaimed, its file reused for a NEWER record while the
	// older file is still pending - so that file-id order differs from record order when both
	// are finally reclaimed by one clean_logs.
	// flavour of the history: 0 plain, 1 scripted two-worker windows, 2 scripted log recycling,
	// 3 random two-worker windows (the layout kind is variant % 8; this walks all four flavours
	// for every kind whatever the shard count)
	let flavour = if only_commit_and_log_tail { if variant % 3 == 2 { 2 } else { 0 } } else { ((variant / 8) + (variant / 16)) % 4 };
	let nested = flavour == 1 || flavour == 3;
	let mut script: Vec<u8> = if flavour == 2 && kind == "reindex" {
		// scripted growth: (30) one transaction that overflows the hot page several times; the
		// first old table is migrated and dropped while the record that dropped it is still in
		// an uncleaned log and the next old table is only half migrated
		// (2 = process_reindex)
		vec![0, 1, 3, 5, 30, 1, 3, 5, 2, 3, 5, 2, 3, 4, 2, 3, 5, 2, 6, 2, 3, 5, 6]
	} else if flavour == 2 {
		// 0 commit, 1 process, 3 flush, 4 enact_one, 5 enact_all, 6 clean, 7 restart.
		// First: log1 holds a flushed, unapplied record while the reclaimed log0 is being
		// appended to again (unsynced) - and the handle goes away right then
		vec![0, 1, 3, 0, 1, 3, 4, 4, 6, 0, 1, 7, 0, 1, 3, 0, 1, 3, 4, 4, 6, 0, 1, 3, 5, 6, 0, 1, 3, 0, 1, 3, 4, 6, 0, 1, 3, 5, 6]
	} else if flavour == 1 {
		// scripted two-worker windows: (20) the commit stage finishes a further log between the
		// cleanup stage's flush and its truncation; (21) a record is written and synced while an
		// earlier one is half applied; (22) logs are reclaimed while a record is half applied
		vec![0, 1, 3, 5, 0, 1, 3, 20, 0, 1, 3, 0, 21, 5, 6, 0, 1, 3, 0, 1, 3, 5, 0, 1, 3, 22, 6]
	} else {
		vec![]
	};
	script.reverse();
	let n_acts = n_acts.max(script.len() + 6);
	for i in 0..n_acts {
		if i % 8 == 7 {
			mood = rng.below(4);
		}
		let w: [u32; 8] = if only_commit_and_log_tail && i > n_acts / 2 {
			// second half: only commit + log + flush, nothing is applied (C13 base images)
			[50, 35, 0, 15, 0, 0, 0, 0]
		} else {
			match mood {
				0 => [55, 10, 3, 4, 4, 2, 3, 1],
				1 => [35, 30, 5, 5, 4, 2, 3, 1],
				2 => [28, 22, 6, 14, 12, 3, 5, 1],
				_ => [22, 18, 6, 10, 8, 10, 12, 3],
			}
		};
		let mut w = w;
		if reindex {
			w[2] *= 3;
		}
		let mut force_burst = false;
		let choice = match script.pop() {
			Some(30) => {
				force_burst = burst_pending_any(&cfg);
				0
			},
			Some(c) => c as usize,
			None => rng.weighted(&w),
		};
		match choice {
			0 => {
				let mut tx = vec![];
				let ncols = cfg.cols.len();
				let touch = if ncols == 1 || rng.chance(1, 2) { 1 } else { rng.range(1, ncols as u64) as usize };
				let mut cols: Vec<u8> = (0..ncols as u8).collect();
				rng.shuffle(&mut cols);
				cols.truncate(touch);
				if force_burst && !cols.contains(&0) {
					cols.push(0);
				}
				for c in cols {
					let o = &cfg.cols[c as usize];
					if o.multitree {
						let tm = st.trees.get(&c).unwrap();
						let live: Vec<Vec<u8>> = tm.roots.keys().cloned().collect();
						let free: Vec<Vec<u8>> = pools[c as usize].iter().filter(|k| !tm.roots.contains_key(*k)).cloned().collect();
						let r = rng.below(100);
						if (live.len() < 2 || r < 50) && !free.is_empty() {
							let existing: Vec<u64> = tm.nodes.keys().copied().collect();
							let mut budget = rng.range(0, 18) as i32;
							let depth = rng.range(0, 3) as u32;
							let spec = random_tree(rng, &mut nonce, depth, &mut budget, &existing);
							tx.push(Op::InsertTree(c, rng.pick(&free).clone(), spec));
						} else if r < 62 && tm.rc_roots && !live.is_empty() {
							tx.push(Op::RefTree(c, rng.pick(&live).clone()));
						} else if !live.is_empty() {
							tx.push(Op::DerefTree(c, rng.pick(&live).clone()));
						}
					} else if o.uniform && !o.ref_counted && cfg.salt == Some([0u8; 32]) && ((burst_pending && !acts.is_empty() && rng.chance(1, 3)) || force_burst) {
						burst_pending = false;
						let mut ks = pools[c as usize].clone();
						rng.shuffle(&mut ks);
						let hi = ks.len() as u64;
						ks.truncate(rng.range(hi.min(130), hi) as usize);
						for k in ks {
							let v = if o.preimage { gen::value_for_key(&k, false) } else { rng.bytes_in(0, 40) };
							tx.push(Op::Set(c, k, v));
						}
					} else {
						let n = if reindex { rng.range(4, 12) } else { rng.range(1, 5) } as usize;
						for _ in 0..n {
							let k = rng.pick(&pools[c as usize]).clone();
							let r = rng.below(100);
							let op = if o.ref_counted {
								if r < 45 {
									Op::Set(c, k.clone(), gen::value_for_key(&k, false))
								} else if r < 65 {
									Op::Ref(c, k)
								} else {
									Op::Deref(c, k)
								}
							} else if r < 65 {
								let v = if o.preimage { gen::value_for_key(&k, false) } else if reindex { rng.bytes_in(0, 80) } else { { let big = rng.chance(1, 6); gen::random_value(rng, big) } };
								Op::Set(c, k, v)
							} else {
								Op::Deref(c, k)
							};
							tx.push(op);
						}
					}
				}
				// no root twice in one transaction
				let mut seen = BTreeSet::new();
				tx.retain(|op| match op {
					Op::InsertTree(c, k, _) | Op::RefTree(c, k) | Op::DerefTree(c, k) => seen.insert((*c, k.clone())),
					_ => true,
				});
				// model: validity needs sequential judgement for trees
				st.apply(&cfg, &tx);
				acts.push(Act::Commit(tx));
				queued += 1;
			},
			20 => acts.push(Act::Nested(Step::CleanLogs, Nest { site: dbutil::site::BEFORE_CLEAN, hit: 1, inner: vec![Step::EnactAll] })),
			21 => acts.push(Act::Nested(Step::EnactAll, Nest { site: dbutil::site::ENACT_ACTION, hit: 2, inner: vec![Step::ProcessCommits, Step::FlushLogs] })),
			22 => acts.push(Act::Nested(Step::EnactAll, Nest { site: dbutil::site::ENACT_ACTION, hit: 2, inner: vec![Step::CleanLogs] })),
			1..=6 => {
				let st = match choice {
					1 => Step::ProcessCommits,
					2 => Step::ProcessReindex,
					3 => Step::FlushLogs,
					4 => Step::EnactOne,
					5 => Step::EnactAll,
					_ => Step::CleanLogs,
				};
				if choice == 1 {
					queued = queued.saturating_sub(1);
				}
				match if nested && rng.chance(1, 4) { dbutil::random_nest(rng, st) } else { None } {
					Some(n) => acts.push(Act::Nested(st, n)),
					None => acts.push(Act::Step(st)),
				}
			},
			_ => {
				acts.push(Act::Restart);
				queued = 0;
			},
		}
	}
	let _ = queued;
	Plan { cfg, acts, pools, kind }
}

struct Acc<'a> {
	db: &'a Db,
	col: u8,
	key: &'a [u8],
}

impl<'a> TreeAccess for Acc<'a> {
	fn root(&self) -> Result<Option<(Vec<u8>, Vec<u64>)>, String> {
		match self.db.get_tree(self.col, self.key).map_err(|e| e.to_string())? {
			None => Ok(None),
			Some(t) => t.read().get_root().map_err(|e| e.to_string()),
		}
	}
	fn node(&self, addr: u64) -> Result<Option<(Vec<u8>, Vec<u64>)>, String> {
		match self.db.get_tree(self.col, self.key).map_err(|e| e.to_string())? {
			None => Err("tree reader unavailable".into()),
			Some(t) => t.read().get_node(addr).map_err(|e| e.to_string()),
		}
	}
}

/// Result of the recording run: everything a child needs to re-run a prefix and judge an image.
pub struct Recorded {
	pub cfg: DbCfg,
	pub kind: &'static str,
	pub pools: Vec<Vec<Vec<u8>>>,
	/// concrete actions (tree children resolved to addresses)
	pub acts: Vec<Act>,
	/// S_0 .. S_n
	pub states: Vec<State>,
	/// commits issued before act i (= hi for a crash inside act i)
	pub commits_before: Vec<usize>,
	/// commits whose WAL record was synced before act i (= lo for a crash inside act i)
	pub synced_before: Vec<usize>,
	/// pipeline shape before act i
	pub shape_before: Vec<String>,
	/// per act: (log file name -> size) after the act
	pub log_sizes_after: Vec<BTreeMap<String, u64>>,
	/// number of commits logged (record written) after act i
	pub logged_after: Vec<usize>,
	/// last enacted record's commit count is not tracked; tables hold at least `enacted` commits
	pub notes: Vec<String>,
}

fn resolve_spec(spec: &TreeSpec, tm: &TreeModel) -> TreeSpec {
	TreeSpec {
		data: spec.data.clone(),
		children: spec
			.children
			.iter()
			.map(|c| match c {
				ChildSpec::New(t) => ChildSpec::New(resolve_spec(t, tm)),
				ChildSpec::Existing(id) => ChildSpec::Existing(tm.addr_of(*id).unwrap_or(*id)),
			})
			.collect(),
	}
}

pub fn log_sizes(dir: &std::path::Path) -> BTreeMap<String, u64> {
	dbutil::list_files(dir).into_iter().filter(|(n, _)| n.starts_with("log")).collect()
}

/// Execute the plan once without faults; returns the concrete history or a description of a
/// failure (a failure here is a plain functional violation, reported by the caller).
pub fn record(plan: &Plan, dir: &std::path::Path) -> Result<Recorded, String> {
	let cfg = plan.cfg.clone();
	let opts = cfg.options(dir);
	let mut db = Some(Db::open_or_create(&opts).map_err(|e| format!("open_or_create: {}", e))?);
	let mut st = State::new(&cfg);
	let mut rec = Recorded {
		cfg: cfg.clone(),
		kind: plan.kind,
		pools: plan.pools.clone(),
		acts: vec![],
		states: vec![st.clone()],
		commits_before: vec![],
		synced_before: vec![],
		shape_before: vec![],
		log_sizes_after: vec![],
		logged_after: vec![],
		notes: vec![],
	};
	let mut commits = 0usize;
	let mut logged = 0usize;
	let mut synced = 0usize;
	for act in &plan.acts {
		let d = db.as_ref().unwrap();
		let before = d.verif_status();
		rec.commits_before.push(commits);
		rec.synced_before.push(synced);
		rec.shape_before.push(dbutil::shape(&before));
		match act {
			Act::Commit(tx) => {
				// resolve model node ids to addresses learnt so far
				let concrete: Vec<Op> = tx
					.iter()
					.map(|op| match op {
						Op::InsertTree(c, k, spec) => Op::InsertTree(*c, k.clone(), resolve_spec(spec, st.trees.get(c).unwrap())),
						o => o.clone(),
					})
					.collect();
				let dbtx: Vec<_> = concrete.iter().map(|o| o.to_db()).collect();
				d.commit_changes(dbtx).map_err(|e| format!("valid commit rejected: {} ({})", e, act.show()))?;
				st.apply(&cfg, tx);
				// bind addresses of freshly inserted nodes
				for op in tx {
					if let Op::InsertTree(c, k, _) = op {
						let acc = Acc { db: d, col: *c, key: k };
						st.trees.get_mut(c).unwrap().check_tree(k, &acc).map_err(|e| format!("tree read-back failed right after commit: {}", e))?;
					}
				}
				commits += 1;
				rec.states.push(st.clone());
				rec.acts.push(Act::Commit(concrete));
			},
			Act::Step(s) => {
				dbutil::do_step(d, *s).map_err(|e| format!("{} failed without fault injection: {}", s.name(), e))?;
				let after = d.verif_status();
				if *s == Step::ProcessCommits && after.queued_commits + 1 == before.queued_commits {
					logged += 1;
				}
				if *s == Step::FlushLogs {
					synced = logged;
				}
				rec.acts.push(act.clone());
			},
			Act::Nested(s, n) => {
				let (r, out) = dbutil::do_step_nested(d, *s, n);
				r.map_err(|e| format!("{} failed without fault injection: {}", act.show(), e))?;
				if let Some(e) = out.inner_err {
					return Err(format!("inner step of {} failed without fault injection: {}", act.show(), e))
				}
				if out.fired {
					rec.notes.push("nested_fired".into());
				}
				let after = d.verif_status();
				// commits written to the log by the outer and inner steps together
				let logged_before = logged;
				logged += before.queued_commits.saturating_sub(after.queued_commits);
				// any flush inside the act synced at least what had been logged before the act
				let flushed = *s == Step::FlushLogs || (out.fired && n.inner.contains(&Step::FlushLogs));
				if flushed {
					synced = synced.max(logged_before);
				}
				rec.acts.push(act.clone());
			},
			Act::Restart => {
				dbutil::make_drop_legal(d).map_err(|e| format!("pre-drop: {}", e))?;
				drop(db.take());
				db = Some(Db::open(&opts).map_err(|e| format!("reopen: {}", e))?);
				logged = commits;
				synced = commits;
				rec.acts.push(act.clone());
			},
		}
		rec.log_sizes_after.push(log_sizes(dir));
		rec.logged_after.push(logged);
	}
	if let Some(d) = db.take() {
		let _ = dbutil::make_drop_legal(&d);
		drop(d);
	}
	Ok(rec)
}
