//! libc interposition inside the harness binary: the symbols below are linked instead of
//! libc's, so every file call the library makes through std / memmap2 passes here.
//! We observe (never alter, except for optional errno injection) the calls that matter for
//! durability, keep a *durable shadow* of every database file (content as of its last
//! fsync / fdatasync / msync) and evaluate the ordering rules R1/R2 of C12 on the fly.
//!
//! Single recorder thread per process (the crash simulator is single-threaded); a global
//! re-entrancy flag keeps the monitor's own file traffic out of the trace.

#![allow(clippy::missing_safety_doc)]

use std::{
	collections::BTreeMap,
	ffi::CStr,
	os::raw::{c_char, c_int, c_long, c_void},
	path::{Path, PathBuf},
	sync::atomic::{AtomicBool, AtomicU64, Ordering},
};

static ENABLED: AtomicBool = AtomicBool::new(false);
static IN_HOOK: AtomicBool = AtomicBool::new(false);
/// errno injection: fail every intercepted call on a database file from the n-th on
static FAIL_FROM: AtomicU64 = AtomicU64::new(u64::MAX);
static CALLS: AtomicU64 = AtomicU64::new(0);

pub struct Tracker {
	pub root: PathBuf,
	pub shadow: PathBuf,
	/// log file name -> bytes appended since its last sync
	pub log_unsynced: BTreeMap<String, u64>,
	pub counts: BTreeMap<&'static str, u64>,
	pub rule_violations: Vec<String>,
	/// Db::open in progress (R1 does not apply to replay reads)
	pub in_open: bool,
	/// shadow maintenance on/off (off for pure process-crash runs: cheaper)
	pub keep_shadow: bool,
	pub sync_events: u64,
	/// R2 is not evaluated while a nested schedule lets the commit stage apply a further log
	/// between the cleanup stage's flush and its truncation (tables are then legitimately ahead
	/// of their synced content for a log that is NOT being reclaimed); the power-loss images of
	/// that act decide instead
	pub r2_suspended: bool,
}

static mut TRACKER: Option<Tracker> = None;

#[allow(static_mut_refs)]
pub fn tracker() -> Option<&'static mut Tracker> {
	unsafe { TRACKER.as_mut() }
}

pub fn start(root: &Path, shadow: &Path, keep_shadow: bool) {
	IN_HOOK.store(true, Ordering::SeqCst);
	let _ = std::fs::remove_dir_all(shadow);
	if keep_shadow {
		std::fs::create_dir_all(shadow).expect("shadow dir");
	}
	unsafe {
		TRACKER = Some(Tracker {
			root: root.to_path_buf(),
			shadow: shadow.to_path_buf(),
			log_unsynced: BTreeMap::new(),
			counts: BTreeMap::new(),
			rule_violations: vec![],
			in_open: false,
			keep_shadow,
			sync_events: 0,
			r2_suspended: false,
		});
	}
	CALLS.store(0, Ordering::SeqCst);
	FAIL_FROM.store(u64::MAX, Ordering::SeqCst);
	IN_HOOK.store(false, Ordering::SeqCst);
	ENABLED.store(true, Ordering::SeqCst);
}

pub fn stop() {
	ENABLED.store(false, Ordering::SeqCst);
}

pub fn set_r2_suspended(v: bool) {
	if let Some(t) = tracker() {
		t.r2_suspended = v;
	}
}

pub fn set_in_open(v: bool) {
	if let Some(t) = tracker() {
		t.in_open = v;
	}
}

pub fn set_fail_from(n: u64) {
	FAIL_FROM.store(n, Ordering::SeqCst);
}

pub fn calls() -> u64 {
	CALLS.load(Ordering::SeqCst)
}

/// Run monitor code without tracing its own file traffic.
pub fn quiet<T>(f: impl FnOnce() -> T) -> T {
	let was = IN_HOOK.swap(true, Ordering::SeqCst);
	let r = f();
	IN_HOOK.store(was, Ordering::SeqCst);
	r
}

fn fd_path(fd: c_int) -> Option<PathBuf> {
	let link = format!("/proc/self/fd/{}\0", fd);
	let mut buf = [0u8; 512];
	let n = unsafe { libc::syscall(libc::SYS_readlink, link.as_ptr(), buf.as_mut_ptr(), buf.len()) };
	if n <= 0 {
		return None
	}
	Some(PathBuf::from(std::str::from_utf8(&buf[..n as usize]).ok()?))
}

fn db_file_name(t: &Tracker, p: &Path) -> Option<String> {
	if p.parent()? == t.root {
		Some(p.file_name()?.to_str()?.to_string())
	} else {
		None
	}
}

fn is_log(name: &str) -> bool {
	name.starts_with("log") && name[3..].chars().all(|c| c.is_ascii_digit()) && name.len() > 3
}

pub fn is_table_like(name: &str) -> bool {
	name.starts_with("table_") || name.starts_with("index_") || name.starts_with("refcount_")
}

fn count(t: &mut Tracker, k: &'static str) {
	*t.counts.entry(k).or_insert(0) += 1;
}

/// The file's content has become durable: refresh its shadow copy.
fn snapshot(t: &mut Tracker, name: &str) {
	t.sync_events += 1;
	if !t.keep_shadow {
		return
	}
	let src = t.root.join(name);
	let dst = t.shadow.join(name);
	let _ = pv::scratch::copy_file_sparse(&src, &dst);
}

/// Only the byte range `[off, off+len)` of the file has become durable (msync of a part of a
/// mapping): copy just that range into the shadow.
fn snapshot_range(t: &mut Tracker, name: &str, off: u64, len: u64) {
	use std::io::{Read, Seek, SeekFrom, Write};
	t.sync_events += 1;
	if !t.keep_shadow {
		return
	}
	let src = t.root.join(name);
	let dst = t.shadow.join(name);
	let (mut f, mut o) = match (std::fs::File::open(&src), std::fs::OpenOptions::new().create(true).write(true).open(&dst)) {
		(Ok(f), Ok(o)) => (f, o),
		_ => return,
	};
	let flen = f.metadata().map(|m| m.len()).unwrap_or(0);
	let end = (off.saturating_add(len)).min(flen);
	if off >= end {
		return
	}
	// sizes are durable immediately (directory-level operation in the model)
	let _ = o.set_len(flen.max(o.metadata().map(|m| m.len()).unwrap_or(0)));
	let mut pos = off;
	let mut buf = vec![0u8; 1 << 16];
	if f.seek(SeekFrom::Start(off)).is_err() || o.seek(SeekFrom::Start(off)).is_err() {
		return
	}
	while pos < end {
		let n = ((end - pos) as usize).min(buf.len());
		if f.read_exact(&mut buf[..n]).is_err() {
			return
		}
		if buf[..n].iter().any(|b| *b != 0) {
			if o.seek(SeekFrom::Start(pos)).is_err() || o.write_all(&buf[..n]).is_err() {
				return
			}
		} else {
			// zeros: make sure stale shadow bytes are cleared too
			if o.seek(SeekFrom::Start(pos)).is_err() || o.write_all(&buf[..n]).is_err() {
				return
			}
		}
		pos += n as u64;
	}
}

/// Compare a table-like file with its shadow, ignoring the index statistics header.
pub fn differs_from_shadow(t: &Tracker, name: &str) -> Option<String> {
	let cur = std::fs::read(t.root.join(name)).ok()?;
	let sh = std::fs::read(t.shadow.join(name)).unwrap_or_default();
	let skip = if name.starts_with("index_") { 16 * 1024 } else { 0 };
	let n = cur.len().max(sh.len());
	let mut i = skip;
	while i < n {
		let a = cur.get(i).copied().unwrap_or(0);
		let b = sh.get(i).copied().unwrap_or(0);
		if a != b {
			return Some(format!("{} differs from its last synced content at byte {}", name, i))
		}
		i += 1;
	}
	None
}

fn intercept_gate() -> bool {
	ENABLED.load(Ordering::Relaxed) && !IN_HOOK.load(Ordering::Relaxed)
}

fn inject(name: &str) -> bool {
	let _ = name;
	let n = CALLS.fetch_add(1, Ordering::SeqCst);
	n >= FAIL_FROM.load(Ordering::SeqCst)
}

unsafe fn set_errno(e: c_int) {
	*libc::__errno_location() = e;
}

fn on_sync(fd: c_int, kind: &'static str) -> bool {
	if !intercept_gate() {
		return false
	}
	IN_HOOK.store(true, Ordering::SeqCst);
	let mut fail = false;
	if let (Some(t), Some(p)) = (tracker(), fd_path(fd)) {
		if let Some(name) = db_file_name(t, &p) {
			if inject(&name) {
				fail = true;
			} else {
				count(t, kind);
				if is_log(&name) {
					t.log_unsynced.insert(name.clone(), 0);
					count(t, "log_sync");
				}
				snapshot(t, &name);
			}
		}
	}
	IN_HOOK.store(false, Ordering::SeqCst);
	fail
}

#[no_mangle]
pub unsafe extern "C" fn fdatasync(fd: c_int) -> c_int {
	if on_sync(fd, "fdatasync") {
		set_errno(libc::EIO);
		return -1
	}
	libc::syscall(libc::SYS_fdatasync, fd) as c_int
}

#[no_mangle]
pub unsafe extern "C" fn fsync(fd: c_int) -> c_int {
	// the real call first: the shadow must reflect what the kernel was asked to persist
	let r = libc::syscall(libc::SYS_fsync, fd) as c_int;
	if on_sync(fd, "fsync") {
		set_errno(libc::EIO);
		return -1
	}
	r
}

/// File backing the mapping that contains `addr`, and the file offset `addr` corresponds to.
fn mapping_file(addr: usize) -> Option<(PathBuf, u64)> {
	let maps = std::fs::read_to_string("/proc/self/maps").ok()?;
	for l in maps.lines() {
		let mut it = l.split_whitespace();
		let range = it.next()?;
		let _perms = it.next()?;
		let offset = u64::from_str_radix(it.next()?, 16).ok()?;
		let mut r = range.split('-');
		let lo = usize::from_str_radix(r.next()?, 16).ok()?;
		let hi = usize::from_str_radix(r.next()?, 16).ok()?;
		if addr >= lo && addr < hi {
			let at = l.find('/')?;
			return Some((PathBuf::from(l[at..].trim().trim_end_matches(" (deleted)")), offset + (addr - lo) as u64))
		}
	}
	None
}

#[no_mangle]
pub unsafe extern "C" fn msync(addr: *mut c_void, len: usize, flags: c_int) -> c_int {
	let r = libc::syscall(libc::SYS_msync, addr, len, flags) as c_int;
	if intercept_gate() {
		IN_HOOK.store(true, Ordering::SeqCst);
		let mut fail = false;
		if let (Some(t), Some((p, off))) = (tracker(), mapping_file(addr as usize)) {
			if let Some(name) = db_file_name(t, &p) {
				if inject(&name) {
					fail = true;
				} else {
					count(t, "msync");
					// only the range named by the call becomes durable
					snapshot_range(t, &name, off, len as u64);
				}
			}
		}
		IN_HOOK.store(false, Ordering::SeqCst);
		if fail {
			set_errno(libc::EIO);
			return -1
		}
	}
	r
}

fn on_truncate_or_unlink(t: &mut Tracker, name: &str, what: &'static str) {
	count(t, what);
	if is_log(name) {
		count(t, if what == "unlink" { "log_unlink" } else { "log_truncate" });
		// R2: no table / index / ref-count byte may be unsynced when a log disappears
		if t.keep_shadow && t.r2_suspended && pv::dbutil::nested_enact_fired() {
			count(t, "r2_suspended_in_nested_schedule");
		} else if t.keep_shadow {
			let files: Vec<String> = std::fs::read_dir(&t.root)
				.map(|rd| rd.flatten().filter_map(|e| e.file_name().to_str().map(|s| s.to_string())).filter(|n| is_table_like(n)).collect())
				.unwrap_or_default();
			for f in files {
				if let Some(d) = differs_from_shadow(t, &f) {
					if t.rule_violations.len() < 10 {
						t.rule_violations.push(format!("R2 data-before-log-reuse: {} of {} while {}", what, name, d));
					}
				}
			}
			count(t, "r2_checks");
		}
	}
}

#[no_mangle]
pub unsafe extern "C" fn ftruncate64(fd: c_int, len: i64) -> c_int {
	if intercept_gate() {
		IN_HOOK.store(true, Ordering::SeqCst);
		let mut fail = false;
		if let (Some(t), Some(p)) = (tracker(), fd_path(fd)) {
			if let Some(name) = db_file_name(t, &p) {
				if inject(&name) {
					fail = true;
				} else if len == 0 {
					on_truncate_or_unlink(t, &name, "ftruncate");
				} else {
					count(t, "set_len");
				}
			}
		}
		IN_HOOK.store(false, Ordering::SeqCst);
		if fail {
			set_errno(libc::EIO);
			return -1
		}
	}
	libc::syscall(libc::SYS_ftruncate, fd, len) as c_int
}

#[no_mangle]
pub unsafe extern "C" fn ftruncate(fd: c_int, len: c_long) -> c_int {
	ftruncate64(fd, len as i64)
}

#[no_mangle]
pub unsafe extern "C" fn unlink(path: *const c_char) -> c_int {
	if intercept_gate() {
		IN_HOOK.store(true, Ordering::SeqCst);
		let mut fail = false;
		if let (Some(t), Ok(p)) = (tracker(), CStr::from_ptr(path).to_str()) {
			if let Some(name) = db_file_name(t, Path::new(p)) {
				if inject(&name) {
					fail = true;
				} else {
					on_truncate_or_unlink(t, &name, "unlink");
					if t.keep_shadow {
						let _ = std::fs::remove_file(t.shadow.join(&name));
					}
					t.log_unsynced.remove(&name);
				}
			}
		}
		IN_HOOK.store(false, Ordering::SeqCst);
		if fail {
			set_errno(libc::EIO);
			return -1
		}
	}
	libc::syscall(libc::SYS_unlink, path) as c_int
}

#[no_mangle]
pub unsafe extern "C" fn write(fd: c_int, buf: *const c_void, n: usize) -> isize {
	if intercept_gate() {
		IN_HOOK.store(true, Ordering::SeqCst);
		let mut fail = false;
		if let (Some(t), Some(p)) = (tracker(), fd_path(fd)) {
			if let Some(name) = db_file_name(t, &p) {
				if inject(&name) {
					fail = true;
				} else if is_log(&name) {
					*t.log_unsynced.entry(name).or_insert(0) += n as u64;
					count(t, "log_write");
				}
			}
		}
		IN_HOOK.store(false, Ordering::SeqCst);
		if fail {
			set_errno(libc::EIO);
			return -1
		}
	}
	libc::syscall(libc::SYS_write, fd, buf, n) as isize
}

#[no_mangle]
pub unsafe extern "C" fn read(fd: c_int, buf: *mut c_void, n: usize) -> isize {
	if intercept_gate() {
		IN_HOOK.store(true, Ordering::SeqCst);
		let mut fail = false;
		if let (Some(t), Some(p)) = (tracker(), fd_path(fd)) {
			if let Some(name) = db_file_name(t, &p) {
				if inject(&name) {
					fail = true;
				} else if is_log(&name) {
					count(t, "log_read");
					// R1: outside Db::open a log is only consumed after it was synced
					if !t.in_open {
						let unsynced = t.log_unsynced.get(&name).copied().unwrap_or(0);
						if unsynced > 0 && t.rule_violations.len() < 10 {
							t.rule_violations.push(format!(
								"R1 log-synced-before-apply: read of {} for enactment while {} appended bytes were never synced",
								name, unsynced
							));
						}
						count(t, "r1_checks");
					}
				}
			}
		}
		IN_HOOK.store(false, Ordering::SeqCst);
		if fail {
			set_errno(libc::EIO);
			return -1
		}
	}
	libc::syscall(libc::SYS_read, fd, buf, n) as isize
}
