//! Power-loss images: durable content (shadow) + an arbitrary subset of the 4 KiB pages that
//! differ + an arbitrary prefix of the unsynced log tail. Directory operations (create, unlink,
//! size changes) are taken as immediately durable.

use crate::interpose::is_table_like;
use pv::Rng;
use std::{
	collections::BTreeMap,
	path::{Path, PathBuf},
};

const PAGE: usize = 4096;

pub struct FileDiff {
	pub name: String,
	pub cur: Vec<u8>,
	pub durable: Vec<u8>,
	/// table-like: indexes of pages that differ; log: unused
	pub dirty_pages: Vec<usize>,
	pub is_log: bool,
}

pub struct Diff {
	pub files: Vec<FileDiff>,
	pub total_dirty_pages: usize,
	pub unsynced_log_bytes: u64,
}

fn is_log(name: &str) -> bool {
	name.len() > 3 && name.starts_with("log") && name[3..].chars().all(|c| c.is_ascii_digit())
}

pub fn diff(root: &Path, shadow: &Path) -> Diff {
	let mut files = vec![];
	let mut total = 0;
	let mut unsynced = 0u64;
	for (name, _len) in pv::dbutil::list_files(root) {
		let cur = std::fs::read(root.join(&name)).unwrap_or_default();
		let durable = std::fs::read(shadow.join(&name)).unwrap_or_default();
		let mut dirty = vec![];
		let log = is_log(&name);
		if is_table_like(&name) {
			let skip = if name.starts_with("index_") { 4 } else { 0 }; // statistics header pages
			let pages = (cur.len() + PAGE - 1) / PAGE;
			for p in skip..pages {
				let a = &cur[p * PAGE..((p + 1) * PAGE).min(cur.len())];
				let lo = (p * PAGE).min(durable.len());
				let hi = ((p + 1) * PAGE).min(durable.len());
				let b = &durable[lo..hi];
				let same = if b.len() == a.len() { a == b } else { a[..b.len()] == *b && a[b.len()..].iter().all(|x| *x == 0) };
				if !same {
					dirty.push(p);
				}
			}
			total += dirty.len();
		} else if log {
			if cur.len() > durable.len() {
				unsynced += (cur.len() - durable.len()) as u64;
			}
		}
		files.push(FileDiff { name, cur, durable, dirty_pages: dirty, is_log: log });
	}
	Diff { files, total_dirty_pages: total, unsynced_log_bytes: unsynced }
}

/// One choice of what reached the disk.
#[derive(Clone, Debug)]
pub struct Variant {
	pub desc: String,
	/// (file index, page) pairs taken from the volatile content
	pub pages: Vec<(usize, usize)>,
	/// per log file: length of the log in the image (None = volatile length)
	pub log_len: BTreeMap<usize, usize>,
}

pub fn variants(d: &Diff, rng: &mut Rng, max: usize, boundaries: &BTreeMap<String, Vec<u64>>) -> Vec<Variant> {
	let all_pages: Vec<(usize, usize)> = d.files.iter().enumerate().flat_map(|(i, f)| f.dirty_pages.iter().map(move |p| (i, *p))).collect();
	let logs: Vec<usize> = d.files.iter().enumerate().filter(|(_, f)| f.is_log && f.cur.len() != f.durable.len()).map(|(i, _)| i).collect();
	let log_choice = |rng: &mut Rng, mode: u8| -> BTreeMap<usize, usize> {
		let mut m = BTreeMap::new();
		for i in &logs {
			let f = &d.files[*i];
			let (lo, hi) = (f.durable.len().min(f.cur.len()), f.cur.len());
			let len = if f.cur.len() < f.durable.len() {
				// truncated but the truncation is not synced: old content or new
				if mode == 0 || (mode == 2 && rng.chance(1, 2)) { usize::MAX } else { f.cur.len() }
			} else {
				match mode {
					0 => lo,
					1 => hi,
					_ => {
						// record boundaries +-1 and random lengths
						let b: Vec<u64> = boundaries.get(&f.name).cloned().unwrap_or_default().into_iter().filter(|x| *x as usize >= lo && *x as usize <= hi).collect();
						if !b.is_empty() && rng.chance(2, 3) {
							let x = *rng.pick(&b) as i64 + rng.range(0, 2) as i64 - 1;
							(x.max(lo as i64) as usize).min(hi)
						} else {
							rng.range(lo as u64, hi as u64) as usize
						}
					},
				}
			};
			m.insert(*i, len);
		}
		m
	};
	let mut out = vec![];
	out.push(Variant { desc: "nothing unsynced reached the disk".into(), pages: vec![], log_len: log_choice(rng, 0) });
	out.push(Variant { desc: "all pages reached the disk, log tail lost".into(), pages: all_pages.clone(), log_len: log_choice(rng, 0) });
	out.push(Variant { desc: "no page reached the disk, whole log tail did".into(), pages: vec![], log_len: log_choice(rng, 1) });
	if all_pages.len() <= 24 {
		for (i, p) in all_pages.iter().enumerate() {
			out.push(Variant { desc: format!("only page {:?} reached the disk", p), pages: vec![*p], log_len: log_choice(rng, 2) });
			let mut rest = all_pages.clone();
			rest.remove(i);
			out.push(Variant { desc: format!("all but page {:?} reached the disk", p), pages: rest, log_len: log_choice(rng, 2) });
		}
	}
	for _ in 0..16 {
		let pages: Vec<(usize, usize)> = all_pages.iter().filter(|_| rng.chance(1, 2)).copied().collect();
		out.push(Variant { desc: format!("random subset of {} of {} dirty pages", pages.len(), all_pages.len()), pages, log_len: log_choice(rng, 2) });
	}
	if out.len() > max {
		// keep the extremes, sample the rest
		let mut keep: Vec<Variant> = out.drain(..3).collect();
		rng.shuffle(&mut out);
		out.truncate(max.saturating_sub(3));
		keep.extend(out);
		return keep
	}
	out
}

/// Materialise a variant into `dst`.
pub fn materialise(d: &Diff, v: &Variant, dst: &Path) -> std::io::Result<PathBuf> {
	let _ = std::fs::remove_dir_all(dst);
	std::fs::create_dir_all(dst)?;
	for (i, f) in d.files.iter().enumerate() {
		let data: Vec<u8> = if f.is_log {
			match v.log_len.get(&i) {
				Some(&usize::MAX) => f.durable.clone(),
				Some(&len) => {
					// durable prefix, then the volatile bytes up to len
					let mut x = f.cur[..len.min(f.cur.len())].to_vec();
					let n = f.durable.len().min(x.len());
					x[..n].copy_from_slice(&f.durable[..n]);
					x
				},
				None => f.cur.clone(),
			}
		} else if is_table_like(&f.name) {
			// size changes are durable; content = durable + chosen pages (+ always the volatile
			// statistics header of index files: unsynchronised by design)
			let mut x = vec![0u8; f.cur.len()];
			let n = f.durable.len().min(x.len());
			x[..n].copy_from_slice(&f.durable[..n]);
			if f.name.starts_with("index_") {
				let h = (4 * PAGE).min(x.len());
				x[..h].copy_from_slice(&f.cur[..h]);
			}
			for (fi, p) in &v.pages {
				if *fi == i {
					let lo = p * PAGE;
					let hi = ((p + 1) * PAGE).min(x.len());
					x[lo..hi].copy_from_slice(&f.cur[lo..hi]);
				}
			}
			x
		} else {
			f.cur.clone()
		};
		write_sparse(&dst.join(&f.name), &data)?;
	}
	Ok(dst.to_path_buf())
}

fn write_sparse(p: &Path, data: &[u8]) -> std::io::Result<()> {
	use std::io::{Seek, SeekFrom, Write};
	let mut f = std::fs::File::create(p)?;
	let mut i = 0;
	const B: usize = 1 << 16;
	while i < data.len() {
		let e = (i + B).min(data.len());
		if data[i..e].iter().any(|b| *b != 0) {
			f.seek(SeekFrom::Start(i as u64))?;
			f.write_all(&data[i..e])?;
		}
		i = e;
	}
	f.set_len(data.len() as u64)?;
	Ok(())
}
