//! E2 `crashsim`: crash / power-loss image simulator, log-mutation fuzzer and fault sweep.
//! Serves C02, C03 (crash lower bound), C12, C13, C16.

mod child;
mod history;
mod image;
mod interpose;
mod mutate;
mod oracle;

use child::{run_child, Outcome};
use history::{gen_plan, record, Act, Recorded};
use parity_db::Db;
use pv::{
	dbutil::{self, Step},
	json::J,
	run::main_entry,
	scratch::Scratch,
	Ctx, Report, Rng, Spec, Tier,
};
use std::{collections::BTreeMap, path::Path, time::Duration};

#[derive(Clone, Copy, PartialEq, Eq, Debug)]
pub enum Mode {
	C02,
	C03,
	C09,
	C07,
	C12,
	C13,
	C14,
	C16,
}

fn mode_of(p: &str) -> Option<Mode> {
	Some(match p {
		"C02" => Mode::C02,
		"C03" => Mode::C03,
		"C09" => Mode::C09,
		"C07" => Mode::C07,
		"C12" => Mode::C12,
		"C13" => Mode::C13,
		"C14" => Mode::C14,
		"C16" => Mode::C16,
		_ => return None,
	})
}

fn spec_for(prop: &str, _tier: Tier) -> Option<Spec> {
	let m = mode_of(prop)?;
	let common = "A case is one seeded history (commits + pipeline steps + restarts over one of 8 column layouts: hash, hash+rc, btree, multitree, mixed 3-column, index growth, btree+rc, multitree with counted roots), recorded once without faults to obtain the prefix states S_0..S_n, then re-run in forked children up to a crash instant. ";
	Some(match m {
		Mode::C02 => Spec::new("C02", "fault_enumeration", &format!("{}Crash instants: every boundary between two actions, and try_io boundary k of a pipeline step / drop / open (k sampled geometrically in quick, every k up to 400 in thorough), plus a second crash during the recovery of an image. At each instant the directory is copied (process crash: volatile content of every file) and reopened in a child: open must succeed, the state must equal S_m for some m <= commits issued, and a continuation workload must still follow the model. evaluations = oracle comparisons; distinct_nontrivial = distinct (layout, action kind, pipeline shape, k bucket, events seen inside the interrupted action) classes with at least one commit issued.", common))
			.require("images", 200)
			.require("images_inside_step", 50)
			.require("images_needing_replay", 20)
			.require("nested_recovery_crashes", 5)
			.require("cut_after_log_write", 1)
			.require("cut_after_log_sync", 1)
			.require("cut_after_table_flush", 1)
			.require("cut_after_log_truncate", 1)
			.require("cut_after_log_unlink", 1)
			.require("cut_during_open", 1)
			.require("cut_during_drop", 1)
			.require("layouts", 6)
			.budget(60, 900)
			.assume("the fault injector's try_io boundaries are dense enough to stand for 'between any two file operations' (DESIGN section 0)")
			.assume("single client thread; no tree reader is held"),
		Mode::C03 => Spec::new("C03", "fault_enumeration", &format!("{}Same images as C02 but judged against the durability lower bound: m >= number of commits whose WAL record was written before the last successful flush_logs (fdatasync) preceding the crash instant.", common))
			.require("images", 100)
			.require("images_with_synced_lower_bound", 30)
			.budget(35, 600)
			.assume("crash part of C03 (the clean-shutdown part is decided by the stepping engine in the same check)"),
		Mode::C09 => Spec::new("C09", "exploration", "Crash part of C09 (the stepping engine decides the rest in the same check): the crash simulator's histories restricted to the index-growth layout (identity-hashed uniform keys of one index page, every other history with ONE transaction that overflows the page several times so that a single record grows the index by several steps, one in three with a second, reference-counted column), crash instants as in C02 (action boundaries and try_io boundary k inside process_commits / process_reindex / enact / clean / drop / open, two-worker nested schedules included); recovery must give a prefix state S_m in which every key returns its latest value, and a continuation workload must still follow the model.")
			.require("images", 100)
			.require("images_inside_step", 30)
			.require("images_needing_replay", 10)
			.budget(40, 600)
			.assume("crash part of C09; restart / growth interleavings without crashes are decided by the stepping engine"),
		Mode::C07 => Spec::new("C07", "exploration", "Crash part of C07 (the stepping engine decides the rest in the same check): the crash simulator's histories restricted to the layouts with a reference-counted column (hash + counts, btree + counts, the mixed three-column layout), crash instants as in C02; recovery must give a prefix state S_m INCLUDING the counts where they are observable (hash columns: value iteration yields every live value with its count; btree columns: a key is readable iff its count is positive), and a continuation (further sets / references / dereferences, drain, clean restart) must follow the count model re-based at S_m.")
			.require("images", 100)
			.require("images_inside_step", 30)
			.require("images_needing_replay", 10)
			.budget(30, 500)
			.assume("crash part of C07; counts under stepping and clean restarts are decided by the stepping engine"),
		Mode::C14 => Spec::new("C14", "exploration", &format!("{}Crash images as in C02; after recovery, a continuation workload, a clean restart and a drain, the independent structural checker (pvfsck) validates the files against the recovered prefix state plus the continuation (free lists, slot classification, index<->value bijection, btree order/depth, tree reference counts).", common))
			.require("images", 100)
			.require("fsck_after_recovery", 50)
			.budget(35, 600),
		Mode::C12 => Spec::new("C12", "fault_enumeration", &format!("{}The harness binary interposes fsync/fdatasync/msync/ftruncate/unlink/read/write, keeps a durable shadow of every file (content at its last sync) and builds power-loss images: durable content + a subset of the differing 4 KiB pages (none, all, each page alone, all but one, random subsets) + a prefix of the unsynced log tail (record boundaries +-1, random). Recovery must give S_m with synced <= m <= issued. In addition two ordering rules are evaluated on the real syscalls of every un-faulted run: R1 a log is not read for enactment while bytes appended to it were never synced; R2 when a log is truncated or unlinked no table/index/ref-count byte differs from its last synced content.", common))
			.require("power_images", 200)
			.require("images_with_dirty_pages", 30)
			.require("images_with_unsynced_log_tail", 30)
			.require("r1_checks", 10)
			.require("r2_checks", 10)
			.require("sync_events", 50)
			.budget(60, 900)
			.assume("directory operations (create, unlink, size change) are atomic and immediately durable; the metadata file is durable once written")
			.assume("the first 16 KiB of index files (statistics, deliberately unsynchronised) are excluded from page tearing and from R2"),
		Mode::C13 => Spec::new("C13", "fault_enumeration", &format!("{}Base image: tables hold S_j, 1-4 log files hold later records that were never applied. Mutations of the log files: truncation at every offset (small logs) or sampled offsets, single-bit flips at every header byte and sampled payload bytes, multi-byte overwrites, appended garbage / a valid-looking BEGIN, duplicated / swapped / deleted / zero-length / sub-header-length log files, a stale log of an earlier generation. Open must not panic and must give S_m with j <= m <= (commits before the first touched record).", common))
			.require("mutations", 300)
			.require("mut_truncate", 50)
			.require("mut_bitflip", 50)
			.require("mut_append", 5)
			.require("mut_file_level", 10)
			.assume("CRC-32 detects all single-bit flips and bursts <= 32 bits; random multi-byte damage escaping with probability 2^-32 is ignored"),
		Mode::C16 => Spec::new("C16", "fault_enumeration", &format!("{}A fault is injected at try_io boundary k of a pipeline step (persisting from then on); the step must return the error (a step that returns Ok although one of its file operations failed is a violation: counted per thread by a hook in the fault injector); the harness reports the step error the way a background worker does, then: reads must return the latest committed data, a new commit must be refused with a background error, drop must return (half of the time with the fault still present, half with the shutdown's own file operations succeeding), and after the fault is cleared reopening must give S_m with synced <= m <= issued.", common))
			.require("faults_injected", 200)
			.require("commit_refused_checks", 100)
			.require("reopen_after_fault", 100)
			.require("fault_in_process_commits", 10)
			.require("fault_in_enact", 10)
			.require("fault_in_flush", 5)
			.require("fault_in_clean", 5)
			.require("fault_in_open", 5)
			.require("drop_with_fault_persisting", 20)
			.require("drop_with_fault_gone", 20)
			.budget(60, 900),
	})
}

fn shard(ctx: &Ctx, rep: &mut Report) {
	let mode = mode_of(&ctx.prop).expect("mode");
	if mode == Mode::C14 {
		oracle::FSCK_AFTER_RECOVERY.store(true, std::sync::atomic::Ordering::SeqCst);
	}
	if let Some(j) = &ctx.replay {
		let case_seed = j.get("case_seed").and_then(|x| x.as_u64()).expect("case_seed");
		let variant = j.get("variant").and_then(|x| x.as_u64()).unwrap_or(0);
		run_case(ctx, rep, mode, case_seed, variant, j.get("target").cloned());
		return
	}
	let mut seeder = Rng::new(ctx.seed ^ 0xE2E2);
	let max_cases = if mode == Mode::C13 { ctx.tier.pick(400, 6000) } else { ctx.tier.pick(40, 600) };
	let mut i = 0u64;
	while i < max_cases && ctx.elapsed_frac() < 0.8 {
		let case_seed = seeder.next() >> 2;
		let variant = ctx.shard as u64 + i * ctx.nshards as u64;
		// C09: only the index-growth layout (kind 5); the flavour still walks all four values
		let variant = if mode == Mode::C09 { (variant & !7) | 5 } else { variant };
		// C07: only the layouts with a reference-counted column (kinds 1, 6, 4)
		let variant = if mode == Mode::C07 { (variant & !7) | [1u64, 6, 4][(i % 3) as usize] } else { variant };
		// C16: the index-growth layout (files created and dropped by the pipeline: the richest
		// set of fallible file operations) every fourth case instead of every eighth
		let variant = if mode == Mode::C16 && i % 3 == 1 { (variant & !7) | 5 } else { variant };
		run_case(ctx, rep, mode, case_seed, variant, None);
		rep.cases += 1;
		ctx.checkpoint(rep);
		i += 1;
		let stop = if mode == Mode::C13 { rep.get("violations_other_than_f6") >= 12 } else { rep.get("violations_raw") >= 12 };
		if stop {
			break
		}
	}
}

fn main() {
	main_entry(spec_for, shard)
}

/// What a crash child reports back.
fn merge_child(rep: &mut Report, j: &J) {
	if let Some(m) = j.get("counts").and_then(|x| x.as_obj()) {
		for (k, v) in m {
			rep.count(k, v.as_u64().unwrap_or(0));
		}
	}
	if let Some(a) = j.get("seen").and_then(|x| x.as_arr()) {
		for s in a {
			if let Some(s) = s.as_str() {
				rep.seen(s);
			}
		}
	}
	rep.evaluations += j.get("evals").and_then(|x| x.as_u64()).unwrap_or(0);
}

pub struct Target {
	pub act: usize,
	/// "step", "drop", "open", "boundary"
	pub phase: &'static str,
	pub k: u64,
}

fn run_case(ctx: &Ctx, rep: &mut Report, mode: Mode, case_seed: u64, variant: u64, only: Option<J>) {
	let mut rng = Rng::new(case_seed);
	let plan = gen_plan(&mut rng, variant, ctx.tier, mode == Mode::C13);
	let desc = format!("{:?} case_seed={} variant={} layout={} cfg=[{}] acts={}", mode, case_seed, variant, plan.kind, plan.cfg.describe(), plan.acts.len());
	ctx.mark(&desc);
	let work = Scratch::new("cs");
	// ---- recording run (no faults), in a child so that a library panic cannot take the shard down
	let rec_dir = work.path.join("rec");
	let recorded = {
		let r = pv::scratch::catch(|| record(&plan, &rec_dir));
		match r {
			Ok(Ok(r)) => r,
			Ok(Err(e)) => {
				rep.violation(
					format!("scenario={:?};failure=fault_free_run_failed;layout={}", mode, plan.kind),
					format!("the fault-free recording run failed: {}", e),
					J::obj().set("case", J::s(desc.clone())).set("case_seed", J::i(case_seed)).set("variant", J::i(variant)).set("shard_seed", J::i(ctx.seed)),
				);
				return
			},
			Err(p) => {
				rep.violation(
					format!("scenario={:?};failure=panic;site={};layout={}", mode, pv::scratch::panic_site(&p), plan.kind),
					format!("panic in the fault-free recording run: {}", p),
					J::obj().set("case", J::s(desc.clone())).set("case_seed", J::i(case_seed)).set("variant", J::i(variant)).set("shard_seed", J::i(ctx.seed)),
				);
				return
			},
		}
	};
	let _ = std::fs::remove_dir_all(&rec_dir);
	rep.count("layouts", if rep.get(&format!("layout_{}", plan.kind)) == 0 { 1 } else { 0 });
	rep.count(&format!("layout_{}", plan.kind), 1);
	if rep.samples.len() < 2 {
		rep.sample(
			J::obj()
				.set("case", J::s(desc.clone()))
				.set("actions", J::strs(recorded.acts.iter().take(30).map(|a| {
					let s = a.show();
					if s.len() > 200 { format!("{}...", &s[..200]) } else { s }
				})))
				.set("commits", J::i(recorded.states.len() as u64 - 1)),
		);
	}
	if ctx.verbose {
		for (i, a) in recorded.acts.iter().enumerate() {
			eprintln!("  act {:3} shape {} synced {} commits {} :: {}", i, recorded.shape_before[i], recorded.synced_before[i], recorded.commits_before[i], a.show().chars().take(100).collect::<String>());
		}
	}
	match mode {
		Mode::C13 => mutate::run(ctx, rep, &recorded, &work, &mut rng, &desc, case_seed, variant),
		_ => crash_targets(ctx, rep, mode, &recorded, &work, &mut rng, &desc, case_seed, variant, only),
	}
}

fn k_samples(rng: &mut Rng, tier: Tier) -> Vec<u64> {
	match tier {
		Tier::Thorough => (0..400).collect(),
		Tier::Quick => {
			let mut v = vec![0u64, 1, 2, 3];
			let mut x = 4u64;
			while x < 400 {
				v.push(x + rng.below((x / 3).max(1)));
				x = x * 3 / 2 + 1;
			}
			v
		},
	}
}

#[allow(clippy::too_many_arguments)]
fn crash_targets(ctx: &Ctx, rep: &mut Report, mode: Mode, rec: &Recorded, work: &Scratch, rng: &mut Rng, desc: &str, case_seed: u64, variant: u64, only: Option<J>) {
	// candidate acts
	let mut targets: Vec<(usize, &'static str)> = vec![];
	for (i, a) in rec.acts.iter().enumerate() {
		match a {
			Act::Step(_) | Act::Nested(..) => targets.push((i, "step")),
			Act::Restart => {
				targets.push((i, "drop"));
				targets.push((i, "open"));
			},
			Act::Commit(_) => {},
		}
		if mode != Mode::C16 {
			targets.push((i, "boundary"));
		}
	}
	if let Some(t) = &only {
		let a = t.get("act").and_then(|x| x.as_u64()).unwrap_or(0) as usize;
		let ph = t.get("phase").and_then(|x| x.as_str()).unwrap_or("step").to_string();
		let k = t.get("k").and_then(|x| x.as_u64()).unwrap_or(0);
		let ph: &'static str = match ph.as_str() {
			"drop" => "drop",
			"open" => "open",
			"boundary" => "boundary",
			_ => "step",
		};
		one_target(ctx, rep, mode, rec, work, rng, desc, case_seed, variant, a, ph, k);
		return
	}
	// quick: a sample of the acts; thorough: all. Steps that reclaim log files while several
	// are waiting (log ids get recycled, so file order != record order) are always taken and
	// swept densely: few boundaries, each of them a distinct ordering hazard.
	let dirty_of = |i: usize| -> u32 { rec.shape_before[i].split('d').nth(1).and_then(|s| s.chars().next()).and_then(|c| c.to_digit(10)).unwrap_or(0) };
	let is_reclaim = |t: &(usize, &'static str)| -> bool {
		t.1 == "step" &&
			match &rec.acts[t.0] {
				Act::Step(Step::CleanLogs) => dirty_of(t.0) >= 2,
				// a cleanup racing with the commit stage, or a cleanup run inside another step
				Act::Nested(Step::CleanLogs, _) => dirty_of(t.0) >= 1,
				Act::Nested(_, n) => n.inner.contains(&Step::CleanLogs) && dirty_of(t.0) >= 1,
				_ => false,
			}
	};
	// a record that grew an index by several steps (the reindex queue gained >= 2 tables inside
	// one process_commits) is being applied: index files are created one after the other, each
	// boundary in between is a distinct "which tables exist" state. Always taken, swept densely.
	let idx_of = |i: usize| -> u32 { rec.shape_before[i].rsplit('i').next().and_then(|s| s.chars().next()).and_then(|c| c.to_digit(10)).unwrap_or(0) };
	let mut multi_growth_enacts: Vec<usize> = vec![];
	for i in 0..rec.acts.len().saturating_sub(1) {
		let grows = matches!(&rec.acts[i], Act::Step(Step::ProcessCommits) | Act::Nested(Step::ProcessCommits, _)) && idx_of(i + 1) >= idx_of(i) + 2;
		if grows {
			let mut found = 0;
			for j in i + 1..rec.acts.len().min(i + 16) {
				let enact = match &rec.acts[j] {
					Act::Step(Step::EnactOne) | Act::Step(Step::EnactAll) => true,
					Act::Nested(Step::EnactOne, _) | Act::Nested(Step::EnactAll, _) => true,
					Act::Nested(_, n) => n.inner.contains(&Step::EnactOne) || n.inner.contains(&Step::EnactAll),
					_ => false,
				};
				if enact {
					multi_growth_enacts.push(j);
					found += 1;
					if found >= 2 {
						break
					}
				}
			}
		}
	}
	let is_growth_enact = |t: &(usize, &'static str)| -> bool { t.1 == "step" && multi_growth_enacts.contains(&t.0) };
	let max_targets = ctx.tier.pick(14, 10_000);
	// the handle goes away while the log being appended to holds unsynced records and an older
	// record is still waiting in another (possibly higher-numbered) file: recovery must cope
	let is_busy_restart = |t: &(usize, &'static str)| -> bool {
		t.1 == "open" && matches!(rec.acts[t.0], Act::Restart) && rec.shape_before[t.0].contains("a1") && !rec.shape_before[t.0].contains("r0")
	};
	if targets.len() > max_targets {
		let (mut keep, mut rest): (Vec<_>, Vec<_>) = targets.into_iter().partition(|t| is_reclaim(t) || is_busy_restart(t) || is_growth_enact(t));
		rng.shuffle(&mut keep);
		keep.sort_by_key(|t| (!is_busy_restart(t), !is_growth_enact(t)));
		keep.truncate(6);
		rng.shuffle(&mut rest);
		rest.truncate(max_targets.saturating_sub(keep.len()));
		keep.extend(rest);
		targets = keep;
		targets.sort();
	}
	for (act, phase) in targets {
		if !ctx.time_left() {
			break
		}
		if phase == "boundary" {
			one_target(ctx, rep, mode, rec, work, rng, desc, case_seed, variant, act, phase, 0);
			continue
		}
		let ks = if is_reclaim(&(act, phase)) {
			(0..60).collect()
		} else if is_growth_enact(&(act, phase)) && ctx.tier == Tier::Quick {
			(0..90).collect()
		} else {
			k_samples(rng, ctx.tier)
		};
		if is_reclaim(&(act, phase)) {
			rep.count("dense_sweeps_of_log_reclaim", 1);
		}
		if is_growth_enact(&(act, phase)) {
			rep.count("dense_sweeps_of_multi_growth_enact", 1);
		}
		let mut last_open = None; // largest sampled k that was a real boundary
		let mut first_done = None; // smallest sampled k beyond the last boundary
		for k in ks {
			ctx.progress();
			let completed = one_target(ctx, rep, mode, rec, work, rng, desc, case_seed, variant, act, phase, k);
			if completed {
				first_done = Some(k);
				break
			}
			last_open = Some(k);
			if !ctx.time_left() {
				break
			}
		}
		// quick tier: the geometric sample is thin exactly where log files are reclaimed (the end
		// of a step / drop / recovery): sweep the tail downwards from the completion point
		if ctx.tier == Tier::Quick && phase != "drop" {
			if let (Some(p), Some(c)) = (last_open, first_done) {
				let mut real = 0;
				let mut k = c;
				while k > p + 1 && real < 10 && ctx.time_left() {
					k -= 1;
					ctx.progress();
					if !one_target(ctx, rep, mode, rec, work, rng, desc, case_seed, variant, act, phase, k) {
						real += 1;
					}
				}
				rep.count("tail_sweeps", 1);
			}
		}
		if rep.get("violations_raw") >= 12 {
			break
		}
	}
}

/// Returns true when the action completed without reaching boundary k (no more boundaries).
#[allow(clippy::too_many_arguments)]
fn one_target(ctx: &Ctx, rep: &mut Report, mode: Mode, rec: &Recorded, work: &Scratch, rng: &mut Rng, desc: &str, case_seed: u64, variant: u64, act: usize, phase: &'static str, k: u64) -> bool {
	let sub_seed = rng.next() >> 2;
	let dir = work.path.join("run");
	let _ = std::fs::remove_dir_all(&dir);
	let tag = format!("a{}-{}-k{}", act, phase, k);
	let out = run_child(&work.path, "child", Duration::from_secs(60), || crash_child(mode, rec, &dir, act, phase, k, sub_seed, ctx.tier));
	let _ = std::fs::remove_dir_all(&dir);
	let _ = std::fs::remove_dir_all(work.path.join("run.shadow"));
	let _ = std::fs::remove_dir_all(work.path.join("img"));
	let replay = |extra: &str| {
		J::obj()
			.set("engine", J::s("crashsim"))
			.set("case", J::s(desc.to_string()))
			.set("case_seed", J::i(case_seed))
			.set("variant", J::i(variant))
			.set("shard_seed", J::i(ctx.seed))
			.set("target", J::obj().set("act", J::i(act as u64)).set("phase", J::s(phase)).set("k", J::i(k)))
			.set("action", J::s(rec.acts[act].show().chars().take(300).collect::<String>()))
			.set("shape_before", J::s(rec.shape_before[act].clone()))
			.set("note", J::s(extra.to_string()))
	};
	match out {
		Outcome::Done(j) => {
			if let Some(p) = j.get("panic").and_then(|x| x.as_str()) {
				rep.violation(
					format!("scenario={:?};failure=panic;site={};phase={}", mode, pv::scratch::panic_site(p), phase),
					format!("panic in the child at {}: {}", tag, p),
					replay("panic"),
				);
				return true
			}
			merge_child(rep, &j);
			if let Some(a) = j.get("violations").and_then(|x| x.as_arr()) {
				for v in a {
					let sig = v.get("sig").and_then(|x| x.as_str()).unwrap_or("failure=unknown");
					let detail = v.get("detail").and_then(|x| x.as_str()).unwrap_or("");
					rep.violation(
						format!("scenario={:?};{};layout={};phase={}", mode, sig, rec.kind, phase),
						format!("{} [crash at act {} ({}) boundary {} of {}]", detail, act, rec.acts[act].show().chars().take(80).collect::<String>(), k, phase),
						replay(v.get("image").and_then(|x| x.as_str()).unwrap_or("")),
					);
				}
			}
			j.get("completed").and_then(|x| x.as_bool()).unwrap_or(false)
		},
		Outcome::Died(how, ph) => {
			rep.violation(
				format!("scenario={:?};failure=process_abort;phase={}", mode, phase),
				format!("child died ({}) at {} during [{}]", how, tag, ph),
				replay(&ph),
			);
			true
		},
		Outcome::Timeout(ph) => {
			if mode == Mode::C16 && ph.starts_with("drop after fault") {
				rep.violation(
					format!("scenario={:?};failure=hang_on_drop_after_fault", mode),
					format!("drop did not return within 60 s after an injected fault at {}", tag),
					replay(&ph),
				);
			} else {
				rep.inconclusive(format!("child timed out at {} during [{}] ({})", tag, ph, desc));
			}
			true
		},
	}
}

fn events_delta(before: &BTreeMap<&'static str, u64>, after: &BTreeMap<&'static str, u64>) -> Vec<&'static str> {
	let mut v = vec![];
	for (k, a) in after {
		if *a > before.get(k).copied().unwrap_or(0) {
			v.push(*k);
		}
	}
	v
}

/// Child: re-run the prefix, crash at the target, build and judge images.
#[allow(clippy::too_many_arguments)]
fn crash_child(mode: Mode, rec: &Recorded, dir: &Path, act: usize, phase: &'static str, k: u64, sub_seed: u64, tier: Tier) -> J {
	let mut rng = Rng::new(sub_seed);
	let power = mode == Mode::C12;
	let shadow = dir.with_extension("shadow");
	interpose::start(dir, &shadow, power);
	let opts = rec.cfg.options(dir);
	let mut counts: BTreeMap<String, u64> = BTreeMap::new();
	let mut seen: Vec<String> = vec![];
	let mut violations: Vec<J> = vec![];
	let mut evals = 0u64;
	let mut bump = |c: &mut BTreeMap<String, u64>, k: &str, n: u64| *c.entry(k.to_string()).or_insert(0) += n;

	child::phase("re-run prefix");
	interpose::set_in_open(true);
	let mut db = Some(Db::open_or_create(&opts).expect("open_or_create in re-run"));
	interpose::set_in_open(false);
	// log record boundaries per file, for unsynced-tail cuts
	let mut boundaries: BTreeMap<String, Vec<u64>> = BTreeMap::new();
	for (i, a) in rec.acts.iter().enumerate().take(act) {
		let d = db.as_ref().unwrap();
		match a {
			Act::Commit(tx) => {
				d.commit_changes(tx.iter().map(|o| o.to_db()).collect::<Vec<_>>()).expect("commit in re-run");
			},
			Act::Step(s) => {
				dbutil::do_step(d, *s).expect("step in re-run");
			},
			Act::Nested(s, n) => {
				interpose::set_r2_suspended(*s == Step::CleanLogs);
				let (r, out) = dbutil::do_step_nested(d, *s, n);
				interpose::set_r2_suspended(false);
				r.expect("nested step in re-run");
				if let Some(e) = out.inner_err {
					panic!("inner step in re-run: {}", e);
				}
			},
			Act::Restart => {
				dbutil::make_drop_legal(d).expect("pre-drop in re-run");
				drop(db.take());
				interpose::set_in_open(true);
				db = Some(Db::open(&opts).expect("reopen in re-run"));
				interpose::set_in_open(false);
			},
		}
		for (n, s) in &rec.log_sizes_after[i] {
			let b = boundaries.entry(n.clone()).or_default();
			if b.last() != Some(s) {
				b.push(*s);
			}
		}
	}
	let events_before = interpose::tracker().map(|t| t.counts.clone()).unwrap_or_default();
	let files_before: Vec<String> = dbutil::list_files(dir).into_iter().map(|f| f.0).collect();
	let lo = match mode {
		Mode::C02 | Mode::C09 | Mode::C07 | Mode::C14 => 0,
		_ => rec.synced_before[act],
	};
	let hi = rec.commits_before[act] + if matches!(rec.acts[act], Act::Commit(_)) && phase == "boundary" { 1 } else { 0 };
	let mut completed = false;
	let mut fault_err: Option<parity_db::Error> = None;
	child::phase(&format!("interrupted action {} phase {} k {}", act, phase, k));
	match (phase, &rec.acts[act]) {
		("boundary", a) => {
			// no fault: perform the action, the crash instant is right after it
			let d = db.as_ref().unwrap();
			match a {
				Act::Commit(tx) => d.commit_changes(tx.iter().map(|o| o.to_db()).collect::<Vec<_>>()).expect("commit"),
				Act::Step(s) => dbutil::do_step(d, *s).expect("step"),
				Act::Nested(s, n) => {
					interpose::set_r2_suspended(*s == Step::CleanLogs);
					let (r, out) = dbutil::do_step_nested(d, *s, n);
					interpose::set_r2_suspended(false);
					r.expect("nested step");
					if let Some(e) = out.inner_err {
						panic!("inner step: {}", e);
					}
					if out.fired {
						bump(&mut counts, "nested_schedules_fired", 1);
						bump(&mut counts, &format!("nested_site_{}", n.site), 1);
					}
				},
				Act::Restart => {
					dbutil::make_drop_legal(d).expect("pre-drop");
					drop(db.take());
					interpose::set_in_open(true);
					db = Some(Db::open(&opts).expect("reopen"));
					interpose::set_in_open(false);
				},
			}
			bump(&mut counts, "images_at_action_boundary", 1);
		},
		("step", Act::Step(s)) => {
			let d = db.as_ref().unwrap();
			let inj0 = parity_db::verif_injected_failures();
			parity_db::set_number_of_allowed_io_operations(k as usize);
			let r = dbutil::do_step(d, *s);
			parity_db::set_number_of_allowed_io_operations(usize::MAX);
			let injected = parity_db::verif_injected_failures() - inj0;
			match r {
				Ok(()) if injected > 0 => {
					// a file operation failed inside the step and the step reported success
					bump(&mut counts, "faults_swallowed_by_step", 1);
					if mode == Mode::C16 {
						violations.push(
							J::obj()
								.set("sig", J::s(format!("failure=fault_not_reported;step={}", s.name())))
								.set("detail", J::s(format!("{} returned Ok although {} of its file operations failed (the failure is neither returned by the failing call nor stored for later commits)", s.name(), injected))),
						);
					}
				},
				Ok(()) => completed = true,
				Err(e) => fault_err = Some(e),
			}
		},
		("step", Act::Nested(s, n)) => {
			let d = db.as_ref().unwrap();
			interpose::set_r2_suspended(*s == Step::CleanLogs);
			parity_db::set_number_of_allowed_io_operations(k as usize);
			let (r, out) = dbutil::do_step_nested(d, *s, n);
			parity_db::set_number_of_allowed_io_operations(usize::MAX);
			interpose::set_r2_suspended(false);
			if out.fired {
				bump(&mut counts, "cut_inside_nested_schedule", 1);
			}
			match (r, out.inner_err) {
				(Ok(()), None) => completed = true,
				(Err(e), _) => fault_err = Some(e),
				// the fault hit an inner step and the outer step had no file operation left: the
				// error belongs to the worker that ran the inner step
				(Ok(()), Some(e)) => fault_err = Some(parity_db::Error::InvalidInput(format!("inner step failed: {}", e))),
			}
		},
		("drop", Act::Restart) => {
			let d = db.take().unwrap();
			dbutil::make_drop_legal(&d).expect("pre-drop");
			parity_db::set_number_of_allowed_io_operations(k as usize);
			drop(d);
			parity_db::set_number_of_allowed_io_operations(usize::MAX);
			bump(&mut counts, "cut_during_drop", 1);
			// drop swallows errors, so whether boundary k existed is not observable; drop of a
			// legal state has at most a few hundred boundaries: the caller stops on `completed`
			completed = k > 150;
		},
		("open", Act::Restart) if power => {
			// power-loss mode: recover IN PLACE, so that the interposer keeps watching the same
			// files: the ordering rules apply to the truncations / deletions made by the recovery
			// (rule R2: replayed table changes are flushed before a replayed log goes away) and the
			// power-loss images are cut inside / right after the recovery
			let d = db.take().unwrap();
			dbutil::make_drop_legal(&d).expect("pre-drop");
			std::mem::forget(d);
			close_lock_fds(dir);
			interpose::set_in_open(true);
			parity_db::set_number_of_allowed_io_operations(k as usize);
			let r = pv::scratch::catch(|| Db::open(&opts));
			parity_db::set_number_of_allowed_io_operations(usize::MAX);
			interpose::set_in_open(false);
			bump(&mut counts, "cut_during_open", 1);
			bump(&mut counts, "recoveries_watched_in_place", 1);
			match r {
				Ok(Ok(d2)) => {
					completed = true;
					db = Some(d2);
				},
				Ok(Err(_)) => {},
				Err(p) => {
					violations.push(J::obj().set("sig", J::s(format!("failure=open_panic_under_fault;site={}", pv::scratch::panic_site(&p)))).set("detail", J::s(format!("Db::open panicked when a file operation failed during recovery: {}", p))));
				},
			}
		},
		("open", Act::Restart) => {
			let d = db.take().unwrap();
			dbutil::make_drop_legal(&d).expect("pre-drop");
			// leave work for the recovery: do not drop cleanly, crash-copy instead
			std::mem::forget(d);
			let pre = dir.with_extension("pre");
			interpose::quiet(|| pv::scratch::copy_dir(dir, &pre).expect("copy"));
			// the image `pre` is a process-crash image before the restart; recover it with a fault
			let popts = rec.cfg.options(&pre);
			parity_db::set_number_of_allowed_io_operations(k as usize);
			let r = pv::scratch::catch(|| Db::open(&popts));
			parity_db::set_number_of_allowed_io_operations(usize::MAX);
			bump(&mut counts, "cut_during_open", 1);
			match r {
				Ok(Ok(d2)) => {
					// no boundary k inside this recovery: it simply completed
					completed = true;
					drop(d2);
				},
				Ok(Err(_)) => {
					if mode == Mode::C16 {
						bump(&mut counts, "faults_injected", 1);
						bump(&mut counts, "fault_in_open", 1);
						bump(&mut counts, "reopen_after_fault", 1);
					}
				},
				Err(p) => {
					violations.push(J::obj().set("sig", J::s(format!("failure=open_panic_under_fault;site={}", pv::scratch::panic_site(&p)))).set("detail", J::s(format!("Db::open panicked when a file operation failed during recovery: {}", p))));
				},
			}
			// judge the directory left behind by the interrupted recovery
			let mut sub = rng.derive(7);
			let v = oracle::eval_image(&pre, rec, lo, hi, &mut sub, true);
			evals += v.evals;
			bump(&mut counts, "images", 1);
			bump(&mut counts, "images_inside_step", 1);
			bump(&mut counts, "nested_recovery_crashes", 1);
			if let Some((sig, detail)) = v.fail {
				violations.push(J::obj().set("sig", J::s(sig)).set("detail", J::s(format!("after a crash during recovery: {}", detail))).set("image", J::s("interrupted recovery")));
			}
			seen.push(format!("{}|open|{}|k{}", rec.kind, rec.shape_before[act], bucket(k)));
			let _ = std::fs::remove_dir_all(&pre);
			return finish(completed, counts, seen, violations, evals);
		},
		_ => {
			completed = true;
		},
	}
	// the crash instant is now; never run destructors of the crashed handle
	let crashed_handle = db.take();
	let events_after = interpose::tracker().map(|t| t.counts.clone()).unwrap_or_default();
	let ev = events_delta(&events_before, &events_after);
	for e in &ev {
		let name = match *e {
			"log_write" => "cut_after_log_write",
			"log_sync" => "cut_after_log_sync",
			"msync" => "cut_after_table_flush",
			"log_truncate" => "cut_after_log_truncate",
			"log_unlink" => "cut_after_log_unlink",
			_ => continue,
		};
		bump(&mut counts, name, 1);
	}
	let files_after: Vec<String> = dbutil::list_files(dir).into_iter().map(|f| f.0).collect();
	if files_after.iter().any(|f| f.starts_with("index_") && !files_before.contains(f)) {
		bump(&mut counts, "cut_after_index_create", 1);
	}
	if files_before.iter().any(|f| f.starts_with("index_") && !files_after.contains(f)) {
		bump(&mut counts, "cut_after_index_drop", 1);
	}
	if hi > 0 {
		seen.push(format!("{}|{}|{}|k{}|{}", rec.kind, rec.acts[act].show().split_whitespace().next().unwrap_or(""), rec.shape_before[act], bucket(k), ev.join("+")));
	}

	if mode == Mode::C16 {
		let r = fault_flow(rec, dir, crashed_handle, fault_err, act, phase, lo, hi, &mut counts, &mut violations, &mut rng);
		evals += r;
		return finish(completed, counts, seen, violations, evals)
	}
	if completed && phase == "step" {
		// no boundary k in this step: nothing new to cut (the boundary image covers the end state)
		if let Some(d) = crashed_handle {
			std::mem::forget(d);
		}
		return finish(true, counts, seen, violations, evals)
	}
	// trace rules (C12): the un-faulted boundary runs execute whole actions under the interposer
	if power {
		if let Some(t) = interpose::tracker() {
			bump(&mut counts, "r1_checks", t.counts.get("r1_checks").copied().unwrap_or(0));
			bump(&mut counts, "r2_checks", t.counts.get("r2_checks").copied().unwrap_or(0));
			bump(&mut counts, "sync_events", t.sync_events);
			if phase == "boundary" || completed {
				for rv in t.rule_violations.clone() {
					let rule = if rv.starts_with("R1") { "R1" } else { "R2" };
					violations.push(J::obj().set("sig", J::s(format!("failure=sync_order_rule;rule={}", rule))).set("detail", J::s(rv)));
				}
			}
		}
	}
	interpose::stop();
	// ---- images
	let imgs = dir.with_file_name("img");
	let _ = std::fs::remove_dir_all(&imgs);
	std::fs::create_dir_all(&imgs).expect("img dir");
	let inside = phase != "boundary";
	let has_logs = dbutil::list_files(dir).iter().any(|(n, l)| n.starts_with("log") && *l > 0);
	if !power {
		let img = imgs.join("p");
		pv::scratch::copy_dir(dir, &img).expect("copy image");
		child::phase(&format!("process-crash image at act {} {} k {}", act, phase, k));
		let v = oracle::eval_image(&img, rec, lo, hi, &mut rng, true);
		evals += v.evals;
		bump(&mut counts, "images", 1);
		if mode == Mode::C14 && v.fail.is_none() {
			bump(&mut counts, "fsck_after_recovery", 1);
		}
		if inside {
			bump(&mut counts, "images_inside_step", 1);
		}
		if has_logs {
			bump(&mut counts, "images_needing_replay", 1);
		}
		if lo > 0 {
			bump(&mut counts, "images_with_synced_lower_bound", 1);
		}
		if let Some(m) = v.m {
			bump(&mut counts, if m == hi { "recovered_to_newest" } else { "recovered_to_older_prefix" }, 1);
		}
		if let Some((sig, detail)) = v.fail {
			violations.push(J::obj().set("sig", J::s(sig)).set("detail", J::s(detail)).set("image", J::s("process-crash image")));
		} else if rng.chance(1, 4) && has_logs {
			// second crash, during the recovery of this image
			let img2 = imgs.join("p2");
			pv::scratch::copy_dir(dir, &img2).expect("copy image");
			let k2 = rng.below(40);
			let o2 = rec.cfg.options(&img2);
			parity_db::set_number_of_allowed_io_operations(k2 as usize);
			let r = pv::scratch::catch(|| Db::open(&o2));
			parity_db::set_number_of_allowed_io_operations(usize::MAX);
			match r {
				Ok(Ok(d)) => drop(d),
				Ok(Err(_)) => {
					bump(&mut counts, "nested_recovery_crashes", 1);
				},
				Err(p) => violations.push(J::obj().set("sig", J::s(format!("failure=open_panic_under_fault;site={}", pv::scratch::panic_site(&p)))).set("detail", J::s(format!("Db::open panicked when a file operation failed during recovery: {}", p)))),
			}
			let v2 = oracle::eval_image(&img2, rec, lo, hi, &mut rng, false);
			evals += v2.evals;
			bump(&mut counts, "images", 1);
			if let Some((sig, detail)) = v2.fail {
				violations.push(J::obj().set("sig", J::s(sig)).set("detail", J::s(format!("after a second crash at boundary {} of the recovery: {}", k2, detail))).set("image", J::s("nested recovery crash")));
			}
		}
	} else {
		let d = image::diff(dir, &shadow);
		let max = tier.pick(8, 40);
		let vs = image::variants(&d, &mut rng, max, &boundaries);
		for (vi, v) in vs.iter().enumerate() {
			let img = imgs.join(format!("w{}", vi));
			image::materialise(&d, v, &img).expect("materialise");
			child::phase(&format!("power-loss image at act {} {} k {}: {}", act, phase, k, v.desc));
			let verdict = oracle::eval_image(&img, rec, lo, hi, &mut rng, vi < 2);
			evals += verdict.evals;
			bump(&mut counts, "power_images", 1);
			bump(&mut counts, "images", 1);
			if d.total_dirty_pages > 0 {
				bump(&mut counts, "images_with_dirty_pages", 1);
			}
			if d.unsynced_log_bytes > 0 {
				bump(&mut counts, "images_with_unsynced_log_tail", 1);
			}
			if lo > 0 {
				bump(&mut counts, "images_with_synced_lower_bound", 1);
			}
			if let Some((sig, detail)) = verdict.fail {
				violations.push(
					J::obj()
						.set("sig", J::s(sig))
						.set("detail", J::s(format!("{} [power-loss image: {}; {} dirty pages, {} unsynced log bytes]", detail, v.desc, d.total_dirty_pages, d.unsynced_log_bytes)))
						.set("image", J::s(v.desc.clone())),
				);
				break
			}
			let _ = std::fs::remove_dir_all(&img);
		}
		if d.total_dirty_pages > 0 {
			seen.push(format!("{}|dirty{}|tail{}", rec.kind, d.total_dirty_pages.min(30), (d.unsynced_log_bytes > 0) as u8));
		}
	}
	if let Some(d) = crashed_handle {
		std::mem::forget(d);
	}
	finish(completed, counts, seen, violations, evals)
}

/// Close this process's descriptors of `<dir>/lock` (the advisory lock of a handle that was
/// leaked to simulate a crash), so that the directory can be opened again in the same process.
fn close_lock_fds(dir: &Path) {
	let lock = dir.join("lock");
	let mut fds = vec![];
	if let Ok(rd) = std::fs::read_dir("/proc/self/fd") {
		for e in rd.flatten() {
			if let (Ok(t), Some(n)) = (std::fs::read_link(e.path()), e.file_name().to_str().and_then(|s| s.parse::<i32>().ok())) {
				if t == lock {
					fds.push(n);
				}
			}
		}
	}
	for fd in fds {
		unsafe {
			libc::close(fd);
		}
	}
}

fn bucket(k: u64) -> u64 {
	match k {
		0..=3 => k,
		4..=7 => 4,
		8..=15 => 8,
		16..=31 => 16,
		32..=63 => 32,
		64..=127 => 64,
		_ => 128,
	}
}

fn finish(completed: bool, counts: BTreeMap<String, u64>, seen: Vec<String>, violations: Vec<J>, evals: u64) -> J {
	let mut c = J::obj();
	for (k, v) in counts {
		c.put(&k, J::i(v));
	}
	J::obj().set("completed", J::Bool(completed)).set("counts", c).set("seen", J::strs(seen)).set("violations", J::Arr(violations)).set("evals", J::i(evals))
}

/// C16: behaviour of the live handle after a step failed, then reopen without the fault.
#[allow(clippy::too_many_arguments)]
fn fault_flow(
	rec: &Recorded,
	dir: &Path,
	handle: Option<Db>,
	fault_err: Option<parity_db::Error>,
	act: usize,
	phase: &str,
	lo: usize,
	hi: usize,
	counts: &mut BTreeMap<String, u64>,
	violations: &mut Vec<J>,
	rng: &mut Rng,
) -> u64 {
	let mut evals = 0;
	let mut bump = |k: &str| *counts.entry(k.to_string()).or_insert(0) += 1;
	let db = match handle {
		Some(d) => d,
		None => return 0,
	};
	let err = match fault_err {
		Some(e) => e,
		None => {
			std::mem::forget(db);
			return 0
		},
	};
	bump("faults_injected");
	if let Act::Step(s) | Act::Nested(s, _) = &rec.acts[act] {
		bump(match s {
			Step::ProcessCommits => "fault_in_process_commits",
			Step::ProcessReindex => "fault_in_reindex",
			Step::FlushLogs => "fault_in_flush",
			Step::EnactOne | Step::EnactAll => "fault_in_enact",
			Step::CleanLogs => "fault_in_clean",
		});
	}
	let _ = phase;
	// the failing call returned the error; a worker would store it
	child::phase("store_err after fault");
	db.verif_store_err(err);
	// reads keep returning committed data (latest state)
	child::phase("reads after fault");
	let st = &rec.states[hi];
	for (ci, c) in rec.cfg.cols.iter().enumerate() {
		if c.multitree {
			continue
		}
		for k in &rec.pools[ci] {
			let e = st.model.get(ci as u8, k);
			let g = match db.get(ci as u8, k) {
				Ok(g) => g,
				Err(er) => {
					violations.push(J::obj().set("sig", J::s("failure=read_error_after_fault")).set("detail", J::s(format!("get returned {} after a background failure", er))));
					std::mem::forget(db);
					return evals
				},
			};
			evals += 1;
			let ok = if c.ref_counted { e.is_none() || g.as_ref() == e } else { g.as_ref() == e };
			if !ok {
				violations.push(J::obj().set("sig", J::s("failure=read_mismatch_after_fault")).set(
					"detail",
					J::s(format!(
						"after a failed {} the key {} reads {} but the committed value is {}",
						rec.acts[act].show(),
						pv::json::short_bytes(k),
						g.as_ref().map_or("nothing".into(), |v| pv::json::short_bytes(v)),
						e.map_or("nothing".into(), |v| pv::json::short_bytes(v))
					)),
				));
				std::mem::forget(db);
				return evals
			}
		}
	}
	// later commits are refused
	child::phase("commit after fault");
	let probe_col = rec.cfg.cols.iter().position(|c| !c.multitree).unwrap_or(0) as u8;
	let key = rec.pools[probe_col as usize][0].clone();
	let val = if rec.cfg.cols[probe_col as usize].preimage { pv::gen::value_for_key(&key, false) } else { vec![1, 2, 3] };
	if !rec.cfg.cols[probe_col as usize].multitree {
		let r = db.commit_changes(vec![(probe_col, parity_db::Operation::Set(key, val))]);
		evals += 1;
		*counts.entry("commit_refused_checks".to_string()).or_insert(0) += 1;
		match r {
			Err(parity_db::Error::Background(_)) => {},
			Err(e) => violations.push(J::obj().set("sig", J::s("failure=commit_after_fault_wrong_error")).set("detail", J::s(format!("commit after a background failure returned {} instead of a background error", e)))),
			Ok(()) => violations.push(J::obj().set("sig", J::s("failure=commit_accepted_after_fault")).set("detail", J::s("commit was accepted although a background failure had been reported".to_string()))),
		}
	}
	// shutdown terminates (the parent's watchdog turns a hang into a violation)
	child::phase("drop after fault");
	// the fault persists until restart: every file operation of the shutdown fails too - or (every
	// other case) it only hit the pipeline step and the shutdown's own file operations succeed:
	// with an error present no further log may be enacted, rewritten or removed either way
	if rng.chance(1, 2) {
		parity_db::set_number_of_allowed_io_operations(0);
		*counts.entry("drop_with_fault_persisting".to_string()).or_insert(0) += 1;
	} else {
		*counts.entry("drop_with_fault_gone".to_string()).or_insert(0) += 1;
	}
	drop(db);
	parity_db::set_number_of_allowed_io_operations(usize::MAX);
	interpose::stop();
	// fault gone: reopen
	child::phase("reopen after fault");
	*counts.entry("reopen_after_fault".to_string()).or_insert(0) += 1;
	let v = oracle::eval_image(dir, rec, lo, hi, rng, true);
	evals += v.evals;
	if let Some((sig, detail)) = v.fail {
		violations.push(J::obj().set("sig", J::s(sig)).set("detail", J::s(format!("after the fault was cleared: {}", detail))).set("image", J::s("directory after error shutdown")));
	}
	evals
}
