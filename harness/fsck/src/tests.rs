//! Unit tests on tiny hand-built files. The layout knowledge is restated here on purpose
//! (offsets are computed by the test, not by the parser).

use crate::{check_dir, refcount, table, ColSpec, Expect, FsckReport};
use std::{
	fs::File,
	os::unix::fs::FileExt,
	path::{Path, PathBuf},
};

struct Dir(PathBuf);

impl Dir {
	fn new(name: &str) -> Dir {
		let p = std::env::temp_dir().join(format!("pvfsck_ut_{}_{}", std::process::id(), name));
		let _ = std::fs::remove_dir_all(&p);
		std::fs::create_dir_all(&p).unwrap();
		Dir(p)
	}
	fn file(&self, name: &str, len: u64) -> File {
		let f = std::fs::OpenOptions::new()
			.create(true)
			.read(true)
			.write(true)
			.truncate(false)
			.open(self.0.join(name))
			.unwrap();
		if f.metadata().unwrap().len() < len {
			f.set_len(len).unwrap();
		}
		f
	}
	fn path(&self) -> &Path {
		&self.0
	}
}

impl Drop for Dir {
	fn drop(&mut self) {
		let _ = std::fs::remove_dir_all(&self.0);
	}
}

fn spec(btree: bool, multitree: bool, rc: bool, append_only: bool, compression: u8) -> ColSpec {
	ColSpec { btree, multitree, ref_counted: rc, preimage: rc, uniform: false, append_only, compression }
}

fn classes(r: &FsckReport) -> Vec<String> {
	let mut v: Vec<String> =
		r.errors.iter().map(|e| e.split(':').next().unwrap().to_string()).collect();
	v.sort();
	v.dedup();
	v
}

fn has(r: &FsckReport, class: &str) -> bool {
	r.errors.iter().any(|e| e.starts_with(&format!("{}:", class)))
}

fn es(tier: u8) -> u64 {
	table::entry_size(tier) as u64
}

fn header(f: &File, last_removed: u64, filled: u64) {
	f.write_all_at(&last_removed.to_le_bytes(), 0).unwrap();
	f.write_all_at(&filled.to_le_bytes(), 8).unwrap();
}

fn tombstone(f: &File, tier: u8, slot: u64, next: u64) {
	let mut b = vec![0xff, 0xff];
	b.extend_from_slice(&next.to_le_bytes());
	f.write_all_at(&b, slot * es(tier)).unwrap();
}

/// complete entry `[size][rc?][tail?][payload]`
fn entry(f: &File, tier: u8, slot: u64, rc: Option<u32>, key: Option<&[u8; 32]>, payload: &[u8], compressed: bool) {
	let mut body = Vec::new();
	if let Some(rc) = rc {
		body.extend_from_slice(&rc.to_le_bytes());
	}
	if let Some(k) = key {
		body.extend_from_slice(&k[6..]);
	}
	body.extend_from_slice(payload);
	assert!(body.len() + 2 <= es(tier) as usize);
	let mut size = body.len() as u16;
	if compressed {
		size |= 0x8000;
	}
	let mut b = size.to_le_bytes().to_vec();
	b.extend_from_slice(&body);
	f.write_all_at(&b, slot * es(tier)).unwrap();
}

fn index_entry(dir: &Dir, col: u8, bits: u8, pos: u64, key: &[u8; 32], tier: u8, slot: u64) -> u64 {
	let f = dir.file(&format!("index_{:02}_{}", col, bits), 16384 + (1u64 << bits) * 512);
	let prefix = u64::from_be_bytes(key[0..8].try_into().unwrap());
	let chunk = prefix >> (64 - bits);
	let partial = (prefix << bits) >> (bits + 14);
	let e = (partial << (bits + 14)) | (slot << 8) | tier as u64;
	let off = 16384 + chunk * 512 + pos * 8;
	f.write_all_at(&e.to_le_bytes(), off).unwrap();
	off
}

fn key(n: u8) -> [u8; 32] {
	let mut k = [0u8; 32];
	for (i, b) in k.iter_mut().enumerate() {
		*b = (i as u8).wrapping_mul(37).wrapping_add(n.wrapping_mul(101)).rotate_left(3) ^ n;
	}
	k
}

const TIER: u8 = 60; // 165-byte entries

/// hash column 0: two values and one free slot
fn hash_db(name: &str) -> (Dir, Vec<([u8; 32], Vec<u8>, u32)>) {
	let d = Dir::new(name);
	let t = d.file(&format!("table_00_{:02x}", TIER), 256 * 1024);
	header(&t, 3, 4);
	let (k1, k2) = (key(1), key(2));
	entry(&t, TIER, 1, None, Some(&k1), b"value one", false);
	entry(&t, TIER, 2, None, Some(&k2), b"value two, a little longer", false);
	tombstone(&t, TIER, 3, 0);
	index_entry(&d, 0, 16, 0, &k1, TIER, 1);
	index_entry(&d, 0, 16, 5, &k2, TIER, 2);
	(d, vec![(k1, b"value one".to_vec(), 1), (k2, b"value two, a little longer".to_vec(), 1)])
}

#[test]
fn hash_healthy() {
	let (d, exp) = hash_db("hash_healthy");
	let cols = [spec(false, false, false, false, 0)];
	let r = check_dir(d.path(), &cols, &[]);
	assert!(r.errors.is_empty(), "{:?}", r.errors);
	let r = check_dir(d.path(), &cols, &[Expect::Hash(exp)]);
	assert!(r.errors.is_empty(), "{:?}", r.errors);
	assert_eq!(r.stats["values_compared"], 2);
	assert_eq!(r.stats["slots_live"], 2);
	assert_eq!(r.stats["slots_free"], 1);
	assert_eq!(r.stats["index_entries"], 2);
	assert_eq!(r.stats["tables"], 1);
}

#[test]
fn hash_expectation_mismatches() {
	let (d, mut exp) = hash_db("hash_expect");
	let cols = [spec(false, false, false, false, 0)];
	exp[0].1 = b"value 0ne".to_vec();
	exp.remove(1);
	exp.push((key(9), b"x".to_vec(), 1));
	let r = check_dir(d.path(), &cols, &[Expect::Hash(exp)]);
	assert_eq!(classes(&r), ["key_missing", "key_unexpected", "value_mismatch"], "{:?}", r.errors);
}

#[test]
fn free_list_damage() {
	let cols = [spec(false, false, false, false, 0)];
	{
		let (d, _) = hash_db("fl_cycle");
		let t = d.file(&format!("table_00_{:02x}", TIER), 0);
		tombstone(&t, TIER, 3, 3);
		let r = check_dir(d.path(), &cols, &[]);
		assert_eq!(classes(&r), ["free_list_cycle"], "{:?}", r.errors);
	}
	{
		let (d, _) = hash_db("fl_range");
		let t = d.file(&format!("table_00_{:02x}", TIER), 0);
		tombstone(&t, TIER, 3, 4);
		let r = check_dir(d.path(), &cols, &[]);
		assert_eq!(classes(&r), ["free_list_out_of_range"], "{:?}", r.errors);
	}
	{
		// header points at a live value
		let (d, _) = hash_db("fl_live");
		let t = d.file(&format!("table_00_{:02x}", TIER), 0);
		header(&t, 2, 4);
		let r = check_dir(d.path(), &cols, &[]);
		assert!(has(&r, "free_list_non_tombstone"), "{:?}", r.errors);
		// and slot 3 is now an unlisted tombstone
		assert!(has(&r, "slot_orphan"), "{:?}", r.errors);
	}
	{
		let (d, _) = hash_db("fl_header");
		let t = d.file(&format!("table_00_{:02x}", TIER), 0);
		header(&t, 4, 4);
		let r = check_dir(d.path(), &cols, &[]);
		assert!(has(&r, "header_invalid"), "{:?}", r.errors);
	}
	{
		// fill mark covers a slot that was never written
		let (d, _) = hash_db("fl_unwritten");
		let t = d.file(&format!("table_00_{:02x}", TIER), 0);
		header(&t, 3, 5);
		let r = check_dir(d.path(), &cols, &[]);
		assert_eq!(classes(&r), ["slot_unwritten"], "{:?}", r.errors);
	}
	{
		let (d, _) = hash_db("fl_beyond");
		let t = d.file(&format!("table_00_{:02x}", TIER), 0);
		header(&t, 3, 1 << 40);
		let r = check_dir(d.path(), &cols, &[]);
		assert!(has(&r, "header_fill_beyond_file"), "{:?}", r.errors);
	}
}

#[test]
fn index_damage() {
	let cols = [spec(false, false, false, false, 0)];
	{
		let (d, exp) = hash_db("ix_zero");
		let off = index_entry(&d, 0, 16, 0, &key(1), TIER, 1);
		d.file("index_00_16", 0).write_all_at(&[0u8; 8], off).unwrap();
		let r = check_dir(d.path(), &cols, &[]);
		assert_eq!(classes(&r), ["index_missing"], "{:?}", r.errors);
		let r = check_dir(d.path(), &cols, &[Expect::Hash(exp)]);
		assert_eq!(classes(&r), ["index_missing", "key_missing"], "{:?}", r.errors);
	}
	{
		// entry moved to the free slot: stale without expectation, dangling with it
		let (d, exp) = hash_db("ix_free");
		index_entry(&d, 0, 16, 0, &key(1), TIER, 3);
		let r = check_dir(d.path(), &cols, &[]);
		assert_eq!(classes(&r), ["index_missing"], "{:?}", r.errors);
		assert_eq!(r.stats["index_stale_entries"], 1);
		let r = check_dir(d.path(), &cols, &[Expect::Hash(exp)]);
		assert_eq!(classes(&r), ["index_dangling", "index_missing", "key_missing"], "{:?}", r.errors);
	}
	{
		let (d, _) = hash_db("ix_oob");
		index_entry(&d, 0, 16, 9, &key(3), TIER, 77);
		index_entry(&d, 0, 16, 10, &key(4), TIER + 1, 1);
		let r = check_dir(d.path(), &cols, &[]);
		assert_eq!(classes(&r), ["index_dangling"], "{:?}", r.errors);
		assert_eq!(r.errors.len(), 2);
	}
	{
		// a stale entry of another key next to the valid ones is tolerated
		let (d, exp) = hash_db("ix_stale");
		index_entry(&d, 0, 16, 9, &key(3), TIER, 3);
		// older index file with a leftover for key 1 and an outdated address for key 2
		index_entry(&d, 0, 15 + 1, 20, &key(1), TIER, 1);
		let r = check_dir(d.path(), &cols, &[Expect::Hash(exp)]);
		assert!(r.errors.is_empty(), "{:?}", r.errors);
		assert_eq!(r.stats["index_stale_entries"], 1);
	}
	{
		// key only reachable through an older index file
		let (d, exp) = hash_db("ix_old");
		let off = index_entry(&d, 0, 16, 0, &key(1), TIER, 1);
		d.file("index_00_16", 0).write_all_at(&[0u8; 8], off).unwrap();
		index_entry(&d, 0, 17, 0, &key(2), TIER, 2);
		index_entry(&d, 0, 16, 1, &key(1), TIER, 1);
		let r = check_dir(d.path(), &cols, &[Expect::Hash(exp)]);
		assert!(r.errors.is_empty(), "{:?}", r.errors);
		assert_eq!(r.stats["index_files"], 2);
	}
	{
		// same key stored twice
		let (d, _) = hash_db("ix_dup");
		let t = d.file(&format!("table_00_{:02x}", TIER + 1), 256 * 1024);
		header(&t, 0, 2);
		entry(&t, TIER + 1, 1, None, Some(&key(1)), b"another value one", false);
		index_entry(&d, 0, 16, 1, &key(1), TIER + 1, 1);
		let r = check_dir(d.path(), &cols, &[]);
		assert_eq!(classes(&r), ["index_duplicate"], "{:?}", r.errors);
	}
}

fn multipart_db(name: &str, rc: bool, compressed_marker: bool) -> (Dir, [u8; 32], Vec<u8>) {
	let d = Dir::new(name);
	let t = d.file("table_00_ff", 256 * 1024);
	header(&t, 2, 6);
	let k = key(7);
	let value: Vec<u8> = (0..9000u32).map(|i| (i * 7 + i / 256) as u8).collect();
	let mut body = Vec::new();
	if rc {
		body.extend_from_slice(&3u32.to_le_bytes());
	}
	body.extend_from_slice(&k[6..]);
	body.extend_from_slice(&value);
	// head at 4 -> part at 1 -> last at 5; 2 -> 3 free
	let chain = [4u64, 1, 5];
	let mut p = 0;
	for (i, s) in chain.iter().enumerate() {
		let mut b = Vec::new();
		let rest = body.len() - p;
		if rest > 4094 {
			b.extend_from_slice(if i == 0 {
				if compressed_marker {
					&[0xfd, 0x7f]
				} else {
					&[0xfd, 0xff]
				}
			} else {
				&[0xfe, 0xff]
			});
			b.extend_from_slice(&chain[i + 1].to_le_bytes());
			b.extend_from_slice(&body[p..p + 4086]);
			p += 4086;
		} else {
			b.extend_from_slice(&(rest as u16).to_le_bytes());
			b.extend_from_slice(&body[p..]);
			p = body.len();
		}
		t.write_all_at(&b, s * 4096).unwrap();
	}
	assert_eq!(p, body.len());
	tombstone(&t, 255, 2, 3);
	tombstone(&t, 255, 3, 0);
	index_entry(&d, 0, 16, 63, &k, 255, 4);
	(d, k, value)
}

#[test]
fn multipart_chain() {
	for rc in [false, true] {
		let cols = [spec(false, false, rc, false, 0)];
		let (d, k, v) = multipart_db("mp_ok", rc, false);
		let r = check_dir(d.path(), &cols, &[Expect::Hash(vec![(k, v.clone(), 3)])]);
		assert!(r.errors.is_empty(), "{:?}", r.errors);
		assert_eq!(r.stats["chains_multipart"], 1);
		assert_eq!(r.stats["slots_live"], 3);
		assert_eq!(r.stats["slots_free"], 2);
		if rc {
			let r = check_dir(d.path(), &cols, &[Expect::Hash(vec![(k, v, 2)])]);
			assert_eq!(classes(&r), ["rc_mismatch"], "{:?}", r.errors);
		}
	}
	let cols = [spec(false, false, false, false, 0)];
	{
		// part points back to the head
		let (d, ..) = multipart_db("mp_cycle", false, false);
		d.file("table_00_ff", 0).write_all_at(&4u64.to_le_bytes(), 4096 + 2).unwrap();
		let r = check_dir(d.path(), &cols, &[]);
		assert!(has(&r, "chain_broken"), "{:?}", r.errors);
		assert!(has(&r, "slot_orphan"), "{:?}", r.errors); // the last part lost its chain
	}
	{
		// part points into the free list
		let (d, ..) = multipart_db("mp_free", false, false);
		d.file("table_00_ff", 0).write_all_at(&2u64.to_le_bytes(), 4096 + 2).unwrap();
		let r = check_dir(d.path(), &cols, &[]);
		assert!(has(&r, "chain_broken"), "{:?}", r.errors);
	}
	{
		// second head sharing the last part
		let (d, ..) = multipart_db("mp_share", false, false);
		let t = d.file("table_00_ff", 0);
		header(&t, 3, 6);
		let mut b = vec![0xfd, 0xff];
		b.extend_from_slice(&5u64.to_le_bytes());
		b.extend_from_slice(&key(8)[6..]);
		t.write_all_at(&b, 2 * 4096).unwrap();
		index_entry(&d, 0, 16, 1, &key(8), 255, 2);
		let r = check_dir(d.path(), &cols, &[]);
		assert!(has(&r, "slot_double_use"), "{:?}", r.errors);
	}
	{
		// compressed marker on a column without compression
		let (d, ..) = multipart_db("mp_comp", false, true);
		let r = check_dir(d.path(), &cols, &[]);
		assert_eq!(classes(&r), ["decompress_failed"], "{:?}", r.errors);
	}
}

#[test]
fn compressed_values() {
	use std::io::Write;
	let value: Vec<u8> = (0..600u32).map(|i| (i % 7) as u8).collect();
	let lz = lz4::block::compress(&value, Some(lz4::block::CompressionMode::DEFAULT), true).unwrap();
	let mut sn = Vec::new();
	{
		let mut e = snap::write::FrameEncoder::new(&mut sn);
		e.write_all(&value).unwrap();
	}
	for (kind, data) in [(1u8, lz), (2u8, sn)] {
		let d = Dir::new(&format!("comp{}", kind));
		let t = d.file(&format!("table_00_{:02x}", TIER), 256 * 1024);
		header(&t, 0, 2);
		let k = key(1);
		entry(&t, TIER, 1, None, Some(&k), &data, true);
		index_entry(&d, 0, 16, 0, &k, TIER, 1);
		let cols = [spec(false, false, false, false, kind)];
		let r = check_dir(d.path(), &cols, &[Expect::Hash(vec![(k, value.clone(), 1)])]);
		assert!(r.errors.is_empty(), "{:?}", r.errors);
		assert_eq!(r.stats["values_compressed"], 1);
		// wrong codec
		let cols = [spec(false, false, false, false, 3 - kind)];
		let r = check_dir(d.path(), &cols, &[]);
		assert_eq!(classes(&r), ["decompress_failed"], "{:?}", r.errors);
	}
}

fn node_bytes(children: &[u64], seps: &[(&[u8], u64)]) -> Vec<u8> {
	let mut b = children[0].to_le_bytes().to_vec();
	for (i, (k, v)) in seps.iter().enumerate() {
		b.extend_from_slice(&v.to_le_bytes());
		if k.len() >= 255 {
			b.push(255);
			b.extend_from_slice(&(k.len() as u32).to_le_bytes());
		} else {
			b.push(k.len() as u8);
		}
		b.extend_from_slice(k);
		b.extend_from_slice(&children[i + 1].to_le_bytes());
	}
	b
}

/// b-tree column 0, depth 1: root (1 separator) with two leaves
fn btree_db(name: &str, rc: bool) -> (Dir, Vec<(Vec<u8>, Vec<u8>, u32)>) {
	let d = Dir::new(name);
	let rcv = if rc { Some(1u32) } else { None };
	let a = |tier: u8, slot: u64| (slot << 8) | tier as u64;
	let long_key = vec![b'k'; 300];
	// values in tier 10, nodes in tier 90 (373) and 160 (2810)
	let v = d.file("table_00_0a", 256 * 1024);
	header(&v, 0, 6);
	let vals: Vec<&[u8]> = vec![b"va", b"vb", b"", b"vd", b"ve"];
	for (i, x) in vals.iter().enumerate() {
		entry(&v, 10, i as u64 + 1, rcv.map(|r| r + i as u32), None, x, false);
	}
	let n = d.file("table_00_5a", 256 * 1024);
	header(&n, 0, 3);
	let left = node_bytes(&[0, 0, 0], &[(b"a", a(10, 1)), (b"b", a(10, 2))]);
	let root = node_bytes(&[a(90, 1), a(160, 1)], &[(b"c", a(10, 3))]);
	entry(&n, 90, 1, rcv, None, &left, false);
	entry(&n, 90, 2, rcv, None, &root, false);
	let n2 = d.file("table_00_a0", 256 * 1024);
	header(&n2, 0, 2);
	let right = node_bytes(&[0, 0, 0], &[(b"d", a(10, 4)), (&long_key, a(10, 5))]);
	entry(&n2, 160, 1, rcv, None, &right, false);
	let h = d.file("table_00_00", 256 * 1024);
	header(&h, 0, 2);
	let mut hb = a(90, 2).to_le_bytes().to_vec();
	hb.extend_from_slice(&1u32.to_le_bytes());
	entry(&h, 0, 1, rcv, None, &hb, false);
	let exp = vec![
		(b"a".to_vec(), b"va".to_vec(), 1),
		(b"b".to_vec(), b"vb".to_vec(), 2),
		(b"c".to_vec(), b"".to_vec(), 3),
		(b"d".to_vec(), b"vd".to_vec(), 4),
		(long_key, b"ve".to_vec(), 5),
	];
	(d, exp)
}

#[test]
fn btree_checks() {
	for rc in [false, true] {
		let cols = [spec(true, false, rc, false, 0)];
		let (d, exp) = btree_db("bt_ok", rc);
		let r = check_dir(d.path(), &cols, &[]);
		assert!(r.errors.is_empty(), "{:?}", r.errors);
		let r = check_dir(d.path(), &cols, &[Expect::Btree(exp.clone())]);
		assert!(r.errors.is_empty(), "{:?}", r.errors);
		assert_eq!(r.stats["btree_depth"], 1);
		assert_eq!(r.stats["btree_nodes"], 3);
		assert_eq!(r.stats["values_compared"], 5);
		let mut e2 = exp.clone();
		e2[1].1 = b"vB".to_vec();
		e2.remove(3);
		let r = check_dir(d.path(), &cols, &[Expect::Btree(e2)]);
		assert_eq!(classes(&r), ["key_unexpected", "value_mismatch"], "{:?}", r.errors);
	}
	let cols = [spec(true, false, false, false, 0)];
	let a = |tier: u8, slot: u64| (slot << 8) | tier as u64;
	{
		// separators out of order in the left leaf
		let (d, _) = btree_db("bt_unsorted", false);
		let left = node_bytes(&[0, 0, 0], &[(b"b", a(10, 2)), (b"a", a(10, 1))]);
		entry(&d.file("table_00_5a", 0), 90, 1, None, None, &left, false);
		let r = check_dir(d.path(), &cols, &[]);
		assert_eq!(classes(&r), ["btree_unsorted"], "{:?}", r.errors);
	}
	{
		// separator of the root not above the left subtree
		let (d, _) = btree_db("bt_unsorted2", false);
		let root = node_bytes(&[a(90, 1), a(160, 1)], &[(b"b", a(10, 3))]);
		entry(&d.file("table_00_5a", 0), 90, 2, None, None, &root, false);
		let r = check_dir(d.path(), &cols, &[]);
		assert_eq!(classes(&r), ["btree_unsorted"], "{:?}", r.errors);
	}
	{
		let (d, _) = btree_db("bt_depth", false);
		let mut hb = a(90, 2).to_le_bytes().to_vec();
		hb.extend_from_slice(&2u32.to_le_bytes());
		entry(&d.file("table_00_00", 0), 0, 1, None, None, &hb, false);
		let r = check_dir(d.path(), &cols, &[]);
		assert_eq!(classes(&r), ["btree_depth"], "{:?}", r.errors);
	}
	{
		let (d, _) = btree_db("bt_depth0", false);
		let mut hb = a(90, 2).to_le_bytes().to_vec();
		hb.extend_from_slice(&0u32.to_le_bytes());
		entry(&d.file("table_00_00", 0), 0, 1, None, None, &hb, false);
		let r = check_dir(d.path(), &cols, &[]);
		assert!(has(&r, "btree_depth"), "{:?}", r.errors);
		assert!(has(&r, "btree_unreachable"), "{:?}", r.errors);
	}
	{
		// two separators share a value slot, value 2 becomes unreachable
		let (d, _) = btree_db("bt_double", false);
		let left = node_bytes(&[0, 0, 0], &[(b"a", a(10, 1)), (b"b", a(10, 1))]);
		entry(&d.file("table_00_5a", 0), 90, 1, None, None, &left, false);
		let r = check_dir(d.path(), &cols, &[]);
		assert_eq!(classes(&r), ["btree_double_ref", "btree_unreachable"], "{:?}", r.errors);
	}
	{
		// both children of the root are the same node
		let (d, _) = btree_db("bt_double_node", false);
		let root = node_bytes(&[a(90, 1), a(90, 1)], &[(b"c", a(10, 3))]);
		entry(&d.file("table_00_5a", 0), 90, 2, None, None, &root, false);
		let r = check_dir(d.path(), &cols, &[]);
		assert!(has(&r, "btree_double_ref"), "{:?}", r.errors);
		assert!(has(&r, "btree_unreachable"), "{:?}", r.errors);
	}
	{
		// value slot freed under the tree
		let (d, _) = btree_db("bt_dangling", false);
		let v = d.file("table_00_0a", 0);
		header(&v, 4, 6);
		tombstone(&v, 10, 4, 0);
		let r = check_dir(d.path(), &cols, &[]);
		assert_eq!(classes(&r), ["btree_dangling"], "{:?}", r.errors);
	}
	{
		// empty tree is fine, and an empty tree with leftovers is not
		let d = Dir::new("bt_empty");
		let h = d.file("table_00_00", 256 * 1024);
		header(&h, 0, 2);
		entry(&h, 0, 1, None, None, &[0u8; 12], false);
		let r = check_dir(d.path(), &cols, &[Expect::Btree(vec![])]);
		assert!(r.errors.is_empty(), "{:?}", r.errors);
		header(&h, 0, 3);
		entry(&h, 0, 2, None, None, b"leftover", false);
		let r = check_dir(d.path(), &cols, &[]);
		assert_eq!(classes(&r), ["btree_unreachable"], "{:?}", r.errors);
	}
}

fn pack(data: &[u8], children: &[u64]) -> Vec<u8> {
	let mut b = data.to_vec();
	for c in children {
		b.extend_from_slice(&c.to_le_bytes());
	}
	b.push(children.len() as u8);
	b
}

fn refcount_entry(dir: &Dir, col: u8, bits: u8, address: u64, count: u64) -> u64 {
	let f = dir.file(&format!("refcount_{:02}_{}", col, bits), (1u64 << bits) * 512);
	let chunk = refcount::siphash24(&address.to_le_bytes()) >> (64 - bits);
	let off = chunk * 512;
	f.write_all_at(&address.to_le_bytes(), off).unwrap();
	f.write_all_at(&count.to_le_bytes(), off + 8).unwrap();
	off
}

/// multitree column 0: two roots sharing node S; root 1 also owns node P whose child is S
fn tree_db(name: &str, rc: bool, append_only: bool) -> (Dir, Expect) {
	let d = Dir::new(name);
	let rcv = |n: u32| if rc { Some(n) } else { None };
	let a = |tier: u8, slot: u64| (slot << 8) | tier as u64;
	let t = d.file(&format!("table_00_{:02x}", TIER), 256 * 1024);
	header(&t, 0, 5);
	let (s, p) = (a(TIER, 1), a(TIER, 2));
	let (k1, k2) = (key(1), key(2));
	entry(&t, TIER, 1, rcv(1), None, &pack(b"shared", &[]), false);
	entry(&t, TIER, 2, rcv(1), None, &pack(b"parent", &[s]), false);
	entry(&t, TIER, 3, rcv(2), Some(&k1), &pack(b"root1", &[p, s]), false);
	entry(&t, TIER, 4, rcv(1), Some(&k2), &pack(b"", &[s]), false);
	index_entry(&d, 0, 16, 0, &k1, TIER, 3);
	index_entry(&d, 0, 16, 0, &k2, TIER, 4);
	if !append_only {
		refcount_entry(&d, 0, 16, s, 3);
	}
	let exp = Expect::Tree {
		roots: vec![(k1, b"root1".to_vec(), vec![p, s], 2), (k2, vec![], vec![s], 1)],
		nodes: vec![(s, b"shared".to_vec(), vec![], 3), (p, b"parent".to_vec(), vec![s], 1)],
	};
	(d, exp)
}

#[test]
fn tree_checks() {
	for (rc, ao) in [(false, false), (true, false), (false, true)] {
		let cols = [spec(false, true, rc, ao, 0)];
		let (d, exp) = tree_db("tr_ok", rc, ao);
		let r = check_dir(d.path(), &cols, &[]);
		assert!(r.errors.is_empty(), "{:?}", r.errors);
		let r = check_dir(d.path(), &cols, &[exp]);
		assert!(r.errors.is_empty(), "{:?}", r.errors);
		assert_eq!(r.stats["tree_roots"], 2);
		assert_eq!(r.stats["tree_nodes"], 2);
		assert_eq!(r.stats["refcount_entries"], if ao { 0 } else { 1 });
	}
	let cols = [spec(false, true, false, false, 0)];
	let s = (1u64 << 8) | TIER as u64;
	{
		let (d, exp) = tree_db("tr_rc_bump", false, false);
		refcount_entry(&d, 0, 16, s, 4);
		let r = check_dir(d.path(), &cols, &[]);
		assert_eq!(classes(&r), ["tree_refcount"], "{:?}", r.errors);
		let r = check_dir(d.path(), &cols, &[exp]);
		assert_eq!(classes(&r), ["tree_refcount"], "{:?}", r.errors);
	}
	{
		let (d, _) = tree_db("tr_rc_missing", false, false);
		let off = refcount_entry(&d, 0, 16, s, 3);
		d.file("refcount_00_16", 0).write_all_at(&[0u8; 16], off).unwrap();
		let r = check_dir(d.path(), &cols, &[]);
		assert_eq!(classes(&r), ["tree_refcount"], "{:?}", r.errors);
	}
	{
		// entry in the wrong chunk
		let (d, _) = tree_db("tr_rc_chunk", false, false);
		let off = refcount_entry(&d, 0, 16, s, 3);
		let f = d.file("refcount_00_16", 0);
		f.write_all_at(&[0u8; 16], off).unwrap();
		let other = if off == 0 { 512 } else { 0 };
		f.write_all_at(&s.to_le_bytes(), other).unwrap();
		f.write_all_at(&3u64.to_le_bytes(), other + 8).unwrap();
		let r = check_dir(d.path(), &cols, &[]);
		assert_eq!(classes(&r), ["tree_refcount"], "{:?}", r.errors);
	}
	{
		// stale count in an older table is shadowed by the current one
		let (d, exp) = tree_db("tr_rc_old", false, false);
		refcount_entry(&d, 0, 17, s, 3);
		refcount_entry(&d, 0, 16, s, 2);
		let r = check_dir(d.path(), &cols, &[exp]);
		assert!(r.errors.is_empty(), "{:?}", r.errors);
	}
	{
		// shared node freed although still referenced
		let (d, exp) = tree_db("tr_missing", false, false);
		let t = d.file(&format!("table_00_{:02x}", TIER), 0);
		header(&t, 1, 5);
		tombstone(&t, TIER, 1, 0);
		let r = check_dir(d.path(), &cols, &[]);
		assert_eq!(classes(&r), ["tree_node_missing", "tree_refcount"], "{:?}", r.errors);
		let r = check_dir(d.path(), &cols, &[exp]);
		assert!(has(&r, "tree_node_missing"), "{:?}", r.errors);
	}
	{
		// node nobody refers to
		let (d, exp) = tree_db("tr_orphan", false, false);
		let t = d.file(&format!("table_00_{:02x}", TIER), 0);
		header(&t, 0, 6);
		entry(&t, TIER, 5, None, None, &pack(b"leaked", &[]), false);
		let r = check_dir(d.path(), &cols, &[]);
		assert_eq!(classes(&r), ["tree_node_unexpected"], "{:?}", r.errors);
		let r = check_dir(d.path(), &cols, &[exp]);
		assert_eq!(classes(&r), ["tree_node_unexpected"], "{:?}", r.errors);
	}
	{
		// root lost its index entry
		let (d, exp) = tree_db("tr_noindex", false, false);
		let off = index_entry(&d, 0, 16, 0, &key(2), TIER, 4);
		d.file("index_00_16", 0).write_all_at(&[0u8; 8], off).unwrap();
		let r = check_dir(d.path(), &cols, &[]);
		assert!(has(&r, "tree_node_unexpected"), "{:?}", r.errors);
		let r = check_dir(d.path(), &cols, &[exp]);
		assert!(has(&r, "index_missing"), "{:?}", r.errors);
		assert!(has(&r, "key_missing"), "{:?}", r.errors);
	}
	{
		// ref-count file in an append-only column
		let (d, _) = tree_db("tr_ao_rc", false, false);
		let cols = [spec(false, true, false, true, 0)];
		let r = check_dir(d.path(), &cols, &[]);
		assert_eq!(classes(&r), ["file_unexpected"], "{:?}", r.errors);
	}
}

#[test]
fn siphash_reference_vector() {
	// reference vector of the SipHash paper: key 00..0f, input 00..0e
	let k0 = u64::from_le_bytes([0, 1, 2, 3, 4, 5, 6, 7]);
	let k1 = u64::from_le_bytes([8, 9, 10, 11, 12, 13, 14, 15]);
	let data: Vec<u8> = (0..15).collect();
	assert_eq!(refcount::siphash24_keyed(k0, k1, &data), 0xa129ca6149be45e5);
}

#[test]
fn directory_level() {
	let (d, _) = hash_db("dir");
	let cols = [spec(false, false, false, false, 0)];
	std::fs::write(d.path().join("log0"), b"").unwrap();
	std::fs::write(d.path().join("lock"), b"").unwrap();
	std::fs::write(d.path().join("metadata"), b"version=8\nsalt=00\ncol0=preimage: false\n").unwrap();
	let r = check_dir(d.path(), &cols, &[]);
	assert!(r.errors.is_empty(), "{:?}", r.errors);
	std::fs::write(d.path().join("log1"), b"x").unwrap();
	std::fs::write(d.path().join("table_03_00"), b"").unwrap();
	std::fs::write(d.path().join("whatever"), b"").unwrap();
	let r = check_dir(d.path(), &cols, &[]);
	assert_eq!(classes(&r), ["file_unexpected", "file_unexpected_log"], "{:?}", r.errors);
	// missing directory
	let r = check_dir(&d.path().join("nope"), &cols, &[]);
	assert_eq!(classes(&r), ["file_io"]);
	// no files at all: every column is empty
	let e = Dir::new("dir_empty");
	let cols = [
		spec(false, false, false, false, 0),
		spec(true, false, false, false, 0),
		spec(false, true, false, false, 0),
	];
	let r = check_dir(e.path(), &cols, &[Expect::Hash(vec![]), Expect::Btree(vec![]), Expect::Unknown]);
	assert!(r.errors.is_empty(), "{:?}", r.errors);
}

/// Random byte damage must never panic and never run away.
#[test]
fn garbage_never_panics() {
	let mut seed = 0x1234_5678_9abc_def1u64;
	let mut next = move || {
		seed ^= seed << 13;
		seed ^= seed >> 7;
		seed ^= seed << 17;
		seed
	};
	type Build = fn(&str) -> Dir;
	let builders: [(Build, ColSpec); 4] = [
		(|n| hash_db(n).0, spec(false, false, false, false, 1)),
		(|n| multipart_db(n, true, false).0, spec(false, false, true, false, 2)),
		(|n| btree_db(n, false).0, spec(true, false, false, false, 0)),
		(|n| tree_db(n, true, false).0, spec(false, true, true, false, 0)),
	];
	for (bi, (build, sp)) in builders.iter().enumerate() {
		for round in 0..60 {
			let d = build(&format!("garbage{}", bi));
			let mut files: Vec<PathBuf> = std::fs::read_dir(d.path())
				.unwrap()
				.map(|e| e.unwrap().path())
				.filter(|p| p.file_name().unwrap().to_str().unwrap().starts_with("table"))
				.collect();
			files.sort();
			for _ in 0..(1 + round % 6) {
				let p = &files[next() as usize % files.len()];
				let f = std::fs::OpenOptions::new().write(true).read(true).open(p).unwrap();
				let tier = u8::from_str_radix(&p.file_name().unwrap().to_str().unwrap()[9..11], 16).unwrap();
				// damage inside the used area
				let span = es(tier) * 7;
				let off = next() % span;
				let val = match next() % 4 {
					0 => 0xff,
					1 => 0,
					_ => next() as u8,
				};
				let len = 1 + next() % 9;
				f.write_all_at(&vec![val; len as usize], off).unwrap();
			}
			// random index / ref-count entries at the places the builders used
			for k in [1u8, 2, 7] {
				if next() % 3 == 0 && d.path().join("index_00_16").exists() {
					let prefix = u64::from_be_bytes(key(k)[0..8].try_into().unwrap());
					let off = 16384 + (prefix >> 48) * 512 + (next() % 64) * 8;
					let v = if next() % 2 == 0 { next() } else { next() & 0xffffff };
					d.file("index_00_16", 0).write_all_at(&v.to_le_bytes(), off).unwrap();
				}
			}
			if next() % 2 == 0 && d.path().join("refcount_00_16").exists() {
				let off = (next() % 65536) * 512 + (next() % 32) * 16;
				let f = d.file("refcount_00_16", 0);
				f.write_all_at(&(next() & 0xffff).to_le_bytes(), off).unwrap();
				f.write_all_at(&(next() & 3).to_le_bytes(), off + 8).unwrap();
			}
			let r = check_dir(d.path(), &[sp.clone()], &[]);
			assert!(!has(&r, "internal_panic"), "{:?}", r.errors);
			assert!(r.errors.len() <= 200);
		}
	}
	// truncated and oversized files
	let (d, _) = hash_db("garbage_trunc");
	d.file(&format!("table_00_{:02x}", TIER), 0).set_len(100).unwrap();
	d.file("index_00_16", 0).set_len(20000).unwrap();
	std::fs::write(d.path().join("table_00_01"), [1u8; 7]).unwrap();
	std::fs::write(d.path().join("refcount_00_16"), [1u8; 100]).unwrap();
	std::fs::write(d.path().join("index_00_99"), [1u8; 100]).unwrap();
	let r = check_dir(d.path(), &[spec(false, false, false, false, 0)], &[]);
	assert!(!has(&r, "internal_panic"), "{:?}", r.errors);
	assert!(has(&r, "header_fill_beyond_file"), "{:?}", r.errors);
	assert!(has(&r, "index_file_invalid"), "{:?}", r.errors);
}

#[test]
fn error_cap() {
	let d = Dir::new("cap");
	let t = d.file(&format!("table_00_{:02x}", TIER), 256 * 1024);
	header(&t, 0, 1000);
	for i in 1..1000 {
		tombstone(&t, TIER, i, 0);
	}
	let r = check_dir(d.path(), &[spec(false, false, false, false, 0)], &[]);
	assert_eq!(r.errors.len(), 200);
	assert_eq!(r.stats["errors_suppressed"], 799);
}
