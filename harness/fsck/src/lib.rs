//! Independent structural checker (E4). Shares no code with parity-db.
