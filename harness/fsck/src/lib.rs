//! Independent structural checker ("fsck") for parity-db database directories.
//!
//! Shares no code with parity-db: every file is parsed from the documented on-disk layout.
//! See README.md for the list of checks and tolerated states.

mod btree;
mod compress;
mod hash;
mod index;
mod refcount;
mod report;
mod sparse;
mod table;
mod tree;

#[cfg(test)]
mod tests;

use report::Rep;
use std::{collections::BTreeMap, path::Path};
use table::{State, Table, Tables};

#[derive(Clone, Debug)]
pub struct ColSpec {
	pub btree: bool,
	pub multitree: bool,
	pub ref_counted: bool,
	pub preimage: bool,
	pub uniform: bool,
	pub append_only: bool,
	/// 0 none, 1 lz4, 2 snappy
	pub compression: u8,
}

#[derive(Clone, Debug)]
pub enum Expect {
	/// nothing known about the logical content: only self-consistency is checked
	Unknown,
	/// hash column: (hashed key (32 bytes), value, reference count (1 for non-counted columns))
	Hash(Vec<([u8; 32], Vec<u8>, u32)>),
	/// btree column: ordered (key, value [, rc])
	Btree(Vec<(Vec<u8>, Vec<u8>, u32)>),
	/// multitree column: live roots: (hashed root key, data, child addresses, root count) and
	/// live nodes: (address, data, child addresses, number of referencing parents incl. roots,
	/// duplicates counted)
	Tree { roots: Vec<([u8; 32], Vec<u8>, Vec<u64>, u32)>, nodes: Vec<(u64, Vec<u8>, Vec<u64>, u64)> },
}

#[derive(Clone, Debug, Default)]
pub struct FsckReport {
	pub errors: Vec<String>,
	pub stats: BTreeMap<String, u64>,
}

/// Check the database directory `dir` whose columns are described by `cols`. `expect[i]` is the
/// expected logical content of column `i` (missing entries mean `Expect::Unknown`).
pub fn check_dir(dir: &Path, cols: &[ColSpec], expect: &[Expect]) -> FsckReport {
	let r = std::panic::catch_unwind(std::panic::AssertUnwindSafe(|| {
		let mut rep = Rep::default();
		check(dir, cols, expect, &mut rep);
		rep
	}));
	let mut rep = match r {
		Ok(rep) => rep,
		Err(p) => {
			let msg = p
				.downcast_ref::<String>()
				.cloned()
				.or_else(|| p.downcast_ref::<&str>().map(|s| s.to_string()))
				.unwrap_or_else(|| "?".into());
			let mut rep = Rep::default();
			rep.err("internal_panic", msg);
			rep
		},
	};
	if rep.suppressed > 0 {
		let n = rep.suppressed;
		rep.add("errors_suppressed", n);
	}
	for k in [
		"tables",
		"slots_live",
		"slots_free",
		"chains_multipart",
		"index_entries",
		"index_stale_entries",
		"index_files",
		"btree_depth",
		"btree_nodes",
		"tree_nodes",
		"tree_roots",
		"refcount_entries",
		"values_compared",
	] {
		rep.add(k, 0);
	}
	FsckReport { errors: rep.errors, stats: rep.stats }
}

#[derive(Default)]
struct ColFiles {
	tables: Vec<(u8, std::path::PathBuf)>,
	indexes: Vec<(u8, std::path::PathBuf)>,
	refcounts: Vec<(u8, std::path::PathBuf)>,
}

fn check(dir: &Path, cols: &[ColSpec], expect: &[Expect], rep: &mut Rep) {
	let rd = match std::fs::read_dir(dir) {
		Ok(rd) => rd,
		Err(e) => {
			rep.err("file_io", format!("cannot list {}: {}", dir.display(), e));
			return
		},
	};
	let mut names: Vec<(String, std::path::PathBuf, u64)> = Vec::new();
	for e in rd.flatten() {
		let name = e.file_name().to_string_lossy().to_string();
		let len = e.metadata().map(|m| m.len()).unwrap_or(0);
		names.push((name, e.path(), len));
	}
	names.sort();
	let mut files: Vec<ColFiles> = (0..cols.len()).map(|_| ColFiles::default()).collect();
	for (name, path, len) in names {
		if name == "metadata" {
			check_metadata(&path, cols.len(), rep);
			continue
		}
		if name == "lock" || name == "stats.txt" {
			continue
		}
		if let Some(n) = name.strip_prefix("log") {
			if n.parse::<u32>().is_ok() {
				if len > 0 {
					rep.err(
						"file_unexpected_log",
						format!("{} holds {} bytes: the database is not quiescent", name, len),
					);
				}
				continue
			}
		}
		let parsed = parse_name(&name);
		match parsed {
			Some((kind, col, n)) if (col as usize) < cols.len() => {
				let f = &mut files[col as usize];
				match kind {
					'T' => f.tables.push((n, path)),
					'I' => f.indexes.push((n, path)),
					_ => f.refcounts.push((n, path)),
				}
			},
			Some((_, col, _)) => rep.err(
				"file_unexpected",
				format!("{} belongs to column {} but only {} columns are configured", name, col, cols.len()),
			),
			None => rep.err("file_unexpected", format!("{}: unknown file name", name)),
		}
	}

	for (col, spec) in cols.iter().enumerate() {
		let f = &mut files[col];
		let expect = expect.get(col).unwrap_or(&Expect::Unknown);
		check_column(col, spec, f, expect, rep);
	}
}

/// `table_CC_TT` (TT hex), `index_CC_BITS`, `refcount_CC_BITS`
fn parse_name(name: &str) -> Option<(char, u8, u8)> {
	let mut it = name.split('_');
	let kind = it.next()?;
	let col = it.next()?;
	let n = it.next()?;
	if it.next().is_some() || col.len() < 2 || !col.bytes().all(|b| b.is_ascii_digit()) {
		return None
	}
	let col: u8 = col.parse().ok()?;
	match kind {
		"table" if n.len() == 2 => Some(('T', col, u8::from_str_radix(n, 16).ok()?)),
		"index" => Some(('I', col, n.parse().ok()?)),
		"refcount" => Some(('R', col, n.parse().ok()?)),
		_ => None,
	}
}

fn check_metadata(path: &Path, ncols: usize, rep: &mut Rep) {
	let text = match std::fs::read_to_string(path) {
		Ok(t) => t,
		Err(e) => {
			rep.err("file_io", format!("metadata: {}", e));
			return
		},
	};
	let mut cols = 0;
	for line in text.lines() {
		if let Some(v) = line.strip_prefix("version=") {
			if v.trim() != "8" {
				rep.err(
					"metadata_invalid",
					format!("database version {} (this checker knows the version 8 layout)", v),
				);
			}
		} else if line.starts_with("col") {
			cols += 1;
		}
	}
	if cols != ncols {
		rep.err(
			"metadata_invalid",
			format!("metadata describes {} columns, {} were given", cols, ncols),
		);
	}
}

fn check_column(col: usize, spec: &ColSpec, f: &mut ColFiles, expect: &Expect, rep: &mut Rep) {
	// value tables
	let mut t: Vec<Option<Table>> = (0..256).map(|_| None).collect();
	f.tables.sort();
	for (tier, path) in &f.tables {
		rep.add("tables", 1);
		if let Some(mut table) = Table::load(path, col, *tier, rep) {
			table.analyze(!spec.btree, rep);
			let mut live = 0u64;
			for s in &table.state {
				if matches!(s, State::Head | State::Cont) {
					live += 1;
				}
			}
			rep.add("slots_live", live);
			rep.add("slots_free", table.free_len);
			if table.multipart {
				rep.add("chains_multipart", table.heads().count() as u64);
			}
			t[*tier as usize] = Some(table);
		}
	}
	let tables = Tables { t };

	let is_hash = !spec.btree;
	let has_rc = is_hash && spec.multitree && !spec.append_only;
	// newest (highest number of bits) first
	f.indexes.sort_by(|a, b| b.0.cmp(&a.0));
	f.refcounts.sort_by(|a, b| b.0.cmp(&a.0));
	let mut idx = Vec::new();
	for (bits, path) in &f.indexes {
		if !is_hash {
			rep.err(
				"file_unexpected",
				format!("index_{:02}_{}: index file in a b-tree column", col, bits),
			);
			continue
		}
		if let Some(i) = index::IndexFile::load(path, col, *bits, rep) {
			idx.push(i);
		}
	}
	let mut rcs = Vec::new();
	for (bits, path) in &f.refcounts {
		if !has_rc {
			rep.err(
				"file_unexpected",
				format!(
					"refcount_{:02}_{}: ref-count table in a column that does not count node references",
					col, bits
				),
			);
			continue
		}
		if let Some(r) = refcount::RefCountFile::load(path, col, *bits, rep) {
			rcs.push(r);
		}
	}

	if spec.btree {
		let e = match expect {
			Expect::Btree(e) => Some(e.as_slice()),
			Expect::Unknown => None,
			_ => {
				rep.err("expect_invalid", format!("col {}: b-tree column needs Expect::Btree", col));
				None
			},
		};
		btree::check_btree(col, spec, &tables, e, rep);
	} else if spec.multitree {
		let e = match expect {
			Expect::Tree { roots, nodes } => Some((roots.as_slice(), nodes.as_slice())),
			Expect::Unknown => None,
			_ => {
				rep.err("expect_invalid", format!("col {}: multitree column needs Expect::Tree", col));
				None
			},
		};
		tree::check_tree(col, spec, &tables, &idx, &rcs, e, rep);
	} else {
		let e = match expect {
			Expect::Hash(e) => Some(e.as_slice()),
			Expect::Unknown => None,
			_ => {
				rep.err("expect_invalid", format!("col {}: hash column needs Expect::Hash", col));
				None
			},
		};
		hash::check_hash(col, spec, &tables, &idx, e, rep);
	}
}
