//! Reading of large, mostly empty files (index and ref-count tables) without mapping them.
//!
//! On Linux the data extents are located with `lseek(SEEK_DATA / SEEK_HOLE)`; everywhere else
//! (or when the file system does not support it) the file is read in 1 MiB blocks and all-zero
//! blocks are skipped.

use std::{fs::File, io, os::unix::fs::FileExt};

const BLOCK: usize = 1 << 20;

#[cfg(all(target_os = "linux", target_pointer_width = "64"))]
mod seek {
	use std::{fs::File, os::unix::io::AsRawFd};
	// std links the platform C library; no extra crate is needed for this one symbol.
	extern "C" {
		fn lseek(fd: i32, offset: i64, whence: i32) -> i64;
	}
	const SEEK_DATA: i32 = 3;
	const SEEK_HOLE: i32 = 4;

	/// Next data extent at or after `pos`: `Some(Ok((start, end)))`, `None` when there is no
	/// more data, `Some(Err(()))` when the query is unsupported.
	pub fn next_extent(file: &File, pos: u64, len: u64) -> Option<Result<(u64, u64), ()>> {
		if pos >= len {
			return None
		}
		let fd = file.as_raw_fd();
		let start = unsafe { lseek(fd, pos as i64, SEEK_DATA) };
		if start < 0 {
			let e = std::io::Error::last_os_error();
			// ENXIO: no data beyond pos
			return if e.raw_os_error() == Some(6) { None } else { Some(Err(())) }
		}
		let start = start as u64;
		if start >= len {
			return None
		}
		let end = unsafe { lseek(fd, start as i64, SEEK_HOLE) };
		if end < 0 {
			return Some(Err(()))
		}
		let end = (end as u64).min(len);
		if end <= start {
			return Some(Err(()))
		}
		Some(Ok((start, end)))
	}
}

#[cfg(not(all(target_os = "linux", target_pointer_width = "64")))]
mod seek {
	use std::fs::File;
	pub fn next_extent(_file: &File, _pos: u64, _len: u64) -> Option<Result<(u64, u64), ()>> {
		Some(Err(()))
	}
}

fn all_zero(b: &[u8]) -> bool {
	let (pre, mid, post) = unsafe { b.align_to::<u128>() };
	pre.iter().all(|x| *x == 0) && mid.iter().all(|x| *x == 0) && post.iter().all(|x| *x == 0)
}

fn read_range(
	file: &File,
	start: u64,
	end: u64,
	buf: &mut Vec<u8>,
	f: &mut dyn FnMut(u64, &[u8]),
) -> io::Result<()> {
	let mut pos = start;
	while pos < end {
		let n = ((end - pos) as usize).min(BLOCK);
		buf.resize(n, 0);
		file.read_exact_at(&mut buf[..n], pos)?;
		if !all_zero(&buf[..n]) {
			f(pos, &buf[..n]);
		}
		pos += n as u64;
	}
	Ok(())
}

/// Call `f(file_offset, bytes)` for the non-zero regions of `file[start..len)`. Regions are
/// aligned to `align` bytes relative to `start` (`align` must divide 1 MiB).
pub fn for_each_data(
	file: &File,
	start: u64,
	len: u64,
	align: u64,
	f: &mut dyn FnMut(u64, &[u8]),
) -> io::Result<()> {
	let mut buf = Vec::new();
	let mut pos = start;
	loop {
		match seek::next_extent(file, pos, len) {
			None => return Ok(()),
			Some(Ok((s, e))) => {
				let s = s.max(start);
				// align down / up relative to `start`
				let s = start + (s - start) / align * align;
				let e = (start + (e - start + align - 1) / align * align).min(len);
				let s = s.max(pos);
				read_range(file, s, e, &mut buf, f)?;
				pos = e;
				if pos >= len {
					return Ok(())
				}
			},
			Some(Err(())) => return read_range(file, pos, len, &mut buf, f),
		}
	}
}
