//! Value table parser: header, slot classification, free list walk, multipart chains.
//!
//! Written from the layout comment at the top of `src/table.rs` of parity-db (v8 files).

use crate::report::Rep;
use std::{collections::HashMap, fs::File, os::unix::fs::FileExt, path::Path};

/// Entry sizes of tiers 0..=254 (`SIZES` in parity-db `src/column.rs`). Tier 255 is the
/// multipart table with 4096-byte entries.
pub const SIZES: [u16; 255] = [
	32, 33, 34, 35, 36, 37, 38, 39, 40, 41, 42, 43, 44, 46, 47, 48, 50, 51, 52, 54, 55, 57, 58, 60,
	62, 63, 65, 67, 69, 71, 73, 75, 77, 79, 81, 83, 85, 88, 90, 93, 95, 98, 101, 103, 106, 109,
	112, 115, 119, 122, 125, 129, 132, 136, 140, 144, 148, 152, 156, 160, 165, 169, 174, 179, 183,
	189, 194, 199, 205, 210, 216, 222, 228, 235, 241, 248, 255, 262, 269, 276, 284, 292, 300, 308,
	317, 325, 334, 344, 353, 363, 373, 383, 394, 405, 416, 428, 439, 452, 464, 477, 490, 504, 518,
	532, 547, 562, 577, 593, 610, 627, 644, 662, 680, 699, 718, 738, 758, 779, 801, 823, 846, 869,
	893, 918, 943, 969, 996, 1024, 1052, 1081, 1111, 1142, 1174, 1206, 1239, 1274, 1309, 1345,
	1382, 1421, 1460, 1500, 1542, 1584, 1628, 1673, 1720, 1767, 1816, 1866, 1918, 1971, 2025, 2082,
	2139, 2198, 2259, 2322, 2386, 2452, 2520, 2589, 2661, 2735, 2810, 2888, 2968, 3050, 3134, 3221,
	3310, 3402, 3496, 3593, 3692, 3794, 3899, 4007, 4118, 4232, 4349, 4469, 4593, 4720, 4850, 4984,
	5122, 5264, 5410, 5559, 5713, 5871, 6034, 6200, 6372, 6548, 6729, 6916, 7107, 7303, 7506, 7713,
	7927, 8146, 8371, 8603, 8841, 9085, 9337, 9595, 9860, 10133, 10413, 10702, 10998, 11302, 11614,
	11936, 12266, 12605, 12954, 13312, 13681, 14059, 14448, 14848, 15258, 15681, 16114, 16560,
	17018, 17489, 17973, 18470, 18981, 19506, 20046, 20600, 21170, 21756, 22358, 22976, 23612,
	24265, 24936, 25626, 26335, 27064, 27812, 28582, 29372, 30185, 31020, 31878, 32760,
];
pub const MULTIPART_ENTRY_SIZE: usize = 4096;
pub const MULTIPART_TIER: u8 = 255;
pub const KEY_TAIL: usize = 26;
const COMPRESSED_MASK: u16 = 0x8000;

pub fn entry_size(tier: u8) -> usize {
	if tier == MULTIPART_TIER {
		MULTIPART_ENTRY_SIZE
	} else {
		SIZES[tier as usize] as usize
	}
}

pub fn addr(tier: u8, offset: u64) -> u64 {
	(offset << 8) | tier as u64
}

pub fn addr_split(a: u64) -> (u8, u64) {
	((a & 0xff) as u8, a >> 8)
}

pub fn addr_str(a: u64) -> String {
	let (t, o) = addr_split(a);
	format!("{:02x}:{}", t, o)
}

/// What the first bytes of a slot say it is.
#[derive(Clone, Copy, Debug, PartialEq, Eq)]
pub enum Kind {
	/// `ff ff` + next free
	Tomb { next: u64 },
	/// `fd ff` / `fd 7f` + next part (multipart table only)
	MHead { next: u64, compressed: bool },
	/// `fe ff` + next part (multipart table only)
	MPart { next: u64 },
	/// `[size u16]`: complete entry or last part
	Sized { size: usize, compressed: bool },
	/// size does not fit the entry
	Bad { raw: u16 },
}

/// Result of the structural analysis for one slot.
#[derive(Clone, Copy, Debug, PartialEq, Eq)]
pub enum State {
	/// member of the free list
	Free,
	/// head of a live value (complete entry or multipart head)
	Head,
	/// continuation / last part owned by exactly one live chain
	Cont,
	/// anything else (already reported)
	Bad,
}

pub struct Table {
	pub col: usize,
	pub tier: u8,
	pub entry_size: usize,
	pub multipart: bool,
	/// fill mark as stored (0 normalised to 1)
	pub filled: u64,
	/// number of slots that are actually backed by the file (<= filled)
	pub slots: u64,
	pub last_removed: u64,
	data: Vec<u8>,
	pub state: Vec<State>,
	/// multipart only: head -> slots of the chain (head first); only complete chains
	chains: HashMap<u64, Vec<u64>>,
	pub free_len: u64,
}

impl Table {
	pub fn name(&self) -> String {
		format!("table_{:02}_{:02x}", self.col, self.tier)
	}

	/// Load header and the slots below the fill mark. Returns `None` for a file that holds no
	/// table yet (zero length: parity-db preallocates it on open, `file.rs` `TableFile::open`).
	pub fn load(path: &Path, col: usize, tier: u8, rep: &mut Rep) -> Option<Table> {
		let es = entry_size(tier);
		let name = format!("table_{:02}_{:02x}", col, tier);
		let file = match File::open(path) {
			Ok(f) => f,
			Err(e) => {
				rep.err("file_io", format!("{}: cannot open: {}", name, e));
				return None
			},
		};
		let len = match file.metadata() {
			Ok(m) => m.len(),
			Err(e) => {
				rep.err("file_io", format!("{}: cannot stat: {}", name, e));
				return None
			},
		};
		if len == 0 {
			return None
		}
		let mut header = [0u8; 16];
		if len < 16 || file.read_exact_at(&mut header, 0).is_err() {
			rep.err("header_invalid", format!("{}: file of {} bytes has no header", name, len));
			return None
		}
		let last_removed = u64::from_le_bytes(header[0..8].try_into().unwrap());
		let mut filled = u64::from_le_bytes(header[8..16].try_into().unwrap());
		if filled == 0 {
			// never written header: `ValueTable::open` treats 0 as 1
			filled = 1;
		}
		if last_removed >= filled {
			rep.err(
				"header_invalid",
				format!("{}: last_removed {} >= filled {}", name, last_removed, filled),
			);
		}
		let capacity = len / es as u64;
		let mut slots = filled;
		if filled > capacity {
			rep.err(
				"header_fill_beyond_file",
				format!(
					"{}: filled {} exceeds file capacity {} ({} bytes)",
					name, filled, capacity, len
				),
			);
			slots = capacity.max(1);
		}
		let bytes = (slots as usize).saturating_mul(es);
		let mut data = vec![0u8; bytes];
		if let Err(e) = file.read_exact_at(&mut data, 0) {
			rep.err("file_io", format!("{}: cannot read {} bytes: {}", name, bytes, e));
			return None
		}
		Some(Table {
			col,
			tier,
			entry_size: es,
			multipart: tier == MULTIPART_TIER,
			filled,
			slots,
			last_removed,
			data,
			state: Vec::new(),
			chains: HashMap::new(),
			free_len: 0,
		})
	}

	pub fn slot(&self, i: u64) -> &[u8] {
		let s = i as usize * self.entry_size;
		&self.data[s..s + self.entry_size]
	}

	pub fn kind(&self, i: u64) -> Kind {
		let s = self.slot(i);
		let m = [s[0], s[1]];
		let next = || u64::from_le_bytes(s[2..10].try_into().unwrap());
		if m == [0xff, 0xff] {
			return Kind::Tomb { next: next() }
		}
		if self.multipart {
			if m == [0xfd, 0xff] {
				return Kind::MHead { next: next(), compressed: false }
			}
			if m == [0xfd, 0x7f] {
				return Kind::MHead { next: next(), compressed: true }
			}
			if m == [0xfe, 0xff] {
				return Kind::MPart { next: next() }
			}
		}
		let raw = u16::from_le_bytes(m);
		let size = (raw & !COMPRESSED_MASK) as usize;
		if 2 + size > self.entry_size {
			return Kind::Bad { raw }
		}
		Kind::Sized { size, compressed: raw & COMPRESSED_MASK != 0 }
	}

	fn is_zero(&self, i: u64) -> bool {
		self.slot(i).iter().all(|b| *b == 0)
	}

	/// Walk the free list and classify every slot below the fill mark (invariants 1-3).
	/// `zero_is_unwritten`: an all-zero slot cannot be a value in this column (keyed values and
	/// tree nodes are never empty), it was allocated but never written.
	pub fn analyze(&mut self, zero_is_unwritten: bool, rep: &mut Rep) {
		let n = self.slots;
		let name = self.name();
		// `None` = not yet classified
		let mut st: Vec<Option<State>> = vec![None; n as usize];
		if n > 0 {
			st[0] = Some(State::Bad); // header entry, never looked at
		}

		// free list
		let mut cur = self.last_removed;
		let mut prev = 0u64;
		let mut free_len = 0u64;
		while cur != 0 {
			if cur >= n {
				// the header pointer itself was already reported when >= filled
				if !(prev == 0 && cur >= self.filled) {
					rep.err(
						"free_list_out_of_range",
						format!(
							"{}: free list element {} (after {}) is not below the fill mark {}",
							name, cur, prev, self.filled
						),
					);
				}
				break
			}
			if st[cur as usize] == Some(State::Free) {
				rep.err(
					"free_list_cycle",
					format!("{}: free list reaches slot {} twice (from {})", name, cur, prev),
				);
				break
			}
			match self.kind(cur) {
				Kind::Tomb { next } => {
					st[cur as usize] = Some(State::Free);
					free_len += 1;
					prev = cur;
					cur = next;
				},
				k => {
					rep.err(
						"free_list_non_tombstone",
						format!(
							"{}: free list element {} (after {}) is not a tombstone: {:?}",
							name, cur, prev, k
						),
					);
					break
				},
			}
		}
		self.free_len = free_len;

		if !self.multipart {
			for i in 1..n {
				if st[i as usize].is_some() {
					continue
				}
				st[i as usize] = Some(match self.kind(i) {
					Kind::Sized { size: 0, .. } if zero_is_unwritten && self.is_zero(i) => {
						rep.err(
							"slot_unwritten",
							format!(
								"{}: slot {} below the fill mark {} is all zero: allocated but never written",
								name, i, self.filled
							),
						);
						State::Bad
					},
					Kind::Tomb { next } => {
						rep.err(
							"slot_orphan",
							format!(
								"{}: slot {} is a tombstone (next {}) that is not on the free list",
								name, i, next
							),
						);
						State::Bad
					},
					Kind::Sized { .. } => State::Head,
					k => {
						rep.err("entry_invalid", format!("{}: slot {}: {:?}", name, i, k));
						State::Bad
					},
				});
			}
		} else {
			let mut owner = vec![0u64; n as usize];
			let heads: Vec<(u64, u64)> = (1..n)
				.filter(|i| st[*i as usize].is_none())
				.filter_map(|i| match self.kind(i) {
					Kind::MHead { next, .. } => Some((i, next)),
					_ => None,
				})
				.collect();
			for (h, _) in &heads {
				st[*h as usize] = Some(State::Head);
				owner[*h as usize] = *h;
			}
			for (h, first) in heads {
				let mut parts = vec![h];
				let mut next = first;
				let mut prev = h;
				let ok = loop {
					if next == 0 {
						rep.err(
							"chain_broken",
							format!(
								"{}: chain of head {}: part {} has no successor and is not a last part",
								name, h, prev
							),
						);
						break false
					}
					if next >= n {
						rep.err(
							"chain_broken",
							format!(
								"{}: chain of head {}: part {} points to {} beyond the fill mark {}",
								name, h, prev, next, self.filled
							),
						);
						break false
					}
					if owner[next as usize] != 0 {
						if owner[next as usize] == h {
							rep.err(
								"chain_broken",
								format!(
									"{}: chain of head {} is cyclic: part {} points back to {}",
									name, h, prev, next
								),
							);
						} else if matches!(self.kind(next), Kind::MHead { .. }) {
							rep.err(
								"chain_broken",
								format!(
									"{}: chain of head {}: part {} points to another head {}",
									name, h, prev, next
								),
							);
						} else {
							rep.err(
								"slot_double_use",
								format!(
									"{}: slot {} is part of the chains of heads {} and {}",
									name, next, owner[next as usize], h
								),
							);
						}
						break false
					}
					if st[next as usize] == Some(State::Free) {
						rep.err(
							"chain_broken",
							format!(
								"{}: chain of head {}: part {} points to free slot {}",
								name, h, prev, next
							),
						);
						break false
					}
					match self.kind(next) {
						Kind::MPart { next: nn } => {
							owner[next as usize] = h;
							st[next as usize] = Some(State::Cont);
							parts.push(next);
							prev = next;
							next = nn;
						},
						Kind::Sized { .. } => {
							owner[next as usize] = h;
							st[next as usize] = Some(State::Cont);
							parts.push(next);
							break true
						},
						k => {
							rep.err(
								"chain_broken",
								format!(
									"{}: chain of head {}: part {} points to slot {} which is {:?}",
									name, h, prev, next, k
								),
							);
							break false
						},
					}
				};
				if ok {
					self.chains.insert(h, parts);
				}
			}
			for i in 1..n {
				if st[i as usize].is_some() {
					continue
				}
				match self.kind(i) {
					Kind::Sized { size: 0, .. } if self.is_zero(i) => rep.err(
						"slot_unwritten",
						format!(
							"{}: slot {} below the fill mark {} is all zero: allocated but never written",
							name, i, self.filled
						),
					),
					Kind::Tomb { next } => rep.err(
						"slot_orphan",
						format!(
							"{}: slot {} is a tombstone (next {}) that is not on the free list",
							name, i, next
						),
					),
					Kind::Bad { .. } => rep.err("entry_invalid", format!("{}: slot {}: {:?}", name, i, self.kind(i))),
					k => rep.err(
						"slot_orphan",
						format!("{}: slot {} ({:?}) belongs to no live chain", name, i, k),
					),
				}
				st[i as usize] = Some(State::Bad);
			}
		}
		self.state = st.into_iter().map(|s| s.unwrap_or(State::Bad)).collect();
	}

	pub fn is_head(&self, off: u64) -> bool {
		off >= 1 && off < self.slots && self.state[off as usize] == State::Head
	}

	/// Bytes of a live value after the size / marker+next fields, i.e. `[rc][key tail][payload]`,
	/// and the compressed flag of the head. `None` if the chain is broken.
	pub fn raw(&self, off: u64) -> Option<(Vec<u8>, bool)> {
		if !self.is_head(off) {
			return None
		}
		if !self.multipart {
			return match self.kind(off) {
				Kind::Sized { size, compressed } => Some((self.slot(off)[2..2 + size].to_vec(), compressed)),
				_ => None,
			}
		}
		let parts = self.chains.get(&off)?;
		let mut out = Vec::with_capacity(parts.len() * self.entry_size);
		let mut compressed = false;
		for p in parts {
			match self.kind(*p) {
				Kind::MHead { compressed: c, .. } => {
					compressed = c;
					out.extend_from_slice(&self.slot(*p)[10..]);
				},
				Kind::MPart { .. } => out.extend_from_slice(&self.slot(*p)[10..]),
				Kind::Sized { size, .. } => out.extend_from_slice(&self.slot(*p)[2..2 + size]),
				_ => return None,
			}
		}
		Some((out, compressed))
	}

	pub fn heads(&self) -> impl Iterator<Item = u64> + '_ {
		(1..self.slots).filter(move |i| self.state[*i as usize] == State::Head)
	}
}

/// All value tables of one column.
pub struct Tables {
	pub t: Vec<Option<Table>>,
}

impl Tables {
	pub fn get(&self, tier: u8) -> Option<&Table> {
		self.t[tier as usize].as_ref()
	}

	pub fn is_head(&self, a: u64) -> bool {
		let (tier, off) = addr_split(a);
		self.get(tier).map_or(false, |t| t.is_head(off))
	}

	/// `true` when the address names a slot below the fill mark of an existing table.
	pub fn in_range(&self, a: u64) -> bool {
		let (tier, off) = addr_split(a);
		self.get(tier).map_or(false, |t| off >= 1 && off < t.slots)
	}

	pub fn raw(&self, a: u64) -> Option<(Vec<u8>, bool)> {
		let (tier, off) = addr_split(a);
		self.get(tier)?.raw(off)
	}

	pub fn describe(&self, a: u64) -> String {
		let (tier, off) = addr_split(a);
		match self.get(tier) {
			None => "no such table".into(),
			Some(t) if off == 0 || off >= t.slots => format!("beyond fill mark {}", t.filled),
			Some(t) => format!("{:?}/{:?}", t.state[off as usize], t.kind(off)),
		}
	}

	pub fn all_heads(&self) -> Vec<u64> {
		let mut v = Vec::new();
		for t in self.t.iter().flatten() {
			v.extend(t.heads().map(|o| addr(t.tier, o)));
		}
		v
	}
}

/// A live value split into its header fields.
pub struct Value {
	pub rc: u32,
	pub tail: Option<[u8; KEY_TAIL]>,
	pub payload: Vec<u8>,
	pub compressed: bool,
}

/// Split `[rc][key tail][payload]`. `Err` carries the number of bytes that were needed.
pub fn split(raw: (Vec<u8>, bool), ref_counted: bool, keyed: bool) -> Result<Value, usize> {
	let (raw, compressed) = raw;
	let need = if ref_counted { 4 } else { 0 } + if keyed { KEY_TAIL } else { 0 };
	if raw.len() < need {
		return Err(need)
	}
	let mut p = 0;
	let rc = if ref_counted {
		p = 4;
		u32::from_le_bytes(raw[0..4].try_into().unwrap())
	} else {
		1
	};
	let tail = if keyed {
		let mut t = [0u8; KEY_TAIL];
		t.copy_from_slice(&raw[p..p + KEY_TAIL]);
		p += KEY_TAIL;
		Some(t)
	} else {
		None
	};
	Ok(Value { rc, tail, payload: raw[p..].to_vec(), compressed })
}
