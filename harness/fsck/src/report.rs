//! Error / statistics collector.

use std::collections::BTreeMap;

pub const MAX_ERRORS: usize = 200;

#[derive(Default)]
pub struct Rep {
	pub errors: Vec<String>,
	pub suppressed: u64,
	pub stats: BTreeMap<String, u64>,
}

impl Rep {
	pub fn err(&mut self, class: &str, detail: String) {
		if self.errors.len() >= MAX_ERRORS {
			self.suppressed += 1;
			return
		}
		self.errors.push(format!("{}: {}", class, detail));
	}

	pub fn add(&mut self, key: &str, n: u64) {
		*self.stats.entry(key.to_string()).or_insert(0) += n;
	}

	pub fn max(&mut self, key: &str, n: u64) {
		let e = self.stats.entry(key.to_string()).or_insert(0);
		if *e < n {
			*e = n;
		}
	}
}

pub fn hex(b: &[u8]) -> String {
	let mut s = String::with_capacity(b.len() * 2);
	for x in b {
		s.push_str(&format!("{:02x}", x));
	}
	s
}

/// Short description of a value for error messages.
pub fn brief(b: &[u8]) -> String {
	if b.len() <= 24 {
		format!("{} bytes [{}]", b.len(), hex(b))
	} else {
		format!("{} bytes [{}..{}]", b.len(), hex(&b[..12]), hex(&b[b.len() - 8..]))
	}
}
