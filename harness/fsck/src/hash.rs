//! Hash-indexed columns: index <-> keyed value bijection, expectation comparison.
//! The index machinery is shared with multitree columns (`tree.rs`), whose roots are keyed values.

use crate::{
	compress,
	index::{self, IndexFile},
	report::{brief, hex, Rep},
	table::{addr_str, split, Tables},
	ColSpec,
};
use std::collections::{BTreeMap, HashMap};

/// A live value that carries a key tail.
pub struct Keyed {
	pub addr: u64,
	pub rc: u32,
	pub tail: [u8; 26],
	pub payload: Vec<u8>,
	pub compressed: bool,
	/// full keys reconstructed from the index entries that point here and agree with the tail
	pub keys: Vec<[u8; 32]>,
}

/// In-range index entry: (index file number (0 = current), first 50 key bits).
pub type Refs = BTreeMap<u64, Vec<(usize, u64)>>;

/// Collect the targets of all index entries. Entries that cannot be resolved to a slot below
/// the fill mark of an existing table can never be legal leftovers (fill marks never shrink,
/// tables are never removed) and are reported.
pub fn index_refs(tables: &Tables, idx: &[IndexFile], rep: &mut Rep) -> Refs {
	let mut refs: Refs = BTreeMap::new();
	for (n, f) in idx.iter().enumerate() {
		rep.add("index_files", 1);
		rep.add("index_entries", f.entries.len() as u64);
		let mut seen: HashMap<u64, u64> = HashMap::new();
		for e in &f.entries {
			let a = f.address(e);
			if seen.insert(e.raw, e.chunk).map_or(false, |c| c == e.chunk) {
				// same key prefix and address twice in one chunk
				rep.add("index_redundant_entries", 1);
			}
			if !tables.in_range(a) {
				rep.err(
					"index_dangling",
					format!(
						"{}: chunk {} entry {} -> {} ({})",
						f.name(),
						e.chunk,
						e.pos,
						addr_str(a),
						tables.describe(a)
					),
				);
				continue
			}
			refs.entry(a).or_default().push((n, f.prefix50(e)));
		}
	}
	refs
}

/// Parse the given live heads as keyed values.
pub fn build_keyed(
	tables: &Tables,
	spec: &ColSpec,
	addrs: &[u64],
	report: bool,
	rep: &mut Rep,
) -> BTreeMap<u64, Keyed> {
	let mut out = BTreeMap::new();
	for a in addrs {
		let raw = match tables.raw(*a) {
			Some(r) => r,
			None => continue, // broken chain, already reported
		};
		match split(raw, spec.ref_counted, true) {
			Ok(v) => {
				out.insert(
					*a,
					Keyed {
						addr: *a,
						rc: v.rc,
						tail: v.tail.unwrap(),
						payload: v.payload,
						compressed: v.compressed,
						keys: Vec::new(),
					},
				);
			},
			Err(need) =>
				if report {
					rep.err(
						"entry_invalid",
						format!(
							"value at {} is too short for its header ({} bytes of rc/key needed)",
							addr_str(*a),
							need
						),
					);
				},
		}
	}
	out
}

/// Attach the reconstructed keys to the keyed heads. Returns the stale entries of the current
/// index as (prefix50, address).
pub fn attach_keys(keyed: &mut BTreeMap<u64, Keyed>, refs: &Refs) -> (Vec<(u64, u64)>, u64) {
	let mut stale_current = Vec::new();
	let mut stale = 0u64;
	for (a, list) in refs {
		for (file, prefix) in list {
			let key = keyed.get(a).and_then(|k| index::join_key(*prefix, &k.tail));
			match key {
				Some(key) => {
					let k = keyed.get_mut(a).unwrap();
					if !k.keys.contains(&key) {
						k.keys.push(key);
					}
				},
				None => {
					stale += 1;
					if *file == 0 {
						stale_current.push((*prefix, *a));
					}
				},
			}
		}
	}
	(stale_current, stale)
}

/// Two live heads with the same full key.
pub fn check_duplicates(keyed: &BTreeMap<u64, Keyed>, col: usize, rep: &mut Rep) -> HashMap<[u8; 32], u64> {
	let mut by_key: HashMap<[u8; 32], u64> = HashMap::new();
	for k in keyed.values() {
		for key in &k.keys {
			if let Some(other) = by_key.get(key) {
				if *other != k.addr {
					rep.err(
						"index_duplicate",
						format!(
							"col {}: key {} has two live values: {} and {}",
							col,
							hex(key),
							addr_str(*other),
							addr_str(k.addr)
						),
					);
				}
			} else {
				by_key.insert(*key, k.addr);
			}
		}
	}
	by_key
}

pub fn value_of(k: &Keyed, spec: &ColSpec) -> Result<Vec<u8>, String> {
	if k.compressed {
		compress::decompress(spec.compression, &k.payload)
	} else {
		Ok(k.payload.clone())
	}
}

pub fn check_hash(
	col: usize,
	spec: &ColSpec,
	tables: &Tables,
	idx: &[IndexFile],
	expect: Option<&[([u8; 32], Vec<u8>, u32)]>,
	rep: &mut Rep,
) {
	let refs = index_refs(tables, idx, rep);
	let heads = tables.all_heads();
	let mut keyed = build_keyed(tables, spec, &heads, true, rep);
	let (stale_current, stale) = attach_keys(&mut keyed, &refs);
	rep.add("index_stale_entries", stale);

	for k in keyed.values() {
		if k.keys.is_empty() {
			rep.err(
				"index_missing",
				format!(
					"col {}: live value at {} (key tail {}) is not referenced by any index entry",
					col,
					addr_str(k.addr),
					hex(&k.tail)
				),
			);
		} else if k.keys.len() > 1 {
			// a stale entry of another key points at this (reused) slot and agrees in bits 48..50
			rep.add("index_ambiguous_entries", k.keys.len() as u64 - 1);
		}
	}
	let by_key = check_duplicates(&keyed, col, rep);

	// values must be decodable whatever the expectation is
	let mut values: HashMap<u64, Vec<u8>> = HashMap::new();
	for k in keyed.values() {
		if k.compressed {
			rep.add("values_compressed", 1);
		}
		match value_of(k, spec) {
			Ok(v) => {
				values.insert(k.addr, v);
			},
			Err(e) => rep.err(
				"decompress_failed",
				format!("col {}: value at {}: {}", col, addr_str(k.addr), e),
			),
		}
		if spec.ref_counted && k.rc == 0 {
			rep.err(
				"rc_mismatch",
				format!("col {}: live value at {} has reference count 0", col, addr_str(k.addr)),
			);
		}
	}

	let expect = match expect {
		Some(e) => e,
		None => return,
	};
	let mut matched: HashMap<u64, ()> = HashMap::new();
	for (key, value, rc) in expect {
		let a = match by_key.get(key) {
			Some(a) => *a,
			None => {
				let tail_match = keyed
					.values()
					.find(|k| k.keys.is_empty() && k.tail[..] == key[6..])
					.map(|k| k.addr);
				let p = index::key_prefix50(key);
				let dangling: Vec<String> = stale_current
					.iter()
					.filter(|(prefix, _)| *prefix == p)
					.map(|(_, a)| format!("{} ({})", addr_str(*a), tables.describe(*a)))
					.collect();
				if !dangling.is_empty() {
					rep.err(
						"index_dangling",
						format!(
							"col {}: key {}: current index entry resolves to {} and no valid entry exists",
							col,
							hex(key),
							dangling.join(", ")
						),
					);
				}
				rep.err(
					"key_missing",
					format!(
						"col {}: key {} (value {}) not found{}",
						col,
						hex(key),
						brief(value),
						tail_match.map_or(String::new(), |a| format!(
							"; unindexed value with the same key tail at {}",
							addr_str(a)
						))
					),
				);
				continue
			},
		};
		matched.insert(a, ());
		let k = &keyed[&a];
		if let Some(v) = values.get(&a) {
			rep.add("values_compared", 1);
			if v != value {
				rep.err(
					"value_mismatch",
					format!(
						"col {}: key {} at {}: stored {} expected {}",
						col,
						hex(key),
						addr_str(a),
						brief(v),
						brief(value)
					),
				);
			}
		}
		if spec.ref_counted && k.rc != *rc {
			rep.err(
				"rc_mismatch",
				format!(
					"col {}: key {} at {}: stored rc {} expected {}",
					col,
					hex(key),
					addr_str(a),
					k.rc,
					rc
				),
			);
		}
	}
	for k in keyed.values() {
		if !k.keys.is_empty() && !matched.contains_key(&k.addr) {
			rep.err(
				"key_unexpected",
				format!(
					"col {}: key {} at {} (value {}) is not expected",
					col,
					hex(&k.keys[0]),
					addr_str(k.addr),
					values.get(&k.addr).map_or("unreadable".into(), |v| brief(v))
				),
			);
		}
	}
}
