//! Hash index parser: `index_<col>_<bits>` = 16 KiB meta + 2^bits chunks of 64 u64 entries.

use crate::{report::Rep, sparse};
use std::{fs::File, path::Path};

pub const META_SIZE: u64 = 16 * 1024;
pub const CHUNK_ENTRIES: u64 = 64;
pub const CHUNK_BYTES: u64 = 512;
pub const MIN_BITS: u8 = 16;
/// chunk bits + partial bits: the index knows the first 50 bits of a key
pub const PREFIX_BITS: u8 = 50;

#[derive(Clone, Copy, Debug)]
pub struct Entry {
	pub chunk: u64,
	pub pos: u8,
	pub raw: u64,
}

pub struct IndexFile {
	pub col: usize,
	pub bits: u8,
	pub entries: Vec<Entry>,
}

pub fn file_size(bits: u8) -> u64 {
	META_SIZE + (1u64 << bits) * CHUNK_BYTES
}

impl IndexFile {
	pub fn name(&self) -> String {
		format!("index_{:02}_{}", self.col, self.bits)
	}

	pub fn load(path: &Path, col: usize, bits: u8, rep: &mut Rep) -> Option<IndexFile> {
		let name = format!("index_{:02}_{}", col, bits);
		if !(MIN_BITS..=40).contains(&bits) {
			rep.err("index_file_invalid", format!("{}: unsupported number of index bits", name));
			return None
		}
		let file = match File::open(path) {
			Ok(f) => f,
			Err(e) => {
				rep.err("file_io", format!("{}: cannot open: {}", name, e));
				return None
			},
		};
		let len = file.metadata().map(|m| m.len()).unwrap_or(0);
		let expected = file_size(bits);
		if len != expected {
			rep.err(
				"index_file_invalid",
				format!("{}: file has {} bytes, expected {}", name, len, expected),
			);
		}
		let len = len.min(expected);
		let mut entries = Vec::new();
		if len > META_SIZE {
			let r = sparse::for_each_data(&file, META_SIZE, len, CHUNK_BYTES, &mut |off, bytes| {
				let first = (off - META_SIZE) / 8;
				for (i, e) in bytes.chunks_exact(8).enumerate() {
					let raw = u64::from_le_bytes(e.try_into().unwrap());
					if raw != 0 {
						let n = first + i as u64;
						entries.push(Entry {
							chunk: n / CHUNK_ENTRIES,
							pos: (n % CHUNK_ENTRIES) as u8,
							raw,
						});
					}
				}
			});
			if let Err(e) = r {
				rep.err("file_io", format!("{}: read failed: {}", name, e));
			}
		}
		Some(IndexFile { col, bits, entries })
	}

	pub fn address(&self, e: &Entry) -> u64 {
		e.raw & ((1u64 << (self.bits + 14)) - 1)
	}

	/// First 50 bits of the key, right aligned.
	pub fn prefix50(&self, e: &Entry) -> u64 {
		let partial = e.raw >> (self.bits + 14);
		(e.chunk << (PREFIX_BITS - self.bits)) | partial
	}
}

/// First 50 bits of a full key, right aligned.
pub fn key_prefix50(key: &[u8; 32]) -> u64 {
	u64::from_be_bytes(key[0..8].try_into().unwrap()) >> (64 - PREFIX_BITS)
}

/// Combine the index-visible prefix and the key tail stored in the value entry. `None` when the
/// two overlapping bits (48, 49) disagree.
pub fn join_key(prefix50: u64, tail: &[u8; 26]) -> Option<[u8; 32]> {
	if (prefix50 & 3) as u8 != tail[0] >> 6 {
		return None
	}
	let top = (prefix50 << (64 - PREFIX_BITS)).to_be_bytes();
	let mut k = [0u8; 32];
	k[0..6].copy_from_slice(&top[0..6]);
	k[6..].copy_from_slice(tail);
	Some(k)
}
