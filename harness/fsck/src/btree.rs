//! B-tree columns: header entry at tier 0 slot 1, nodes of order 8, values by address.

use crate::{
	compress,
	report::{brief, hex, Rep},
	table::{addr_str, split, Tables},
	ColSpec,
};
use std::collections::BTreeMap;

const ORDER: usize = 8;
pub const HEADER_ADDRESS: u64 = 1 << 8;

pub struct Sep {
	pub value: u64,
	pub key: Vec<u8>,
}

pub struct Node {
	/// `seps.len() + 1` children when complete; 0 = no child
	pub children: Vec<u64>,
	pub seps: Vec<Sep>,
}

/// `child0 u64, (value_addr u64, klen u8 | ff + u32, key, child u64)*`
pub fn parse_node(b: &[u8]) -> Result<Node, String> {
	let mut p = 0usize;
	let rd_u64 = |p: &mut usize| -> Result<u64, String> {
		if *p + 8 > b.len() {
			return Err(format!("truncated at byte {} of {}", *p, b.len()))
		}
		let v = u64::from_le_bytes(b[*p..*p + 8].try_into().unwrap());
		*p += 8;
		Ok(v)
	};
	let mut node = Node { children: vec![rd_u64(&mut p)?], seps: Vec::new() };
	while p < b.len() {
		if node.seps.len() == ORDER {
			return Err(format!("{} bytes after the last child of a full node", b.len() - p))
		}
		let value = rd_u64(&mut p)?;
		if p >= b.len() {
			return Err("truncated key length".into())
		}
		let mut klen = b[p] as usize;
		p += 1;
		if klen == 0xff {
			if p + 4 > b.len() {
				return Err("truncated long key length".into())
			}
			klen = u32::from_le_bytes(b[p..p + 4].try_into().unwrap()) as usize;
			p += 4;
		}
		if klen > b.len() - p {
			return Err(format!("key of {} bytes does not fit", klen))
		}
		let key = b[p..p + klen].to_vec();
		p += klen;
		if value == 0 {
			// parity-db stops reading here; it never writes such a separator
			return Err(format!("separator {} has no value address", node.seps.len()))
		}
		node.seps.push(Sep { value, key });
		node.children.push(rd_u64(&mut p)?);
	}
	Ok(node)
}

struct Walk<'a> {
	col: usize,
	spec: &'a ColSpec,
	tables: &'a Tables,
	/// address -> how it is used ("node" / "value") and by whom
	used: BTreeMap<u64, String>,
	items: Vec<(Vec<u8>, u64)>,
	last_key: Option<Vec<u8>>,
	nodes: u64,
	budget: u64,
}

impl<'a> Walk<'a> {
	fn claim(&mut self, a: u64, role: String, rep: &mut Rep) -> bool {
		if let Some(prev) = self.used.get(&a) {
			rep.err(
				"btree_double_ref",
				format!(
					"col {}: {} is referenced as {} and as {}",
					self.col,
					addr_str(a),
					prev,
					role
				),
			);
			return false
		}
		self.used.insert(a, role);
		true
	}

	fn node(&mut self, a: u64, depth_left: u32, from: &str, rep: &mut Rep) {
		if self.budget == 0 {
			return
		}
		self.budget -= 1;
		if !self.claim(a, format!("node (child of {})", from), rep) {
			return
		}
		if !self.tables.is_head(a) {
			rep.err(
				"btree_dangling",
				format!(
					"col {}: node {} referenced by {} is not a live value: {}",
					self.col,
					addr_str(a),
					from,
					self.tables.describe(a)
				),
			);
			return
		}
		let raw = match self.tables.raw(a) {
			Some(r) => r,
			None => return,
		};
		let v = match split(raw, self.spec.ref_counted, false) {
			Ok(v) => v,
			Err(_) => {
				rep.err(
					"btree_node_invalid",
					format!("col {}: node {} is too short for its header", self.col, addr_str(a)),
				);
				return
			},
		};
		if v.compressed {
			rep.err(
				"btree_node_invalid",
				format!("col {}: node {} is flagged compressed", self.col, addr_str(a)),
			);
			return
		}
		if self.spec.ref_counted && v.rc != 1 {
			rep.err(
				"rc_mismatch",
				format!("col {}: node {} has reference count {}", self.col, addr_str(a), v.rc),
			);
		}
		let node = match parse_node(&v.payload) {
			Ok(n) => n,
			Err(e) => {
				rep.err(
					"btree_node_invalid",
					format!("col {}: node {}: {}", self.col, addr_str(a), e),
				);
				return
			},
		};
		self.nodes += 1;
		let me = addr_str(a);
		for i in 0..node.children.len() {
			let ch = node.children[i];
			if depth_left == 0 {
				if ch != 0 {
					rep.err(
						"btree_depth",
						format!(
							"col {}: node {} is at leaf depth but has child {} = {}",
							self.col,
							me,
							i,
							addr_str(ch)
						),
					);
				}
			} else if ch == 0 {
				rep.err(
					"btree_depth",
					format!(
						"col {}: node {} is {} levels above the leaves but has no child {}",
						self.col, me, depth_left, i
					),
				);
			} else {
				self.node(ch, depth_left - 1, &me, rep);
			}
			if i < node.seps.len() {
				let s = &node.seps[i];
				if let Some(last) = &self.last_key {
					if *last >= s.key {
						rep.err(
							"btree_unsorted",
							format!(
								"col {}: node {} separator {}: key {} follows {}",
								self.col,
								me,
								i,
								hex(&s.key),
								hex(last)
							),
						);
					}
				}
				self.last_key = Some(s.key.clone());
				if self.claim(s.value, format!("value of key {} in node {}", hex(&s.key), me), rep) {
					self.items.push((s.key.clone(), s.value));
				}
			}
		}
	}
}

pub fn check_btree(
	col: usize,
	spec: &ColSpec,
	tables: &Tables,
	expect: Option<&[(Vec<u8>, Vec<u8>, u32)]>,
	rep: &mut Rep,
) {
	let heads = tables.all_heads();
	if tables.get(0).is_none() {
		if tables.t.iter().any(|t| t.is_some()) {
			rep.err(
				"header_invalid",
				format!("col {}: b-tree header table table_{:02}_00 is missing", col, col),
			);
		} else if let Some(e) = expect {
			for (k, ..) in e {
				rep.err("key_missing", format!("col {}: key {} not found (no files)", col, hex(k)));
			}
		}
		return
	}
	// header
	let header = tables
		.raw(HEADER_ADDRESS)
		.ok_or_else(|| format!("slot is {}", tables.describe(HEADER_ADDRESS)))
		.and_then(|raw| {
			split(raw, spec.ref_counted, false).map_err(|_| "too short for its header".to_string())
		})
		.and_then(|v| {
			if v.compressed {
				return Err("flagged compressed".into())
			}
			if v.payload.len() < 12 {
				return Err(format!("{} bytes instead of 12", v.payload.len()))
			}
			Ok((
				u64::from_le_bytes(v.payload[0..8].try_into().unwrap()),
				u32::from_le_bytes(v.payload[8..12].try_into().unwrap()),
			))
		});
	let (root, depth) = match header {
		Ok(h) => h,
		Err(e) => {
			rep.err("header_invalid", format!("col {}: b-tree header entry 00:1: {}", col, e));
			return
		},
	};
	rep.max("btree_depth", depth as u64);
	let mut w = Walk {
		col,
		spec,
		tables,
		used: BTreeMap::new(),
		items: Vec::new(),
		last_key: None,
		nodes: 0,
		budget: heads.len() as u64 + 16,
	};
	w.used.insert(HEADER_ADDRESS, "header".into());
	if root == 0 {
		if depth != 0 {
			rep.err("btree_depth", format!("col {}: empty tree with depth {}", col, depth));
		}
	} else if depth > 64 {
		rep.err("btree_depth", format!("col {}: implausible depth {}", col, depth));
		return
	} else {
		w.node(root, depth, "header", rep);
	}
	rep.add("btree_nodes", w.nodes);

	// values
	let mut stored: Vec<(Vec<u8>, Option<Vec<u8>>, u32, u64)> = Vec::new();
	for (key, a) in &w.items {
		if !tables.is_head(*a) {
			rep.err(
				"btree_dangling",
				format!(
					"col {}: value {} of key {} is not a live value: {}",
					col,
					addr_str(*a),
					hex(key),
					tables.describe(*a)
				),
			);
			continue
		}
		let v = match tables.raw(*a).map(|r| split(r, spec.ref_counted, false)) {
			Some(Ok(v)) => v,
			Some(Err(_)) => {
				rep.err(
					"entry_invalid",
					format!("col {}: value {} is too short for its header", col, addr_str(*a)),
				);
				continue
			},
			None => continue,
		};
		if spec.ref_counted && v.rc == 0 {
			rep.err(
				"rc_mismatch",
				format!("col {}: live value {} has reference count 0", col, addr_str(*a)),
			);
		}
		let value = if v.compressed {
			rep.add("values_compressed", 1);
			match compress::decompress(spec.compression, &v.payload) {
				Ok(x) => Some(x),
				Err(e) => {
					rep.err(
						"decompress_failed",
						format!("col {}: value {} of key {}: {}", col, addr_str(*a), hex(key), e),
					);
					None
				},
			}
		} else {
			Some(v.payload)
		};
		stored.push((key.clone(), value, v.rc, *a));
	}

	// every live value must be referenced
	for a in &heads {
		if !w.used.contains_key(a) {
			rep.err(
				"btree_unreachable",
				format!(
					"col {}: live value at {} is referenced neither by the header nor by any reachable node",
					col,
					addr_str(*a)
				),
			);
		}
	}

	let expect = match expect {
		Some(e) => e,
		None => return,
	};
	let mut exp: BTreeMap<&[u8], (&Vec<u8>, u32)> = BTreeMap::new();
	for (k, v, rc) in expect {
		exp.insert(k.as_slice(), (v, *rc));
	}
	let mut seen: BTreeMap<&[u8], ()> = BTreeMap::new();
	for (key, value, rc, a) in &stored {
		seen.insert(key.as_slice(), ());
		match exp.get(key.as_slice()) {
			None => rep.err(
				"key_unexpected",
				format!(
					"col {}: key {} at {} (value {}) is not expected",
					col,
					hex(key),
					addr_str(*a),
					value.as_ref().map_or("unreadable".into(), |v| brief(v))
				),
			),
			Some((ev, erc)) => {
				if let Some(v) = value {
					rep.add("values_compared", 1);
					if v != *ev {
						rep.err(
							"value_mismatch",
							format!(
								"col {}: key {} at {}: stored {} expected {}",
								col,
								hex(key),
								addr_str(*a),
								brief(v),
								brief(ev)
							),
						);
					}
				}
				if spec.ref_counted && rc != erc {
					rep.err(
						"rc_mismatch",
						format!(
							"col {}: key {} at {}: stored rc {} expected {}",
							col,
							hex(key),
							addr_str(*a),
							rc,
							erc
						),
					);
				}
			},
		}
	}
	// keys whose value could not be resolved count as present (already reported)
	for (key, _) in &w.items {
		seen.insert(key.as_slice(), ());
	}
	for (k, (v, _)) in &exp {
		if !seen.contains_key(k) {
			rep.err(
				"key_missing",
				format!("col {}: key {} (value {}) not found", col, hex(k), brief(v)),
			);
		}
	}
}
