//! Ref-count table parser: `refcount_<col>_<bits>` = 2^bits chunks of 32 entries
//! `[address u64][count u64]`; the chunk of an address is the top `bits` bits of
//! SipHash-2-4 (zero key) of the address.

use crate::{report::Rep, sparse};
use std::{fs::File, path::Path};

pub const CHUNK_ENTRIES: u64 = 32;
pub const ENTRY_BYTES: u64 = 16;
pub const CHUNK_BYTES: u64 = 512;
pub const MIN_BITS: u8 = 16;

#[derive(Clone, Copy, Debug)]
pub struct Entry {
	pub chunk: u64,
	pub pos: u8,
	pub address: u64,
	pub count: u64,
}

pub struct RefCountFile {
	pub col: usize,
	pub bits: u8,
	pub entries: Vec<Entry>,
}

impl RefCountFile {
	pub fn name(&self) -> String {
		format!("refcount_{:02}_{}", self.col, self.bits)
	}

	pub fn load(path: &Path, col: usize, bits: u8, rep: &mut Rep) -> Option<RefCountFile> {
		let name = format!("refcount_{:02}_{}", col, bits);
		if !(MIN_BITS..=40).contains(&bits) {
			rep.err("refcount_file_invalid", format!("{}: unsupported number of bits", name));
			return None
		}
		let file = match File::open(path) {
			Ok(f) => f,
			Err(e) => {
				rep.err("file_io", format!("{}: cannot open: {}", name, e));
				return None
			},
		};
		let len = file.metadata().map(|m| m.len()).unwrap_or(0);
		let expected = (1u64 << bits) * CHUNK_BYTES;
		if len != expected {
			rep.err(
				"refcount_file_invalid",
				format!("{}: file has {} bytes, expected {}", name, len, expected),
			);
		}
		let len = len.min(expected);
		let mut entries = Vec::new();
		let r = sparse::for_each_data(&file, 0, len, CHUNK_BYTES, &mut |off, bytes| {
			let first = off / ENTRY_BYTES;
			for (i, e) in bytes.chunks_exact(16).enumerate() {
				let address = u64::from_le_bytes(e[0..8].try_into().unwrap());
				let count = u64::from_le_bytes(e[8..16].try_into().unwrap());
				// an entry is empty when its address is 0
				if address != 0 {
					let n = first + i as u64;
					entries.push(Entry {
						chunk: n / CHUNK_ENTRIES,
						pos: (n % CHUNK_ENTRIES) as u8,
						address,
						count,
					});
				} else if count != 0 {
					let n = first + i as u64;
					rep.err(
						"refcount_entry_invalid",
						format!(
							"{}: chunk {} entry {} has count {} but no address",
							name,
							n / CHUNK_ENTRIES,
							n % CHUNK_ENTRIES,
							count
						),
					);
				}
			}
		});
		if let Err(e) = r {
			rep.err("file_io", format!("{}: read failed: {}", name, e));
		}
		Some(RefCountFile { col, bits, entries })
	}

	pub fn chunk_of(&self, address: u64) -> u64 {
		siphash24(&address.to_le_bytes()) >> (64 - self.bits)
	}
}

/// SipHash-2-4 with key (0, 0), what `siphasher::sip::SipHasher::new()` computes.
pub fn siphash24(data: &[u8]) -> u64 {
	siphash24_keyed(0, 0, data)
}

pub fn siphash24_keyed(k0: u64, k1: u64, data: &[u8]) -> u64 {
	let mut v0 = k0 ^ 0x736f6d6570736575;
	let mut v1 = k1 ^ 0x646f72616e646f6d;
	let mut v2 = k0 ^ 0x6c7967656e657261;
	let mut v3 = k1 ^ 0x7465646279746573;
	macro_rules! round {
		() => {
			v0 = v0.wrapping_add(v1);
			v1 = v1.rotate_left(13);
			v1 ^= v0;
			v0 = v0.rotate_left(32);
			v2 = v2.wrapping_add(v3);
			v3 = v3.rotate_left(16);
			v3 ^= v2;
			v0 = v0.wrapping_add(v3);
			v3 = v3.rotate_left(21);
			v3 ^= v0;
			v2 = v2.wrapping_add(v1);
			v1 = v1.rotate_left(17);
			v1 ^= v2;
			v2 = v2.rotate_left(32);
		};
	}
	let mut chunks = data.chunks_exact(8);
	for c in &mut chunks {
		let m = u64::from_le_bytes(c.try_into().unwrap());
		v3 ^= m;
		round!();
		round!();
		v0 ^= m;
	}
	let rest = chunks.remainder();
	let mut last = (data.len() as u64 & 0xff) << 56;
	for (i, b) in rest.iter().enumerate() {
		last |= (*b as u64) << (8 * i);
	}
	v3 ^= last;
	round!();
	round!();
	v0 ^= last;
	v2 ^= 0xff;
	round!();
	round!();
	round!();
	round!();
	v0 ^ v1 ^ v2 ^ v3
}
