//! Value decompression, same framing as parity-db `src/compress.rs`:
//! lz4 = block format with the uncompressed size prepended (u32 LE);
//! snappy = snappy *frame* format.

use std::io::Read;

const MAX_DECOMPRESSED: usize = 1 << 30;

/// `kind`: 0 none, 1 lz4, 2 snappy
pub fn decompress(kind: u8, data: &[u8]) -> Result<Vec<u8>, String> {
	match kind {
		0 => Err("entry is flagged compressed but the column has no compression".into()),
		1 => {
			if data.len() < 4 {
				return Err("lz4: missing size prefix".into())
			}
			let size = u32::from_le_bytes(data[0..4].try_into().unwrap()) as usize;
			if size > MAX_DECOMPRESSED {
				return Err(format!("lz4: implausible size prefix {}", size))
			}
			lz4::block::decompress(data, None).map_err(|e| format!("lz4: {}", e))
		},
		2 => {
			let mut out = Vec::with_capacity(data.len());
			let mut d = snap::read::FrameDecoder::new(data).take(MAX_DECOMPRESSED as u64);
			d.read_to_end(&mut out).map_err(|e| format!("snappy: {}", e))?;
			Ok(out)
		},
		k => Err(format!("unknown compression kind {}", k)),
	}
}
