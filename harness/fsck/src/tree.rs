//! Multitree columns: keyed roots reachable through the index, unkeyed nodes reachable from the
//! roots, reference counts of shared nodes in the ref-count table.

use crate::{
	hash::{attach_keys, build_keyed, check_duplicates, index_refs, value_of, Keyed},
	index::IndexFile,
	refcount::RefCountFile,
	report::{brief, hex, Rep},
	table::{addr_str, split, Tables},
	ColSpec,
};
use std::collections::{BTreeMap, BTreeSet, HashMap};

pub type ExpRoot = ([u8; 32], Vec<u8>, Vec<u64>, u32);
pub type ExpNode = (u64, Vec<u8>, Vec<u64>, u64);

/// `data ++ child_address u64 * n ++ [n u8]`
pub fn unpack(v: &[u8]) -> Result<(Vec<u8>, Vec<u64>), String> {
	if v.is_empty() {
		return Err("empty node value".into())
	}
	let n = v[v.len() - 1] as usize;
	if v.len() < n * 8 + 1 {
		return Err(format!("node value of {} bytes cannot hold {} children", v.len(), n))
	}
	let dl = v.len() - n * 8 - 1;
	let children =
		(0..n).map(|i| u64::from_le_bytes(v[dl + i * 8..dl + i * 8 + 8].try_into().unwrap())).collect();
	Ok((v[..dl].to_vec(), children))
}

#[allow(clippy::too_many_arguments)]
pub fn check_tree(
	col: usize,
	spec: &ColSpec,
	tables: &Tables,
	idx: &[IndexFile],
	rcs: &[RefCountFile],
	expect: Option<(&[ExpRoot], &[ExpNode])>,
	rep: &mut Rep,
) {
	let refs = index_refs(tables, idx, rep);
	let heads = tables.all_heads();

	// 1. root candidates: live heads that are the target of an index entry agreeing with the
	//    26 bytes that would be the key tail.
	let cand_addrs: Vec<u64> = heads.iter().copied().filter(|a| refs.contains_key(a)).collect();
	let mut roots: BTreeMap<u64, Keyed> = build_keyed(tables, spec, &cand_addrs, false, rep);
	let (stale_current, mut stale) = attach_keys(&mut roots, &refs);
	roots.retain(|_, k| !k.keys.is_empty());

	// 2. parse everything under its assumed interpretation
	let parse_root = |k: &Keyed, rep: &mut Rep, report: bool| -> Option<(Vec<u8>, Vec<u64>)> {
		let v = match value_of(k, spec) {
			Ok(v) => v,
			Err(e) => {
				if report {
					rep.err(
						"decompress_failed",
						format!("col {}: root at {}: {}", col, addr_str(k.addr), e),
					);
				}
				return None
			},
		};
		match unpack(&v) {
			Ok(x) => Some(x),
			Err(e) => {
				if report {
					rep.err(
						"tree_node_invalid",
						format!("col {}: root at {}: {}", col, addr_str(k.addr), e),
					);
				}
				None
			},
		}
	};
	let parse_node = |a: u64, rep: &mut Rep, report: bool| -> Option<(u32, Vec<u8>, Vec<u64>)> {
		let raw = tables.raw(a)?;
		let v = match split(raw, spec.ref_counted, false) {
			Ok(v) => v,
			Err(_) => {
				if report {
					rep.err(
						"tree_node_invalid",
						format!("col {}: node at {} is too short for its header", col, addr_str(a)),
					);
				}
				return None
			},
		};
		if v.compressed && report {
			rep.err(
				"tree_node_invalid",
				format!("col {}: node at {} is flagged compressed", col, addr_str(a)),
			);
		}
		match unpack(&v.payload) {
			Ok((d, c)) => Some((v.rc, d, c)),
			Err(e) => {
				if report {
					rep.err("tree_node_invalid", format!("col {}: node at {}: {}", col, addr_str(a), e));
				}
				None
			},
		}
	};

	// A stale index entry may point at a slot that was reused by a node. When the slot is also
	// referenced as a child it is a node: drop the candidate.
	{
		let mut referenced: BTreeSet<u64> = BTreeSet::new();
		for a in &heads {
			let children = match roots.get(a) {
				Some(k) => parse_root(k, rep, false).map(|x| x.1),
				None => parse_node(*a, rep, false).map(|x| x.2),
			};
			referenced.extend(children.unwrap_or_default());
		}
		let demote: Vec<u64> = roots.keys().copied().filter(|a| referenced.contains(a)).collect();
		for a in demote {
			let k = roots.remove(&a).unwrap();
			stale += k.keys.len() as u64;
			rep.add("index_ambiguous_entries", k.keys.len() as u64);
		}
	}
	rep.add("index_stale_entries", stale);
	rep.add("tree_roots", roots.len() as u64);
	let by_key = check_duplicates(&roots, col, rep);

	// 3. final parse with reports, edge counting over all live values
	struct Node {
		rc: u32,
		data: Vec<u8>,
		children: Vec<u64>,
	}
	let mut root_data: BTreeMap<u64, (Vec<u8>, Vec<u64>)> = BTreeMap::new();
	let mut nodes: BTreeMap<u64, Node> = BTreeMap::new();
	let mut parents: HashMap<u64, u64> = HashMap::new();
	for a in &heads {
		if let Some(k) = roots.get(a) {
			if spec.ref_counted && k.rc == 0 {
				rep.err(
					"rc_mismatch",
					format!("col {}: live root at {} has reference count 0", col, addr_str(*a)),
				);
			}
			if let Some((d, c)) = parse_root(k, rep, true) {
				for ch in &c {
					*parents.entry(*ch).or_insert(0) += 1;
				}
				root_data.insert(*a, (d, c));
			}
		} else if let Some((rc, data, children)) = parse_node(*a, rep, true) {
			for ch in &children {
				*parents.entry(*ch).or_insert(0) += 1;
			}
			nodes.insert(*a, Node { rc, data, children });
		}
	}
	rep.add("tree_nodes", nodes.len() as u64);

	// 4. every edge must end in a live node
	let check_children = |from: u64, what: &str, children: &[u64], rep: &mut Rep| {
		for (i, ch) in children.iter().enumerate() {
			if roots.contains_key(ch) {
				rep.err(
					"slot_double_use",
					format!(
						"col {}: child {} of {} {} is {} which is a keyed root",
						col,
						i,
						what,
						addr_str(from),
						addr_str(*ch)
					),
				);
			} else if !nodes.contains_key(ch) {
				rep.err(
					"tree_node_missing",
					format!(
						"col {}: child {} of {} {} is {} ({})",
						col,
						i,
						what,
						addr_str(from),
						addr_str(*ch),
						tables.describe(*ch)
					),
				);
			}
		}
	};
	for (a, (_, c)) in &root_data {
		check_children(*a, "root", c, rep);
	}
	for (a, n) in &nodes {
		check_children(*a, "node", &n.children, rep);
	}

	// 5. reachability from the roots
	let mut reachable: BTreeSet<u64> = BTreeSet::new();
	let mut stack: Vec<u64> = root_data.values().flat_map(|(_, c)| c.iter().copied()).collect();
	while let Some(a) = stack.pop() {
		if let Some(n) = nodes.get(&a) {
			if reachable.insert(a) {
				stack.extend(n.children.iter().copied());
			}
		}
	}

	// 6. reference counts. Lookup order of parity-db: current table first, then older ones from
	//    the newest to the oldest; `rcs` is sorted that way.
	let mut counts: BTreeMap<u64, (u64, String)> = BTreeMap::new();
	for f in rcs {
		rep.add("refcount_files", 1);
		rep.add("refcount_entries", f.entries.len() as u64);
		let mut in_file: BTreeSet<u64> = BTreeSet::new();
		for e in &f.entries {
			let at = format!("{} chunk {} entry {}", f.name(), e.chunk, e.pos);
			if f.chunk_of(e.address) != e.chunk {
				rep.err(
					"tree_refcount",
					format!(
						"col {}: {}: address {} belongs to chunk {}",
						col,
						at,
						addr_str(e.address),
						f.chunk_of(e.address)
					),
				);
			}
			if !in_file.insert(e.address) {
				rep.err(
					"tree_refcount",
					format!("col {}: {}: second entry for address {}", col, at, addr_str(e.address)),
				);
			}
			counts.entry(e.address).or_insert((e.count, at));
		}
	}
	for (a, (c, at)) in &counts {
		if !nodes.contains_key(a) {
			rep.err(
				"tree_refcount",
				format!(
					"col {}: {}: count {} for {} which is not a live node ({})",
					col,
					at,
					c,
					addr_str(*a),
					tables.describe(*a)
				),
			);
		} else if *c < 2 {
			rep.err(
				"tree_refcount",
				format!(
					"col {}: {}: count {} for {} (a single reference is never stored)",
					col,
					at,
					c,
					addr_str(*a)
				),
			);
		}
	}
	let counted = !spec.append_only;
	let exp_nodes: Option<HashMap<u64, &ExpNode>> =
		expect.map(|(_, n)| n.iter().map(|x| (x.0, x)).collect());
	for (a, n) in &nodes {
		let p = parents.get(a).copied().unwrap_or(0);
		let stored = counts.get(a).map_or(1, |c| c.0);
		if spec.ref_counted && n.rc != 1 {
			rep.err(
				"rc_mismatch",
				format!("col {}: node at {} has value reference count {}", col, addr_str(*a), n.rc),
			);
		}
		let expected_here = exp_nodes.as_ref().map_or(false, |m| m.contains_key(a));
		if !reachable.contains(a) && !expected_here {
			rep.err(
				"tree_node_unexpected",
				format!(
					"col {}: live value at {} ({}) is neither an indexed root nor reachable from one ({} parents among live values)",
					col,
					addr_str(*a),
					brief(&n.data),
					p
				),
			);
			continue
		}
		if counted && p != stored && p > 0 {
			rep.err(
				"tree_refcount",
				format!(
					"col {}: node {} is referenced by {} parents but its stored count is {}",
					col,
					addr_str(*a),
					p,
					stored
				),
			);
		}
	}

	// 7. expectation
	let (exp_roots, exp_nodes_list) = match expect {
		Some(e) => e,
		None => return,
	};
	let mut matched: BTreeSet<u64> = BTreeSet::new();
	for (key, data, children, rc) in exp_roots {
		let a = match by_key.get(key) {
			Some(a) => *a,
			None => {
				let p = crate::index::key_prefix50(key);
				for (_, a) in stale_current.iter().filter(|(prefix, _)| *prefix == p) {
					rep.err(
						"index_dangling",
						format!(
							"col {}: root key {}: current index entry resolves to {} ({}) and no valid entry exists",
							col,
							hex(key),
							addr_str(*a),
							tables.describe(*a)
						),
					);
				}
				// an unreachable live value with this key tail is a root that lost its index entry
				for n in heads.iter().filter(|a| !roots.contains_key(a)) {
					if let Some(raw) = tables.raw(*n) {
						if let Ok(v) = split(raw, spec.ref_counted, true) {
							if v.tail.unwrap()[..] == key[6..] {
								rep.err(
									"index_missing",
									format!(
										"col {}: live value at {} carries the tail of root key {} but no index entry references it",
										col,
										addr_str(*n),
										hex(key)
									),
								);
							}
						}
					}
				}
				rep.err("key_missing", format!("col {}: root key {} not found", col, hex(key)));
				continue
			},
		};
		matched.insert(a);
		let k = &roots[&a];
		if let Some((d, c)) = root_data.get(&a) {
			rep.add("values_compared", 1);
			if d != data || c != children {
				rep.err(
					"value_mismatch",
					format!(
						"col {}: root key {} at {}: stored data {} children {:?}, expected data {} children {:?}",
						col,
						hex(key),
						addr_str(a),
						brief(d),
						c.iter().map(|x| addr_str(*x)).collect::<Vec<_>>(),
						brief(data),
						children.iter().map(|x| addr_str(*x)).collect::<Vec<_>>()
					),
				);
			}
		}
		if spec.ref_counted && k.rc != *rc {
			rep.err(
				"rc_mismatch",
				format!(
					"col {}: root key {} at {}: stored rc {} expected {}",
					col,
					hex(key),
					addr_str(a),
					k.rc,
					rc
				),
			);
		}
	}
	for k in roots.values() {
		if !matched.contains(&k.addr) {
			rep.err(
				"key_unexpected",
				format!("col {}: root key {} at {} is not expected", col, hex(&k.keys[0]), addr_str(k.addr)),
			);
		}
	}
	for (a, data, children, exp_parents) in exp_nodes_list {
		let n = match nodes.get(a) {
			Some(n) => n,
			None => {
				rep.err(
					"tree_node_missing",
					format!(
						"col {}: expected node {} ({}) is not a live node: {}",
						col,
						addr_str(*a),
						brief(data),
						if roots.contains_key(a) { "keyed root".to_string() } else { tables.describe(*a) }
					),
				);
				continue
			},
		};
		rep.add("values_compared", 1);
		if &n.data != data || &n.children != children {
			rep.err(
				"value_mismatch",
				format!(
					"col {}: node {}: stored data {} children {:?}, expected data {} children {:?}",
					col,
					addr_str(*a),
					brief(&n.data),
					n.children.iter().map(|x| addr_str(*x)).collect::<Vec<_>>(),
					brief(data),
					children.iter().map(|x| addr_str(*x)).collect::<Vec<_>>()
				),
			);
		}
		if counted {
			let stored = counts.get(a).map_or(1, |c| c.0);
			// a node without parents keeps the implicit count of one
			if stored != (*exp_parents).max(1) {
				rep.err(
					"tree_refcount",
					format!(
						"col {}: node {}: stored count {} but {} referencing parents expected",
						col,
						addr_str(*a),
						stored,
						exp_parents
					),
				);
			}
		}
	}
	let exp_set: BTreeSet<u64> = exp_nodes_list.iter().map(|x| x.0).collect();
	for (a, n) in &nodes {
		// unreachable ones were reported above
		if !exp_set.contains(a) && reachable.contains(a) {
			rep.err(
				"tree_node_unexpected",
				format!("col {}: live node {} ({}) is not expected", col, addr_str(*a), brief(&n.data)),
			);
		}
	}
}
