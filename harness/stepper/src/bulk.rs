//! C09, bulk variant: an index large enough that its migration needs several reindex batches
//! (more than 8192 entries in the old table, spread over a few hundred index pages of uneven
//! fill, so that a batch limit falls INSIDE a page), with removals / replacements between the
//! batches, reads of every key after every step, restarts in the middle and a final iteration.
//! The random histories of the stepping engine keep their key sets small (every key is read after
//! every step); this scenario trades schedule variety for index size.

use parity_db::{CompressionType, Db};
use pv::{
	dbutil::{self, col, DbCfg, Step},
	json::{short_bytes, J},
	scratch::{catch, panic_site, Scratch},
	Ctx, Report, Rng,
};
use std::collections::BTreeMap;

struct Bulk {
	expect: BTreeMap<Vec<u8>, Option<Vec<u8>>>,
	/// companion column (second hash column growing at the same time, written once)
	expect1: BTreeMap<Vec<u8>, Vec<u8>>,
	rc: bool,
	trace: Vec<String>,
}

fn value_of(k: &[u8], gen: u64) -> Vec<u8> {
	let h = dbutil::fnv(k) ^ gen.wrapping_mul(0x9E37_79B9_7F4A_7C15);
	let len = 4 + (h % 29) as usize;
	let mut v = h.to_le_bytes().to_vec();
	while v.len() < len {
		v.push((h >> (v.len() % 8)) as u8);
	}
	v.truncate(len.max(8));
	v
}

impl Bulk {
	fn check_all(&mut self, db: &Db, rep: &mut Report, at: &str) -> Result<(), (String, String)> {
		for (k, e) in &self.expect {
			let g = db.get(0, k).map_err(|er| ("failure=get_error;phase=bulk".to_string(), format!("get({}) returned {} {}", short_bytes(k), er, at)))?;
			rep.evaluations += 1;
			let ok = if self.rc { e.is_none() || g.as_ref() == e.as_ref() } else { g.as_ref() == e.as_ref() };
			if !ok {
				return Err((
					format!("failure=read_mismatch;phase=bulk;got={};expected={}", if g.is_some() { "some" } else { "none" }, if e.is_some() { "some" } else { "none" }),
					format!(
						"get({}) returned {} but the most recent committed write is {} ({})",
						short_bytes(k),
						g.as_ref().map_or("nothing".into(), |v| short_bytes(v)),
						e.as_ref().map_or("nothing".into(), |v| short_bytes(v)),
						at
					),
				))
			}
		}
		for (k, e) in &self.expect1 {
			let g = db.get(1, k).map_err(|er| ("failure=get_error;phase=bulk;col=companion".to_string(), format!("get(1, {}) returned {} {}", short_bytes(k), er, at)))?;
			rep.evaluations += 1;
			if g.as_ref() != Some(e) {
				return Err((
					format!("failure=read_mismatch;phase=bulk;col=companion;got={};expected=some", if g.is_some() { "some" } else { "none" }),
					format!("get({}) on the second growing column returned {} but the committed value is {} ({})", short_bytes(k), g.as_ref().map_or("nothing".into(), |v| short_bytes(v)), short_bytes(e), at),
				))
			}
		}
		rep.count("bulk_full_reads", 1);
		Ok(())
	}
}

pub fn run_bulk(ctx: &Ctx, rep: &mut Report, prop: &str, case_seed: u64, variant: u64) {
	let mut rng = Rng::new(case_seed);
	let rc = prop != "C01" && (variant / 16) % 3 == 2;
	// two hash columns whose indexes grow at the same time (the reindex stage serves one column per call)
	let two = (variant / 16) % 2 == 1;
	let mut cols = vec![col(false, true, rc, rc, CompressionType::NoCompression)];
	if two {
		cols.push(col(false, true, false, false, CompressionType::NoCompression));
	}
	let mut cfg = DbCfg::new(cols);
	cfg.salt = Some([0u8; 32]);
	let desc = format!("{} bulk case_seed={} variant={} cfg=[{}]", prop, case_seed, variant, cfg.describe());
	ctx.mark(&desc);
	let dir = Scratch::new("bulk");
	let opts = cfg.options(&dir.path.join("db"));
	let mut b = Bulk { expect: BTreeMap::new(), expect1: BTreeMap::new(), rc, trace: vec![] };
	let res = catch(|| -> Result<(), (String, String)> {
		let step_err = |s: &str, e: parity_db::Error| ("failure=step_error;phase=bulk".to_string(), format!("{} returned {}", s, e));
		let mut db = Some(Db::open_or_create(&opts).map_err(|e| step_err("open_or_create", e))?);
		// ---- key set: a few hundred pages of uneven fill + one page that overflows
		let mut keys: Vec<Vec<u8>> = vec![];
		let mut pages = std::collections::BTreeSet::new();
		// with two growing columns their sizes differ: the reindex stage serves one column per
		// call, so the columns need different numbers of calls (one batch = 8192 entries)
		let big_second = two && rng.chance(2, 3);
		let target = if big_second { rng.range(300, 3000) as usize } else { rng.range(8300, 11000) as usize };
		while keys.len() < target {
			let page = rng.below(1 << 16);
			if !pages.insert(page) {
				continue
			}
			let fill = rng.range(20, 60);
			for _ in 0..fill {
				let prefix = (page << 48) | (rng.next() >> 16);
				let mut k = prefix.to_be_bytes().to_vec();
				k.extend_from_slice(&rng.bytes(24));
				keys.push(k);
			}
		}
		let hot = loop {
			let p = rng.below(1 << 16);
			if !pages.contains(&p) {
				break p
			}
		};
		let hot_keys: Vec<Vec<u8>> = (0..rng.range(66, 80))
			.map(|_| {
				let prefix = (hot << 48) | (rng.next() >> 16);
				let mut k = prefix.to_be_bytes().to_vec();
				k.extend_from_slice(&rng.bytes(24));
				k
			})
			.collect();
		let mut keys1: Vec<Vec<u8>> = vec![];
		let mut hot_keys1: Vec<Vec<u8>> = vec![];
		if two {
			let mut pages1 = std::collections::BTreeSet::new();
			let target1 = if big_second { rng.range(8300, 19000) as usize } else { rng.range(300, 9000) as usize };
			while keys1.len() < target1 {
				let page = rng.below(1 << 16);
				if !pages1.insert(page) {
					continue
				}
				for _ in 0..rng.range(20, 60) {
					let prefix = (page << 48) | (rng.next() >> 16);
					let mut k = prefix.to_be_bytes().to_vec();
					k.extend_from_slice(&rng.bytes(24));
					keys1.push(k);
				}
			}
			let hot1 = loop {
				let p = rng.below(1 << 16);
				if !pages1.contains(&p) {
					break p
				}
			};
			hot_keys1 = (0..rng.range(66, 80))
				.map(|_| {
					let prefix = (hot1 << 48) | (rng.next() >> 16);
					let mut k = prefix.to_be_bytes().to_vec();
					k.extend_from_slice(&rng.bytes(24));
					k
				})
				.collect();
			rep.count("bulk_two_growing_columns", 1);
		}
		rng.shuffle(&mut keys);
		// ---- fill: the spread keys first (no page overflows), then the hot page (growth starts)
		let n_tx = rng.range(1, 4) as usize;
		let per = keys.len().div_ceil(n_tx);
		for chunk in keys.chunks(per) {
			let d = db.as_ref().unwrap();
			let tx: Vec<_> = chunk.iter().map(|k| (0u8, parity_db::Operation::Set(k.clone(), value_of(k, 0)))).collect();
			d.commit_changes(tx).map_err(|e| step_err("commit", e))?;
			for k in chunk {
				b.expect.insert(k.clone(), Some(value_of(k, 0)));
			}
			b.trace.push(format!("commit {} keys", chunk.len()));
			if rng.chance(1, 2) {
				dbutil::do_step(d, Step::ProcessCommits).map_err(|e| step_err("process_commits", e))?;
			}
		}
		if two {
			let d = db.as_ref().unwrap();
			let tx: Vec<_> = keys1.iter().map(|k| (1u8, parity_db::Operation::Set(k.clone(), value_of(k, 1)))).collect();
			d.commit_changes(tx).map_err(|e| step_err("commit", e))?;
			for k in &keys1 {
				b.expect1.insert(k.clone(), value_of(k, 1));
			}
			b.trace.push(format!("commit {} keys to the second column", keys1.len()));
		}
		{
			let d = db.as_ref().unwrap();
			dbutil::drain(d).map_err(|e| step_err("drain", e))?;
			b.trace.push("drain".into());
			b.check_all(d, rep, "after the bulk fill was applied")?;
			let mut tx: Vec<_> = hot_keys.iter().map(|k| (0u8, parity_db::Operation::Set(k.clone(), value_of(k, 0)))).collect();
			// (the second column's page overflows in the same transaction: both growths are pending together)
			for k in &hot_keys1 {
				tx.push((1u8, parity_db::Operation::Set(k.clone(), value_of(k, 1))));
				b.expect1.insert(k.clone(), value_of(k, 1));
			}
			d.commit_changes(tx).map_err(|e| step_err("commit", e))?;
			for k in &hot_keys {
				b.expect.insert(k.clone(), Some(value_of(k, 0)));
			}
			b.trace.push(format!("commit {} keys of one page (growth)", hot_keys.len()));
			dbutil::do_step(d, Step::ProcessCommits).map_err(|e| step_err("process_commits", e))?;
			dbutil::do_step(d, Step::FlushLogs).map_err(|e| step_err("flush_logs", e))?;
			dbutil::do_step(d, Step::EnactAll).map_err(|e| step_err("enact", e))?;
			b.check_all(d, rep, "after the growth was triggered")?;
		}
		// ---- migrate batch by batch
		let all_keys: Vec<Vec<u8>> = b.expect.keys().cloned().collect();
		let mut counts: BTreeMap<Vec<u8>, u32> = all_keys.iter().map(|k| (k.clone(), 1u32)).collect();
		let mut gen = 0u64;
		let mut batches = 0u64;
		for round in 0..400 {
			ctx.progress();
			let d = db.as_ref().unwrap();
			let st = d.verif_status();
			let pending = st.next_reindex != 0 || st.columns.iter().any(|c| !c.reindex_index_bits.is_empty());
			if !pending {
				break
			}
			let before = st.next_record_id;
			let n_batches = if rng.chance(1, 4) { 2 } else { 1 };
			for _ in 0..n_batches {
				dbutil::do_step(d, Step::ProcessReindex).map_err(|e| step_err("process_reindex", e))?;
			}
			let after = d.verif_status();
			if after.next_record_id > before {
				batches += after.next_record_id - before;
				rep.count("bulk_reindex_batches", after.next_record_id - before);
			}
			b.trace.push(format!("process_reindex x{} (progress {} of old tables {:?})", n_batches, after.columns[0].reindex_progress, after.columns[0].reindex_index_bits));
			b.check_all(d, rep, &format!("after reindex batch {} was planned and logged", batches))?;
			// writes between the batches: removals, replacements, re-insertions
			if rng.chance(1, 2) {
				gen += 1;
				let mut tx = vec![];
				let mut picked = std::collections::BTreeSet::new();
				for _ in 0..rng.range(5, 120) {
					let k = rng.pick(&all_keys).clone();
					if !picked.insert(k.clone()) {
						continue
					}
					let c = counts.get(&k).copied().unwrap_or(0);
					if rc {
						// counted column: the value is a function of the key; counts move in 0..=3
						if c > 0 && (c >= 3 || rng.chance(1, 2)) {
							tx.push((0u8, parity_db::Operation::Dereference(k.clone())));
							counts.insert(k.clone(), c - 1);
						} else {
							tx.push((0u8, parity_db::Operation::Set(k.clone(), value_of(&k, 0))));
							counts.insert(k.clone(), c + 1);
						}
						let now = counts[&k];
						b.expect.insert(k.clone(), if now > 0 { Some(value_of(&k, 0)) } else { None });
					} else if c > 0 && rng.chance(1, 2) {
						tx.push((0u8, parity_db::Operation::Dereference(k.clone())));
						counts.insert(k.clone(), 0);
						b.expect.insert(k, None);
					} else {
						tx.push((0u8, parity_db::Operation::Set(k.clone(), value_of(&k, gen))));
						counts.insert(k.clone(), 1);
						b.expect.insert(k.clone(), Some(value_of(&k, gen)));
					}
				}
				let dedup = tx;
				b.trace.push(format!("commit {} writes between batches", dedup.len()));
				d.commit_changes(dedup).map_err(|e| step_err("commit", e))?;
				if rng.chance(2, 3) {
					dbutil::do_step(d, Step::ProcessCommits).map_err(|e| step_err("process_commits", e))?;
				}
				if !rc {
					b.check_all(d, rep, "after writes between two reindex batches")?;
				}
			}
			match rng.below(10) {
				0 => {
					// restart in the middle of the migration
					dbutil::drain_opt(d, true).ok();
					dbutil::make_drop_legal(d).map_err(|e| step_err("pre-drop", e))?;
					drop(db.take());
					db = Some(Db::open(&opts).map_err(|e| step_err("reopen", e))?);
					rep.count("bulk_restarts_during_growth", 1);
					b.trace.push("restart".into());
					b.check_all(db.as_ref().unwrap(), rep, "after a restart in the middle of the migration")?;
				},
				1..=7 => {
					dbutil::do_step(d, Step::FlushLogs).map_err(|e| step_err("flush_logs", e))?;
					dbutil::do_step(d, Step::EnactAll).map_err(|e| step_err("enact", e))?;
					if rng.chance(1, 2) {
						dbutil::do_step(d, Step::CleanLogs).map_err(|e| step_err("clean_logs", e))?;
					}
					b.trace.push("flush + enact".into());
					b.check_all(d, rep, &format!("after reindex batch {} was applied", batches))?;
				},
				_ => {},
			}
			if round == 399 {
				return Err(("failure=reindex_never_finishes;phase=bulk".into(), "index growth still pending after 400 rounds of process_reindex + enact".into()))
			}
		}
		// ---- end: everything applied, restart, full read, iteration
		{
			let d = db.as_ref().unwrap();
			dbutil::drain(d).map_err(|e| step_err("drain", e))?;
			b.check_all(d, rep, "after the migration completed")?;
			rep.max("index_bits", d.verif_status().columns[0].index_bits.unwrap_or(0) as u64);
		}
		dbutil::make_drop_legal(db.as_ref().unwrap()).map_err(|e| step_err("pre-drop", e))?;
		drop(db.take());
		let d = Db::open(&opts).map_err(|e| step_err("reopen", e))?;
		b.check_all(&d, rep, "after the final restart")?;
		let live = b.expect.values().filter(|v| v.is_some()).count();
		let mut n = 0usize;
		d.iter_column_while(0, |_| {
			n += 1;
			true
		})
		.map_err(|e| step_err("iter_column_while", e))?;
		rep.evaluations += 1;
		if n != live {
			return Err((
				format!("failure=value_iteration_mismatch;phase=bulk;dir={}", if n > live { "extra" } else { "missing" }),
				format!("value iteration yields {} entries, the model holds {} live keys", n, live),
			))
		}
		if !rc {
			// the files after the migration(s): every live value reachable through the index, every
			// other slot free, nothing left behind by the old index tables (pvfsck, C14)
			let mut expect = vec![pvfsck::Expect::Hash(b.expect.iter().filter_map(|(k, v)| v.as_ref().map(|v| (d.verif_hash_key(0, k), v.clone(), 1u32))).collect())];
			if two {
				expect.push(pvfsck::Expect::Hash(b.expect1.iter().map(|(k, v)| (d.verif_hash_key(1, k), v.clone(), 1u32)).collect()));
			}
			let specs: Vec<pvfsck::ColSpec> = cfg.cols.iter().map(crate::fsck_glue::col_spec).collect();
			drop(d);
			let r = pvfsck::check_dir(&dir.path.join("db"), &specs, &expect);
			rep.count("fsck_runs", 1);
			rep.evaluations += 1 + r.stats.get("values_compared").copied().unwrap_or(0);
			if let Some(e) = r.errors.first() {
				let class = e.split(':').next().unwrap_or("unknown").to_string();
				return Err((format!("failure=fsck;class={};phase=bulk", class), format!("structural check after the index migration: {} problem(s): {}", r.errors.len(), r.errors.iter().take(4).cloned().collect::<Vec<_>>().join(" | "))))
			}
		}
		rep.count("bulk_cases", 1);
		rep.count("bulk_keys", b.expect.len() as u64);
		if batches >= 2 {
			rep.count("bulk_multi_batch_migrations", 1);
		}
		rep.seen(format!("bulk|rc{}|batches{}", rc as u8, batches.min(6)));
		Ok(())
	});
	let (sig, detail) = match res {
		Ok(Ok(())) => return,
		Ok(Err((s, d))) => (s, d),
		Err(p) => (format!("failure=panic;site={};phase=bulk", panic_site(&p)), format!("panic inside a library call or oracle: {}", p)),
	};
	let n = b.trace.len();
	rep.violation(
		format!("scenario={};{}", prop, sig),
		format!("{}\n  after step {}: {}", detail, n, b.trace.last().cloned().unwrap_or_default()),
		J::obj()
			.set("engine", J::s("stepper"))
			.set("case", J::s(desc))
			.set("case_seed", J::i(case_seed))
			.set("variant", J::i(variant))
			.set("shard_seed", J::i(ctx.seed))
			.set("trace_tail", J::strs(b.trace[n.saturating_sub(40)..].to_vec())),
	);
}
