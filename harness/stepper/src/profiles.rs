//! Per-property profiles of the stepping engine: configuration space, workload mix,
//! coverage requirements.

use parity_db::CompressionType;
use pv::{
	dbutil::{col, multitree_col, DbCfg},
	Rng, Spec, Tier,
};

#[derive(Clone, Copy, Debug, PartialEq, Eq)]
pub enum Profile {
	C01,
	C03,
	C04,
	C06,
	C07,
	C08,
	C09,
	C10,
	C11,
	C14,
}

pub const COMPRESSIONS: [CompressionType; 3] =
	[CompressionType::NoCompression, CompressionType::Lz4, CompressionType::Snappy];

impl Profile {
	pub fn from_prop(p: &str) -> Option<Profile> {
		Some(match p {
			"C01" => Profile::C01,
			"C03" => Profile::C03,
			"C04" => Profile::C04,
			"C06" => Profile::C06,
			"C07" => Profile::C07,
			"C08" => Profile::C08,
			"C09" => Profile::C09,
			"C10" => Profile::C10,
			"C11" => Profile::C11,
			"C14" => Profile::C14,
			_ => return None,
		})
	}

	pub fn name(&self) -> &'static str {
		match self {
			Profile::C01 => "C01",
			Profile::C03 => "C03",
			Profile::C04 => "C04",
			Profile::C06 => "C06",
			Profile::C07 => "C07",
			Profile::C08 => "C08",
			Profile::C09 => "C09",
			Profile::C10 => "C10",
			Profile::C11 => "C11",
			Profile::C14 => "C14",
		}
	}

	/// histories per shard
	pub fn cases(&self, tier: Tier) -> u64 {
		match self {
			Profile::C01 => tier.pick(800, 8000),
			Profile::C03 => tier.pick(160, 4000),
			Profile::C04 => tier.pick(400, 6000),
			Profile::C06 => tier.pick(60, 400),
			Profile::C07 => tier.pick(1500, 12000),
			Profile::C08 => tier.pick(450, 4000),
			Profile::C09 => tier.pick(40, 300),
			Profile::C10 => tier.pick(280, 3000),
			Profile::C11 => tier.pick(300, 4000),
			Profile::C14 => tier.pick(60, 900),
		}
	}

	pub fn steps(&self, rng: &mut Rng, tier: Tier) -> usize {
		let (lo, hi) = match self {
			Profile::C09 => tier.pick((120, 260), (200, 700)),
			Profile::C06 => (0, 0),
			Profile::C04 => tier.pick((60, 220), (80, 600)),
			_ => tier.pick((40, 200), (60, 600)),
		};
		rng.range(lo, hi) as usize
	}

	pub fn spec(&self) -> Spec {
		let rule_common = "A case is one seeded history of the real Db driven through the instrumentation stepping API \
			(commit / process_commits / process_reindex / flush_logs / enact one|all / clean_logs / restart), \
			with the full model oracle evaluated after every step. evaluations = individual oracle comparisons \
			(point reads, sizes, iterator calls, tree nodes...). distinct_nontrivial = number of distinct \
			(configuration, pipeline-shape) pairs at which the oracle was evaluated, where pipeline-shape = \
			(#queued commits<=3, appending log non-empty, #flushed-unenacted logs<=3, #enacted-uncleaned logs<=3, \
			reindex pending, #old index files<=3) as read from the status hook; a pair is non-trivial when at \
			least one commit had been accepted.";
		let s = match self {
			Profile::C01 => Spec::new("C01", "exploration", rule_common)
				.require("restarts", 3)
				.require("stage_queued", 1)
				.require("stage_logged_unflushed", 1)
				.require("stage_flushed_unenacted", 1)
				.require("stage_enacted_uncleaned", 1)
				.require("stage_idle", 1)
				.require("cfg_uniform", 1)
				.require("cfg_preimage", 1)
				.require("cfg_compressed", 1)
				.require("multi_column_tx", 1)
				.assume("single client thread: 'most recent committed write' is unambiguous")
				.assume("preimage columns are only given values that are a function of the key"),
			Profile::C03 => Spec::new("C03", "exploration", &format!("{} For C03 the oracle of interest is the comparison of the complete model right after every clean drop+reopen; the pipeline shape recorded is the one at the moment of the drop.", rule_common))
				.require("restarts", 20)
				.require("drop_with_queued", 1)
				.require("drop_with_logged_unflushed", 1)
				.require("drop_with_flushed_unenacted", 1)
				.require("drop_with_reindex_pending", 1)
				.assume("clean shutdown part of C03 only; the crash lower bound is checked by the crash simulator under C02/C12"),
			Profile::C04 => Spec::new("C04", "exploration", &format!("{} Iterator calls are checked against the cursor model evaluated at the time of each call; distinct additionally counts (cursor kind, direction, overlay/log/table mix) triples.", rule_common))
				.require("iter_calls", 500)
				.require("iter_direction_changes", 20)
				.require("iter_after_commit_while_open", 20)
				.require("tree_depth_ge2", 1)
				.assume("a never-positioned iterator is not exercised (C04 does not state its behaviour)"),
			Profile::C06 => Spec::new("C06", "exploration", "A case is one deterministic sweep over value lengths around every size-class capacity (cap-1, cap, cap+1 for each of the 255 classes, the single/multi-part boundary, multiples of the part payload +-1 up to 2^20+4096), compressible and incompressible, for one (index kind, ref-count header, compression, threshold) configuration; each value is written, read back at random pipeline stages, overwritten by values of other sizes and removed. evaluations = value comparisons; distinct_nontrivial = distinct (configuration, stored length) pairs read back bit-exact plus distinct (old class -> new class) overwrite transitions.")
				.require("lengths_checked", 500)
				.require("overwrite_transitions", 100)
				.require("multipart_values", 5)
				.require("storage_release_checks", 1)
				.budget(90, 900),
			Profile::C07 => Spec::new("C07", "exploration", rule_common)
				.require("restarts", 3)
				.require("rc_zero_crossings", 10)
				.require("rc_iter_checks", 1)
				.require("iff_checks", 100)
				.require("cfg_btree_rc", 1)
				.assume("values are a function of the key (preimage contract of ref-counted columns)"),
			Profile::C08 => Spec::new("C08", "exploration", &format!("{} About one transaction in four contains an invalid operation at a random position; the observable state (every key of every column, tree read-back, entry counts) is snapshotted before the call and compared after it and at every later step against a model that never saw the transaction.", rule_common))
				.require("rejected_commits", 50)
				.require("rejected_kinds", 4)
				.require("restarts", 3),
			Profile::C09 => Spec::new("C09", "exploration", &format!("{} Keys are chosen through the zero-salt identity hash: > 64 keys per 64-entry index page (forcing repeated growth) and groups equal on all 50 index-visible bits; every key has a unique random tail (generator soundness rule, DESIGN 5/C09). One transaction in two of three histories writes the whole hot-page pool at once (one record grows the index by several steps). Every 16th case is the bulk scenario: 8300-11000 keys over a few hundred index pages of uneven fill plus one overflowing page, migrated batch by batch (more than one 8192-entry batch, the limit falling inside a page) with removals / replacements between the batches, restarts in the middle, a read of EVERY key after every step and a final iteration count.", rule_common))
				.require("index_growths", 2)
				.require("bulk_multi_batch_migrations", 2)
				.require("growth_multi_step_records", 1)
				.require("reindex_batches", 2)
				.require("restart_during_reindex", 1)
				.require("collision_group_reads", 50)
				.budget(90, 900),
			Profile::C10 => Spec::new("C10", "exploration", &format!("{} Trees are random DAGs (new trees reference nodes of live trees, the same node possibly several times); after every step every live root is traversed and compared node by node; after drains the number of value entries is compared with the number of live nodes+roots.", rule_common))
				.require("trees_inserted", 50)
				.require("shared_node_refs", 20)
				.require("trees_removed", 10)
				.require("entry_count_checks", 10)
				.require("cfg_append_only", 1)
				.require("cfg_rc_roots", 1)
				.require("cfg_direct", 1),
			Profile::C11 => Spec::new("C11", "exploration", &format!("{} Deterministic (single-threaded) variant of C11: a read guard of a tree is held while the tree is dereferenced (alone or together with writes to a second column), later transactions write the same keys, the pipeline is stepped in arbitrary order, the guard is released and the pipeline drained. Scripted sub-scenarios: a reader handle that outlives a processed dereference and is locked only afterwards; a tree inserted UNDER THE LOCK of a tree whose (one or several) dereferences are queued, re-using one of its nodes, guard and handle given up before the worker reaches the last dereference (the model applies that dereference after the insertion, as the property demands).", rule_common))
				.require("guard_held_derefs", 20)
				.require("deferred_commits", 20)
				.require("insert_under_lock_scenarios", 10)
				.require("insert_under_lock_several_derefs_queued", 2)
				.require("guard_reads", 100),
			Profile::C14 => Spec::new("C14", "exploration", &format!("{} After every drain / restart the independent structural checker (fsck, parses the files from the documented layout) validates free lists, slot classification, index<->value bijection, btree order/depth, multitree reference counts and iteration multisets.", rule_common))
				.require("fsck_runs", 20)
				.require("fsck_hash_columns", 5)
				.require("fsck_btree_columns", 5)
				.require("fsck_multitree_columns", 5),
		};
		s
	}

	/// Configuration for the given variant index.
	pub fn config(&self, rng: &mut Rng, variant: u64) -> DbCfg {
		let comp = |rng: &mut Rng| *rng.pick(&COMPRESSIONS);
		match self {
			Profile::C01 | Profile::C03 => {
				// variant walks {hashed|uniform} x {plain|preimage} x compression for column 0
				let v = variant as usize;
				let uniform = v % 2 == 1;
				let preimage = (v / 2) % 2 == 1;
				let c0 = col(false, uniform, preimage, false, COMPRESSIONS[(v / 4) % 3]);
				let mut cols = vec![c0];
				let extra = rng.below(3);
				for _ in 0..extra {
					cols.push(col(false, rng.chance(1, 3), rng.chance(1, 3), false, comp(rng)));
				}
				if *self == Profile::C03 && rng.chance(1, 2) {
					cols.push(col(true, false, false, false, comp(rng)));
				}
				let mut cfg = DbCfg::new(cols);
				for i in 0..cfg.cols.len() {
					if rng.chance(1, 3) {
						cfg.thresholds.insert(i as u8, *rng.pick(&[0u32, 16, 64, 4096]));
					}
				}
				if *self == Profile::C03 && (v / 12) % 3 == 1 && v % 2 == 1 {
					// tree layout: a multitree column whose readers are locked and released while
					// the history runs - dereferences get postponed, and the handle is dropped with
					// postponed transactions in the queue
					cfg = DbCfg::new(vec![multitree_col(false, (v / 2) % 2 == 1, true), col(false, false, false, false, comp(rng))]);
				}
				if (*self == Profile::C03 && (v / 12) % 3 == 2) || (*self == Profile::C01 && (v / 12) % 4 == 3) {
					// reindex variant: uniform keys through the identity hash
					cfg.cols[0] = col(false, true, false, false, CompressionType::NoCompression);
					cfg.salt = Some([0u8; 32]);
				}
				cfg
			},
			Profile::C04 => {
				let v = variant as usize;
				let mut cols = vec![col(true, false, false, false, COMPRESSIONS[v % 3])];
				if rng.chance(1, 3) {
					cols.push(col(false, false, false, false, comp(rng)));
				}
				let mut cfg = DbCfg::new(cols);
				if rng.chance(1, 3) {
					cfg.thresholds.insert(0, *rng.pick(&[0u32, 32, 4096]));
				}
				cfg
			},
			Profile::C06 => {
				let v = variant as usize;
				let btree = v % 2 == 1;
				let rc = (v / 2) % 2 == 1;
				let compression = COMPRESSIONS[(v / 4) % 3];
				let threshold = [0u32, 4096, u32::MAX][(v / 12) % 3];
				let mut cfg = DbCfg::new(vec![col(btree, false, rc, rc, compression)]);
				cfg.thresholds.insert(0, threshold);
				cfg
			},
			Profile::C07 => {
				let v = variant as usize;
				let btree = v % 2 == 1;
				let mut cols = vec![col(btree, !btree && (v / 2) % 2 == 1, true, true, COMPRESSIONS[(v / 4) % 3])];
				if rng.chance(1, 3) {
					cols.push(col(!btree, false, true, true, comp(rng)));
				}
				if rng.chance(1, 4) {
					cols.push(col(false, false, false, false, comp(rng)));
				}
				let mut cfg = DbCfg::new(cols);
				// half of the uniform-key variants hash by identity: the counted column then lives
				// in one index page and the index grows (several tables pending at once)
				if !btree && (v / 2) % 2 == 1 && (v / 12) % 2 == 1 {
					cfg.salt = Some([0u8; 32]);
				}
				cfg
			},
			Profile::C08 => {
				let v = variant as usize;
				let mut cols = vec![
					col(false, false, false, false, comp(rng)),
					col(false, false, true, true, comp(rng)),
					col(true, false, false, false, comp(rng)),
				];
				cols.push(match v % 3 {
					0 => multitree_col(false, false, false),
					1 => multitree_col(true, false, false),
					_ => multitree_col(false, true, rng.chance(1, 2)),
				});
				if rng.chance(1, 2) {
					cols.push(col(true, false, true, true, comp(rng)));
				}
				DbCfg::new(cols)
			},
			Profile::C09 => {
				let mut cfg = DbCfg::new(vec![col(false, true, false, false, CompressionType::NoCompression)]);
				cfg.salt = Some([0u8; 32]);
				if variant % 4 == 3 {
					cfg.cols.push(col(false, true, true, true, CompressionType::NoCompression));
				}
				cfg
			},
			Profile::C10 | Profile::C11 => {
				let v = variant as usize;
				let c = match v % 4 {
					0 => multitree_col(false, false, false),
					1 => multitree_col(true, false, rng.chance(1, 2)),
					2 => multitree_col(false, true, false),
					_ => multitree_col(false, rng.chance(1, 2), true),
				};
				let c = if *self == Profile::C11 && c.append_only { multitree_col(false, false, true) } else { c };
				let mut cols = vec![c];
				if *self == Profile::C11 {
					// the second column (written by the transactions that also dereference a tree)
					// is a hash column or, every other variant, a btree column
					cols.push(col((v / 4) % 2 == 1, false, false, false, CompressionType::NoCompression));
				} else if rng.chance(1, 3) {
					cols.push(col(false, false, false, false, CompressionType::NoCompression));
				}
				DbCfg::new(cols)
			},
			Profile::C14 => {
				let v = variant as usize;
				let mut cols = vec![];
				match v % 4 {
					0 => {
						cols.push(col(false, false, false, false, comp(rng)));
						cols.push(col(true, false, false, false, comp(rng)));
					},
					1 => {
						cols.push(col(false, false, true, true, comp(rng)));
						cols.push(multitree_col(false, false, false));
					},
					2 => {
						cols.push(col(true, false, true, true, comp(rng)));
						cols.push(multitree_col(false, true, true));
						cols.push(col(false, true, false, false, CompressionType::NoCompression));
					},
					_ => {
						cols.push(col(false, true, false, false, CompressionType::NoCompression));
						cols.push(col(true, false, false, false, CompressionType::NoCompression));
					},
				}
				let mut cfg = DbCfg::new(cols);
				if v % 4 == 3 {
					cfg.salt = Some([0u8; 32]);
				}
				cfg
			},
		}
	}
}
