//! C10 / C14, ref-count table growth: the table that counts the parents of SHARED multitree nodes
//! (`refcount_<col>_<bits>`: 2^bits chunks of 32 entries, chunk = siphash(address) >> (64-bits))
//! only grows when 33 shared nodes fall into one chunk - with 2^16 chunks that needs more than a
//! million node addresses to choose from, which no random history of the stepping engine reaches.
//! This scenario builds that column deterministically: filler trees until some chunk has >= 33
//! leaf addresses (addresses are read back from the database, the chunk of an address is
//! computed with the same unkeyed SipHash the format documents), then trees that share exactly
//! those leaves, so that the 33rd shared leaf overflows the chunk and the table grows 16 -> 17
//! bits. While the old table waits in the reindex queue: more sharing (count 2 -> 3), dereferences
//! (3 -> 2 -> 1: entry removed from whichever table holds it), reindex batches, restarts, a
//! process-crash image. Oracles: every live sharing tree reads back exactly (root, child order,
//! leaf data); a leaf stays readable while ANY live tree references it and is gone once the last
//! one went; after everything is dereferenced the column holds zero entries (also after a
//! reopen) and the independent structural checker finds every slot free and no count left.

use parity_db::{Db, NewNode, NodeRef, Operation};
use pv::{
	dbutil::{self, multitree_col, DbCfg, Step},
	json::J,
	scratch::{catch, panic_site, Scratch},
	Ctx, Report, Rng,
};
use siphasher::sip::SipHasher;
use std::{
	collections::{BTreeMap, BTreeSet, HashMap},
	hash::Hasher,
};

type Fail = (String, String);

fn chunk_of(addr: u64, bits: u8) -> u64 {
	let mut h = SipHasher::new();
	h.write_u64(addr);
	h.finish() >> (64 - bits)
}

fn leaf_data(tree: u32, mid: u32, leaf: u32) -> Vec<u8> {
	let mut v = vec![0x1e];
	v.extend_from_slice(&(tree as u16).to_le_bytes());
	v.extend_from_slice(&(mid as u16).to_le_bytes());
	v.extend_from_slice(&(leaf as u16).to_le_bytes());
	v
}

fn mid_data(tree: u32, mid: u32) -> Vec<u8> {
	let mut v = vec![0x3d];
	v.extend_from_slice(&tree.to_le_bytes());
	v.extend_from_slice(&mid.to_le_bytes());
	v
}

fn root_data(tree: u32) -> Vec<u8> {
	let mut v = vec![0x40];
	v.extend_from_slice(&tree.to_le_bytes());
	v
}

fn filler_key(tree: u32) -> Vec<u8> {
	format!("filler-{:05}", tree).into_bytes()
}

fn share_key(i: u32) -> Vec<u8> {
	format!("sharing-{:03}", i).into_bytes()
}

struct St {
	mids: u32,
	leaves: u32,
	/// leaf address -> (tree, mid, leaf)
	leaf_of: HashMap<u64, (u32, u32, u32)>,
	/// live filler trees
	fillers: BTreeSet<u32>,
	/// live sharing trees: index -> children (existing leaf addresses, in order)
	sharing: BTreeMap<u32, Vec<u64>>,
	counted_roots: bool,
	trace: Vec<String>,
}

#[derive(Clone, PartialEq)]
struct Snap {
	fillers: BTreeSet<u32>,
	sharing: BTreeMap<u32, Vec<u64>>,
}

impl St {
	fn snap(&self) -> Snap {
		Snap { fillers: self.fillers.clone(), sharing: self.sharing.clone() }
	}

	/// Does the database show exactly the trees of `cand` (and none of the trees that only other
	/// candidates have)? Used on crash images, where any prefix of the unsettled commits is legal.
	fn matches(&mut self, db: &Db, rep: &mut Report, cand: &Snap, all: &[Snap], chosen: &[u64], settled: bool, at: &str) -> Result<(), Fail> {
		let keep = self.snap();
		self.fillers = cand.fillers.clone();
		self.sharing = cand.sharing.clone();
		let mut r = self.check(db, rep, at, chosen, settled);
		if r.is_ok() {
			// trees that exist in another candidate only must be absent
			'outer: for o in all {
				for i in o.sharing.keys() {
					if !cand.sharing.contains_key(i) {
						if let Ok(Some(_)) = db.get_root(0, &share_key(*i)) {
							r = Err(("failure=non_prefix_state;phase=rc_growth".into(), format!("sharing tree {} is present although the matched prefix does not hold it ({})", i, at)));
							break 'outer
						}
					}
				}
				for t in &o.fillers {
					if !cand.fillers.contains(t) {
						if let Ok(Some(_)) = db.get_root(0, &filler_key(*t)) {
							r = Err(("failure=non_prefix_state;phase=rc_growth".into(), format!("filler tree {} is present although the matched prefix does not hold it ({})", t, at)));
							break 'outer
						}
					}
				}
			}
			for t in &cand.fillers {
				if all.iter().any(|o| !o.fillers.contains(t)) {
					match db.get_root(0, &filler_key(*t)) {
						Ok(Some(_)) => {},
						other => {
							r = Err(("failure=non_prefix_state;phase=rc_growth".into(), format!("filler tree {} of the matched prefix reads back as {:?} ({})", t, other.map(|o| o.is_some()), at)));
							break
						},
					}
				}
			}
		}
		self.fillers = keep.fillers;
		self.sharing = keep.sharing;
		r
	}

	/// number of live trees that reference the leaf
	fn refs(&self, addr: u64) -> usize {
		let (t, _, _) = self.leaf_of[&addr];
		(self.fillers.contains(&t) as usize) + self.sharing.values().map(|c| c.iter().filter(|a| **a == addr).count()).sum::<usize>()
	}

	fn check(&self, db: &Db, rep: &mut Report, at: &str, chosen: &[u64], settled: bool) -> Result<(), Fail> {
		for (i, ch) in &self.sharing {
			let r = db.get_root(0, &share_key(*i)).map_err(|e| ("failure=tree_read_error;phase=rc_growth".to_string(), format!("get_root: {} ({})", e, at)))?;
			rep.evaluations += 1;
			match r {
				Some((d, c)) if d == root_data(10_000 + *i) && &c == ch => {},
				other =>
					return Err((
						"failure=tree_mismatch;phase=rc_growth;what=sharing_root".into(),
						format!("sharing tree {} reads back as {:?}, expected {} children {:x?} ({})", i, other.map(|(d, c)| (d, c.len())), ch.len(), &ch[..ch.len().min(4)], at),
					)),
			}
		}
		// every chosen leaf: readable with its data iff some live tree references it
		for a in chosen {
			let n = db.get_node(0, *a).map_err(|e| ("failure=tree_read_error;phase=rc_growth".to_string(), format!("get_node({:#x}): {} ({})", a, e, at)))?;
			rep.evaluations += 1;
			let refs = self.refs(*a);
			let (t, m, l) = self.leaf_of[a];
			if refs > 0 {
				match n {
					Some((d, c)) if d == leaf_data(t, m, l) && c.is_empty() => {},
					other =>
						return Err((
							format!("failure=shared_node_lost;phase=rc_growth;refs={}", refs.min(3)),
							format!("leaf {:#x} (filler {} / {} / {}) is still referenced by {} live tree(s) but reads back as {:?} ({})", a, t, m, l, refs, other, at),
						)),
				}
			} else if settled {
				// the slot may have been re-used by a later insertion only if one happened; this
				// scenario inserts no new leaves after the fillers, so a freed leaf stays free
				if let Some((d, _)) = n {
					if d == leaf_data(t, m, l) {
						return Err((
							"failure=unreferenced_node_survives;phase=rc_growth".into(),
							format!("leaf {:#x} (filler {} / {} / {}) is referenced by no live tree any more, yet it is still readable ({})", a, t, m, l, at),
						))
					}
				}
			}
		}
		rep.count("rc_growth_validations", 1);
		Ok(())
	}
}

fn step_err(s: &str, e: parity_db::Error) -> Fail {
	("failure=step_error;phase=rc_growth".to_string(), format!("{} returned {}", s, e))
}

/// log, flush, enact, clean - WITHOUT running reindex batches (the scenario steps those itself)
fn settle(db: &Db) -> Result<(), Fail> {
	for _ in 0..64 {
		let st = db.verif_status();
		if st.queued_commits == 0 {
			break
		}
		db.process_commits().map_err(|e| step_err("process_commits", e))?;
	}
	db.flush_logs().map_err(|e| step_err("flush_logs", e))?;
	dbutil::do_step(db, Step::EnactAll).map_err(|e| step_err("enact_logs", e))?;
	// every other time the enacted log files are NOT reclaimed yet (the cleanup worker lags): records
	// that write to a ref-count table dropped meanwhile then precede later commits in the logs a
	// crash leaves behind. Never more than three enacted files are kept (legality rule L1).
	static CALLS: std::sync::atomic::AtomicU64 = std::sync::atomic::AtomicU64::new(0);
	let n = CALLS.fetch_add(1, std::sync::atomic::Ordering::Relaxed);
	if n % 2 == 0 || db.verif_status().dirty_logs >= 3 {
		db.clean_logs().map_err(|e| step_err("clean_logs", e))?;
	}
	Ok(())
}

/// Crash probe, first half: the pipeline steps `steps` run with the crate's fault injector set
/// to fail from the k-th file operation on; the directory as it is when the failure surfaces (or
/// after the steps, when k lies behind them) is copied to `crash-img`. The handle is in an
/// arbitrary state afterwards and must be leaked by the caller, who restores the directory from
/// the backup taken here BEFORE the steps (`bak`) - for the main history the probe is a process
/// crash before the steps, followed by a recovery.
fn crash_image(db: &Db, base: &std::path::Path, k: usize, steps: &[Step]) -> Result<(std::path::PathBuf, bool), Fail> {
	let img = base.join("crash-img");
	let bak = base.join("bak");
	let _ = std::fs::remove_dir_all(&img);
	let _ = std::fs::remove_dir_all(&bak);
	let src = base.join("db");
	pv::scratch::copy_dir(&src, &bak).map_err(|e| ("failure=harness_io".to_string(), format!("backup copy: {}", e)))?;
	// true once a flush_logs step returned Ok with no commit left in the queue: every commit made
	// so far has its record synced, so the image must hold ALL of them (durability bound of C03)
	let mut synced_all = false;
	let r = catch(|| {
		parity_db::set_number_of_allowed_io_operations(k);
		for s in steps {
			if let Err(e) = dbutil::do_step(db, *s) {
				// what the worker wrappers do with a step error: the handle enters the error state,
				// in which its shutdown neither enacts nor reclaims anything - it can then be
				// dropped instead of leaked (a leaked handle keeps its files mapped: memory)
				db.verif_store_err(e);
				break
			}
			if *s == Step::FlushLogs && db.verif_status().queued_commits == 0 {
				synced_all = true;
			}
		}
		// (when k lies behind the steps the handle is healthy; it is put into the error state as
		// well, so that dropping it does not run the rest of the pipeline into the image's source)
		db.verif_store_err(parity_db::Error::InvalidInput("crash probe: handle retired".into()));
	});
	parity_db::set_number_of_allowed_io_operations(usize::MAX);
	if let Err(p) = r {
		return Err((format!("failure=panic;phase=rc_growth;in=step_under_fault;site={}", panic_site(&p)), format!("a pipeline step panicked when file operation {} failed (steps {:?}): {}", k, steps.iter().map(|s| s.name()).collect::<Vec<_>>(), p)))
	}
	pv::scratch::copy_dir(&src, &img).map_err(|e| ("failure=harness_io".to_string(), format!("image copy: {}", e)))?;
	let _ = std::fs::remove_file(img.join("lock"));
	Ok((img, synced_all))
}

/// log, flush, enact - the enacted log files are kept (at most four, legality rule L1)
fn settle_keep_logs(db: &Db) -> Result<(), Fail> {
	for _ in 0..64 {
		if db.verif_status().queued_commits == 0 {
			break
		}
		db.process_commits().map_err(|e| step_err("process_commits", e))?;
	}
	db.flush_logs().map_err(|e| step_err("flush_logs", e))?;
	dbutil::do_step(db, Step::EnactAll).map_err(|e| step_err("enact_logs", e))?;
	if db.verif_status().dirty_logs >= 4 {
		db.clean_logs().map_err(|e| step_err("clean_logs", e))?;
	}
	Ok(())
}

pub fn run(ctx: &Ctx, rep: &mut Report, prop: &str, case_seed: u64, variant: u64) {
	let mut rng = Rng::new(case_seed);
	let counted_roots = (variant / 16) % 2 == 1;
	// deep: the chosen leaves share one chunk of the 17-bit table as well, so that moving the old
	// entries into the grown table overflows THAT chunk: a second growth starts from inside a reindex batch
	let deep = (variant / 32) % 2 == 1;
	let sel_bits: u8 = if deep { 17 } else { 16 };
	let cfg = DbCfg::new(vec![multitree_col(false, counted_roots, true)]);
	let desc = format!("{} rc-growth case_seed={} variant={} deep={} cfg=[{}]", prop, case_seed, variant, deep, cfg.describe());
	ctx.mark(&desc);
	let dir = Scratch::new("rcg");
	let opts = cfg.options(&dir.path.join("db"));
	let mut st = St { mids: 56 + (case_seed % 9) as u32, leaves: 200 + (case_seed / 9 % 51) as u32, leaf_of: HashMap::new(), fillers: BTreeSet::new(), sharing: BTreeMap::new(), counted_roots, trace: vec![] };
	let mut db: Option<Db> = None;
	let t0 = std::time::Instant::now();
	let verbose = ctx.verbose;
	let tick = move |what: &str| {
		if verbose {
			eprintln!("  [rc-growth {:7.2}s] {}", t0.elapsed().as_secs_f64(), what);
		}
	};
	let res = catch(|| -> Result<(), Fail> {
		db = Some(Db::open_or_create(&opts).map_err(|e| step_err("open_or_create", e))?);
		// ---- filler trees until one chunk of the 16-bit table has >= 33 leaf addresses
		let mut per_chunk: HashMap<u64, Vec<u64>> = HashMap::new();
		let mut next_tree = 0u32;
		let mut best: Option<u64> = None;
		let want = 33 + rng.range(1, 4) as usize;
		while best.is_none() {
			if next_tree as u64 * st.mids as u64 * st.leaves as u64 > if deep { 6_000_000 } else { 3_200_000 } {
				rep.count("rc_growth_chunk_not_found", 1);
				return Ok(())
			}
			ctx.progress();
			let d = db.as_ref().unwrap();
			// a batch of 8 trees (128 k leaves)
			for _ in 0..8 {
				let t = next_tree;
				next_tree += 1;
				let node = NewNode {
					data: root_data(t),
					children: (0..st.mids)
						.map(|m| {
							NodeRef::New(NewNode {
								data: mid_data(t, m),
								children: (0..st.leaves).map(|l| NodeRef::New(NewNode { data: leaf_data(t, m, l), children: vec![] })).collect(),
							})
						})
						.collect(),
				};
				d.commit_changes(vec![(0u8, Operation::InsertTree(filler_key(t), node))]).map_err(|e| step_err("commit(filler)", e))?;
				st.fillers.insert(t);
				settle(d)?;
				// read the addresses back
				let (rd, mids) = d
					.get_root(0, &filler_key(t))
					.map_err(|e| step_err("get_root", e))?
					.ok_or_else(|| ("failure=tree_mismatch;phase=rc_growth;what=filler_root_missing".to_string(), format!("filler tree {} is not readable after its commit was applied", t)))?;
				if rd != root_data(t) || mids.len() != st.mids as usize {
					return Err(("failure=tree_mismatch;phase=rc_growth;what=filler_root".into(), format!("filler tree {}: root reads back with {} children / data {:x?}", t, mids.len(), rd)))
				}
				for (m, ma) in mids.iter().enumerate() {
					let (md, ls) = d.get_node(0, *ma).map_err(|e| step_err("get_node", e))?.ok_or_else(|| ("failure=tree_mismatch;phase=rc_growth;what=filler_mid_missing".to_string(), format!("filler {} mid node {} missing", t, m)))?;
					if md != mid_data(t, m as u32) || ls.len() != st.leaves as usize {
						return Err(("failure=tree_mismatch;phase=rc_growth;what=filler_mid".into(), format!("filler {} mid {} reads back with {} children", t, m, ls.len())))
					}
					rep.evaluations += 1;
					for (l, la) in ls.iter().enumerate() {
						st.leaf_of.insert(*la, (t, m as u32, l as u32));
						per_chunk.entry(chunk_of(*la, sel_bits)).or_default().push(*la);
					}
					// one leaf in 40 is read for its data
					if m % 40 == (t as usize) % 40 {
						let l = (t as usize * 7 + m) % ls.len();
						let n = d.get_node(0, ls[l]).map_err(|e| step_err("get_node", e))?;
						if n != Some((leaf_data(t, m as u32, l as u32), vec![])) {
							return Err(("failure=tree_mismatch;phase=rc_growth;what=filler_leaf".into(), format!("filler {} leaf {}/{} reads back as {:?}", t, m, l, n)))
						}
					}
				}
			}
			best = per_chunk.iter().filter(|(_, v)| v.len() >= want).map(|(c, _)| *c).min();
		}
		tick("fillers built");
		let chunk = best.unwrap();
		let mut chosen: Vec<u64> = per_chunk[&chunk].clone();
		chosen.sort();
		chosen.truncate(want + 2);
		rep.count("rc_growth_leaves_allocated", st.leaf_of.len() as u64);
		rep.max("rc_growth_chunk_population", chosen.len() as u64);
		tick(&format!("{} filler trees, {} leaves; chunk {:#x} holds {}", next_tree, st.leaf_of.len(), chunk, chosen.len()));
		st.trace.push(format!("{} filler trees, {} leaves; chunk {:#x} of the 16-bit table holds {} of them", next_tree, st.leaf_of.len(), chunk, chosen.len()));
		drop(per_chunk);
		let n_files = |db: &Db| db.verif_status().columns[0].reindex_ref_count_bits.len();
		let mut next_share = 0u32;
		// states after each commit that is not known to be applied yet (first = last settled state)
		let mut since: Vec<Snap> = vec![st.snap()];
		macro_rules! share {
			($db:expr, $leaves:expr) => {{
				let i = next_share;
				next_share += 1;
				let ch: Vec<u64> = $leaves;
				let node = NewNode { data: root_data(10_000 + i), children: ch.iter().map(|a| NodeRef::Existing(*a)).collect() };
				$db.commit_changes(vec![(0u8, Operation::InsertTree(share_key(i), node))]).map_err(|e| step_err("commit(sharing)", e))?;
				st.sharing.insert(i, ch);
				since.push(st.snap());
				st.trace.push(format!("insert sharing tree {} ({} existing leaves)", i, st.sharing[&i].len()));
				i
			}};
		}
		macro_rules! deref_share {
			($db:expr, $i:expr) => {{
				$db.commit_changes(vec![(0u8, Operation::DereferenceTree(share_key($i)))]).map_err(|e| step_err("commit(deref sharing)", e))?;
				st.sharing.remove(&$i);
				since.push(st.snap());
				st.trace.push(format!("dereference sharing tree {}", $i));
			}};
		}
		// ---- fill the chunk: 20 + 12 shared leaves = 32 entries, some leaves twice (count 3)
		{
			let d = db.as_ref().unwrap();
			share!(d, chosen[..20].to_vec());
			{
					settle(d)?;
					since.clear();
					since.push(st.snap());
				}
			st.check(d, rep, "chunk holds 20 counts", &chosen, true)?;
			let mut second: Vec<u64> = chosen[20..32].to_vec();
			second.extend_from_slice(&chosen[3..9]);
			share!(d, second);
			if rng.chance(1, 2) {
				{
					settle(d)?;
					since.clear();
					since.push(st.snap());
				}
			}
			st.check(d, rep, "chunk holds 32 counts", &chosen, false)?;
			if n_files(d) != 0 {
				rep.count("rc_growth_early", 1);
			}
			// ---- the 33rd shared leaf: the table grows
			share!(d, chosen[32..].to_vec());
			{
					settle(d)?;
					since.clear();
					since.push(st.snap());
				}
			st.check(d, rep, "after the overflowing insertion", &chosen, true)?;
			if n_files(d) == 0 {
				rep.count("rc_growth_not_triggered", 1);
				return Err(("failure=harness_expectation;phase=rc_growth".into(), format!("{} shared leaves of one chunk did not make the ref-count table grow (harness assumption about the chunk function is wrong)", chosen.len())))
			}
			rep.count("rc_table_growths", 1);
			if deep {
				rep.count("rc_growth_deep_scenarios", 1);
			}
		}
		tick("table grown");
		// ---- while the old table waits: sharing, dereferencing, reindex batches, restarts, crash images
		let rounds = rng.range(6, 12);
		let mut reindex_done_at = None;
		// the old table keeps waiting for the first `hold` rounds (no reindex batch is run)
		let hold = rng.range(0, 6);
		// (cycles through the four scripts over consecutive cases of the shard, decorrelated from the counted / deep flags)
		let script = ((variant / 16) + (variant / 64)) % 4;
		if script == 3 {
			// scripted "migration reads through the log overlay": a dereference that lowers counts
			// living in the OLD table is logged but not yet applied when the reindex batch is
			// planned - the batch must see the logged counts, not what the file still holds
			let d = db.as_ref().unwrap();
			if st.sharing.contains_key(&0) && n_files(d) > 0 {
				deref_share!(d, 0);
				for _ in 0..8 {
					if d.verif_status().queued_commits == 0 {
						break
					}
					d.process_commits().map_err(|e| step_err("process_commits", e))?;
				}
				if rng.chance(1, 2) {
					d.flush_logs().map_err(|e| step_err("flush_logs", e))?;
				}
				d.process_reindex().map_err(|e| step_err("process_reindex", e))?;
				st.trace.push("process_reindex with a logged, unapplied dereference".into());
				st.check(d, rep, "reindex batch planned over a logged, unapplied dereference", &chosen, false)?;
				settle(d)?;
				since.clear();
				since.push(st.snap());
				st.check(d, rep, "after the batch was applied", &chosen, true)?;
				rep.count("rc_reindex_over_unapplied_dereference", 1);
			}
		}
		if script == 2 {
			// scripted "lingering log": counts that sit in the OLD table drop back to one (removal
			// records that write to the old table), the old table is migrated and dropped - all of
			// it enacted, none of the log files reclaimed yet - then one more commit is logged and
			// synced and the process stops: replay meets records that write to a ref-count table
			// which no longer exists, followed by a synced record that must not be lost
			let d = db.as_ref().unwrap();
			let twos: Vec<u64> = st.sharing.get(&0).cloned().unwrap_or_default().into_iter().filter(|a| st.refs(*a) == 2).collect();
			if twos.len() >= 2 {
				// (start from reclaimed logs so that the four-file limit is not reached below)
				d.clean_logs().map_err(|e| step_err("clean_logs", e))?;
				deref_share!(d, 0);
				settle_keep_logs(d)?;
				let mut guard = 0;
				while n_files(d) > 0 && guard < 6 {
					d.process_reindex().map_err(|e| step_err("process_reindex", e))?;
					settle_keep_logs(d)?;
					guard += 1;
				}
				st.trace.push(format!("old table migrated and dropped with {} enacted log file(s) not reclaimed", d.verif_status().dirty_logs));
				if n_files(d) == 0 {
					let alive: Vec<u64> = chosen.iter().copied().filter(|a| st.refs(*a) > 0).collect();
					share!(d, alive[..alive.len().min(9)].to_vec());
					for _ in 0..8 {
						if d.verif_status().queued_commits == 0 {
							break
						}
						d.process_commits().map_err(|e| step_err("process_commits", e))?;
					}
					d.flush_logs().map_err(|e| step_err("flush_logs", e))?;
					let img = dir.path.join("img");
					let _ = std::fs::remove_dir_all(&img);
					pv::scratch::copy_dir(&dir.path.join("db"), &img).map_err(|e| ("failure=harness_io".to_string(), format!("copy: {}", e)))?;
					let _ = std::fs::remove_file(img.join("lock"));
					let mut o2 = opts.clone();
					o2.path = img.clone();
					let d2 = Db::open(&o2).map_err(|e| ("failure=open_error;phase=rc_growth;image=lingering_log".to_string(), format!("opening a crash image whose logs still hold writes to the dropped ref-count table: {}", e)))?;
					st.check(&d2, rep, "crash image: old ref-count table dropped, its log not reclaimed, one more synced commit", &chosen, false).map_err(|(sg, dt)| (format!("{};image=lingering_log", sg.replace("tree_mismatch", "synced_commit_lost")), dt))?;
					drop(d2);
					let _ = std::fs::remove_dir_all(&img);
					rep.count("rc_lingering_log_images", 1);
				}
				settle(d)?;
				since.clear();
				since.push(st.snap());
				st.check(d, rep, "after the lingering-log script", &chosen, true)?;
			}
		}
		if script == 1 {
			// scripted: leaves whose count (2) sits in the OLD table gain a reference (the new count
			// goes to the current table) and drop back to one, all before the old table is migrated
			let d = db.as_ref().unwrap();
			let twos: Vec<u64> = st.sharing.get(&0).cloned().unwrap_or_default().into_iter().filter(|a| st.refs(*a) == 2).collect();
			if twos.len() >= 2 {
				let y = share!(d, twos[..twos.len() / 2 + 1].to_vec());
				if rng.chance(2, 3) {
					{
					settle(d)?;
					since.clear();
					since.push(st.snap());
				}
				}
				st.check(d, rep, "count 2 -> 3 with the old table pending", &chosen, false)?;
				deref_share!(d, y);
				if rng.chance(2, 3) {
					{
					settle(d)?;
					since.clear();
					since.push(st.snap());
				}
				}
				deref_share!(d, 0);
				{
					settle(d)?;
					since.clear();
					since.push(st.snap());
				}
				st.check(d, rep, "count 3 -> 2 -> 1 with the old table pending", &chosen, true)?;
				rep.count("rc_up_and_down_while_old_table_pending", 1);
			}
		}
		for round in 0..rounds {
			ctx.progress();
			let d = db.as_ref().unwrap();
			let pending = n_files(d) > 0;
			if pending {
				rep.count("rc_ops_while_old_table_pending", 1);
			}
			match rng.below(7) {
				0 | 1 => {
					// another tree over a random subset (counts +1, entries possibly only in the old table)
					// (only nodes of live trees may be named as existing children)
					let alive: Vec<u64> = chosen.iter().copied().filter(|a| st.refs(*a) > 0).collect();
					if alive.is_empty() {
						continue
					}
					let mut pick: Vec<u64> = alive.iter().copied().filter(|_| rng.chance(1, 2)).collect();
					if pick.is_empty() {
						pick.push(alive[0]);
					}
					if rng.chance(1, 3) {
						let dup = pick[0];
						pick.push(dup);
					}
					share!(d, pick);
				},
				2 | 3 =>
					if let Some(i) = st.sharing.keys().copied().nth(rng.usize(st.sharing.len().max(1))) {
						deref_share!(d, i);
					},
				4 => {
					// a filler tree that owns chosen leaves goes away: the leaves survive through the sharing trees
					let owners: Vec<u32> = chosen.iter().map(|a| st.leaf_of[a].0).filter(|t| st.fillers.contains(t)).collect();
					if let Some(t) = owners.first().copied() {
						d.commit_changes(vec![(0u8, Operation::DereferenceTree(filler_key(t)))]).map_err(|e| step_err("commit(deref filler)", e))?;
						st.fillers.remove(&t);
						since.push(st.snap());
						st.trace.push(format!("dereference filler tree {}", t));
						rep.count("rc_filler_owner_dereferenced", 1);
					}
				},
				5 => {
					// clean restart in the middle
					{
					settle(d)?;
					since.clear();
					since.push(st.snap());
				}
					dbutil::make_drop_legal(d).map_err(|e| step_err("pre-drop", e))?;
					drop(db.take());
					db = Some(Db::open(&opts).map_err(|e| ("failure=open_error;phase=rc_growth".to_string(), format!("reopen in round {}: {}", round, e)))?);
					st.trace.push("restart".into());
					rep.count("rc_restarts", 1);
					if pending {
						rep.count("rc_restart_with_old_table_pending", 1);
					}
				},
				_ => {
					// process-crash image: everything logged + flushed, not applied; the copy must show the same trees
					let d = db.as_ref().unwrap();
					for _ in 0..8 {
						if d.verif_status().queued_commits == 0 {
							break
						}
						d.process_commits().map_err(|e| step_err("process_commits", e))?;
					}
					d.flush_logs().map_err(|e| step_err("flush_logs", e))?;
					let img = dir.path.join("img");
					let _ = std::fs::remove_dir_all(&img);
					pv::scratch::copy_dir(&dir.path.join("db"), &img).map_err(|e| ("failure=harness_io".to_string(), format!("copy: {}", e)))?;
					let _ = std::fs::remove_file(img.join("lock"));
					let mut o2 = opts.clone();
					o2.path = img.clone();
					let d2 = Db::open(&o2).map_err(|e| ("failure=open_error;phase=rc_growth;image=true".to_string(), format!("opening a crash image taken in round {}: {}", round, e)))?;
					st.check(&d2, rep, "crash image (all commits flushed)", &chosen, false)?;
					drop(d2);
					let _ = std::fs::remove_dir_all(&img);
					rep.count("rc_crash_images", 1);
					if pending {
						rep.count("rc_crash_image_with_old_table_pending", 1);
					}
				},
			}
			let d = db.as_ref().unwrap();
			if rng.chance(1, 2) {
				// ---- crash probe: a forked copy of this process runs the next pipeline steps and is
				// stopped by an I/O failure at its k-th file operation (inside the logging of a
				// count change, the enactment of ref-count chunks, the migration of the old table,
				// the creation / drop of a ref-count file); the directory as it is at that moment
				// must recover to SOME prefix of the commits not known to be applied, and after the
				// recovered pipeline drained a leaf no tree of that prefix references must be gone
				let with_reindex = round >= hold && rng.chance(1, 2);
				let mut steps = vec![];
				if with_reindex {
					steps.push(Step::ProcessReindex);
				}
				steps.extend_from_slice(&[Step::ProcessCommits, Step::ProcessCommits, Step::ProcessCommits, Step::FlushLogs, Step::EnactAll]);
				if with_reindex {
					steps.extend_from_slice(&[Step::ProcessReindex, Step::FlushLogs, Step::EnactAll]);
				}
				steps.push(Step::CleanLogs);
				let k = if rng.chance(1, 3) { rng.range(0, 12) } else { rng.range(0, 90) } as usize;
				let (img, synced_all) = crash_image(d, &dir.path, k, &steps)?;
				// the handle that ran into the failure is retired (error state: its drop touches
				// nothing); the directory goes back to what it was before the steps and is
				// recovered: a process crash of the main history
				drop(db.take());
				std::fs::remove_dir_all(dir.path.join("db")).map_err(|e| ("failure=harness_io".to_string(), format!("restore: {}", e)))?;
				std::fs::rename(dir.path.join("bak"), dir.path.join("db")).map_err(|e| ("failure=harness_io".to_string(), format!("restore: {}", e)))?;
				let _ = std::fs::remove_file(dir.path.join("db").join("lock"));
				db = Some(match catch(|| Db::open(&opts)) {
					Ok(Ok(x)) => x,
					Ok(Err(e)) => return Err(("failure=open_error;phase=rc_growth;image=process_crash".to_string(), format!("recovery after a process crash between two steps: {}", e))),
					Err(p) => return Err((format!("failure=open_panic;phase=rc_growth;site={}", panic_site(&p)), format!("recovery after a process crash between two steps panicked: {}", p))),
				});
				{
					let d = db.as_ref().unwrap();
					let cands: Vec<Snap> = since.clone();
					let mut matched = None;
					let mut last_err = None;
					for c in cands.iter().rev() {
						match st.matches(d, rep, c, &cands, &chosen, false, "recovered main history") {
							Ok(()) => {
								matched = Some(c.clone());
								break
							},
							Err(e) => last_err = Some(e),
						}
					}
					match matched {
						Some(m) => {
							st.fillers = m.fillers.clone();
							st.sharing = m.sharing.clone();
							st.trace.push(format!("process crash + recovery ({} of {} unapplied commits survived)", cands.iter().position(|c| *c == m).unwrap_or(0), cands.len() - 1));
						},
						None => {
							let (sig, det) = last_err.unwrap();
							let sig = if sig.contains("non_prefix_state") { sig } else { format!("failure=non_prefix_state;phase=rc_growth;why={}", sig.split(';').next().unwrap_or("").trim_start_matches("failure=")) };
							return Err((sig, format!("process crash between two steps with {} commit(s) not known to be applied: the recovered database matches none of the prefixes; last mismatch: {}", cands.len() - 1, det)))
						},
					}
				}
				let cands_for_image: Vec<Snap> = since.clone();
				since.clear();
				since.push(st.snap());
				let mut o2 = opts.clone();
				o2.path = img.clone();
				let d2 = match catch(|| Db::open(&o2)) {
					Ok(Ok(x)) => x,
					Ok(Err(e)) => return Err(("failure=open_error;phase=rc_growth;image=crash".to_string(), format!("opening the image of a crash at file operation {} of {:?}: {}", k, steps.iter().map(|s| s.name()).collect::<Vec<_>>(), e))),
					Err(p) => return Err((format!("failure=open_panic;phase=rc_growth;site={}", panic_site(&p)), format!("opening the image of a crash at file operation {} panicked: {}", k, p))),
				};
				let cands: Vec<Snap> = cands_for_image;
				let mut matched = None;
				let mut last_err = None;
				if synced_all {
					rep.count("rc_crash_probes_after_sync", 1);
				}
				for c in cands.iter().rev().take(if synced_all { 1 } else { usize::MAX }) {
					match st.matches(&d2, rep, c, &cands, &chosen, false, "crash image") {
						Ok(()) => {
							matched = Some(c.clone());
							break
						},
						Err(e) => last_err = Some(e),
					}
				}
				let m = match matched {
					Some(m) => m,
					None => {
						let (sig, det) = last_err.unwrap();
						let sig = if sig.contains("non_prefix_state") { sig } else { format!("failure=non_prefix_state;phase=rc_growth;why={}", sig.split(';').next().unwrap_or("").trim_start_matches("failure=")) };
						std::mem::forget(d2);
						let sig = if synced_all { format!("{};synced=all", sig.replace("non_prefix_state", "synced_commit_lost")) } else { sig };
						return Err((sig, format!("crash at file operation {} of {:?} with {} commit(s) not known to be applied{}: the recovered database matches none of the {} admissible prefixes; last mismatch: {}", k, steps.iter().map(|s| s.name()).collect::<Vec<_>>(), cands.len() - 1, if synced_all { " (all of them logged and synced before the failure)" } else { "" }, if synced_all { 1 } else { cands.len() }, det)))
					},
				};
				// the recovered database keeps working: drain, then unreferenced leaves are gone
				dbutil::drain(&d2).map_err(|e| step_err("drain(recovered image)", e))?;
				st.matches(&d2, rep, &m, &cands, &chosen, true, "crash image, drained").map_err(|(s, d)| (format!("{};image=crash", s), format!("after recovery from a crash at file operation {} and a drain: {}", k, d)))?;
				dbutil::make_drop_legal(&d2).map_err(|e| step_err("pre-drop(image)", e))?;
				drop(d2);
				let _ = std::fs::remove_dir_all(&img);
				rep.count("rc_crash_probes", 1);
				if pending {
					rep.count("rc_crash_probes_with_old_table_pending", 1);
				}
				if cands.len() > 1 {
					rep.count("rc_crash_probes_with_unapplied_commits", 1);
				}
			}
			let d = db.as_ref().unwrap();
			if rng.chance(2, 3) {
				{
					settle(d)?;
					since.clear();
					since.push(st.snap());
				}
			}
			if round >= hold && rng.chance(1, 2) {
				d.process_reindex().map_err(|e| step_err("process_reindex", e))?;
				st.trace.push("process_reindex".into());
				if n_files(d) == 0 && reindex_done_at.is_none() && pending {
					// the drop record is logged; the file goes when it is enacted
				}
			}
			let settled = d.verif_status().queued_commits == 0 && d.verif_status().overlay_value_entries == 0;
			st.check(d, rep, &format!("round {}", round), &chosen, false)?;
			let _ = settled;
			rep.max("rc_old_tables_pending", n_files(d) as u64);
			if n_files(d) == 0 && reindex_done_at.is_none() {
				reindex_done_at = Some(round);
				rep.count("rc_reindex_completed_in_history", 1);
			}
		}
		tick("rounds done");
		// ---- finish the growth, then take everything down
		{
			let d = db.as_ref().unwrap();
			dbutil::drain(d).map_err(|e| step_err("drain", e))?;
			st.check(d, rep, "drained", &chosen, true)?;
			dbutil::make_drop_legal(d).map_err(|e| step_err("pre-drop", e))?;
		}
		drop(db.take());
		db = Some(Db::open(&opts).map_err(|e| ("failure=open_error;phase=rc_growth".to_string(), format!("reopen after the growth: {}", e)))?);
		{
			let d = db.as_ref().unwrap();
			st.check(d, rep, "after reopen", &chosen, true)?;
			// order of the end game: sharing trees first or fillers first
			let sharing_first = rng.chance(1, 2);
			let shares: Vec<u32> = st.sharing.keys().copied().collect();
			let fillers: Vec<u32> = st.fillers.iter().copied().collect();
			if sharing_first {
				for i in &shares {
					deref_share!(d, *i);
					{
					settle(d)?;
					since.clear();
					since.push(st.snap());
				}
				}
				st.check(d, rep, "all sharing trees gone, fillers alive", &chosen, true)?;
			}
			for (n, t) in fillers.iter().enumerate() {
				d.commit_changes(vec![(0u8, Operation::DereferenceTree(filler_key(*t)))]).map_err(|e| step_err("commit(deref filler)", e))?;
				st.fillers.remove(t);
				if n % 4 == 3 {
					ctx.progress();
					dbutil::drain(d).map_err(|e| step_err("drain", e))?;
				}
			}
			dbutil::drain(d).map_err(|e| step_err("drain", e))?;
			if !sharing_first {
				st.check(d, rep, "all fillers gone, sharing trees alive", &chosen, true)?;
				rep.count("rc_leaves_survive_through_sharing_only", 1);
				for i in &shares {
					deref_share!(d, *i);
				}
				dbutil::drain(d).map_err(|e| step_err("drain", e))?;
			}
			tick("everything dereferenced");
			st.check(d, rep, "everything dereferenced", &chosen, true)?;
			let n = d.get_num_column_value_entries(0).map_err(|e| step_err("get_num_column_value_entries", e))?;
			rep.evaluations += 1;
			if n != 0 {
				return Err(("failure=entries_left_after_all_dereferenced;phase=rc_growth".into(), format!("every tree was dereferenced, yet the column still holds {} value entries", n)))
			}
			dbutil::make_drop_legal(d).map_err(|e| step_err("pre-drop", e))?;
		}
		// (no reopen here: `ValueTable::init_table_data` rebuilds the free-entry stack of an
		// append-free table with `Vec::insert(0, ..)` per entry - quadratic in the length of the
		// free list, about three minutes for the million leaves freed above. An observation about
		// open time, not one of the properties.)
		drop(db.take());
		tick("dropped");
		// ---- the files: every slot free, no count left
		let specs = vec![crate::fsck_glue::col_spec(&cfg.cols[0])];
		let r = pvfsck::check_dir(&dir.path.join("db"), &specs, &[pvfsck::Expect::Tree { roots: vec![], nodes: vec![] }]);
		rep.count("fsck_runs", 1);
		if let Some(e) = r.errors.first() {
			let class = e.split(':').next().unwrap_or("unknown").to_string();
			return Err((format!("failure=fsck;class={};phase=rc_growth", class), format!("structural check of the emptied column: {} problem(s): {}", r.errors.len(), r.errors.iter().take(4).cloned().collect::<Vec<_>>().join(" | "))))
		}
		tick("fsck done");
		rep.count("rc_growth_scenarios", 1);
		Ok(())
	});
	if !matches!(res, Ok(Ok(()))) {
		// a failed history leaks its handle: the shutdown path must not run on an arbitrary state
		std::mem::forget(db.take());
	}
	let (sig, detail) = match res {
		Ok(Ok(())) => {
			if rep.samples.len() < 2 {
				rep.sample(J::obj().set("case", J::s(desc)).set("trace", J::strs(st.trace.iter().cloned())));
			}
			return
		},
		Ok(Err(f)) => f,
		Err(p) => (format!("failure=panic;phase=rc_growth;site={}", panic_site(&p)), format!("panic inside a library call: {}", p)),
	};
	let _ = st.counted_roots;
	let n = st.trace.len();
	rep.violation(
		format!("scenario={};{}", prop, sig),
		detail,
		J::obj()
			.set("engine", J::s("stepper"))
			.set("case", J::s(desc))
			.set("case_seed", J::i(case_seed))
			.set("variant", J::i(variant))
			.set("trace_tail", J::strs(st.trace[n.saturating_sub(40)..].iter().cloned())),
	);
}
