//! C06: deterministic sweep over value lengths / compressibility / overwrite transitions,
//! and the glue to the independent structural checker (fsck).

use crate::hist::{fail, Fail, Hist, R};
use crate::profiles::{Profile, COMPRESSIONS};
use parity_db::{CompressionType, Db, Operation};
use pv::{
	dbutil::{self, col, do_step, DbCfg, Step},
	gen::{self, Fill, SIZES},
	json::{short_bytes, J},
	scratch::{catch, panic_site, Scratch},
	Ctx, Report, Rng,
};
use std::collections::BTreeMap;

pub fn fsck_db(h: &mut Hist, db: &Db, rep: &mut Report) -> R<()> {
	crate::fsck_glue::run(h, db, rep)
}

const PART: usize = 4096;

/// All interesting value lengths for a column whose entries carry `overhead` bytes besides the
/// payload (size field + optional rc + optional key tail).
pub fn boundary_lengths(overhead: usize, rc: bool, keyed: bool) -> Vec<usize> {
	let mut v = vec![0usize, 1, 2];
	for s in SIZES.iter() {
		let cap = *s as i64 - overhead as i64;
		for d in [-1i64, 0, 1] {
			if cap + d >= 0 {
				v.push((cap + d) as usize);
			}
		}
	}
	// multipart: head part payload, continuation payload 4096-10
	let head = PART - 2 - 8 - if rc { 4 } else { 0 } - if keyed { 26 } else { 0 };
	let cont = PART - 10;
	for k in [0usize, 1, 2, 3, 7, 8, 9, 15, 16, 63, 64, 255, 256, 257] {
		let base = head + k * cont;
		for d in [-1i64, 0, 1, 2, 3] {
			v.push((base as i64 + d).max(0) as usize);
		}
		// last part is [size u16][payload]: boundary of a full last part
		v.push(base + PART - 2);
		v.push(base + PART - 1);
	}
	for l in [32760usize, 32761, 65535, 65536, 65537, 1 << 20, (1 << 20) + 1, (1 << 20) + 4096] {
		v.push(l);
	}
	v.sort();
	v.dedup();
	v
}

fn class_of(len: usize, overhead: usize) -> usize {
	SIZES.iter().position(|s| len + overhead <= *s as usize).unwrap_or(255)
}

fn value_of(key: &[u8], len: usize, fill: Fill) -> Vec<u8> {
	value_of_salted(key, len, fill, 0)
}

fn value_of_salted(key: &[u8], len: usize, fill: Fill, salt: u64) -> Vec<u8> {
	let mut r = Rng::new(dbutil::fnv(key) ^ (len as u64).wrapping_mul(0x9E37) ^ if fill == Fill::Random { 1 } else { 2 } ^ salt.wrapping_mul(0xA24BAED4963EE407));
	gen::make_value(&mut r, len, fill)
}

pub fn run_sweep(ctx: &Ctx, rep: &mut Report, case_seed: u64, variant: u64) {
	let mut rng = Rng::new(case_seed);
	let cfg = Profile::C06.config(&mut rng, variant % 36);
	let slice = (variant / 36) % 3;
	let desc = format!("C06 case_seed={} variant={} cfg=[{}] slice={}", case_seed, variant, cfg.describe(), slice);
	ctx.mark(&desc);
	let mut trace: Vec<String> = vec![];
	let res = catch(|| sweep_case(ctx, rep, &mut rng, &cfg, slice as usize, &mut trace));
	let (sig, detail) = match res {
		Ok(Ok(())) => {
			rep.sample(J::obj().set("case", J::s(desc)).set("trace_head", J::strs(trace.iter().take(30).cloned())));
			return
		},
		Ok(Err(f)) => (f.sig, f.detail),
		Err(p) => (format!("failure=panic;site={}", panic_site(&p)), format!("panic: {}", p)),
	};
	let n = trace.len();
	rep.violation(
		format!("scenario=C06;{}", sig),
		detail,
		J::obj()
			.set("engine", J::s("stepper"))
			.set("case", J::s(desc))
			.set("case_seed", J::i(case_seed))
			.set("variant", J::i(variant))
			.set("shard_seed", J::i(ctx.seed))
			.set("trace_tail", J::strs(trace[n.saturating_sub(40)..].iter().cloned())),
	);
}

fn random_steps(db: &Db, rng: &mut Rng, max: u64) -> R<()> {
	let n = rng.below(max + 1);
	for _ in 0..n {
		// clean_logs msyncs every table file; with all 255 size classes populated that is the
		// dominant cost, so it is drawn rarely here (drain points still clean)
		let s = match rng.below(24) {
			0..=9 => Step::ProcessCommits,
			10..=13 => Step::FlushLogs,
			14..=18 => Step::EnactOne,
			19..=22 => Step::EnactAll,
			_ => Step::CleanLogs,
		};
		if let Err(e) = do_step(db, s) {
			return fail(format!("failure=step_error;step={}", s.name()), format!("{}", e))
		}
	}
	Ok(())
}

fn check_key(db: &Db, k: &[u8], expect: Option<&Vec<u8>>, rep: &mut Report, cfg_key: &str, what: &str) -> R<()> {
	let got = match db.get(0, k) {
		Ok(g) => g,
		Err(e) => return fail("failure=get_error", format!("get error {} ({})", e, what)),
	};
	let size = match db.get_size(0, k) {
		Ok(g) => g,
		Err(e) => return fail("failure=get_error", format!("get_size error {} ({})", e, what)),
	};
	rep.evaluations += 2;
	if got.as_ref() != expect {
		let why = match (&got, expect) {
			(Some(g), Some(e)) if g.len() != e.len() => format!("length {} instead of {}", g.len(), e.len()),
			(Some(g), Some(e)) => {
				let pos = g.iter().zip(e.iter()).position(|(a, b)| a != b).unwrap_or(0);
				format!("same length {}, first difference at byte {}", g.len(), pos)
			},
			(None, Some(e)) => format!("nothing returned, expected {} bytes", e.len()),
			(Some(g), None) => format!("{} bytes returned for a removed key", g.len()),
			_ => String::new(),
		};
		return fail(
			format!("failure=value_not_bit_exact;len_class={}", expect.map_or(0, |e| e.len()).min(1 << 20) / 4096),
			format!("{}: key {}: {} [{}]", what, short_bytes(k), why, cfg_key),
		)
	}
	if size != expect.map(|e| e.len() as u32) {
		return fail("failure=size_mismatch", format!("{}: get_size = {:?}, expected {:?} [{}]", what, size, expect.map(|e| e.len()), cfg_key))
	}
	Ok(())
}

fn table_bytes(dir: &std::path::Path) -> u64 {
	dbutil::list_files(dir).iter().filter(|(n, _)| n.starts_with("table_")).map(|(_, l)| *l).sum()
}

fn sweep_case(ctx: &Ctx, rep: &mut Report, rng: &mut Rng, cfg: &DbCfg, slice: usize, trace: &mut Vec<String>) -> Result<(), Fail> {
	let dir = Scratch::new("sw");
	let path = dir.path.join("db");
	let o = cfg.cols[0].clone();
	let rc = o.ref_counted;
	let keyed = !o.btree_index;
	let overhead = 2 + if rc { 4 } else { 0 } + if keyed { 26 } else { 0 };
	let cfg_key = cfg.describe();
	let all = boundary_lengths(overhead, rc, keyed);
	let quick = ctx.tier == pv::Tier::Quick;
	// slice the list 3 ways; very large values are thinned out in the quick tier
	let lens: Vec<usize> = all
		.iter()
		.enumerate()
		.filter(|(i, l)| i % 3 == slice && (!quick || **l < 70_000 || (**l / 4096) % 3 == slice % 3))
		.map(|(_, l)| *l)
		.collect();
	let open = || Db::open_or_create(&cfg.options(&path)).map(dbutil::Handle::new).map_err(|e| Fail { sig: "failure=open_error".into(), detail: format!("{}", e) });
	let mut db = open()?;
	let mut model: BTreeMap<Vec<u8>, Vec<u8>> = BTreeMap::new();
	let mut keys: Vec<Vec<u8>> = vec![];
	// ---- phase 1: every boundary length, both fills
	for (i, len) in lens.iter().enumerate() {
		ctx.progress();
		for fill in [Fill::Random, Fill::Compressible] {
			let mut k = format!("k{:05}-{:?}-", i, fill).into_bytes();
			k.extend_from_slice(&rng.bytes(6));
			let v = value_of(&k, *len, fill);
			trace.push(format!("set {} = {} bytes ({:?})", short_bytes(&k), len, fill));
			if let Err(e) = db.commit_changes(vec![(0u8, Operation::Set(k.clone(), v.clone()))]) {
				return fail("failure=valid_commit_rejected", format!("set of {} bytes rejected: {}", len, e))
			}
			model.insert(k.clone(), v);
			keys.push(k.clone());
			random_steps(&db, rng, 3)?;
			check_key(&db, &k, model.get(&k), rep, &cfg_key, "read-back at a random pipeline stage")?;
			rep.count("lengths_checked", 1);
			rep.seen(format!("len:{}:{:?}:{}", len, fill, cfg_key));
			if *len > 32760 - overhead {
				rep.count("multipart_values", 1);
			}
		}
		if i % 24 == 23 {
			// the values written since the last drain sit at every stage of the pipeline; log and
			// sync what is still queued, then take the directory as it is (process stopped here)
			// and open the copy: whatever has to be REPLAYED from the log must read back bit-exact
			trace.push("log + flush, open a copy of the directory (replay), verify".into());
			let mut bound = 0;
			while db.verif_status().queued_commits > 0 && bound < 1000 {
				do_step(&db, Step::ProcessCommits).map_err(|e| Fail { sig: "failure=step_error;step=process_commits".into(), detail: format!("{}", e) })?;
				bound += 1;
			}
			do_step(&db, Step::FlushLogs).map_err(|e| Fail { sig: "failure=step_error;step=flush_logs".into(), detail: format!("{}", e) })?;
			let pending = { let st = db.verif_status(); st.read_queue_len + st.reading.map_or(0, |_| 1) };
			let path2 = dir.path.join("copy");
			let _ = std::fs::remove_dir_all(&path2);
			pv::scratch::copy_dir(&path, &path2).map_err(|e| Fail { sig: "failure=harness".into(), detail: format!("copy: {}", e) })?;
			match catch(|| Db::open(&cfg.options(&path2))) {
				Ok(Ok(d2)) => {
					let d2 = dbutil::Handle::new(d2);
					let n = keys.len();
					for k in keys.iter().skip(n.saturating_sub(48)) {
						check_key(&d2, k, model.get(k), rep, &cfg_key, "read-back after log replay (copy of the directory taken before enactment)")?;
					}
					d2.close();
					rep.count("replay_checks", 1);
					if pending > 0 {
						rep.count("replay_checks_with_unapplied_logs", 1);
					}
				},
				Ok(Err(e)) => return fail("failure=open_error", format!("opening a copy of the directory failed: {}", e)),
				Err(p) => return fail(format!("failure=open_panic;site={}", panic_site(&p)), format!("opening a copy of the directory panicked: {}", p)),
			}
			let _ = std::fs::remove_dir_all(&path2);
			trace.push("drain + verify all".into());
			dbutil::drain(&db).map_err(|e| Fail { sig: "failure=step_error;step=drain".into(), detail: format!("{}", e) })?;
			// everything written since the last drain, plus a sample of older values
			let n = keys.len();
			for k in keys.iter().skip(n.saturating_sub(48)) {
				check_key(&db, k, model.get(k), rep, &cfg_key, "read-back after drain")?;
			}
			for _ in 0..16 {
				let k = rng.pick(&keys).clone();
				check_key(&db, &k, model.get(&k), rep, &cfg_key, "read-back after drain (older value)")?;
			}
			if rng.chance(1, 3) {
				trace.push("restart".into());
				db.close();
				db = open()?;
				for k in keys.iter().rev().take(40) {
					check_key(&db, k, model.get(k), rep, &cfg_key, "read-back after reopen")?;
				}
			}
		}
	}
	dbutil::drain(&db).map_err(|e| Fail { sig: "failure=step_error;step=drain".into(), detail: format!("{}", e) })?;
	// ---- phase 2: overwrite transitions (not for counted columns: a set only raises the count)
	if !rc {
		let n_tr = if quick { 120 } else { 600 };
		let small: Vec<usize> = all.iter().copied().filter(|l| *l < 40_000).collect();
		for t in 0..n_tr {
			ctx.progress();
			let k = rng.pick(&keys).clone();
			let old_len = model.get(&k).map_or(0, |v| v.len());
			let new_len = if rng.chance(1, 12) { *rng.pick(&all) } else { *rng.pick(&small) };
			let new_len = if quick && new_len > 200_000 { new_len % 70_000 } else { new_len };
			let fill = if rng.chance(1, 2) { Fill::Random } else { Fill::Compressible };
			let v = value_of_salted(&k, new_len, fill, t as u64 + 1);
			trace.push(format!("overwrite {}: {} -> {} bytes ({:?})", short_bytes(&k), old_len, new_len, fill));
			if let Err(e) = db.commit_changes(vec![(0u8, Operation::Set(k.clone(), v.clone()))]) {
				return fail("failure=valid_commit_rejected", format!("overwrite rejected: {}", e))
			}
			model.insert(k.clone(), v);
			random_steps(&db, rng, 4)?;
			check_key(&db, &k, model.get(&k), rep, &cfg_key, "read-back after overwrite")?;
			rep.count("overwrite_transitions", 1);
			rep.seen(format!("ow:{}->{}:{}", class_of(old_len, overhead), class_of(new_len, overhead), cfg_key));
			if t % 20 == 13 {
				// process stopped here: the last overwrites (slots freed and re-used, chains cut or
				// extended) are logged and synced, not applied. A copy of the directory is opened
				// (the records are REPLAYED), then USED: fresh values of the size classes that were
				// just vacated are written, the copy is drained and everything touched recently -
				// old and new - must read back bit-exact ("released storage can be reused" holds
				// for storage released by a replayed record too)
				trace.push("log + flush, open a copy (replay), write into vacated size classes on the copy, verify".into());
				let mut bound = 0;
				while db.verif_status().queued_commits > 0 && bound < 1000 {
					do_step(&db, Step::ProcessCommits).map_err(|e| Fail { sig: "failure=step_error;step=process_commits".into(), detail: format!("{}", e) })?;
					bound += 1;
				}
				do_step(&db, Step::FlushLogs).map_err(|e| Fail { sig: "failure=step_error;step=flush_logs".into(), detail: format!("{}", e) })?;
				let path2 = dir.path.join("copy");
				let _ = std::fs::remove_dir_all(&path2);
				pv::scratch::copy_dir(&path, &path2).map_err(|e| Fail { sig: "failure=harness".into(), detail: format!("copy: {}", e) })?;
				match catch(|| Db::open(&cfg.options(&path2))) {
					Ok(Ok(d2)) => {
						let d2 = dbutil::Handle::new(d2);
						let mut extra: BTreeMap<Vec<u8>, Vec<u8>> = BTreeMap::new();
						for j in 0..6u64 {
							let len = match j {
								0 | 1 => old_len,
								2 | 3 => new_len,
								_ => *rng.pick(&small),
							};
							let len = if quick && len > 200_000 { len % 70_000 } else { len };
							let kk = format!("cont{:04}-{}", t, j).into_bytes();
							let vv = value_of_salted(&kk, len, if j % 2 == 0 { Fill::Random } else { Fill::Compressible }, 7_000 + t as u64);
							if let Err(e) = d2.commit_changes(vec![(0u8, Operation::Set(kk.clone(), vv.clone()))]) {
								return fail("failure=valid_commit_rejected;phase=after_replay", format!("set of {} bytes on the replayed copy rejected: {}", len, e))
							}
							extra.insert(kk, vv);
							if j % 2 == 1 {
								dbutil::drain(&d2).map_err(|e| Fail { sig: "failure=step_error;step=drain;phase=after_replay".into(), detail: format!("{}", e) })?;
							}
						}
						dbutil::drain(&d2).map_err(|e| Fail { sig: "failure=step_error;step=drain;phase=after_replay".into(), detail: format!("{}", e) })?;
						for (kk, vv) in &extra {
							check_key(&d2, kk, Some(vv), rep, &cfg_key, "value written into a vacated size class after log replay")?;
						}
						for kk in keys.iter().step_by(3) {
							check_key(&d2, kk, model.get(kk), rep, &cfg_key, "older value after log replay + further writes")?;
						}
						d2.close();
						rep.count("replay_then_write_checks", 1);
					},
					Ok(Err(e)) => return fail("failure=open_error", format!("opening a copy of the directory failed: {}", e)),
					Err(p) => return fail(format!("failure=open_panic;site={}", panic_site(&p)), format!("opening a copy of the directory panicked: {}", p)),
				}
				let _ = std::fs::remove_dir_all(&path2);
			}
			if t % 40 == 39 {
				dbutil::drain(&db).map_err(|e| Fail { sig: "failure=step_error;step=drain".into(), detail: format!("{}", e) })?;
				for k in keys.iter().step_by(7) {
					check_key(&db, k, model.get(k), rep, &cfg_key, "read-back after overwrites + drain")?;
				}
			}
		}
	}
	dbutil::drain(&db).map_err(|e| Fail { sig: "failure=step_error;step=drain".into(), detail: format!("{}", e) })?;
	for k in &keys {
		check_key(&db, k, model.get(k), rep, &cfg_key, "final read-back")?;
	}
	if !rc {
		// structural check: exactly one live chain per live value, everything else free
		crate::fsck_glue::run_simple(&db, &path, cfg, &model, rep)?;
	}
	// ---- phase 3: storage release: a steady rewrite loop must not grow the tables
	{
		let loop_keys: Vec<Vec<u8>> = (0..48).map(|i| format!("loop{:03}", i).into_bytes()).collect();
		let lens_cycle: Vec<usize> = vec![10, 700, 40, 5000, 0, 33_000, 90, 12_000, 36_000, 300];
		let rounds = if quick { 12 } else { 40 };
		let mut sizes = vec![];
		for round in 0..rounds {
			ctx.progress();
			for (i, k) in loop_keys.iter().enumerate() {
				let len = lens_cycle[(i + round) % lens_cycle.len()];
				if rc {
					// counted column: insert then remove (value is a function of the key)
					let v = value_of(k, lens_cycle[i % lens_cycle.len()], Fill::Random);
					let op = if round % 2 == 0 { Operation::Set(k.clone(), v.clone()) } else { Operation::Dereference(k.clone()) };
					if round % 2 == 0 {
						model.insert(k.clone(), v);
					} else {
						model.remove(k);
					}
					db.commit_changes(vec![(0u8, op)]).map_err(|e| Fail { sig: "failure=valid_commit_rejected".into(), detail: format!("{}", e) })?;
				} else {
					let v = value_of(k, len, if i % 2 == 0 { Fill::Random } else { Fill::Compressible });
					model.insert(k.clone(), v.clone());
					db.commit_changes(vec![(0u8, Operation::Set(k.clone(), v))]).map_err(|e| Fail { sig: "failure=valid_commit_rejected".into(), detail: format!("{}", e) })?;
				}
			}
			dbutil::drain(&db).map_err(|e| Fail { sig: "failure=step_error;step=drain".into(), detail: format!("{}", e) })?;
			sizes.push(table_bytes(&path));
		}
		trace.push(format!("steady rewrite loop: table bytes per round {:?}", sizes));
		for k in &loop_keys {
			check_key(&db, k, model.get(k), rep, &cfg_key, "read-back after rewrite loop")?;
		}
		rep.count("storage_release_checks", 1);
		rep.evaluations += 1;
		// after warm-up (one full cycle of lengths) the files must stop growing
		let warm = lens_cycle.len().min(sizes.len() - 2);
		if sizes[sizes.len() - 1] > sizes[warm] {
			return fail(
				"failure=storage_not_released",
				format!(
					"value tables keep growing under a steady overwrite/remove loop: {} bytes after warm-up round {}, {} bytes at the end [{}]",
					sizes[warm],
					warm,
					sizes[sizes.len() - 1],
					cfg_key
				),
			)
		}
	}
	// ---- phase 4: remove everything, reopen, verify
	let all_keys: Vec<Vec<u8>> = model.keys().cloned().collect();
	for chunk in all_keys.chunks(50) {
		let tx: Vec<(u8, Operation<Vec<u8>, Vec<u8>>)> = chunk.iter().map(|k| (0u8, Operation::Dereference(k.clone()))).collect();
		db.commit_changes(tx).map_err(|e| Fail { sig: "failure=valid_commit_rejected".into(), detail: format!("{}", e) })?;
		random_steps(&db, rng, 3)?;
	}
	trace.push("removed all keys".into());
	dbutil::drain(&db).map_err(|e| Fail { sig: "failure=step_error;step=drain".into(), detail: format!("{}", e) })?;
	for k in all_keys.iter() {
		check_key(&db, k, None, rep, &cfg_key, "read after removal")?;
	}
	crate::fsck_glue::run_simple(&db, &path, cfg, &BTreeMap::new(), rep)?;
	rep.count("storage_release_checks", 1);
	db.close();
	let db = open()?;
	for k in all_keys.iter().step_by(5) {
		check_key(&db, k, None, rep, &cfg_key, "read after removal + reopen")?;
	}
	db.close();
	let _ = (col as fn(bool, bool, bool, bool, CompressionType) -> parity_db::ColumnOptions, COMPRESSIONS);
	Ok(())
}
