//! E1 `stepper`: single-threaded model-based monitor over the stepping API.
//! Serves C01, C03 (clean-shutdown part), C04, C06, C07, C08, C09, C10, C11 (deterministic
//! variant), C14.

mod bulk;
mod fsck_glue;
mod hist;
mod profiles;
mod rcgrow;
mod sweep;

use pv::{run::main_entry, Ctx, Report, Rng, Spec, Tier};

pub use profiles::Profile;

fn spec_for(prop: &str, _tier: Tier) -> Option<Spec> {
	let p = Profile::from_prop(prop)?;
	Some(p.spec())
}

fn shard(ctx: &Ctx, rep: &mut Report) {
	let profile = Profile::from_prop(&ctx.prop).expect("profile");
	if let Some(j) = &ctx.replay {
		let case_seed = j.get("case_seed").and_then(|x| x.as_u64()).expect("replay needs case_seed");
		let variant = j.get("variant").and_then(|x| x.as_u64()).unwrap_or(0);
		hist::run_case(ctx, rep, profile, case_seed, variant);
		return
	}
	pv::scratch::install_sink_logger();
	let n_cases = profile.cases(ctx.tier);
	let mut seeder = Rng::new(ctx.seed ^ 0xC0FFEE);
	let mut i = 0u64;
	// witnesses of listed findings do not end a shard early (they are counted and reported as
	// KNOWN-FINDING); 20 failing cases of any other kind do
	let known = pv::run::load_known();
	let mut unlisted = 0u64;
	while i < n_cases && ctx.time_left() {
		let case_seed = seeder.next() >> 2; // keep it inside the JSON integer range
		// the variant index walks the profile's configuration list so every configuration is
		// visited by every shard regardless of the random stream
		let variant = ctx.shard as u64 + i * ctx.nshards as u64;
		// every 4th case runs with the library's debug logging evaluated (into a sink)
		pv::scratch::log_level(i % 4 == 3);
		if i % 4 == 3 {
			rep.count("cases_with_debug_logging", 1);
		}
		let before = rep.violations.len();
		let raw_before = rep.get("violations_raw");
		hist::run_case(ctx, rep, profile, case_seed, variant);
		if rep.get("violations_raw") > raw_before {
			let listed = rep.violations.len() > before && rep.violations[before..].iter().all(|v| pv::run::is_known(&ctx.prop, &v.sig, &known));
			if !listed {
				unlisted += 1;
			}
		}
		rep.cases += 1;
		ctx.checkpoint(rep);
		i += 1;
		if unlisted >= 20 {
			rep.notes.push(format!("shard {} stopped after 20 failing cases", ctx.shard));
			break
		}
	}
	if i < n_cases {
		rep.notes.push(format!("shard {} stopped by its time budget after {} of {} cases", ctx.shard, i, n_cases));
	}
}

fn main() {
	main_entry(spec_for, shard)
}
