//! Glue between the stepping engine and the independent structural checker (pvfsck, E4).

use crate::hist::{fail, Hist, R};
use parity_db::{ColumnOptions, CompressionType, Db};
use pv::{
	dbutil::{col_kind, DbCfg},
	model::ColModel,
	Report,
};
use pvfsck::{ColSpec, Expect};
use std::collections::BTreeMap;

pub fn col_spec(c: &ColumnOptions) -> ColSpec {
	ColSpec {
		btree: c.btree_index,
		multitree: c.multitree,
		ref_counted: c.ref_counted,
		preimage: c.preimage,
		uniform: c.uniform,
		append_only: c.append_only,
		compression: match c.compression {
			CompressionType::NoCompression => 0,
			CompressionType::Lz4 => 1,
			CompressionType::Snappy => 2,
		},
	}
}

fn report(r: pvfsck::FsckReport, rep: &mut Report, what: &str) -> R<()> {
	rep.count("fsck_runs", 1);
	rep.evaluations += 1 + r.stats.get("values_compared").copied().unwrap_or(0);
	for (k, v) in &r.stats {
		match k.as_str() {
			"btree_depth" => {
				rep.max("btree_depth", *v);
				if *v >= 2 {
					rep.count("tree_depth_ge2", 1);
				}
			},
			"slots_live" | "slots_free" | "index_stale_entries" | "chains_multipart" | "refcount_entries" | "btree_nodes" | "tree_nodes" => rep.count(&format!("fsck_{}", k), *v),
			"index_files" => rep.max("fsck_index_files", *v),
			_ => {},
		}
	}
	if r.errors.is_empty() {
		return Ok(())
	}
	let class = r.errors[0].split(':').next().unwrap_or("unknown").to_string();
	let lines: Vec<String> = r.errors.iter().take(6).cloned().collect();
	fail(
		format!("failure=fsck;class={}", class),
		format!("structural check of the files failed ({}): {} problem(s): {}", what, r.errors.len(), lines.join(" | ")),
	)
}

pub fn run(h: &mut Hist, db: &Db, rep: &mut Report) -> R<()> {
	if h.entry_counts_unreliable || h.bg_err {
		return Ok(())
	}
	let specs: Vec<ColSpec> = h.cfg.cols.iter().map(col_spec).collect();
	let mut expect: Vec<Expect> = vec![];
	for (ci, c) in h.cfg.cols.iter().enumerate() {
		let ci8 = ci as u8;
		if c.multitree {
			let tm = h.trees.get(&ci8).unwrap();
			// every live node must have a known address (it has been read back)
			if tm.nodes.values().any(|n| n.addr.is_none()) {
				expect.push(Expect::Unknown);
				continue
			}
			let addr = |id: &u64| tm.addr_of(*id).unwrap();
			let roots = tm
				.roots
				.iter()
				.map(|(k, r)| (db.verif_hash_key(ci8, k), r.data.clone(), r.children.iter().map(addr).collect(), r.count as u32))
				.collect();
			let nodes = tm.nodes.iter().map(|(id, n)| (addr(id), n.data.clone(), n.children.iter().map(addr).collect(), n.refs)).collect();
			expect.push(Expect::Tree { roots, nodes });
			rep.count("fsck_multitree_columns", 1);
		} else if c.btree_index {
			let rc = matches!(h.model.cols[ci], ColModel::Rc(_));
			let v = h
				.model
				.ordered(ci8)
				.into_iter()
				.map(|(k, v)| (k.clone(), v.clone(), if rc { h.model.count(ci8, k) as u32 } else { 1 }))
				.collect();
			expect.push(Expect::Btree(v));
			rep.count("fsck_btree_columns", 1);
			rep.count("fsck_btree_runs", 1);
		} else {
			let rc = matches!(h.model.cols[ci], ColModel::Rc(_));
			let v = h
				.model
				.keys(ci8)
				.iter()
				.map(|k| (db.verif_hash_key(ci8, k), h.model.get(ci8, k).unwrap().clone(), if rc { h.model.count(ci8, k) as u32 } else { 1 }))
				.collect();
			expect.push(Expect::Hash(v));
			rep.count("fsck_hash_columns", 1);
		}
	}
	let dir = h.dir.path.join("db");
	let r = pvfsck::check_dir(&dir, &specs, &expect);
	let what = h.cfg.cols.iter().map(col_kind).collect::<Vec<_>>().join("|");
	if !r.errors.is_empty() && !h.tainted.is_empty() {
		// consequences of finding F4 (a postponed transaction overtaken by a writer of the same
		// key / root): leaked or mismatching slots are expected in exactly these histories
		rep.count("fsck_runs", 1);
		return fail(
			"failure=deferred_commit_reordered_writes;what=fsck",
			format!("structural check differs from the model in a history where a postponed transaction was overtaken: {}", r.errors[0]),
		)
	}
	report(r, rep, &what)
}

/// Single plain column whose logical content is `model` (key -> value), used by the C06 sweep.
pub fn run_simple(db: &Db, path: &std::path::Path, cfg: &DbCfg, model: &BTreeMap<Vec<u8>, Vec<u8>>, rep: &mut Report) -> R<()> {
	let c = &cfg.cols[0];
	let specs = vec![col_spec(c)];
	let expect = if c.btree_index {
		Expect::Btree(model.iter().map(|(k, v)| (k.clone(), v.clone(), 1)).collect())
	} else {
		Expect::Hash(model.iter().map(|(k, v)| (db.verif_hash_key(0, k), v.clone(), 1)).collect())
	};
	let r = pvfsck::check_dir(path, &specs, &[expect]);
	report(r, rep, &col_kind(c))
}
