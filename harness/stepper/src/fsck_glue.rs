//! Glue between the stepping engine and the independent structural checker (pvfsck).

use crate::hist::{Hist, R};
use parity_db::Db;
use pv::{dbutil::DbCfg, Report};
use std::collections::BTreeMap;

pub fn run(_h: &mut Hist, _db: &Db, _rep: &mut Report) -> R<()> {
	Ok(())
}

pub fn run_simple(_path: &std::path::Path, _cfg: &DbCfg, _model: &BTreeMap<Vec<u8>, Vec<u8>>, _rep: &mut Report) -> R<()> {
	Ok(())
}
