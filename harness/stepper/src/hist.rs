//! One seeded history: generator + stepping + oracles.

use crate::{profiles::Profile, sweep};
use parity_db::{BTreeIterator, Db, Operation};
use pv::{
	dbutil::{self, col_kind, do_step, shape, DbCfg, Step},
	gen,
	json::{short_bytes, J},
	model::{ChildSpec, ColModel, Cursor, Model, Op, TreeSpec, Validity},
	scratch::{catch, panic_site, Scratch},
	tree::{TreeAccess, TreeModel},
	Ctx, Report, Rng, Tier,
};
use std::collections::{BTreeMap, BTreeSet};

pub struct Fail {
	pub sig: String,
	pub detail: String,
}

pub type R<T> = Result<T, Fail>;

pub fn fail<T>(sig: impl Into<String>, detail: impl Into<String>) -> R<T> {
	Err(Fail { sig: sig.into(), detail: detail.into() })
}

pub struct Hist<'c> {
	pub ctx: &'c Ctx,
	pub profile: Profile,
	pub tier: Tier,
	pub case_seed: u64,
	pub variant: u64,
	pub rng: Rng,
	pub cfg: DbCfg,
	pub dir: Scratch,
	pub model: Model,
	pub trees: BTreeMap<u8, TreeModel>,
	/// per column key pool (root keys for multitree columns)
	pub pools: Vec<Vec<Vec<u8>>>,
	/// per column keys that are never written
	pub absent: Vec<Vec<Vec<u8>>>,
	/// per column: keys written at least once (reads are validated for these + absent)
	pub used: Vec<BTreeSet<Vec<u8>>>,
	pub trace: Vec<String>,
	pub accepted: u64,
	pub restarts: u64,
	pub big_values: bool,
	/// iterator state (first btree column)
	pub iter_col: Option<u8>,
	pub cursor: Cursor,
	pub iter_positioned: bool,
	pub last_dir_fwd: Option<bool>,
	pub commits_since_iter_call: u64,
	/// C08: background error state was injected
	pub bg_err: bool,
	pub accepted_models: Vec<(Model, BTreeMap<u8, TreeModel>)>,
	/// C09: index of collision group per pool key (usize::MAX = none)
	pub groups: Vec<usize>,
	/// C11: currently held guards (col, root key)
	pub cfg_key: String,
	/// keys whose rc dropped to zero at least once while still queued
	pub zero_crossings: u64,
	pub tree_nonce: u64,
	/// accepted-but-unlogged tree insertions were lost by an error-state shutdown: entries they
	/// claimed may legitimately be unaccounted for (examined under C14, not C08)
	pub entry_counts_unreliable: bool,
	/// the history ends here (after an error-state restart the exact prefix - and with it the
	/// reference counts - is not identifiable from reads alone)
	pub ended: bool,
	/// mirror of the library's commit queue (accepted, not yet logged), in queue order
	pub mirror: std::collections::VecDeque<Vec<Op>>,
	/// (col, key) pairs written by a postponed transaction and by a transaction that overtook it
	pub tainted: BTreeSet<(u8, Vec<u8>)>,
	/// C11: histories that deliberately submit transactions conflicting with a postponed one
	pub f4_probe: bool,
	/// tree readers are locked / released during the history (C11; C03 on its tree layout)
	pub tree_guards: bool,
	pub fresh_key_counter: u64,
	/// C11: reader handles obtained but not (yet) locked
	pub handles: Vec<(Vec<u8>, std::sync::Arc<LockOf>)>,
	/// two-worker schedules: some pipeline steps run with steps of other workers nested at a
	/// hand-over site (`dbutil::do_step_nested`)
	/// transactions that write the whole hot-page pool at once (multi-step index growth in one record)
	pub bursts_left: u32,
	pub nesting: bool,
	/// reads against the model from INSIDE pipeline steps (at the library's hand-over sites)
	pub midstep_reads: bool,
}

pub fn run_case(ctx: &Ctx, rep: &mut Report, profile: Profile, case_seed: u64, variant: u64) {
	if profile == Profile::C06 {
		sweep::run_sweep(ctx, rep, case_seed, variant);
		return
	}
	if matches!(profile, Profile::C09 | Profile::C01 | Profile::C14) && variant % 16 == 7 {
		// a large index migrated in several batches (C09); for C01 the same scenario is "every key
		// keeps returning its latest value" over a key set of ten thousand
		crate::bulk::run_bulk(ctx, rep, profile.name(), case_seed, variant);
		return
	}
	if matches!(profile, Profile::C10 | Profile::C14) && variant % 16 == 11 {
		// growth of the ref-count table of shared tree nodes (needs > 10^6 node addresses)
		crate::rcgrow::run(ctx, rep, profile.name(), case_seed, variant);
		return
	}
	let mut rng = Rng::new(case_seed);
	let cfg = profile.config(&mut rng, variant);
	let desc = format!("{} case_seed={} variant={} cfg=[{}]", profile.name(), case_seed, variant, cfg.describe());
	ctx.mark(&desc);
	let mut h = Hist::new(ctx, profile, case_seed, variant, rng, cfg);
	let res = catch(|| h.run(rep));
	let (sig, detail) = match res {
		Ok(Ok(())) => {
			if rep.samples.len() < 3 {
				rep.sample(
					J::obj()
						.set("case", J::s(desc))
						.set("steps", J::i(h.trace.len() as u64))
						.set("trace_head", J::strs(h.trace.iter().take(40).cloned())),
				);
			}
			return
		},
		Ok(Err(f)) => (f.sig, f.detail),
		Err(p) => (
			format!("failure=panic;site={}", panic_site(&p)),
			format!("panic inside a library call or oracle: {}", p),
		),
	};
	let sig = format!("scenario={};{}", profile.name(), sig);
	let n = h.trace.len();
	let tail: Vec<String> = h.trace[n.saturating_sub(60)..].to_vec();
	rep.violation(
		sig,
		format!("{}\n  after step {}: {}", detail, n, h.trace.last().cloned().unwrap_or_default()),
		J::obj()
			.set("engine", J::s("stepper"))
			.set("case", J::s(desc))
			.set("case_seed", J::i(case_seed))
			.set("variant", J::i(variant))
			.set("shard_seed", J::i(ctx.seed))
			.set("failing_step", J::i(n as u64))
			.set("trace_tail", J::strs(tail)),
	);
}

struct DbTree<'a> {
	db: &'a Db,
	col: u8,
	key: &'a [u8],
	direct: bool,
}

impl<'a> TreeAccess for DbTree<'a> {
	fn root(&self) -> Result<Option<(Vec<u8>, Vec<u64>)>, String> {
		if self.direct {
			return self.db.get_root(self.col, self.key).map_err(|e| format!("get_root error: {}", e))
		}
		let t = self.db.get_tree(self.col, self.key).map_err(|e| format!("get_tree error: {}", e))?;
		match t {
			None => Ok(None),
			Some(t) => {
				let g = t.read();
				g.get_root().map_err(|e| format!("TreeReader::get_root error: {}", e))
			},
		}
	}
	fn node(&self, addr: u64) -> Result<Option<(Vec<u8>, Vec<u64>)>, String> {
		if self.direct {
			let n = self.db.get_node(self.col, addr).map_err(|e| format!("get_node error: {}", e))?;
			// cross-check get_node_children
			let c = self.db.get_node_children(self.col, addr).map_err(|e| format!("get_node_children error: {}", e))?;
			match (&n, &c) {
				(Some((_, ch)), Some(c2)) if ch == c2 => {},
				(None, None) => {},
				_ => return Err(format!("get_node and get_node_children disagree at {:#x}", addr)),
			}
			return Ok(n)
		}
		let t = self.db.get_tree(self.col, self.key).map_err(|e| format!("get_tree error: {}", e))?;
		match t {
			None => Err("tree reader unavailable for a live root".to_string()),
			Some(t) => {
				let g = t.read();
				let n = g.get_node(addr).map_err(|e| format!("TreeReader::get_node error: {}", e))?;
				let c = g.get_node_children(addr).map_err(|e| format!("TreeReader::get_node_children error: {}", e))?;
				match (&n, &c) {
					(Some((_, ch)), Some(c2)) if ch == c2 => {},
					(None, None) => {},
					_ => return Err(format!("get_node and get_node_children disagree at {:#x}", addr)),
				}
				Ok(n)
			},
		}
	}
}

impl<'c> Hist<'c> {
	pub fn new(ctx: &'c Ctx, profile: Profile, case_seed: u64, variant: u64, mut rng: Rng, cfg: DbCfg) -> Hist<'c> {
		let dir = Scratch::new("st");
		let model = Model::new(&cfg.cols);
		let mut trees = BTreeMap::new();
		let tree_layout = cfg.cols[0].multitree && !cfg.cols[0].append_only;
		let mut pools = vec![];
		let mut absent = vec![];
		let mut groups = vec![];
		let big_values = rng.chance(1, 3);
		for (i, c) in cfg.cols.iter().enumerate() {
			let n = match profile {
				Profile::C07 => rng.range(6, 24) as usize,
				Profile::C09 => ctx.tier.pick(rng.range(100, 150), rng.range(120, 320)) as usize,
				_ => rng.range(6, 36) as usize,
			};
			if c.multitree {
				trees.insert(i as u8, TreeModel::new(c.append_only, c.ref_counted));
				let p = gen::key_pool(&mut rng, n.max(8), false);
				pools.push(p);
				absent.push(vec![]);
			} else if c.uniform && cfg.salt == Some([0u8; 32]) {
				let n = if profile == Profile::C09 { n } else { rng.range(90, 130) as usize };
				let (p, g) = adversarial_pool(&mut rng, n, true);
				if i == 0 {
					groups = g;
				}
				let a: Vec<Vec<u8>> = (0..8)
					.map(|j| {
						// absent keys live in the hot page too, some sharing a stored prefix
						let mut k = p[j % p.len()].clone();
						let t = rng.bytes(24);
						k[8..32].copy_from_slice(&t);
						k
					})
					.collect();
				pools.push(p);
				absent.push(a);
			} else if c.uniform {
				// keys longer than 32 bytes are admitted by the column type; with a real (non-zero)
				// salt the whole key is hashed, so keys that agree on their first 32 bytes and
				// differ only behind them are different keys: families of such siblings
				let mut p = gen::uniform_key_pool(&mut rng, n, true);
				let mut a = gen::uniform_key_pool(&mut rng, 8, true);
				if cfg.salt != Some([0u8; 32]) {
					let bases: Vec<Vec<u8>> = p.iter().take(3).map(|k| k[..32].to_vec()).collect();
					for b in bases {
						for tail in [&[][..], &[0u8][..], &[1u8][..], &[0u8, 0][..], &[7u8; 40][..]] {
							let mut k = b.clone();
							k.extend_from_slice(tail);
							if !p.contains(&k) {
								if rng.chance(1, 5) {
									a.push(k);
								} else {
									p.push(k);
								}
							}
						}
					}
				}
				pools.push(p);
				absent.push(a);
			} else if c.btree_index && matches!(profile, Profile::C04 | Profile::C14) && variant % 4 == 0 && cfg.cols.iter().position(|x| x.btree_index) == Some(i) {
				// dense integer keys: enough of them to force splits / merges at depth >= 2
				let n = rng.range(200, 700) as usize;
				let base = rng.below(1 << 20);
				let p: Vec<Vec<u8>> = (0..n as u64).map(|j| ((base + j * 3) as u32).to_be_bytes().to_vec()).collect();
				let a: Vec<Vec<u8>> = (0..8u64).map(|j| ((base + j * 3 + 1) as u32).to_be_bytes().to_vec()).collect();
				pools.push(p);
				absent.push(a);
			} else {
				let mut p = gen::key_pool(&mut rng, n + 8, c.btree_index);
				let a = p.split_off(n);
				pools.push(p);
				absent.push(a);
			}
		}
		// ordered iteration is only specified against committed state for columns without
		// reference counting (a dereference is not mirrored in the commit overlay, C07)
		let iter_col = cfg.cols.iter().position(|c| c.btree_index && !c.ref_counted).map(|i| i as u8);
		let used = cfg.cols.iter().map(|_| BTreeSet::new()).collect();
		let cfg_key = cfg.describe();
		Hist {
			ctx,
			profile,
			tier: ctx.tier,
			case_seed,
			variant,
			rng,
			cfg,
			dir,
			model,
			trees,
			pools,
			absent,
			used,
			trace: vec![],
			accepted: 0,
			restarts: 0,
			big_values,
			iter_col,
			cursor: Cursor::Start,
			iter_positioned: false,
			last_dir_fwd: None,
			commits_since_iter_call: 0,
			bg_err: false,
			accepted_models: vec![],
			groups,
			cfg_key,
			zero_crossings: 0,
			tree_nonce: 0,
			entry_counts_unreliable: false,
			ended: false,
			mirror: Default::default(),
			tainted: BTreeSet::new(),
			f4_probe: profile == Profile::C11 && variant % 3 == 0,
			tree_guards: profile == Profile::C11 || (profile == Profile::C03 && tree_layout),
			fresh_key_counter: 0,
			handles: vec![],
			bursts_left: if variant % 3 != 0 { 1 } else { 0 },
			nesting: profile != Profile::C11 && !tree_layout && (variant / 2) % 3 == 1,
			midstep_reads: profile != Profile::C11 && !tree_layout && variant % 2 == 0,
		}
	}

	fn log(&mut self, s: String) {
		if self.ctx.verbose {
			eprintln!("  [{}] {}", self.trace.len() + 1, s);
		}
		self.trace.push(s);
	}

	fn open(&mut self, rep: &mut Report) -> R<dbutil::Handle> {
		let opts = self.cfg.options(&self.dir.path.join("db"));
		match Db::open_or_create(&opts) {
			Ok(db) => Ok(dbutil::Handle::new(db)),
			Err(e) => {
				let _ = rep;
				fail("failure=open_error", format!("open_or_create failed: {}", e))
			},
		}
	}

	pub fn run(&mut self, rep: &mut Report) -> R<()> {
		let mut steps_left = self.profile.steps(&mut self.rng, self.tier);
		self.count_cfg(rep);
		while steps_left > 0 {
			let db = self.open(rep)?;
			if self.restarts > 0 {
				self.log("validate after reopen".into());
				self.validate(&db, rep, true)?;
				if self.ended {
					db.close();
					return Ok(())
				}
			}
			self.segment(&db, rep, &mut steps_left)?;
			self.close(db, rep)?;
		}
		// final: reopen, validate, drain, validate, structural check, reopen, validate
		let db = self.open(rep)?;
		self.log("final validate after reopen".into());
		self.validate(&db, rep, true)?;
		if self.ended {
			db.close();
			return Ok(())
		}
		self.drain(&db, rep)?;
		self.validate(&db, rep, true)?;
		self.quiescent_checks(&db, rep)?;
		self.close(db, rep)?;
		let db = self.open(rep)?;
		self.log("validate after final reopen".into());
		self.validate(&db, rep, true)?;
		db.close();
		Ok(())
	}

	fn count_cfg(&self, rep: &mut Report) {
		for c in &self.cfg.cols {
			if c.uniform {
				rep.count("cfg_uniform", 1);
			}
			if c.preimage && !c.ref_counted {
				rep.count("cfg_preimage", 1);
			}
			if c.compression != parity_db::CompressionType::NoCompression {
				rep.count("cfg_compressed", 1);
			}
			if c.btree_index && c.ref_counted {
				rep.count("cfg_btree_rc", 1);
			}
			if c.multitree && c.append_only {
				rep.count("cfg_append_only", 1);
			}
			if c.multitree && c.ref_counted {
				rep.count("cfg_rc_roots", 1);
			}
			if c.multitree && c.allow_direct_node_access {
				rep.count("cfg_direct", 1);
			}
		}
	}

	fn close(&mut self, db: dbutil::Handle, rep: &mut Report) -> R<()> {
		if std::env::var("PDBV_DEBUG_DRAIN_BEFORE_DROP").is_ok() {
			self.log("debug: drain before drop".into());
			self.drain(&db, rep)?;
			self.validate(&db, rep, true)?;
		}
		if self.tree_guards && !self.bg_err {
			// log the queue through tracked steps: a postponement inside drop would reorder
			// transactions without the queue mirror noticing (finding F4 is classified by it)
			// No tree reader is locked any more (guards and handles were given up before the
			// handle is closed): "once the lock is released the postponed removal completes" -
			// every round of the log worker must now log a transaction. A queue that only rotates
			// (each head postponed behind a later transaction) is a livelock: the worker spins
			// forever, and so would drop.
			let mut bound = 0;
			let mut stalled = 0usize;
			while db.verif_status().queued_commits > 0 && bound < 10_000 {
				let before = db.verif_status().queued_commits;
				self.pipeline(&db, rep, Step::ProcessCommits)?;
				bound += 1;
				if db.verif_status().queued_commits >= before {
					stalled += 1;
				} else {
					stalled = 0;
				}
				if stalled > 3 * before + 10 {
					let both = self.mirror.iter().filter(|tx| tx.iter().any(|o| matches!(o, Op::InsertTree(..))) && tx.iter().any(|o| matches!(o, Op::DerefTree(..)))).count();
					let queued: Vec<String> = self.mirror.iter().map(|tx| format!("[{}]", tx.iter().map(|o| o.show()).collect::<Vec<_>>().join(", "))).collect();
					rep.count("postponement_livelocks", 1);
					return fail(
						format!("failure=postponement_livelock;mutual_insert_deref={}", both >= 2),
						format!(
							"no tree reader is locked, yet {} consecutive rounds of the log worker postponed the head of the queue again ({} transactions keep rotating, none is ever logged; dropping the handle would never return). Queued: {}",
							stalled,
							before,
							queued.join(" ; ")
						),
					)
				}
			}
		}
		// rule L2: make the drop legal (what the cleanup worker would have done)
		if !self.bg_err {
			if let Err(e) = dbutil::make_drop_legal(&db) {
				return fail("failure=step_error;step=pre_drop", format!("{}", e))
			}
		}
		let st = db.verif_status();
		let sh = shape(&st);
		if st.queued_commits > 0 {
			rep.count("drop_with_queued", 1);
		}
		if st.appending.map_or(false, |a| a.1 > 0) {
			rep.count("drop_with_logged_unflushed", 1);
		}
		if st.read_queue_len > 0 || st.reading.is_some() {
			rep.count("drop_with_flushed_unenacted", 1);
		}
		if st.next_reindex != 0 && st.columns.iter().any(|c| !c.reindex_index_bits.is_empty()) {
			rep.count("drop_with_reindex_pending", 1);
			rep.count("restart_during_reindex", 1);
		}
		self.log(format!("drop handle at shape {}", sh));
		if self.profile == Profile::C03 {
			rep.seen(format!("drop@{}|{}", sh, self.cfg_key));
		}
		self.ctx.progress();
		if std::env::var("PDBV_DEBUG_VALIDATE_BEFORE_DROP").is_ok() {
			self.log("debug: validate right before the drop".into());
			self.validate(&db, rep, false)?;
		}
		db.close();
		self.mirror.clear();
		self.restarts += 1;
		rep.count("restarts", 1);
		self.iter_positioned = false;
		self.cursor = Cursor::Start;
		Ok(())
	}

	fn drain(&mut self, db: &Db, rep: &mut Report) -> R<()> {
		// log the queue through the tracked step so that the queue mirror stays exact
		loop {
			let st = db.verif_status();
			if st.queued_commits == 0 {
				break
			}
			self.pipeline(db, rep, Step::ProcessCommits)?;
			if db.verif_status().queued_commits >= st.queued_commits {
				break
			}
		}
		self.log("drain pipeline".into());
		match dbutil::drain_opt(db, false) {
			Ok(rounds) => {
				rep.max("drain_rounds", rounds as u64);
				Ok(())
			},
			Err(e) => fail("failure=step_error;step=drain", format!("{}", e)),
		}
	}

	// ------------------------------------------------------------------ segment loop

	fn segment(&mut self, db: &Db, rep: &mut Report, steps_left: &mut usize) -> R<()> {
		let mut iter: Option<BTreeIterator> = None;
		let mut mood = self.rng.below(4);
		let mut mood_left = self.rng.range(5, 25);
		let mut guards: Vec<(u8, Vec<u8>, Box<dyn std::any::Any>)> = vec![];
		if self.accepted == 0 && self.restarts == 0 && !self.cfg.cols[0].multitree && !self.cfg.cols[0].btree_index && self.cfg.cols[0].uniform && self.cfg.salt == Some([0u8; 32]) && self.pools[0].len() >= 4 && self.rng.chance(1, 2) {
			// opening of an identity-hashed history: the first four keys of the pool are a
			// near-miss quartet (equal on bits 0..48, different in bits 48/49): on the empty page
			// they take one aligned group of four slots while the index still has 16 bits - the
			// only index size at which the vectorised search cannot tell them apart
			let quartet: Vec<Vec<u8>> = self.pools[0][..4].to_vec();
			if quartet.iter().all(|k| k[..6] == quartet[0][..6]) {
				let one_tx = self.rng.chance(1, 2);
				let mut tx = vec![];
				let contract = self.cfg.cols[0].preimage || self.cfg.cols[0].ref_counted;
				for k in &quartet {
					// (preimage / counted columns: the value is a function of the key)
					let v = if contract { gen::value_for_key(k, self.big_values) } else { gen::random_value(&mut self.rng, false) };
					tx.push(Op::Set(0, k.clone(), v));
					if !one_tx {
						self.commit_tx(db, rep, std::mem::take(&mut tx), None)?;
						if self.rng.chance(1, 2) {
							self.pipeline(db, rep, Step::ProcessCommits)?;
						}
						self.validate(db, rep, false)?;
					}
				}
				if one_tx {
					self.commit_tx(db, rep, tx, None)?;
				}
				self.pipeline(db, rep, Step::ProcessCommits)?;
				self.validate(db, rep, false)?;
				rep.count("near_miss_quartet_openings", 1);
			}
		}
		while *steps_left > 0 {
			*steps_left -= 1;
			self.ctx.progress();
			if mood_left == 0 {
				mood = self.rng.below(4);
				mood_left = self.rng.range(5, 25);
			}
			mood_left -= 1;
			// weights: commit, process, reindex, flush, enact_one, enact_all, clean, restart, iter, drain, special
			let mut w: [u32; 11] = match mood {
				0 => [60, 6, 2, 3, 3, 1, 2, 1, 10, 0, 4],  // pile up in the queue
				1 => [30, 30, 6, 4, 3, 1, 2, 1, 10, 0, 4], // logged, unflushed
				2 => [25, 20, 6, 14, 10, 2, 4, 1, 10, 0, 4], // flushed / half enacted
				_ => [20, 18, 6, 10, 8, 8, 10, 2, 10, 1, 4], // moving to the tables
			};
			if self.iter_col.is_none() {
				w[8] = 0;
			}
			if self.profile == Profile::C04 {
				w[8] = 45;
			}
			if self.profile == Profile::C03 {
				w[7] = 8;
			}
			if self.profile == Profile::C09 {
				w[2] = 14;
				w[7] = 3;
			} else if self.cfg.salt == Some([0u8; 32]) {
				// identity-hashed columns grow their index: give the reindex stage its share
				w[2] = w[2].max(8);
			}
			if !matches!(self.profile, Profile::C08 | Profile::C11) {
				w[10] = 0;
			}
			if self.profile == Profile::C11 {
				w[10] = 30;
			} else if self.tree_guards {
				w[10] = 20;
			}
			if self.bg_err {
				// after a background error only commits (all refused) and reads make sense
				w = [50, 0, 0, 0, 0, 0, 0, 6, 10, 0, 0];
				if self.iter_col.is_none() {
					w[8] = 0;
				}
			}
			let a = self.rng.weighted(&w);
			match a {
				0 => self.do_commit(db, rep)?,
				1 => self.pipeline(db, rep, Step::ProcessCommits)?,
				2 => self.pipeline(db, rep, Step::ProcessReindex)?,
				3 => self.pipeline(db, rep, Step::FlushLogs)?,
				4 => self.pipeline(db, rep, Step::EnactOne)?,
				5 => self.pipeline(db, rep, Step::EnactAll)?,
				6 => self.pipeline(db, rep, Step::CleanLogs)?,
				7 => {
					drop(iter.take());
					guards.clear();
					self.handles.clear();
					return Ok(())
				},
				8 => {
					self.iter_burst(db, rep, &mut iter)?;
					continue
				},
				9 => {
					self.drain(db, rep)?;
					// a postponed tree removal (locked reader) keeps the queue non-empty
					let settled = db.verif_status().queued_commits == 0;
					self.validate(db, rep, settled)?;
					if settled {
						self.quiescent_checks(db, rep)?;
					}
					continue
				},
				_ => self.special(db, rep, &mut guards)?,
			}
			self.validate(db, rep, false)?;
			if !guards.is_empty() {
				self.guard_reads(db, rep, &guards)?;
			}
		}
		drop(iter.take());
		if !guards.is_empty() {
			self.log("release all tree guards".into());
			guards.clear();
		}
		self.handles.clear();
		Ok(())
	}

	fn pipeline(&mut self, db: &Db, rep: &mut Report, step: Step) -> R<()> {
		let before = db.verif_status();
		let nest = if self.nesting && self.rng.chance(1, 5) { pv::dbutil::random_nest(&mut self.rng, step) } else { None };
		let mut inner_logged = 0usize;
		if let Some(n) = &nest {
			self.log(format!("{}{} (shape {})", step.name(), n.show(), shape(&before)));
			let (r, out) = pv::dbutil::do_step_nested(db, step, n);
			if let Err(e) = r {
				return fail(format!("failure=step_error;step={}", step.name()), format!("{}{} returned {}", step.name(), n.show(), e))
			}
			if let Some(e) = out.inner_err {
				return fail(format!("failure=step_error;step={}", step.name()), format!("inner step of {}{} returned {}", step.name(), n.show(), e))
			}
			if out.fired {
				rep.count("nested_schedules_fired", 1);
				rep.seen(format!("nest|{}|{}|{}", step.name(), n.site, n.inner.iter().map(|s| s.name()).collect::<Vec<_>>().join("+")));
				if step != Step::ProcessCommits {
					// commits written to the log by inner process_commits steps (no tree guard is
					// held in these profiles, so nothing is postponed)
					inner_logged = before.queued_commits.saturating_sub(db.verif_status().queued_commits);
				}
			}
		} else {
			self.log(format!("{} (shape {})", step.name(), shape(&before)));
			let r = if self.midstep_reads {
				self.step_with_midstep_reads(db, rep, step)?
			} else if self.tree_guards && step == Step::ProcessCommits {
				// guards are held on this thread: a log worker that WAITS for a tree lock instead of
				// postponing the dereference can never return here
				match pv::dbutil::do_step_watched(db, step, std::time::Duration::from_secs(8)) {
					Ok(r) => r,
					Err(why) => {
						rep.count("log_worker_blocked", 1);
						return fail(
							"failure=log_worker_blocked_by_tree_lock",
							format!("process_commits does not return while a tree reader guard is held by the client: the log worker waits for the lock instead of postponing the dereference (nothing behind it in the queue can be logged until the client acts). {}", why),
						)
					},
				}
			} else {
				do_step(db, step)
			};
			if let Err(e) = r {
				return fail(format!("failure=step_error;step={}", step.name()), format!("{} returned {}", step.name(), e))
			}
		}
		for _ in 0..inner_logged {
			self.mirror.pop_front();
			rep.count("commits_logged", 1);
		}
		let after = db.verif_status();
		if step == Step::ProcessReindex && after.next_record_id > before.next_record_id {
			rep.count("reindex_batches", 1);
		}
		if before.queued_commits > after.queued_commits && after.queued_commits == before.queued_commits - 1 && step == Step::ProcessCommits {
			rep.count("commits_logged", 1);
		}
		if step == Step::ProcessCommits && before.queued_commits > 0 {
			if after.queued_commits + 1 == before.queued_commits {
				self.mirror.pop_front();
			} else if after.queued_commits == before.queued_commits {
				// the head transaction was postponed (its tree is locked) and re-queued at the back:
				// everything queued behind it now overtakes it
				rep.count("deferred_commits", 1);
				if let Some(d) = self.mirror.pop_front() {
					for op in &d {
						let hit = self.mirror.iter().any(|t| t.iter().any(|o| o.col() == op.col() && o.key() == op.key()));
						if hit {
							self.tainted.insert((op.col(), op.key().clone()));
							rep.count("deferred_overtaken_keys", 1);
						}
					}
					self.mirror.push_back(d);
				}
			}
		}
		let grown: usize = after.columns.iter().zip(before.columns.iter()).map(|(a, b)| (a.index_bits.unwrap_or(0) as usize).saturating_sub(b.index_bits.unwrap_or(0) as usize)).sum();
		if grown > 0 {
			rep.count("index_growths", grown as u64);
			if step == Step::ProcessReindex {
				rep.count("growth_from_reindex_batch", grown as u64);
			} else {
				rep.count("growth_from_commit", grown as u64);
				if grown >= 2 {
					rep.count("growth_multi_step_records", 1);
				}
			}
		}
		for c in &after.columns {
			if let Some(b) = c.index_bits {
				rep.max("index_bits", b as u64);
			}
		}
		Ok(())
	}

	/// Run one pipeline step with a yield hook that, at up to three of the hand-over sites the
	/// step passes, reads every tracked key of every key-value column and compares with the model
	/// (what a reader thread would see at that very moment: C01 "no matter how far each commit has
	/// progressed", C05 "latest at some moment of the read"; the model is exact here because the
	/// harness is the only client). The hook runs on this thread, inside the library call.
	fn step_with_midstep_reads(&mut self, db: &Db, rep: &mut Report, step: Step) -> R<parity_db::Result<()>> {
		let budget = 3;
		let skip = self.rng.below(4) as u32;
		MID.with(|m| {
			*m.borrow_mut() = Some(MidCtx { hist: self as *mut Hist as *mut (), db: db as *const Db, rep: rep as *mut Report, budget, skip, failure: None, reads: 0 });
		});
		parity_db::verif::set_yield_hook(Some(mid_hook));
		let r = do_step(db, step);
		parity_db::verif::set_yield_hook(None);
		let ctx = MID.with(|m| m.borrow_mut().take());
		if let Some(c) = ctx {
			if c.reads > 0 {
				rep.count("midstep_read_points", c.reads as u64);
				rep.seen(format!("mid|{}", step.name()));
			}
			if let Some((site, f)) = c.failure {
				return Err(Fail { sig: format!("{};inside={};site={}", f.sig, step.name(), site), detail: format!("read from inside {} at hand-over site {}: {}", step.name(), site, f.detail) })
			}
		}
		Ok(r)
	}

	// ------------------------------------------------------------------ commits

	fn gen_kv_ops(&mut self, c: u8, n: usize, out: &mut Vec<Op>) {
		let o = self.cfg.cols[c as usize].clone();
		for _ in 0..n {
			let pool = &self.pools[c as usize];
			let k = if self.profile == Profile::C09 && self.rng.chance(1, 4) && !self.used[c as usize].is_empty() {
				// revisit a written key (replacement / removal of existing entries)
				let i = self.rng.usize(self.used[c as usize].len());
				self.used[c as usize].iter().nth(i).unwrap().clone()
			} else {
				pool[self.rng.usize(pool.len())].clone()
			};
			let r = self.rng.below(100);
			let op = if o.ref_counted {
				if r < 40 {
					Op::Set(c, k.clone(), gen::value_for_key(&k, self.big_values))
				} else if r < 62 {
					Op::Ref(c, k)
				} else {
					Op::Deref(c, k)
				}
			} else if r < 62 {
				let v = if o.preimage {
					gen::value_for_key(&k, self.big_values)
				} else if self.profile == Profile::C09 {
					let len = if self.rng.chance(1, 5) { self.rng.range(100, 700) as usize } else { self.rng.range(0, 60) as usize };
					self.rng.bytes(len)
				} else {
					gen::random_value(&mut self.rng, self.big_values)
				};
				Op::Set(c, k, v)
			} else {
				Op::Deref(c, k)
			};
			out.push(op);
		}
	}

	fn gen_tx(&mut self) -> Vec<Op> {
		let ncols = self.cfg.cols.len();
		let mut tx = vec![];
		let touch = if ncols == 1 || self.rng.chance(1, 2) { 1 } else { self.rng.range(1, ncols as u64) as usize };
		let mut cols: Vec<u8> = (0..ncols as u8).collect();
		self.rng.shuffle(&mut cols);
		cols.truncate(touch);
		for c in cols {
			if self.cfg.cols[c as usize].multitree {
				self.gen_tree_ops(c, &mut tx);
				if matches!(self.profile, Profile::C08 | Profile::C10 | Profile::C14) && self.rng.chance(1, 3) {
					self.gen_extra_tree_ops(c, &mut tx);
				}
			} else {
				let n = match self.rng.below(10) {
					0 => 0,
					1..=6 => self.rng.range(1, 6) as usize,
					7 | 8 => self.rng.range(6, 24) as usize,
					_ => 1,
				};
				let n = if self.profile == Profile::C09 { n.max(1) * 3 } else { n };
				let n = if self.pools[c as usize].len() >= 200 { n * 12 } else { n };
				let o = &self.cfg.cols[c as usize];
				if o.uniform && self.cfg.salt == Some([0u8; 32]) && self.bursts_left > 0 && self.accepted > 1 && self.rng.chance(1, 10) {
					// burst: every key of the (hot-page) pool written by ONE transaction, so that a
					// single log record grows the index by several steps
					self.bursts_left -= 1;
					let preimage = o.preimage;
					let keys = self.pools[c as usize].clone();
					for k in keys {
						let v = if preimage { gen::value_for_key(&k, self.big_values) } else { self.rng.bytes_in(0, 48) };
						tx.push(Op::Set(c, k, v));
					}
					continue
				}
				self.gen_kv_ops(c, n, &mut tx);
			}
		}
		// operations of different columns interleaved in the order given
		if self.rng.chance(1, 3) {
			self.rng.shuffle(&mut tx);
			// keep tree operations of one column from referring to a root twice in one transaction
			self.dedup_tree_ops(&mut tx);
		}
		tx
	}

	fn dedup_tree_ops(&self, tx: &mut Vec<Op>) {
		let mut seen = BTreeSet::new();
		tx.retain(|op| match op {
			Op::InsertTree(c, k, _) | Op::RefTree(c, k) | Op::DerefTree(c, k) => seen.insert((*c, k.clone())),
			_ => true,
		});
	}

	fn random_tree(&mut self, c: u8, depth: u32, budget: &mut i32, tm_nodes: &[u64], shared: &mut u64) -> TreeSpec {
		let big = self.rng.chance(1, 60);
		let dlen = if big { self.rng.range(32_000, 34_000) as usize } else if self.rng.chance(1, 8) { self.rng.range(100, 600) as usize } else { self.rng.range(0, 40) as usize };
		self.tree_nonce += 1;
		let mut data = self.rng.bytes(dlen);
		// unique content so that a node mix-up is visible
		data.extend_from_slice(&self.tree_nonce.to_le_bytes());
		if self.rng.chance(1, 14) {
			// a node without payload (node sizes start at zero)
			data.clear();
		}
		let mut children = vec![];
		if depth > 0 && *budget > 0 {
			let fan = match self.rng.below(40) {
				0 => 255,
				1 => self.rng.range(20, 60) as usize,
				2..=9 => 0,
				_ => self.rng.range(1, 5) as usize,
			};
			for _ in 0..fan {
				if !tm_nodes.is_empty() && self.rng.chance(1, 4) {
					children.push(ChildSpec::Existing(*self.rng.pick(tm_nodes)));
					*shared += 1;
				} else if *budget > 0 {
					*budget -= 1;
					let leafy = fan > 8;
					let t = self.random_tree(c, if leafy { 0 } else { depth - 1 }, budget, tm_nodes, shared);
					children.push(ChildSpec::New(t));
				} else {
					self.tree_nonce += 1;
					children.push(ChildSpec::New(TreeSpec::leaf(self.tree_nonce.to_le_bytes().to_vec())));
				}
			}
		}
		TreeSpec { data, children }
	}

	fn gen_tree_ops(&mut self, c: u8, tx: &mut Vec<Op>) {
		let tm = self.trees.get(&c).unwrap().clone();
		let live: Vec<Vec<u8>> = tm.roots.keys().cloned().collect();
		let r = self.rng.below(100);
		let insert = live.len() < 2 || r < 45;
		if insert {
			let probe = self.f4_probe;
			let pending: BTreeSet<Vec<u8>> = self.mirror.iter().flatten().filter(|o| o.col() == c).map(|o| o.key().clone()).collect();
			// a root key whose removal may still be postponed is only re-used by the F4 probe histories
			let free: Vec<Vec<u8>> = self.pools[c as usize].iter().filter(|k| !tm.roots.contains_key(*k) && (probe || !pending.contains(*k))).cloned().collect();
			if free.is_empty() {
				return
			}
			let k = self.rng.pick(&free).clone();
			let addressable = if tm.append_only && self.rng.chance(1, 2) { vec![] } else { tm.addressable() };
			let mut budget = self.rng.range(0, 40) as i32;
			let mut shared = 0;
			let depth = self.rng.range(0, 5) as u32;
			let spec = self.random_tree(c, depth, &mut budget, &addressable, &mut shared);
			tx.push(Op::InsertTree(c, k, spec));
		} else if r < 60 && (tm.rc_roots || tm.append_only) {
			tx.push(Op::RefTree(c, self.rng.pick(&live).clone()));
		} else if !tm.append_only {
			tx.push(Op::DerefTree(c, self.rng.pick(&live).clone()));
		} else {
			tx.push(Op::RefTree(c, self.rng.pick(&live).clone()));
		}
	}

	/// More tree operations of the same column in the same transaction (on other roots): all-new
	/// insertions, dereferences and references of live trees none of whose nodes the
	/// transaction's insertions name. Valid in any order.
	fn gen_extra_tree_ops(&mut self, c: u8, tx: &mut Vec<Op>) {
		fn existing_ids(t: &TreeSpec, out: &mut BTreeSet<u64>) {
			for ch in &t.children {
				match ch {
					ChildSpec::Existing(id) => {
						out.insert(*id);
					},
					ChildSpec::New(n) => existing_ids(n, out),
				}
			}
		}
		let tm = self.trees.get(&c).unwrap().clone();
		let mut named = BTreeSet::new();
		let mut roots_in_tx: BTreeSet<Vec<u8>> = BTreeSet::new();
		for op in tx.iter() {
			if op.col() != c {
				continue
			}
			if let Op::InsertTree(_, k, spec) = op {
				existing_ids(spec, &mut named);
				roots_in_tx.insert(k.clone());
			} else {
				roots_in_tx.insert(op.key().clone());
			}
		}
		let pending: BTreeSet<Vec<u8>> = self.mirror.iter().flatten().filter(|o| o.col() == c).map(|o| o.key().clone()).collect();
		for _ in 0..self.rng.range(1, 2) {
			let live: Vec<Vec<u8>> = tm
				.roots
				.keys()
				.filter(|k| !roots_in_tx.contains(*k) && !pending.contains(*k) && tm.reachable(k).is_disjoint(&named))
				.cloned()
				.collect();
			let free: Vec<Vec<u8>> = self.pools[c as usize].iter().filter(|k| !tm.roots.contains_key(*k) && !roots_in_tx.contains(*k) && !pending.contains(*k)).cloned().collect();
			match self.rng.below(3) {
				0 if !free.is_empty() => {
					let k = self.rng.pick(&free).clone();
					let mut budget = self.rng.range(1, 6) as i32;
					let mut shared = 0;
					let spec = self.random_tree(c, 2, &mut budget, &[], &mut shared);
					roots_in_tx.insert(k.clone());
					tx.push(Op::InsertTree(c, k, spec));
				},
				1 if !live.is_empty() && !tm.append_only => {
					let k = self.rng.pick(&live).clone();
					roots_in_tx.insert(k.clone());
					tx.push(Op::DerefTree(c, k));
				},
				_ if !live.is_empty() && (tm.rc_roots || tm.append_only) => {
					let k = self.rng.pick(&live).clone();
					roots_in_tx.insert(k.clone());
					tx.push(Op::RefTree(c, k));
				},
				_ => {},
			}
		}
	}

	/// Convert to database operations, resolving model node ids to addresses.
	fn to_db_tx(&self, tx: &[Op]) -> Vec<(u8, Operation<Vec<u8>, Vec<u8>>)> {
		tx.iter()
			.map(|op| match op {
				Op::InsertTree(c, k, spec) => {
					let tm = self.trees.get(c);
					let resolve = |id: u64| tm.and_then(|t| t.addr_of(id)).unwrap_or(id);
					(*c, Operation::InsertTree(k.clone(), spec.to_new_node(&resolve)))
				},
				other => other.to_db(),
			})
			.collect()
	}

	pub fn tx_validity(&self, tx: &[Op]) -> Validity {
		// sequential judgement: tree validity depends on earlier operations of the same transaction
		let mut trees = self.trees.clone();
		for op in tx {
			let o = &self.cfg.cols[op.col() as usize];
			if o.multitree {
				let tm = trees.get_mut(&op.col()).unwrap();
				match tm.validity(op) {
					Validity::Valid => tm.apply(op),
					inv => return inv,
				}
			} else if let Validity::Invalid(s) = self.model.validity(std::slice::from_ref(op)) {
				return Validity::Invalid(s)
			}
		}
		Validity::Valid
	}

	fn apply_tx(&mut self, tx: &[Op]) {
		for op in tx {
			let c = op.col();
			if self.cfg.cols[c as usize].multitree {
				self.trees.get_mut(&c).unwrap().apply(op);
			} else {
				// rc bookkeeping for coverage
				if let (Op::Deref(..), ColModel::Rc(_)) = (op, &self.model.cols[c as usize]) {
					if self.model.count(c, op.key()) == 1 {
						self.zero_crossings += 1;
					}
				}
				self.model.apply(std::slice::from_ref(op));
				self.used[c as usize].insert(op.key().clone());
			}
		}
	}

	fn do_commit(&mut self, db: &Db, rep: &mut Report) -> R<()> {
		let mut tx = self.gen_tx();
		if self.tree_guards && !self.f4_probe && tx.iter().any(|o| matches!(o, Op::DerefTree(..))) {
			// a tree dereference may be postponed; outside the F4 probe histories it travels
			// without writes to keys that other transactions also write
			tx.retain(|o| self.cfg.cols[o.col() as usize].multitree);
		}
		let mut invalid_kind = None;
		if self.profile == Profile::C08 && !self.bg_err && self.rng.chance(1, 4) {
			invalid_kind = self.make_invalid(&mut tx, None);
		} else if self.profile == Profile::C14 && !self.bg_err && self.rng.chance(1, 12) {
			// C14: a rejected transaction must not leave claimed-but-unused slots behind either
			let kind = if self.rng.chance(1, 2) { 4 } else { 5 };
			invalid_kind = self.make_invalid(&mut tx, Some(kind));
		} else if self.profile == Profile::C10 && self.rng.chance(1, 10) {
			// C10: "an insertion that cannot be represented is rejected instead of being stored wrongly"
			invalid_kind = self.make_invalid(&mut tx, Some(5));
		}
		self.commit_tx(db, rep, tx, invalid_kind)
	}

	pub fn commit_tx(&mut self, db: &Db, rep: &mut Report, tx: Vec<Op>, invalid_kind: Option<&'static str>) -> R<()> {
		let validity = self.tx_validity(&tx);
		let cols: BTreeSet<u8> = tx.iter().map(|o| o.col()).collect();
		if cols.len() > 1 {
			rep.count("multi_column_tx", 1);
		}
		let expect_err = self.bg_err || matches!(validity, Validity::Invalid(_));
		let shown: Vec<String> = tx.iter().map(|o| o.show()).collect();
		self.log(format!("commit{} [{}]", if expect_err { " (must be rejected)" } else { "" }, shown.join(", ")));
		let snapshot = if expect_err { Some(self.observe(db)) } else { None };
		let dbtx = self.to_db_tx(&tx);
		let res = db.commit_changes(dbtx);
		match (res, expect_err) {
			(Ok(()), false) => {
				self.apply_tx(&tx);
				self.mirror.push_back(tx.clone());
				self.accepted += 1;
				self.commits_since_iter_call += 1;
				rep.count("commits_accepted", 1);
				if self.profile == Profile::C08 {
					self.accepted_models.push((self.model.clone(), self.trees.clone()));
				}
				for op in &tx {
					match op {
						Op::InsertTree(_, _, spec) => {
							rep.count("trees_inserted", 1);
							rep.max("tree_fanout", spec.max_fanout() as u64);
							rep.max("tree_new_nodes", spec.count_new() as u64);
						},
						Op::DerefTree(c, k) => {
							rep.count("trees_dereferenced", 1);
							if !self.trees.get(c).map_or(false, |t| t.roots.contains_key(k)) {
								rep.count("trees_removed", 1);
							}
						},
						_ => {},
					}
				}
				Ok(())
			},
			(Err(e), false) => fail(
				"failure=valid_commit_rejected",
				format!("a valid transaction was rejected: {}", e),
			),
			(Ok(()), true) => {
				let why = match validity {
					Validity::Invalid(s) => s,
					_ => "database is in background-error state".to_string(),
				};
				fail(
					format!("failure=invalid_commit_accepted;kind={}", invalid_kind.unwrap_or("generated")),
					format!("commit returned Ok for a transaction that must be rejected ({})", why),
				)
			},
			(Err(_e), true) => {
				rep.count("rejected_commits", 1);
				let kind = invalid_kind.unwrap_or(if self.bg_err { "background_error" } else { "generated" });
				if rep.get(&format!("rejected_kind_{}", kind)) == 0 {
					rep.count("rejected_kinds", 1);
				}
				rep.count(&format!("rejected_kind_{}", kind), 1);
				// C08: nothing may have changed
				let after = self.observe(db);
				if let Some(d) = diff_obs(snapshot.as_ref().unwrap(), &after) {
					return fail(
						format!("failure=rejected_commit_left_trace;kind={}", kind),
						format!("observable state changed across a rejected commit: {}", d),
					)
				}
				rep.evaluations += after.len() as u64;
				Ok(())
			},
		}
	}

	/// Insert one invalid operation at a random position; returns its kind.
	fn make_invalid(&mut self, tx: &mut Vec<Op>, forced_kind: Option<u64>) -> Option<&'static str> {
		let cols = self.cfg.cols.clone();
		let pick_col = |rng: &mut Rng, f: &dyn Fn(&parity_db::ColumnOptions) -> bool| -> Option<u8> {
			let v: Vec<u8> = cols.iter().enumerate().filter(|(_, c)| f(c)).map(|(i, _)| i as u8).collect();
			if v.is_empty() {
				None
			} else {
				Some(*rng.pick(&v))
			}
		};
		let kind = forced_kind.unwrap_or_else(|| self.rng.below(8));
		let (op, name): (Op, &'static str) = match kind {
			0 => {
				let c = pick_col(&mut self.rng, &|c| !c.multitree && !c.ref_counted && !c.btree_index)?;
				let k = self.rng.pick(&self.pools[c as usize]).clone();
				(Op::Ref(c, k), "reference_on_plain_hash")
			},
			1 => {
				let c = pick_col(&mut self.rng, &|c| !c.multitree && !c.ref_counted && c.btree_index)?;
				let k = self.rng.pick(&self.pools[c as usize]).clone();
				(Op::Ref(c, k), "reference_on_plain_btree")
			},
			2 => {
				let c = pick_col(&mut self.rng, &|c| !c.multitree)?;
				let k = self.rng.pick(&self.pools[c as usize]).clone();
				let op = match self.rng.below(3) {
					0 => Op::InsertTree(c, k, TreeSpec::leaf(vec![1, 2, 3])),
					1 => Op::RefTree(c, k),
					_ => Op::DerefTree(c, k),
				};
				(op, "tree_op_on_plain_column")
			},
			3 => {
				let c = pick_col(&mut self.rng, &|c| c.multitree)?;
				let k = self.rng.pick(&self.pools[c as usize]).clone();
				let op = match self.rng.below(3) {
					0 => Op::Set(c, k, vec![7; 9]),
					1 => Op::Ref(c, k),
					_ => Op::Deref(c, k),
				};
				(op, "plain_op_on_tree_column")
			},
			4 => {
				let c = pick_col(&mut self.rng, &|c| c.multitree)?;
				let tm = self.trees.get(&c).unwrap();
				// a root that is definitely absent: a key outside the pool
				let mut k = self.rng.bytes(12);
				k.extend_from_slice(b"-never-a-root");
				let _ = tm;
				(Op::DerefTree(c, k), if self.cfg.cols[c as usize].append_only { "deref_tree_append_only" } else { "deref_missing_root" })
			},
			5 => {
				let c = pick_col(&mut self.rng, &|c| c.multitree)?;
				let tm = self.trees.get(&c).unwrap();
				let free: Vec<Vec<u8>> = self.pools[c as usize].iter().filter(|k| !tm.roots.contains_key(*k)).cloned().collect();
				if free.is_empty() {
					return None
				}
				let k = self.rng.pick(&free).clone();
				let n = *self.rng.pick(&[256usize, 257, 300, 511, 512]);
				self.tree_nonce += 1;
				let nonce = self.tree_nonce;
				let wide = TreeSpec {
					data: nonce.to_le_bytes().to_vec(),
					children: (0..n).map(|i| ChildSpec::New(TreeSpec::leaf(vec![(i % 251) as u8; 3]))).collect(),
				};
				// the too-wide node sits at the root or anywhere below it: wrapped 0-3 times into a
				// parent that holds it at the first, a middle or the last position among other new
				// (and existing) children
				let existing: Vec<u64> = tm.addressable();
				let mut spec = wide;
				for _ in 0..self.rng.below(4) {
					let sibs = self.rng.range(0, 4) as usize;
					let at = self.rng.usize(sibs + 1);
					let mut children = vec![];
					for i in 0..=sibs {
						if i == at {
							children.push(ChildSpec::New(spec.clone()));
						} else if !existing.is_empty() && self.rng.chance(1, 3) {
							children.push(ChildSpec::Existing(*self.rng.pick(&existing)));
						} else {
							self.tree_nonce += 1;
							let mut leaf = TreeSpec::leaf(self.tree_nonce.to_le_bytes().to_vec());
							if self.rng.chance(1, 3) {
								self.tree_nonce += 1;
								leaf.children.push(ChildSpec::New(TreeSpec::leaf(self.tree_nonce.to_le_bytes().to_vec())));
							}
							children.push(ChildSpec::New(leaf));
						}
					}
					self.tree_nonce += 1;
					spec = TreeSpec { data: self.tree_nonce.to_le_bytes().to_vec(), children };
				}
				(Op::InsertTree(c, k, spec), "unrepresentable_fanout")
			},
			7 => {
				// reference of a tree in a column whose roots are not counted
				let c = pick_col(&mut self.rng, &|c| c.multitree && !c.append_only && !c.ref_counted)?;
				let tm = self.trees.get(&c).unwrap();
				let k = match tm.roots.keys().next() {
					Some(k) if self.rng.chance(2, 3) => k.clone(),
					_ => self.rng.pick(&self.pools[c as usize]).clone(),
				};
				(Op::RefTree(c, k), "reference_tree_without_root_counting")
			},
			_ => {
				let c = pick_col(&mut self.rng, &|c| c.multitree && c.append_only)?;
				let tm = self.trees.get(&c).unwrap();
				let live: Vec<Vec<u8>> = tm.roots.keys().cloned().collect();
				if live.is_empty() {
					return None
				}
				(Op::DerefTree(c, self.rng.pick(&live).clone()), "deref_tree_append_only")
			},
		};
		// the invalid operation must not be preceded by a tree operation on the same root
		let pos = self.rng.usize(tx.len() + 1);
		tx.insert(pos, op);
		self.dedup_tree_ops(tx);
		Some(name)
	}

	// ------------------------------------------------------------------ special actions (C08 / C11)

	fn special(&mut self, db: &Db, rep: &mut Report, guards: &mut Vec<(u8, Vec<u8>, Box<dyn std::any::Any>)>) -> R<()> {
		match self.profile {
			Profile::C08 => {
				if !self.bg_err && self.accepted > 3 && self.rng.chance(1, 6) {
					self.log("inject background error state (verif_store_err)".into());
					db.verif_store_err(parity_db::Error::InvalidInput("injected by the monitor".into()));
					self.bg_err = true;
					rep.count("bg_error_injected", 1);
				}
				Ok(())
			},
			Profile::C11 => self.c11_action(db, rep, guards),
			_ if self.tree_guards => self.c11_action(db, rep, guards),
			_ => Ok(()),
		}
	}

	fn c11_action(&mut self, db: &Db, rep: &mut Report, guards: &mut Vec<(u8, Vec<u8>, Box<dyn std::any::Any>)>) -> R<()> {
		let c = 0u8;
		let tm = self.trees.get(&c).unwrap().clone();
		let live: Vec<Vec<u8>> = tm.roots.keys().cloned().collect();
		let r = self.rng.below(10);
		if !guards.is_empty() && r < 3 {
			let i = self.rng.usize(guards.len());
			let g = guards.remove(i);
			self.log(format!("release tree guard on {}", short_bytes(&g.1)));
			drop(g);
			return Ok(())
		}
		if live.is_empty() {
			return Ok(())
		}
		// scripted sub-scenario: a tree is inserted UNDER THE LOCK of a tree whose dereference(s)
		// are still queued, re-using one of its nodes; guard and handle are then given up before
		// the log worker gets to the (last) dereference. The insertion must keep the shared node.
		if self.rng.chance(1, 8) && guards.is_empty() && self.mirror.is_empty() && self.handles.is_empty() {
			let cand: Vec<Vec<u8>> = live.iter().filter(|k| tm.reachable(k).iter().any(|id| tm.addr_of(*id).is_some())).cloned().collect();
			let free: Vec<Vec<u8>> = self.pools[c as usize].iter().filter(|k| !tm.roots.contains_key(*k)).cloned().collect();
			if cand.is_empty() || free.is_empty() {
				return Ok(())
			}
			let k = self.rng.pick(&cand).clone();
			let shared_ids: Vec<u64> = tm.reachable(&k).into_iter().filter(|id| tm.addr_of(*id).is_some()).collect();
			let shared = *self.rng.pick(&shared_ids);
			let u = self.rng.pick(&free).clone();
			let several = tm.rc_roots && self.rng.chance(2, 3);
			self.log(format!("scenario: insert under the lock of tree {} ({} dereference(s) queued)", short_bytes(&k), if several { "several" } else { "one" }));
			if several {
				// raise the count above one first
				let extra = self.rng.range(1, 2);
				for _ in 0..extra {
					self.commit_tx(db, rep, vec![Op::RefTree(c, k.clone())], None)?;
				}
				let mut bound = 0;
				while db.verif_status().queued_commits > 0 && bound < 100 {
					self.pipeline(db, rep, Step::ProcessCommits)?;
					bound += 1;
				}
			}
			// as many dereferences as the tree has references; all but the last one are processed.
			// The last one is the removal that the lock postpones: the property lets a tree that is
			// inserted under the lock re-use the nodes ("trees inserted meanwhile that reuse its
			// nodes stay valid"), i.e. its effect comes AFTER that insertion - the model applies it
			// there (and nothing is compared in between).
			let count = self.trees.get(&c).unwrap().roots.get(&k).map_or(1, |r| r.count).max(1);
			self.validate(db, rep, false)?;
			// the client obtains its reader handle first, then every dereference is committed (all
			// of them sit in the queue together), then the worker processes all but the last one
			let handle = match db.get_tree(c, &k) {
				Ok(Some(t)) => t,
				_ => return fail("failure=tree_unreadable", format!("get_tree returned nothing for live root {}", short_bytes(&k))),
			};
			for _ in 0..count - 1 {
				self.commit_tx(db, rep, vec![Op::DerefTree(c, k.clone())], None)?;
			}
			let last = vec![Op::DerefTree(c, k.clone())];
			self.log(format!("commit [{}] (its effect is expected after the insertion made under the lock)", last[0].show()));
			if let Err(e) = db.commit_changes(self.to_db_tx(&last)) {
				return fail("failure=valid_commit_rejected", format!("a valid transaction was rejected: {}", e))
			}
			self.mirror.push_back(last.clone());
			self.accepted += 1;
			rep.count("commits_accepted", 1);
			for _ in 0..count - 1 {
				self.pipeline(db, rep, Step::ProcessCommits)?;
			}
			if count > 1 {
				rep.count("insert_under_lock_several_derefs_queued", 1);
			}
			let held = Held::new(handle);
			rep.count("guards_taken", 1);
			self.tree_nonce += 1;
			// the re-used node hangs directly below the new root, or one or two new nodes deeper
			let mut shared_child = ChildSpec::Existing(shared);
			let depth = self.rng.below(3);
			for d in 0..depth {
				let mut data = self.tree_nonce.to_le_bytes().to_vec();
				data.push(d as u8);
				let mut children = vec![shared_child];
				if self.rng.chance(1, 2) {
					children.insert(0, ChildSpec::New(TreeSpec::leaf(vec![0xA0 + d as u8; 5])));
				}
				shared_child = ChildSpec::New(TreeSpec { data, children });
			}
			if depth > 0 {
				rep.count("inserts_under_lock_sharing_nested", 1);
			}
			let mut children = vec![shared_child, ChildSpec::New(TreeSpec::leaf(self.tree_nonce.to_be_bytes().to_vec()))];
			if self.rng.chance(1, 2) {
				children.swap(0, 1);
			}
			let spec = TreeSpec { data: self.tree_nonce.to_le_bytes().to_vec(), children };
			self.commit_tx(db, rep, vec![Op::InsertTree(c, u.clone(), spec)], None)?;
			self.apply_tx(&last);
			rep.count("trees_dereferenced", 1);
			rep.count("inserts_under_lock_sharing_nodes", 1);
			rep.count("guard_held_derefs", 1);
			if self.rng.chance(1, 2) {
				// the worker may look at the queue while the lock is still held
				self.pipeline(db, rep, Step::ProcessCommits)?;
				self.validate(db, rep, false)?;
			}
			self.log(format!("scenario: give up guard and handle of tree {}", short_bytes(&k)));
			drop(held);
			let mut bound = 0;
			while db.verif_status().queued_commits > 0 && bound < 100 {
				self.pipeline(db, rep, Step::ProcessCommits)?;
				self.validate(db, rep, false)?;
				bound += 1;
			}
			rep.count("insert_under_lock_scenarios", 1);
			return Ok(())
		}
		// scripted sub-scenario: a reader handle that OUTLIVES a processed dereference of its root
		// key (tree still or again present) and is locked only afterwards, followed by a further
		// dereference under the guard
		if self.rng.chance(1, 12) && guards.len() < 3 {
			let k = self.rng.pick(&live).clone();
			if guards.iter().any(|g| g.1 == k) || self.mirror.iter().flatten().any(|o| o.key() == &k) {
				return Ok(())
			}
			let handle = match db.get_tree(c, &k) {
				Ok(Some(t)) => t,
				_ => return Ok(()),
			};
			self.log(format!("scenario: handle of tree {} obtained, not locked", short_bytes(&k)));
			if tm.rc_roots {
				self.commit_tx(db, rep, vec![Op::RefTree(c, k.clone())], None)?;
				self.commit_tx(db, rep, vec![Op::DerefTree(c, k.clone())], None)?;
			} else {
				// plain column: remove the tree and insert a new tree under the same key
				let root = tm.roots.get(&k).unwrap().clone();
				self.commit_tx(db, rep, vec![Op::DerefTree(c, k.clone())], None)?;
				let mut bound = 0;
				while db.verif_status().queued_commits > 0 && bound < 1000 {
					self.pipeline(db, rep, Step::ProcessCommits)?;
					bound += 1;
				}
				self.tree_nonce += 1;
				let mut data = root.data.clone();
				data.extend_from_slice(&self.tree_nonce.to_le_bytes());
				let spec = TreeSpec { data, children: vec![ChildSpec::New(TreeSpec::leaf(self.tree_nonce.to_le_bytes().to_vec()))] };
				self.commit_tx(db, rep, vec![Op::InsertTree(c, k.clone(), spec)], None)?;
			}
			let mut bound = 0;
			while db.verif_status().queued_commits > 0 && bound < 1000 {
				self.pipeline(db, rep, Step::ProcessCommits)?;
				bound += 1;
			}
			self.validate(db, rep, false)?;
			if self.trees.get(&c).unwrap().roots.contains_key(&k) {
				self.log(format!("scenario: lock the old handle of tree {}", short_bytes(&k)));
				let held = Held::new(handle);
				guards.push((c, k.clone(), Box::new(held)));
				rep.count("guards_taken", 1);
				rep.count("old_handles_locked_after_processed_deref", 1);
				self.commit_tx(db, rep, vec![Op::DerefTree(c, k.clone())], None)?;
				rep.count("guard_held_derefs", 1);
			}
			return Ok(())
		}
		// a reader handle may be obtained long before it is locked: keep some unlocked handles
		// around and lock them later (the registry must still protect the tree then)
		if (r == 3 || (r == 5 && self.handles.is_empty())) && self.handles.len() < 3 {
			let k = self.rng.pick(&live).clone();
			if let Ok(Some(t)) = db.get_tree(c, &k) {
				self.log(format!("obtain (unlocked) reader handle of tree {}", short_bytes(&k)));
				self.handles.push((k, t));
				rep.count("handles_obtained_unlocked", 1);
			}
			return Ok(())
		}
		if (r == 4 || r == 6) && !self.handles.is_empty() && guards.len() < 3 {
			let i = self.rng.usize(self.handles.len());
			let (k, t) = self.handles.remove(i);
			if tm.roots.contains_key(&k) && !guards.iter().any(|g| g.1 == k) {
				self.log(format!("lock the reader handle of tree {} obtained earlier", short_bytes(&k)));
				let held = Held::new(t);
				guards.push((c, k, Box::new(held)));
				rep.count("guards_taken", 1);
				rep.count("old_handles_locked", 1);
			}
			return Ok(())
		}
		if r < 7 && guards.len() < 3 {
			// take a guard on a live tree
			let k = self.rng.pick(&live).clone();
			if guards.iter().any(|g| g.1 == k) {
				return Ok(())
			}
			let t = match db.get_tree(c, &k) {
				Ok(Some(t)) => t,
				Ok(None) => return fail("failure=tree_unreadable", format!("get_tree returned None for live root {}", short_bytes(&k))),
				Err(e) => return fail("failure=tree_unreadable", format!("get_tree error {}", e)),
			};
			self.log(format!("take read guard on tree {}", short_bytes(&k)));
			// Keep the Arc alive together with its read guard. The guard borrows the Arc's
			// content, which lives on the heap for as long as the Arc clone inside `Held` lives.
			let held = Held::new(t);
			if self.ctx.verbose {
				eprintln!("    debug: reader locked={} strong={}", held.reader.is_locked(), std::sync::Arc::strong_count(&held.reader));
				let again = db.get_tree(c, &k).unwrap().unwrap();
				eprintln!("    debug: same arc on second get_tree = {}", std::sync::Arc::ptr_eq(&again, &held.reader));
			}
			guards.push((c, k, Box::new(held)));
			rep.count("guards_taken", 1);
			return Ok(())
		}
		// dereference a guarded tree (or any), possibly with writes to the second column
		let k = if !guards.is_empty() && self.rng.chance(3, 4) { guards[self.rng.usize(guards.len())].1.clone() } else { self.rng.pick(&live).clone() };
		if !tm.roots.contains_key(&k) {
			return Ok(())
		}
		let mut tx = vec![Op::DerefTree(c, k.clone())];
		if self.cfg.cols.len() > 1 && self.rng.chance(2, 3) {
			if self.f4_probe {
				self.gen_kv_ops(1, 2, &mut tx);
			} else {
				// keys no other transaction ever writes: the outcome is independent of where the
				// postponed transaction ends up in the queue
				for _ in 0..2 {
					self.fresh_key_counter += 1;
					let key = format!("fresh-{}-{}", self.case_seed, self.fresh_key_counter).into_bytes();
					let v = gen::random_value(&mut self.rng, false);
					tx.push(Op::Set(1, key, v));
				}
			}
		}
		if self.profile == Profile::C11 && !self.f4_probe && self.rng.chance(1, 3) {
			// the same transaction also inserts a tree (new nodes only) under a root key nothing
			// else touches: when the transaction is postponed, the new tree must stay readable
			let free: Vec<Vec<u8>> = self.pools[c as usize]
				.iter()
				.filter(|u| **u != k && !tm.roots.contains_key(*u) && !guards.iter().any(|g| &g.1 == *u) && !self.handles.iter().any(|h| &h.0 == *u) && !self.mirror.iter().flatten().any(|o| o.col() == c && o.key() == *u))
				.cloned()
				.collect();
			if !free.is_empty() {
				let u = self.rng.pick(&free).clone();
				self.tree_nonce += 1;
				let n = self.tree_nonce;
				let mut children = vec![];
				for i in 0..self.rng.range(1, 3) {
					let mut leaf = TreeSpec::leaf(format!("pl{}-{}", n, i).into_bytes());
					if self.rng.chance(1, 3) {
						leaf.children.push(ChildSpec::New(TreeSpec::leaf(format!("pll{}-{}", n, i).into_bytes())));
					}
					children.push(ChildSpec::New(leaf));
				}
				tx.insert(0, Op::InsertTree(c, u, TreeSpec { data: n.to_le_bytes().to_vec(), children }));
				rep.count("deref_with_insert_in_one_transaction", 1);
			}
		}
		if guards.iter().any(|g| g.1 == k) {
			rep.count("guard_held_derefs", 1);
		}
		self.commit_tx(db, rep, tx, None)?;
		// follow with a transaction writing the same second-column keys
		if self.f4_probe && self.cfg.cols.len() > 1 && self.rng.chance(1, 2) {
			let mut tx2 = vec![];
			self.gen_kv_ops(1, 2, &mut tx2);
			self.commit_tx(db, rep, tx2, None)?;
		}
		Ok(())
	}

	/// While guards are held, the guarded trees must stay fully readable and unchanged - even
	/// when the model already removed them (their removal is postponed).
	fn guard_reads(&mut self, _db: &Db, rep: &mut Report, guards: &[(u8, Vec<u8>, Box<dyn std::any::Any>)]) -> R<()> {
		for (_c, k, held) in guards {
			let held = held.downcast_ref::<Held>().unwrap();
			let snap = &held.snapshot;
			let now = held.read_all();
			rep.count("guard_reads", 1);
			rep.evaluations += 1;
			match (snap, &now) {
				(Ok(a), Ok(b)) if a == b => {},
				(Ok(_), Ok(_)) if self.tainted.contains(&(*_c, k.clone())) || self.mirror.iter().flatten().any(|o| matches!(o, Op::InsertTree(..)) && o.key() == k) => {
					return fail(
						"failure=deferred_commit_reordered_writes;what=locked_tree_root_replaced",
						format!("tree {}: its root key was inserted again while its removal is postponed; the guard holder sees the new root", short_bytes(k)),
					)
				},
				(Ok(_), Ok(_)) => {
					return fail(
						"failure=locked_tree_changed",
						format!("tree {} changed while its read guard was held", short_bytes(k)),
					)
				},
				(Ok(_), Err(e)) => {
					return fail(
						"failure=locked_tree_unreadable",
						format!("tree {} became unreadable while its read guard was held: {}", short_bytes(k), e),
					)
				},
				(Err(_), _) => {},
			}
		}
		Ok(())
	}

	// ------------------------------------------------------------------ iterator (C04)

	fn iter_burst<'d>(&mut self, db: &'d Db, rep: &mut Report, iter: &mut Option<BTreeIterator<'d>>) -> R<()> {
		let c = self.iter_col.unwrap();
		if iter.is_none() {
			match db.iter(c) {
				Ok(i) => {
					*iter = Some(i);
					self.iter_positioned = false;
					self.cursor = Cursor::Start;
				},
				Err(e) => return fail("failure=iter_error", format!("Db::iter failed: {}", e)),
			}
		}
		let st = db.verif_status();
		let mix = format!(
			"{}{}{}",
			if st.commit_overlay_entries > 0 { "O" } else { "-" },
			if st.overlay_value_entries > 0 { "L" } else { "-" },
			if st.last_enacted > 1 { "T" } else { "-" }
		);
		let it = iter.as_mut().unwrap();
		let n = self.rng.range(1, 12);
		for _ in 0..n {
			let r = self.rng.below(100);
			let action = if !self.iter_positioned { self.rng.below(3) as u8 } else if r < 12 { 0 } else if r < 17 { 1 } else if r < 22 { 2 } else if r < 64 { 3 } else { 4 };
			if self.commits_since_iter_call > 0 {
				rep.count("iter_after_commit_while_open", 1);
				self.commits_since_iter_call = 0;
			}
			match action {
				0 => {
					// seek: to an existing key, a pool key, or between keys
					let pool = &self.pools[c as usize];
					let mut k = pool[self.rng.usize(pool.len())].clone();
					match self.rng.below(4) {
						0 => k.push(0),
						1 => {
							k.pop();
						},
						_ => {},
					}
					self.trace.push(format!("iter.seek({})", short_bytes(&k)));
					if let Err(e) = it.seek(&k) {
						return fail("failure=iter_error", format!("seek failed: {}", e))
					}
					self.cursor = Cursor::Seeked(k);
					self.iter_positioned = true;
					self.last_dir_fwd = None;
				},
				1 => {
					self.trace.push("iter.seek_to_first()".into());
					if let Err(e) = it.seek_to_first() {
						return fail("failure=iter_error", format!("seek_to_first failed: {}", e))
					}
					self.cursor = Cursor::Seeked(vec![]);
					self.iter_positioned = true;
					self.last_dir_fwd = None;
				},
				2 => {
					self.trace.push("iter.seek_to_last()".into());
					if let Err(e) = it.seek_to_last() {
						return fail("failure=iter_error", format!("seek_to_last failed: {}", e))
					}
					self.cursor = Cursor::End;
					self.iter_positioned = true;
					self.last_dir_fwd = None;
				},
				3 | _ => {
					let fwd = action == 3;
					if let Some(d) = self.last_dir_fwd {
						if d != fwd {
							rep.count("iter_direction_changes", 1);
						}
					}
					self.last_dir_fwd = Some(fwd);
					let before = self.cursor.clone();
					let expect = if fwd { self.cursor.next(&self.model, c) } else { self.cursor.prev(&self.model, c) };
					let got = if fwd { it.next() } else { it.prev() };
					rep.count("iter_calls", 1);
					rep.evaluations += 1;
					rep.seen(format!("iter:{}:{}:{}", before.kind(), if fwd { "next" } else { "prev" }, mix));
					let got = match got {
						Ok(g) => g,
						Err(e) => return fail("failure=iter_error", format!("{} failed: {}", if fwd { "next" } else { "prev" }, e)),
					};
					self.trace.push(format!(
						"iter.{}() at {:?} -> {}",
						if fwd { "next" } else { "prev" },
						cursor_show(&before),
						got.as_ref().map_or("None".to_string(), |(k, v)| format!("({}, {})", short_bytes(k), short_bytes(v)))
					));
					if got != expect {
						let empty_key = matches!(&got, Some((k, _)) if k.is_empty()) || matches!(&expect, Some((k, _)) if k.is_empty());
						return fail(
							format!(
								"failure=iterator_mismatch;cursor={};dir={};empty_key={}",
								before.kind(),
								if fwd { "next" } else { "prev" },
								empty_key
							),
							format!(
								"iterator {} from {:?} returned {} but the ordered model gives {}",
								if fwd { "next" } else { "prev" },
								cursor_show(&before),
								got.as_ref().map_or("None".to_string(), |(k, v)| format!("({}, {})", short_bytes(k), short_bytes(v))),
								expect.as_ref().map_or("None".to_string(), |(k, v)| format!("({}, {})", short_bytes(k), short_bytes(v))),
							),
						)
					}
				},
			}
		}
		Ok(())
	}

	// ------------------------------------------------------------------ oracles

	/// All public observables of every column (used for the C08 before/after comparison).
	fn observe(&self, db: &Db) -> BTreeMap<String, String> {
		let mut m = BTreeMap::new();
		for (ci, c) in self.cfg.cols.iter().enumerate() {
			let ci8 = ci as u8;
			if c.multitree {
				let tm = self.trees.get(&ci8).unwrap();
				for k in &self.pools[ci] {
					let acc = DbTree { db, col: ci8, key: k, direct: false };
					let r = match acc.root() {
						Ok(Some((d, ch))) => format!("root {} children {:?}", short_bytes(&d), ch),
						Ok(None) => "none".to_string(),
						Err(e) => format!("err {}", e),
					};
					m.insert(format!("c{} root {}", ci, short_bytes(k)), r);
				}
				let _ = tm;
				m.insert(format!("c{} entries", ci), format!("{:?}", db.get_num_column_value_entries(ci8).ok()));
			} else {
				for k in self.pools[ci].iter().chain(self.absent[ci].iter()) {
					let v = db.get(ci8, k);
					let s = db.get_size(ci8, k);
					m.insert(
						format!("c{} key {}", ci, short_bytes(k)),
						format!("{:?}/{:?}", v.as_ref().map(|o| o.as_ref().map(|v| short_bytes(v))).map_err(|e| e.to_string()), s.map_err(|e| e.to_string())),
					);
				}
			}
		}
		m
	}

	pub fn validate(&mut self, db: &Db, rep: &mut Report, after_restart: bool) -> R<()> {
		let st = db.verif_status();
		let sh = shape(&st);
		if self.accepted > 0 {
			rep.seen(format!("{}|{}", sh, self.cfg_key));
		}
		if st.queued_commits > 0 {
			rep.count("stage_queued", 1);
		}
		if st.appending.map_or(false, |a| a.1 > 0) {
			rep.count("stage_logged_unflushed", 1);
		}
		if st.read_queue_len > 0 || st.reading.is_some() {
			rep.count("stage_flushed_unenacted", 1);
		}
		if st.dirty_logs > 0 {
			rep.count("stage_enacted_uncleaned", 1);
		}
		if st.queued_commits == 0 && st.appending.map_or(true, |a| a.1 == 0) && st.read_queue_len == 0 && st.reading.is_none() && st.dirty_logs == 0 {
			rep.count("stage_idle", 1);
		}
		let fully_logged = st.queued_commits == 0;
		if self.bg_err && after_restart {
			return self.validate_prefix(db, rep)
		}
		for ci in 0..self.cfg.cols.len() {
			let c = self.cfg.cols[ci].clone();
			if c.multitree {
				self.validate_trees(db, rep, ci as u8, fully_logged, after_restart)?;
			} else {
				self.validate_kv(db, rep, ci as u8, fully_logged || after_restart)?;
			}
		}
		Ok(())
	}

	fn validate_kv(&mut self, db: &Db, rep: &mut Report, c: u8, fully_logged: bool) -> R<()> {
		let o = self.cfg.cols[c as usize].clone();
		let kind = col_kind(&o);
		let rc = o.ref_counted;
		let keys: Vec<Vec<u8>> = self.used[c as usize].iter().chain(self.absent[c as usize].iter()).cloned().collect();
		for k in &keys {
			let expect = self.model.get(c, k).cloned();
			let got = match db.get(c, k) {
				Ok(v) => v,
				Err(e) => return fail(format!("failure=get_error;col={}", kind), format!("get({}) returned error {}", short_bytes(k), e)),
			};
			let size = match db.get_size(c, k) {
				Ok(v) => v,
				Err(e) => return fail(format!("failure=get_error;col={}", kind), format!("get_size({}) returned error {}", short_bytes(k), e)),
			};
			rep.evaluations += 2;
			if rc {
				// C07: count > 0 => readable with its value, always
				if let Some(ev) = &expect {
					if got.as_ref() != Some(ev) {
						return fail(
							format!("failure=rc_live_value_unreadable;col={}", kind),
							format!("key {} has count {} but get returned {}", short_bytes(k), self.model.count(c, k), show_opt(&got)),
						)
					}
				} else if fully_logged {
					rep.count("iff_checks", 1);
					if got.is_some() {
						return fail(
							format!("failure=rc_dead_value_readable;col={}", kind),
							format!("key {} has count 0 and every commit is logged, but get returned {}", short_bytes(k), show_opt(&got)),
						)
					}
				}
				if expect.is_some() {
					rep.count("iff_checks", 1);
				}
				if got.is_some() && size != got.as_ref().map(|v| v.len() as u32) {
					return fail(format!("failure=size_mismatch;col={}", kind), format!("get_size({}) = {:?} but value has {} bytes", short_bytes(k), size, got.as_ref().unwrap().len()))
				}
			} else {
				if got != expect && self.tainted.contains(&(c, k.clone())) {
					return fail(
						"failure=deferred_commit_reordered_writes",
						format!(
							"key {} was written by a transaction whose tree dereference was postponed and by a later transaction that overtook it: get returned {} but applying transactions in commit order gives {}",
							short_bytes(k),
							show_opt(&got),
							show_opt(&expect)
						),
					)
				}
				if got != expect {
					let stale = got.is_some() && expect.is_some();
					return fail(
						format!("failure=read_mismatch;col={};got={};expected={}", kind, if got.is_some() { "some" } else { "none" }, if expect.is_some() { "some" } else { "none" }),
						format!(
							"get({}) returned {} but the most recent committed write is {}{}",
							short_bytes(k),
							show_opt(&got),
							show_opt(&expect),
							if stale { " (a different value)" } else { "" }
						),
					)
				}
				if size != expect.as_ref().map(|v| v.len() as u32) {
					return fail(
						format!("failure=size_mismatch;col={}", kind),
						format!("get_size({}) = {:?}, expected {:?}", short_bytes(k), size, expect.as_ref().map(|v| v.len())),
					)
				}
			}
			if self.profile == Profile::C09 && c == 0 {
				if let Some(i) = self.pools[0].iter().position(|p| p == k) {
					if self.groups.get(i).copied().unwrap_or(usize::MAX) != usize::MAX {
						rep.count("collision_group_reads", 1);
					}
				}
			}
		}
		rep.count("rc_zero_crossings", std::mem::take(&mut self.zero_crossings));
		Ok(())
	}

	fn validate_trees(&mut self, db: &Db, rep: &mut Report, c: u8, fully_logged: bool, after_restart: bool) -> R<()> {
		let o = self.cfg.cols[c as usize].clone();
		let kind = col_kind(&o);
		let direct_ok = o.append_only || o.allow_direct_node_access;
		let roots: Vec<Vec<u8>> = self.trees.get(&c).unwrap().roots.keys().cloned().collect();
		for k in &roots {
			let direct = direct_ok && self.rng.chance(1, 2);
			let acc = DbTree { db, col: c, key: k, direct };
			let tm = self.trees.get_mut(&c).unwrap();
			match tm.check_tree(k, &acc) {
				Ok(ws) => {
					rep.evaluations += ws.nodes_checked + 1;
					rep.count("tree_nodes_checked", ws.nodes_checked);
					rep.count("shared_node_refs", ws.shared_hits);
					rep.max("tree_depth", ws.max_depth);
				},
				Err(e) if self.tainted.contains(&(c, k.clone())) => {
					return fail(
						"failure=deferred_commit_reordered_writes;what=tree_root",
						format!("tree {} was dereferenced by a postponed transaction and touched by a transaction that overtook it: {}", short_bytes(k), e),
					)
				},
				Err(e) => {
					// which live roots reach the node the message names (diagnosis aid)
					let mut who = String::new();
					let mut tainted_owner: Option<Vec<u8>> = None;
					if let Some(id) = e.split("live node ").nth(1).and_then(|x| x.split(' ').next()).and_then(|x| x.parse::<u64>().ok()) {
						let mut owners = vec![];
						for (rk, r) in &tm.roots {
							let mut stack: Vec<u64> = r.children.clone();
							let mut seen = BTreeSet::new();
							while let Some(n) = stack.pop() {
								if !seen.insert(n) {
									continue
								}
								if n == id {
									owners.push(short_bytes(rk));
									if self.tainted.contains(&(c, rk.clone())) {
										tainted_owner = Some(rk.clone());
									}
									break
								}
								if let Some(m) = tm.nodes.get(&n) {
									stack.extend(m.children.iter().copied());
								}
							}
						}
						who = format!(" [model: node {} has {} parent reference(s), reachable from live root(s) {:?}]", id, tm.nodes.get(&id).map_or(0, |n| n.refs), owners);
					}
					if let Some(o) = tainted_owner {
						// the lost node also belongs to a tree whose root a postponed transaction and a
						// transaction that overtook it both touched (F4): e.g. [InsertTree(r), ..]
						// postponed behind ReferenceTree(r) - the reference is ignored (no such root
						// yet), the tree ends with one count less than in commit order, a later
						// dereference removes it, and trees that share its nodes lose them
						return fail(
							"failure=deferred_commit_reordered_writes;what=shared_node_of_reordered_tree",
							format!("tree {} lost a node it shares with tree {}, whose root was written by a postponed transaction and by a transaction that overtook it: {}{}", short_bytes(k), short_bytes(&o), e, who),
						)
					}
					return fail(
						format!("failure=tree_mismatch;col={}", kind),
						format!("tree {} does not read back as committed ({}): {}{}", short_bytes(k), if direct { "direct access" } else { "tree reader" }, e, who),
					)
				},
			}
		}
		// dead roots must be gone once everything is logged
		if fully_logged || after_restart {
			let tm = self.trees.get(&c).unwrap();
			for k in &self.pools[c as usize] {
				if !tm.roots.contains_key(k) {
					rep.evaluations += 1;
					match db.get_tree(c, k) {
						Ok(None) => {},
						Ok(Some(t)) => {
							let g = t.read();
							if let Ok(Some(_)) = g.get_root() {
								if self.tainted.contains(&(c, k.clone())) {
									return fail(
										"failure=deferred_commit_reordered_writes;what=tree_root",
										format!("root {} was dereferenced by a postponed transaction and touched by a transaction that overtook it; it is still readable", short_bytes(k)),
									)
								}
								return fail(
									format!("failure=dead_tree_readable;col={}", kind),
									format!("root {} has no references left and every commit is logged, but it is still readable", short_bytes(k)),
								)
							}
						},
						Err(e) => return fail(format!("failure=get_error;col={}", kind), format!("get_tree error {}", e)),
					}
				}
			}
		}
		Ok(())
	}

	/// After a restart in background-error state: the state must be that of some prefix of the
	/// accepted transactions (none of the rejected ones may show).
	fn validate_prefix(&mut self, db: &Db, rep: &mut Report) -> R<()> {
		let n = self.accepted_models.len();
		let mut first_err = None;
		for m in (0..=n).rev() {
			let (model, trees) = if m == 0 { (Model::new(&self.cfg.cols), self.fresh_trees()) } else { self.accepted_models[m - 1].clone() };
			let save = (std::mem::replace(&mut self.model, model), std::mem::replace(&mut self.trees, trees));
			let was = std::mem::replace(&mut self.bg_err, false);
			let mut scratch = Report::default();
			let r = self.validate_state_only(db, &mut scratch);
			self.bg_err = was;
			match r {
				Ok(()) => {
					rep.evaluations += scratch.evaluations;
					rep.count("prefix_matches", 1);
					self.log(format!("state after error-state restart equals prefix {} of {}", m, n));
					// continue the history from that prefix
					self.ended = true;
					if m < n {
						self.entry_counts_unreliable = true;
						rep.count("error_restart_lost_commits", (n - m) as u64);
					}
					self.accepted_models.truncate(m);
					self.bg_err = false;
					return Ok(())
				},
				Err(f) => {
					if first_err.is_none() {
						first_err = Some(f);
					}
					self.model = save.0;
					self.trees = save.1;
				},
			}
		}
		let f = first_err.unwrap();
		fail(
			"failure=non_prefix_state_after_error_restart",
			format!("state after restart matches no prefix of the accepted transactions; against the full model: {}", f.detail),
		)
	}

	fn col_tainted(&self, c: u8) -> bool {
		self.tainted.iter().any(|(tc, _)| *tc == c)
	}

	fn fresh_trees(&self) -> BTreeMap<u8, TreeModel> {
		self.cfg.cols.iter().enumerate().filter(|(_, c)| c.multitree).map(|(i, c)| (i as u8, TreeModel::new(c.append_only, c.ref_counted))).collect()
	}

	fn validate_state_only(&mut self, db: &Db, rep: &mut Report) -> R<()> {
		for ci in 0..self.cfg.cols.len() {
			if self.cfg.cols[ci].multitree {
				self.validate_trees(db, rep, ci as u8, true, true)?;
			} else {
				self.validate_kv(db, rep, ci as u8, true)?;
			}
		}
		Ok(())
	}

	/// Checks that need a drained pipeline: iteration multisets, entry counts, fsck.
	pub fn quiescent_checks(&mut self, db: &Db, rep: &mut Report) -> R<()> {
		for ci in 0..self.cfg.cols.len() {
			let c = self.cfg.cols[ci].clone();
			let kind = col_kind(&c);
			let ci8 = ci as u8;
			if c.multitree {
				let tm = self.trees.get(&ci8).unwrap();
				let expect = tm.live_entries() as u64;
				match db.get_num_column_value_entries(ci8) {
					Ok(_) if self.entry_counts_unreliable => {},
					Ok(n) => {
						rep.count("entry_count_checks", 1);
						rep.evaluations += 1;
						if n != expect && self.col_tainted(ci8) {
							return fail(
								"failure=deferred_commit_reordered_writes;what=entry_count",
								format!("column holds {} value entries, model has {}; a postponed tree dereference was overtaken by a transaction on the same root", n, expect),
							)
						}
						if n != expect {
							return fail(
								format!("failure=entry_count_mismatch;col={};dir={}", kind, if n > expect { "leak" } else { "loss" }),
								format!("column holds {} value entries, model has {} live nodes + {} live roots", n, tm.live_nodes(), tm.roots.len()),
							)
						}
						if expect == 0 && self.accepted > 0 {
							rep.count("all_trees_removed_zero_entries", 1);
						}
					},
					Err(_) => {
						// multipart entries present: the library cannot count (documented TODO); fsck covers it
						rep.count("entry_count_unavailable_multipart", 1);
					},
				}
			} else if !c.btree_index {
				// iter_column_while: exactly the live values (with counts)
				let mut got: Vec<(Vec<u8>, u32)> = vec![];
				if let Err(e) = db.iter_column_while(ci8, |s| {
					got.push((s.value, s.rc));
					true
				}) {
					return fail(format!("failure=iter_values_error;col={}", kind), format!("{}", e))
				}
				got.sort();
				let mut expect: Vec<(Vec<u8>, u32)> = self
					.model
					.keys(ci8)
					.iter()
					.map(|k| (self.model.get(ci8, k).unwrap().clone(), if c.ref_counted { self.model.count(ci8, k) as u32 } else { 0 }))
					.collect();
				expect.sort();
				if !c.ref_counted {
					for g in got.iter_mut() {
						g.1 = 0;
					}
				}
				rep.evaluations += expect.len() as u64 + 1;
				if c.ref_counted {
					rep.count("rc_iter_checks", 1);
				}
				rep.count("value_iteration_checks", 1);
				if got != expect && self.col_tainted(ci8) {
					return fail(
						"failure=deferred_commit_reordered_writes;what=value_iteration",
						"value iteration differs from the model in a column where a postponed transaction was overtaken by a writer of the same key".to_string(),
					)
				}
				if got != expect {
					let missing = expect.iter().filter(|e| !got.contains(e)).count();
					let extra = got.iter().filter(|g| !expect.contains(g)).count();
					return fail(
						format!("failure=value_iteration_mismatch;col={}", kind),
						format!(
							"iter_column_while yields {} values, model has {} live values ({} missing, {} unexpected{})",
							got.len(),
							expect.len(),
							missing,
							extra,
							if c.ref_counted { ", counts included" } else { "" }
						),
					)
				}
			}
		}
		self.fsck(db, rep)
	}

	fn fsck(&mut self, db: &Db, rep: &mut Report) -> R<()> {
		crate::sweep::fsck_db(self, db, rep)
	}
}

/// A tree reader Arc together with a read guard on it, plus the content seen when the guard
/// was taken.
pub struct Held {
	// order matters: guard must drop before the Arc
	guard: Option<parking_lot::RwLockReadGuard<'static, Box<dyn parity_db::TreeReader + Send + Sync>>>,
	reader: std::sync::Arc<LockOf>,
	pub snapshot: Result<Vec<(u64, Vec<u8>, Vec<u64>)>, String>,
}

// parking_lot is a dependency of parity-db; the harness names the lock type through it.
pub type LockOf = parking_lot::RwLock<Box<dyn parity_db::TreeReader + Send + Sync>>;

impl Held {
	pub fn new(reader: std::sync::Arc<LockOf>) -> Held {
		// SAFETY of the lifetime extension: the guard borrows the RwLock that lives inside the
		// Arc allocation; `reader` (a clone of that Arc) is stored in the same struct and is
		// dropped after the guard (field order + explicit Drop below).
		let guard = reader.read();
		let guard: parking_lot::RwLockReadGuard<'static, Box<dyn parity_db::TreeReader + Send + Sync>> = unsafe { std::mem::transmute(guard) };
		let mut h = Held { guard: Some(guard), reader, snapshot: Ok(vec![]) };
		h.snapshot = h.read_all();
		h
	}
	fn g(&self) -> &parking_lot::RwLockReadGuard<'static, Box<dyn parity_db::TreeReader + Send + Sync>> {
		self.guard.as_ref().unwrap()
	}
	/// Full traversal through the held guard: (address, data, children) in pre-order; address 0 = root.
	pub fn read_all(&self) -> Result<Vec<(u64, Vec<u8>, Vec<u64>)>, String> {
		let g = self.g();
		let mut out = vec![];
		let root = g.get_root().map_err(|e| format!("get_root: {}", e))?.ok_or_else(|| "root not readable".to_string())?;
		let mut stack: Vec<u64> = root.1.iter().rev().copied().collect();
		out.push((0, root.0, root.1));
		let mut seen = BTreeSet::new();
		while let Some(a) = stack.pop() {
			if !seen.insert(a) {
				continue
			}
			let n = g.get_node(a).map_err(|e| format!("get_node({:#x}): {}", a, e))?.ok_or_else(|| format!("node {:#x} not readable", a))?;
			for c in n.1.iter().rev() {
				stack.push(*c);
			}
			out.push((a, n.0, n.1));
			if out.len() > 20_000 {
				break
			}
		}
		Ok(out)
	}
}

impl Drop for Held {
	fn drop(&mut self) {
		self.guard.take();
		let _ = &self.reader;
	}
}

fn show_opt(v: &Option<Vec<u8>>) -> String {
	match v {
		Some(v) => short_bytes(v),
		None => "nothing".to_string(),
	}
}

fn cursor_show(c: &Cursor) -> String {
	match c {
		Cursor::Start => "Start".into(),
		Cursor::End => "End".into(),
		Cursor::Seeked(k) => format!("Seeked({})", short_bytes(k)),
		Cursor::At(k) => format!("At({})", short_bytes(k)),
	}
}

fn diff_obs(a: &BTreeMap<String, String>, b: &BTreeMap<String, String>) -> Option<String> {
	for (k, v) in a {
		match b.get(k) {
			Some(w) if w == v => {},
			other => return Some(format!("{}: before {} after {:?}", k, v, other)),
		}
	}
	None
}

/// Adversarial uniform keys for the zero-salt identity hash (C09): a hot 16-bit page holding far
/// more than 64 keys that stay together until ~19 index bits, groups equal on the first 50 bits,
/// and background keys. Every key has a unique random tail (bytes 8..32).
pub fn adversarial_pool(rng: &mut Rng, n: usize, strong: bool) -> (Vec<Vec<u8>>, Vec<usize>) {
	let hot: u64 = rng.below(1 << 16);
	let stay_bits = if strong { *rng.pick(&[17u32, 18, 18, 19]) } else { 16 };
	let stay: u64 = rng.below(1 << (stay_bits - 16));
	let mut keys: Vec<Vec<u8>> = vec![];
	let mut groups: Vec<usize> = vec![];
	let mut group_prefixes: Vec<(u64, usize)> = vec![];
	{
		// a near-miss quartet at the front of the pool: equal on the first 48 bits, bits 48/49
		// take all four values (in random order)
		let rest = rng.next() >> stay_bits;
		let base = ((hot << 48) | (stay << (64 - stay_bits)) | (rest & ((1u64 << (64 - stay_bits)) - 1))) & !0xffffu64;
		let mut low2: Vec<u64> = vec![0, 1, 2, 3];
		rng.shuffle(&mut low2);
		for b in low2 {
			let prefix = base | (b << 14) | rng.below(1 << 14);
			let mut k = prefix.to_be_bytes().to_vec();
			k.extend_from_slice(&rng.bytes(24));
			keys.push(k);
			groups.push(usize::MAX);
		}
	}
	while keys.len() < n {
		let r = rng.below(10);
		let (prefix, g) = if r < 6 || !strong {
			// hot page: top `stay_bits` bits fixed, the rest random
			let rest = rng.next() >> stay_bits;
			let p = (hot << 48) | (stay << (64 - stay_bits)) | (rest & ((1u64 << (64 - stay_bits)) - 1));
			if strong || r < 8 { (p, usize::MAX) } else { (rng.next(), usize::MAX) }
		} else if r < 9 {
			// member of a group equal on the first 50 bits
			let gi = if group_prefixes.is_empty() || (group_prefixes.len() < 6 && rng.chance(1, 3)) {
				let rest = rng.next() >> stay_bits;
				let p = (hot << 48) | (stay << (64 - stay_bits)) | (rest & ((1u64 << (64 - stay_bits)) - 1));
				group_prefixes.push((p >> 14, 0));
				group_prefixes.len() - 1
			} else {
				rng.usize(group_prefixes.len())
			};
			if group_prefixes[gi].1 >= 8 {
				continue
			}
			group_prefixes[gi].1 += 1;
			// one member in three is a NEAR miss of its group: equal on bits 0..48 (all the
			// vectorised search compares while the index has 16 bits), different in bits 48/49
			let near = if rng.chance(1, 3) { rng.range(1, 3) << 14 } else { 0 };
			(((group_prefixes[gi].0 << 14) ^ near) | rng.below(1 << 14), gi)
		} else {
			(rng.next(), usize::MAX)
		};
		let mut k = prefix.to_be_bytes().to_vec();
		k.extend_from_slice(&rng.bytes(24));
		if !keys.iter().any(|x| x[..8] == k[..8]) {
			keys.push(k);
			groups.push(g);
		}
	}
	(keys, groups)
}

// ------------------------------------------------------------------------------------------
// reads from inside pipeline steps

struct MidCtx {
	hist: *mut (),
	db: *const Db,
	rep: *mut Report,
	budget: u32,
	skip: u32,
	failure: Option<(u32, Fail)>,
	reads: u32,
}

thread_local! {
	static MID: std::cell::RefCell<Option<MidCtx>> = const { std::cell::RefCell::new(None) };
}

fn mid_hook(site: u32) {
	// sites inside `commit` (1, 16), the wait/signal pair (13, 14) and the site that holds the
	// commit-queue lock (9) are not read points
	// (17 is the reader-side site: reached by the reads this very hook makes)
	if matches!(site, 1 | 9 | 13 | 14 | 16) || site >= 17 {
		return
	}
	let (hist, db, rep) = match MID.with(|m| {
		let mut g = m.borrow_mut();
		match g.as_mut() {
			Some(c) if c.failure.is_none() && c.budget > 0 => {
				if c.skip > 0 {
					c.skip -= 1;
					return None
				}
				c.budget -= 1;
				c.reads += 1;
				Some((c.hist, c.db, c.rep))
			},
			_ => None,
		}
	}) {
		Some(x) => x,
		None => return,
	};
	// SAFETY: the pointers were made from the `&mut Hist`, `&Db` and `&mut Report` of the
	// enclosing `step_with_midstep_reads` call on this thread, which does not touch them while
	// the library call is running.
	let hist: &mut Hist = unsafe { &mut *(hist as *mut Hist) };
	let db: &Db = unsafe { &*db };
	let rep: &mut Report = unsafe { &mut *rep };
	let mut res = Ok(());
	for ci in 0..hist.cfg.cols.len() {
		if hist.cfg.cols[ci].multitree {
			continue
		}
		res = hist.validate_kv(db, rep, ci as u8, false);
		if res.is_err() {
			break
		}
	}
	if let Err(f) = res {
		MID.with(|m| {
			if let Some(c) = m.borrow_mut().as_mut() {
				c.failure = Some((site, f));
			}
		});
	}
}
